#!/bin/bash
# Offline setup after a fresh restore: regenerate the fact files, build the Lean project
# (model, theorems, driver executable) and warm the Go build cache for extractor and harness.
set -e
cd "$(dirname "$0")"
export GOFLAGS=-mod=mod GOPROXY=off GOSUMDB=off GOTOOLCHAIN=local CGO_ENABLED=0
REPO="${VERIF_REPO:-/repo}"
mkdir -p .cache evidence replays
# the Go module cache: where the modules of /repo's go.sum actually are (a restored sandbox may run
# with another HOME / GOPATH than the one the cache was filled under)
if [ ! -d "$(go env GOMODCACHE)/github.com/notaryproject" ]; then
  for c in /root/go/pkg/mod "$HOME/go/pkg/mod" /go/pkg/mod; do
    if [ -d "$c/github.com/notaryproject" ]; then export GOMODCACHE="$c"; break; fi
  done
fi
(cd extract && go run . -repo "$REPO" -out ../lean/NotationModel/Generated)
props=""; for f in lean/NotationModel/Props/C*.lean; do props="$props NotationModel.Props.$(basename $f .lean)"; done
(cd lean && lake build driver NotationModel $props 2>&1 | tail -5; exit ${PIPESTATUS[0]})
tmp=$(mktemp -d)
sed "s#^replace github.com/notaryproject/notation-go => .*#replace github.com/notaryproject/notation-go => $REPO#" harness/go.mod > "$tmp/go.mod"
cp "$REPO/go.sum" "$tmp/go.sum"
(cd harness && go build -tags verif -modfile "$tmp/go.mod" -o "$tmp/harness" . )
rm -rf "$tmp"
echo setup done

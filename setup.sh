#!/bin/bash
# Offline setup after a fresh restore: regenerate the fact files, build the Lean project
# (model, theorems, driver executable) and warm the Go build cache for extractor and harness.
set -e
cd "$(dirname "$0")"
export GOFLAGS=-mod=mod GOPROXY=off GOSUMDB=off GOTOOLCHAIN=local CGO_ENABLED=0
REPO="${VERIF_REPO:-/repo}"
mkdir -p .cache evidence replays
(cd extract && go run . -repo "$REPO" -out ../lean/NotationModel/Generated)
(cd lean && lake build 2>&1 | tail -5)
tmp=$(mktemp -d)
sed "s#^replace github.com/notaryproject/notation-go => .*#replace github.com/notaryproject/notation-go => $REPO#" harness/go.mod > "$tmp/go.mod"
cp "$REPO/go.sum" "$tmp/go.sum"
(cd harness && go build -tags verif -modfile "$tmp/go.mod" -o "$tmp/harness" . )
rm -rf "$tmp"
echo setup done

// Package c20 - correspondence harness for C20 (stub: not built yet).
package c20

import (
	"errors"

	"github.com/notaryproject/notation-go/xverif/common"
)

// Run generates the cases of C20.
func Run(c *common.Ctx) error { return errors.New("C20: harness not built yet") }

// Package c20 drives the real plugin.CLIManager (Install / Uninstall / List / Get) over a
// real plugin root with shell-script plugins, through sequences of operations, and the real
// internal/semver on generated version strings.
//
// Plugin names range over every kind of single path element (oddNames: punctuation outside
// [a-zA-Z0-9_.-], spaces, non-ASCII, shell / pattern characters, case variants, dots, dashes):
// Install, Get, List and Uninstall have to agree on them.
//
// Everything the concrete world contains is a function of the abstract input (file modes and
// the flavour of an invalid plugin derive from the content id), so a case replays exactly.
package c20

import (
	"bufio"
	"context"
	"encoding/json"
	"errors"
	"fmt"
	"os"
	"os/exec"
	"path/filepath"
	"regexp"
	"runtime"
	"sort"
	"strconv"
	"strings"
	"time"

	"github.com/notaryproject/notation-go/dir"
	"github.com/notaryproject/notation-go/internal/semver"
	"github.com/notaryproject/notation-go/plugin"
	"github.com/notaryproject/notation-go/xverif/common"
	pf "github.com/notaryproject/notation-plugin-framework-go/plugin"
)

// ---- abstract input (JSON = Lean's derived FromJson of NotationModel.C20.Input) ----------

type Script struct {
	Name    string `json:"name"`
	Version string `json:"version"`
	Valid   bool   `json:"valid"`
	Interp  bool   `json:"interp"` // the #! line names a private interpreter of the sandbox instead of /bin/sh
	// Flavour: which concrete output within the class. Valid (mod 4): plain / trailing blank lines /
	// leading white space / an unknown extra field. Not valid (mod 12): exit 1, not JSON, empty description,
	// contract 2.0, no capabilities, JSON error on stderr, a valid object followed by a notice line / by a second
	// object with version 9.0.0 / by a stray brace / by an error object / by a second object on the same line,
	// 11: hangs.
	Flavour int `json:"flavour"`
}

type File struct {
	Name   string  `json:"name"`
	Exec   bool    `json:"exec"` // owner execute bit
	Gox    bool    `json:"gox"`  // some group / other execute bit
	Cid    int     `json:"cid"`
	Script *Script `json:"script"`
}

type Entry struct {
	Kind   string  `json:"kind"` // file | dir | symlink
	Name   string  `json:"name"`
	Exec   bool    `json:"exec"`
	Gox    bool    `json:"gox"`
	Cid    int     `json:"cid"`
	Script *Script `json:"script"`
	Nested []File  `json:"nested"`
}

type Op struct {
	Kind      string  `json:"kind"` // install | uninstall | plant | rmexe
	Name      string  `json:"name"`
	Overwrite bool    `json:"overwrite"`
	SrcIsDir  bool    `json:"srcIsDir"`
	SrcBase   string  `json:"srcBase"`
	SrcIn     string  `json:"srcIn"`   // "" or: the directory of the plugin root the source is / lies in
	ViaLink   bool    `json:"viaLink"` // ... reached through a symbolic link
	Entries   []Entry `json:"entries"`
	// Ctx: the context of an Install call: "background" | "deadline" (5 s; only in the slow shapes: plugins that
	// hang) | "cancelled" (before the call)
	Ctx string `json:"ctx"`
}

type Input struct {
	Kind   string `json:"kind"`   // seq | semver
	NoRoot bool   `json:"noRoot"` // the plugin root directory does not exist at the start
	// RootLink: "none" | "self-link" | "self-real" | "ancestor-link" | "ancestor-real": the plugin root is reached
	// through a symbolic link (the root itself / a directory above it); in-root sources are spelled through the
	// link like the root ("-link") or through the real path ("-real")
	RootLink string `json:"rootLink"`
	// Spelling of the install sources: "canonical" | "slash" (directory with a trailing /) | "dot" (base/./x) |
	// "dslash" (base//x) | "dotdot" (base/zz/../x) | "relative" (to the working directory)
	Spelling string `json:"spelling"`
	// RelRoot: the manager gets the plugin root as a path relative to the working directory
	RelRoot bool   `json:"relRoot"`
	Ops     []Op   `json:"ops"`
	V       string `json:"v"`
	W       string `json:"w"`
}

// ---- observation ---------------------------------------------------------------------------

type FileObs struct {
	Name string `json:"name"`
	Cid  int    `json:"cid"`
	Exec bool   `json:"exec"`
	Gox  bool   `json:"gox"`
	// Interp: the #! line names a private interpreter of the sandbox
	Interp bool `json:"interp"`
}

type PluginObs struct {
	Name    string    `json:"name"`
	Files   []FileObs `json:"files"`
	Version *string   `json:"version"`
}

type StepObs struct {
	Err      string      `json:"err"` // ok | downgrade | equalVersion | notExist | other
	Existing *string     `json:"existing"`
	New      *string     `json:"new"`
	Root     []PluginObs `json:"root"`
	Listed   []string    `json:"listed"`
}

type Obs struct {
	Steps  []StepObs `json:"steps"`
	ValidV bool      `json:"validV"`
	ValidW bool      `json:"validW"`
	Cmp    *int      `json:"cmp"`
}

// ---- concretisation ------------------------------------------------------------------------

func metadataJSON(name, version, description string, contracts, caps []string) string {
	m := map[string]any{"name": name, "description": description, "version": version, "url": "https://example.com/" + "plugin",
		"supportedContractVersions": contracts, "capabilities": caps}
	b, _ := json.Marshal(m)
	return string(b)
}

// shell-quote for single quotes
func shq(s string) string { return "'" + strings.ReplaceAll(s, "'", `'\''`) + "'" }

// content of a regular file; every file carries its content id
// interpDir holds the private interpreters of the sequence being run (one per script that wants
// one: <interpDir>/<cid>, a link to /bin/sh created when the script is written). One sequence at a
// time per process.
var interpDir string

// hangLine: the body of a plugin that hangs
const hangLine = "exec sleep 30"

func content(cid int, s *Script) string {
	if s == nil {
		return fmt.Sprintf("data cid=%d\n", cid) // no shebang: cannot be executed
	}
	interp := "/bin/sh"
	if s.Interp {
		interp = filepath.Join(interpDir, strconv.Itoa(cid))
	}
	head := fmt.Sprintf("#!%s\n# cid=%d\n", interp, cid)
	good := metadataJSON(s.Name, s.Version, "d", []string{"1.0"}, []string{"SIGNATURE_GENERATOR.RAW"})
	out := func(parts ...string) string { // each part printed verbatim, one per line
		b := head
		for _, p := range parts {
			b += "printf '%s\\n' " + shq(p) + "\n"
		}
		return b
	}
	if s.Valid {
		switch s.Flavour % 4 {
		case 1:
			return out(good, "", "  ")
		case 2:
			return out("  ", good)
		case 3:
			return out(strings.Replace(good, "{", `{"extra":{"x":[1,2]},`, 1))
		}
		return out(good)
	}
	other := metadataJSON(s.Name, "9.0.0", "d", []string{"1.0"}, []string{"SIGNATURE_GENERATOR.RAW"})
	switch s.Flavour % 12 {
	case 0:
		return head + "exit 1\n"
	case 1:
		return head + "echo not json\n"
	case 2:
		return out(metadataJSON(s.Name, s.Version, "", []string{"1.0"}, []string{"SIGNATURE_GENERATOR.RAW"}))
	case 3:
		return out(metadataJSON(s.Name, s.Version, "d", []string{"2.0"}, []string{"SIGNATURE_GENERATOR.RAW"}))
	case 4:
		return out(metadataJSON(s.Name, s.Version, "d", []string{"1.0"}, []string{}))
	case 5:
		return head + "echo '{\"errorCode\":\"ERROR\",\"errorMessage\":\"refused\"}' >&2\nexit 1\n"
	// a valid metadata object FOLLOWED by more output: not a response of the protocol
	case 6:
		return out(good, "notice: evaluation build, not for production use")
	case 7:
		return out(good, other)
	case 8:
		return out(good, "}")
	case 9:
		return out(good, `{"errorCode":"ERROR","errorMessage":"late failure"}`)
	case 10:
		return out(good + other)
	default: // hangs (the shell is replaced, so killing the process closes its pipes)
		return head + hangLine + "\n"
	}
}

// mode: owner execute bit = exe, some group/other execute bit = gox; the rest varies with the content id
func mode(cid int, exe, gox bool) os.FileMode {
	switch {
	case exe && gox:
		return []os.FileMode{0o755, 0o750, 0o711, 0o705}[cid%4]
	case exe:
		return []os.FileMode{0o700, 0o744, 0o740}[cid%3]
	case gox:
		return []os.FileMode{0o654, 0o610, 0o601, 0o655}[cid%4]
	}
	return []os.FileMode{0o644, 0o600, 0o640}[cid%3]
}

func writeFile(path string, cid int, exe, gox bool, s *Script) error {
	if s != nil && s.Interp {
		if err := os.MkdirAll(interpDir, 0o755); err != nil {
			return err
		}
		if err := os.Symlink("/bin/sh", filepath.Join(interpDir, strconv.Itoa(cid))); err != nil && !errors.Is(err, os.ErrExist) {
			return err
		}
	}
	if err := os.WriteFile(path, []byte(content(cid, s)), 0o600); err != nil {
		return err
	}
	return os.Chmod(path, mode(cid, exe, gox))
}

// inRoot: the source is a directory of the plugin root (or a file in it). Nothing is written:
// the generator declares in op.Entries what that directory holds at this point (it only emits
// such an operation right after the operation that produced the directory). If an earlier
// operation misbehaved the directory differs; the call is made all the same and the
// observations (which already differ from the model's at that earlier step) are reported.
func inRoot(base, root string, op Op) (string, error) {
	d := filepath.Join(root, op.SrcIn)
	if op.ViaLink {
		if err := os.MkdirAll(base, 0o755); err != nil {
			return "", err
		}
		l := filepath.Join(base, "link")
		if err := os.Symlink(d, l); err != nil {
			return "", err
		}
		d = l
	}
	if op.SrcIsDir {
		return d, nil
	}
	if len(op.Entries) != 1 {
		return "", fmt.Errorf("in-root file source needs exactly one entry")
	}
	return filepath.Join(d, op.Entries[0].Name), nil
}

// spell: the same source, written differently. Not applied to a missing / empty path, nor to a source
// reached through a symbolic link (a trailing slash would make the link itself resolve, which changes what
// the walk sees - see viaLink); a trailing slash only for directories.
func spell(path, how, work string, op Op) string {
	if path == "" || op.ViaLink || (len(op.Entries) == 0 && !op.SrcIsDir) {
		return path
	}
	d, b := filepath.Dir(path), filepath.Base(path)
	sep := string(filepath.Separator)
	switch how {
	case "slash":
		if op.SrcIsDir {
			return path + sep
		}
	case "dot":
		return d + sep + "." + sep + b
	case "dslash":
		return d + sep + sep + b
	case "dotdot":
		if op.SrcIn != "" {
			return d + sep + "." + sep + b // nothing is created inside the plugin root
		}
		if err := os.MkdirAll(filepath.Join(d, "zz"), 0o755); err != nil {
			return path
		}
		return d + sep + "zz" + sep + ".." + sep + b
	case "relative":
		if r, err := filepath.Rel(work, path); err == nil {
			return r
		}
	}
	return path
}

// materialise builds the source of an install operation under base and returns PluginPath.
func materialise(base, root string, op Op) (string, error) {
	if op.SrcIn != "" {
		return inRoot(base, root, op)
	}
	if op.ViaLink {
		// the real source lives in base/real; PluginPath is a link to the directory, resp. a file below a link
		op.ViaLink = false
		real := filepath.Join(base, "real")
		p, err := materialise(real, root, op)
		if err != nil || p == "" {
			return p, err
		}
		if op.SrcIsDir {
			l := filepath.Join(base, op.SrcBase)
			return l, os.Symlink(p, l)
		}
		l := filepath.Join(base, "lnk")
		if err := os.Symlink(real, l); err != nil {
			return "", err
		}
		return filepath.Join(l, filepath.Base(p)), nil
	}
	if err := os.MkdirAll(base, 0o755); err != nil {
		return "", err
	}
	if !op.SrcIsDir {
		if len(op.Entries) != 1 {
			if op.SrcBase == "" {
				return "", nil // empty PluginPath
			}
			return filepath.Join(base, op.SrcBase), nil // no such path
		}
		e := op.Entries[0]
		p := filepath.Join(base, e.Name)
		return p, writeFile(p, e.Cid, e.Exec, e.Gox, e.Script)
	}
	src := filepath.Join(base, op.SrcBase)
	if err := os.MkdirAll(src, 0o755); err != nil {
		return "", err
	}
	for _, e := range op.Entries {
		p := filepath.Join(src, e.Name)
		switch e.Kind {
		case "file":
			if err := writeFile(p, e.Cid, e.Exec, e.Gox, e.Script); err != nil {
				return "", err
			}
		case "dir":
			if err := os.MkdirAll(p, 0o755); err != nil {
				return "", err
			}
			for _, f := range e.Nested {
				if err := writeFile(filepath.Join(p, f.Name), f.Cid, f.Exec, f.Gox, f.Script); err != nil {
					return "", err
				}
			}
		case "symlink":
			tdir := filepath.Join(base, "targets")
			if err := os.MkdirAll(tdir, 0o755); err != nil {
				return "", err
			}
			t := filepath.Join(tdir, strconv.Itoa(e.Cid))
			if err := writeFile(t, e.Cid, e.Exec, e.Gox, e.Script); err != nil {
				return "", err
			}
			if err := os.Symlink(t, p); err != nil {
				return "", err
			}
		default:
			return "", fmt.Errorf("bad entry kind %q", e.Kind)
		}
	}
	return src, nil
}

var cidRe = regexp.MustCompile(`cid=(\d+)`)

// privateInterp: the private interpreter the #! line of a file names ("" if none)
func privateInterp(b []byte) string {
	line, _, _ := strings.Cut(string(b), "\n")
	if p, ok := strings.CutPrefix(line, "#!"); ok && strings.HasPrefix(p, interpDir+string(filepath.Separator)) {
		return p
	}
	return ""
}

func snapshot(ctx context.Context, m *plugin.CLIManager, root string) ([]PluginObs, []string, error) {
	out := []PluginObs{}
	des, err := os.ReadDir(root) // sorted by name
	if err != nil && !errors.Is(err, os.ErrNotExist) {
		return nil, nil, err
	}
	for _, de := range des {
		po := PluginObs{Name: de.Name(), Files: []FileObs{}}
		if !de.IsDir() {
			// not produced by the manager: make it visible (never equals a model observation)
			po.Files = append(po.Files, FileObs{Name: "<not a directory>", Cid: -1})
			out = append(out, po)
			continue
		}
		fes, err := os.ReadDir(filepath.Join(root, de.Name()))
		if err != nil {
			return nil, nil, err
		}
		for _, fe := range fes {
			p := filepath.Join(root, de.Name(), fe.Name())
			fi, err := os.Lstat(p)
			if err != nil {
				return nil, nil, err
			}
			if !fi.Mode().IsRegular() {
				po.Files = append(po.Files, FileObs{Name: fe.Name() + "/<not regular>", Cid: -1})
				continue
			}
			b, err := os.ReadFile(p)
			if err != nil {
				return nil, nil, err
			}
			cid := -1
			if mm := cidRe.FindSubmatch(b); mm != nil {
				cid, _ = strconv.Atoi(string(mm[1]))
			}
			po.Files = append(po.Files, FileObs{Name: fe.Name(), Cid: cid, Exec: fi.Mode().Perm()&0o100 != 0, Gox: fi.Mode().Perm()&0o011 != 0,
				Interp: privateInterp(b) != ""})
		}
		// fetch the plugin by the name of its directory and ask it
		// (a script this harness wrote to hang is known not to answer: it is not run for the observation -
		// no timeout here, so that a loaded machine cannot turn a slow answer into "does not answer")
		exe, _ := os.ReadFile(filepath.Join(root, de.Name(), "notation-"+de.Name()))
		if p, err := m.Get(ctx, de.Name()); err == nil && !strings.Contains(string(exe), hangLine) {
			if md, err := p.GetMetadata(ctx, &pf.GetMetadataRequest{}); err == nil && md != nil && md.Name == de.Name() {
				v := md.Version
				po.Version = &v
			}
		}
		out = append(out, po)
	}
	listed, err := m.List(ctx)
	if err != nil {
		return nil, nil, err
	}
	if listed == nil {
		listed = []string{}
	}
	return out, listed, nil
}

func runSeq(work string, in Input) (Obs, error) {
	obs := Obs{Steps: []StepObs{}}
	if err := os.MkdirAll(work, 0o755); err != nil {
		return obs, err
	}
	defer os.RemoveAll(work)
	interpDir = filepath.Join(work, "interp")
	root := filepath.Join(work, "root")
	srcRoot := root // how in-root sources are spelled
	switch {
	case strings.HasPrefix(in.RootLink, "self"):
		real := filepath.Join(work, "realroot")
		if err := os.MkdirAll(real, 0o755); err != nil {
			return obs, err
		}
		if err := os.Symlink(real, root); err != nil {
			return obs, err
		}
		if strings.HasSuffix(in.RootLink, "-real") {
			srcRoot = real
		}
	case strings.HasPrefix(in.RootLink, "ancestor"):
		realcfg := filepath.Join(work, "volume", "config")
		if err := os.MkdirAll(realcfg, 0o755); err != nil {
			return obs, err
		}
		if err := os.Symlink(realcfg, filepath.Join(work, "cfg")); err != nil {
			return obs, err
		}
		root = filepath.Join(work, "cfg", "plugins")
		srcRoot = root
		if strings.HasSuffix(in.RootLink, "-real") {
			srcRoot = filepath.Join(realcfg, "plugins")
		}
		if !in.NoRoot {
			if err := os.MkdirAll(root, 0o755); err != nil {
				return obs, err
			}
		}
	default:
		if !in.NoRoot {
			if err := os.MkdirAll(root, 0o755); err != nil {
				return obs, err
			}
		}
	}
	ctx := context.Background()
	// the working directory of the sequence (one sequence at a time per process)
	if err := os.Chdir(work); err != nil {
		return obs, err
	}
	defer os.Chdir(os.TempDir())
	mroot := root
	if in.RelRoot {
		if r, err := filepath.Rel(work, root); err == nil {
			mroot = r
		}
	}
	m := plugin.NewCLIManager(dir.NewSysFS(mroot))
	for k, op := range in.Ops {
		st := StepObs{Err: "ok"}
		switch op.Kind {
		case "install":
			path, err := materialise(filepath.Join(work, fmt.Sprintf("s%d", k)), srcRoot, op)
			if err != nil {
				return obs, err
			}
			path = spell(path, in.Spelling, work, op)
			cctx, cancel := ctx, context.CancelFunc(func() {})
			switch op.Ctx {
			case "deadline":
				cctx, cancel = context.WithTimeout(ctx, 5*time.Second)
			case "cancelled":
				cctx, cancel = context.WithCancel(ctx)
				cancel()
			}
			ex, nw, err := m.Install(cctx, plugin.CLIInstallOptions{PluginPath: path, Overwrite: op.Overwrite})
			cancel()
			if ex != nil {
				v := ex.Version
				st.Existing = &v
			}
			if nw != nil {
				v := nw.Version
				st.New = &v
			}
			var down plugin.PluginDowngradeError
			var equal plugin.InstallEqualVersionError
			switch {
			case err == nil:
			case errors.As(err, &down):
				st.Err = "downgrade"
			case errors.As(err, &equal):
				st.Err = "equalVersion"
			default:
				st.Err = "other"
			}
		case "uninstall":
			err := m.Uninstall(ctx, op.Name)
			switch {
			case err == nil:
			case errors.Is(err, os.ErrNotExist):
				st.Err = "notExist"
			default:
				st.Err = "other"
			}
		case "plant":
			// the world, not the manager: <root>/<name> becomes a directory holding exactly these files
			if !validPluginName(op.Name) {
				break
			}
			d := filepath.Join(root, op.Name)
			if err := os.RemoveAll(d); err != nil {
				return obs, err
			}
			if err := os.MkdirAll(d, 0o755); err != nil {
				return obs, err
			}
			for _, e := range op.Entries {
				if e.Kind != "file" {
					continue
				}
				if err := writeFile(filepath.Join(d, e.Name), e.Cid, e.Exec, e.Gox, e.Script); err != nil {
					return obs, err
				}
			}
		case "rmexe":
			// the world: only the binary is deleted
			if validPluginName(op.Name) {
				if err := os.Remove(filepath.Join(root, op.Name, "notation-"+op.Name)); err != nil && !errors.Is(err, os.ErrNotExist) {
					return obs, err
				}
			}
		case "rminterp":
			// the world: the private interpreters named by the files of <root>/<name> disappear
			// (the files themselves are not touched)
			if validPluginName(op.Name) {
				d := filepath.Join(root, op.Name)
				fes, _ := os.ReadDir(d)
				for _, fe := range fes {
					b, err := os.ReadFile(filepath.Join(d, fe.Name()))
					if err != nil {
						continue
					}
					if ip := privateInterp(b); ip != "" {
						if err := os.Remove(ip); err != nil && !errors.Is(err, os.ErrNotExist) {
							return obs, err
						}
					}
				}
			}
		default:
			return obs, fmt.Errorf("bad op kind %q", op.Kind)
		}
		var err error
		st.Root, st.Listed, err = snapshot(ctx, m, root)
		if err != nil {
			return obs, err
		}
		obs.Steps = append(obs.Steps, st)
	}
	return obs, nil
}

// validPluginName: a single path element (the harness never plants outside the root)
func validPluginName(n string) bool {
	return n != "" && n != "." && n != ".." && !strings.ContainsAny(n, "/\\\x00")
}

func runSemver(in Input) Obs {
	o := Obs{Steps: []StepObs{}, ValidV: semver.IsValid(in.V), ValidW: semver.IsValid(in.W)}
	if c, err := semver.ComparePluginVersion(in.V, in.W); err == nil {
		o.Cmp = &c
	}
	return o
}

// ---- generator -----------------------------------------------------------------------------

var validVersions = []string{"1.0.0", "1.0.1", "1.1.0-alpha", "1.1.0-alpha.1", "1.1.0-alpha.beta", "1.1.0-beta", "1.1.0-beta.2",
	"1.1.0-beta.11", "1.1.0-rc.1", "1.1.0", "1.1.0+build5", "2.0.0-rc.1", "9.0.0", "10.0.0"}
var invalidVersions = []string{"1.0", "v1.0.0", "01.0.0", "", "1.0.0-01", "1.0.0+"}

type gen struct {
	c   *common.Ctx
	cid int
}

func (g *gen) next() int { g.cid++; return g.cid }
func (g *gen) pick(ss []string) string {
	return ss[g.c.Rand.Intn(len(ss))]
}
func (g *gen) chance(p float64) bool { return g.c.Rand.Float64() < p }

func (g *gen) version() string {
	if g.chance(0.12) {
		return g.pick(invalidVersions)
	}
	return g.pick(validVersions)
}

func (g *gen) script(name string) *Script {
	s := &Script{Name: name, Version: g.version(), Valid: true}
	r := g.c.Rand.Float64()
	switch {
	case r < 0.09:
		s.Valid = false
	case r < 0.13:
		s.Name = g.pick([]string{"other", "bar", "foo", "Foo", ""}) // misnamed metadata (may coincide)
	case r < 0.16:
		return nil // a data file with a plugin name
	}
	return s
}

// fileEntry: a regular file; an executable one usually also has group/other execute bits,
// a non-executable one sometimes has ONLY those (0654, 0610, 0601: not executable for the code)
func (g *gen) fileEntry(name string, exe bool, s *Script) Entry {
	if s != nil {
		c := *s
		if g.chance(0.2) {
			c.Interp = true // its own private interpreter (present unless the world removes it: rminterp)
		}
		if c.Flavour == 0 {
			if c.Valid {
				c.Flavour = g.c.Rand.Intn(4)
			} else {
				c.Flavour = g.c.Rand.Intn(11) // 11 (hangs) only in the fixed slow shapes
				if c.Flavour >= 6 {
					g.c.Count("script.invalid.trailing-output")
				}
			}
		}
		s = &c
	}
	gox := g.chance(0.12)
	if exe {
		gox = g.chance(0.6)
	}
	return Entry{Kind: "file", Name: name, Exec: exe, Gox: gox, Cid: g.next(), Script: s, Nested: []File{}}
}

// goxOnly: named like a plugin, group/other-executable but not owner-executable
func (g *gen) goxOnly(name string, s *Script) Entry {
	return Entry{Kind: "file", Name: name, Exec: false, Gox: true, Cid: g.next(), Script: s, Nested: []File{}}
}

var extras = []string{"LICENSE", "zlib.so", "a.txt", "README.md", "notation-", "Notation-x", "notation", "~last", "0first"}
var pluginNames = []string{"foo", "foo", "foo", "bar", "a.b"}

// ---- plugin names --------------------------------------------------------------------------
//
// A plugin name is ANY single path element (validatePluginName: not empty, not "." / "..", no
// separator, no NUL). Install, Get, List and Uninstall must agree on that: a name one of them treats
// differently (filtered, normalised, split, matched as a pattern) installs and answers but cannot be
// listed / fetched / removed. The shapes of this generator are written with baseNames; oddNames are what a
// sequence may be renamed to (consistently: directories of the root, notation-<name> files, reported names).
var baseNames = []string{"foo", "bar", "a.b"}

var oddNames = []struct{ class, name string }{
	// characters outside [a-zA-Z0-9_.-] (what file.IsValidFileName accepts)
	{"punct", "azure+kv"}, {"punct", "kms@eu-west-1"}, {"punct", "hsm(v2)"}, {"punct", "x~1"}, {"punct", "a,b"}, {"punct", "a:b"},
	{"punct", "a=b"}, {"punct", "#1"}, {"punct", "100%"}, {"punct", "a!b"}, {"punct", "~"},
	{"space", "my plugin"}, {"space", " lead"}, {"space", "trail "}, {"space", "a\tb"},
	{"nonascii", "schlüssel"}, {"nonascii", "密钥"}, {"nonascii", "clé"}, {"nonascii", "é"},
	// characters with a meaning to shells, patterns and formats
	{"meta", "x*"}, {"meta", "q?"}, {"meta", "[ab]"}, {"meta", "$HOME"}, {"meta", "a'b"}, {"meta", `a"b`}, {"meta", "a;b"},
	{"meta", "a&b"}, {"meta", "a|b"}, {"meta", "a<b>"}, {"meta", "a{b}"}, {"meta", "%41"}, {"meta", "a%sb"},
	// inside the portable alphabet, but with a shape of their own
	{"case", "Foo"}, {"case", "FOO"}, {"case", "fOO"},
	{"dots", ".hidden"}, {"dots", "..."}, {"dots", "..a"}, {"dots", "a.."}, {"dots", "foo."}, {"dots", "foo.exe"},
	{"dash", "-rf"}, {"dash", "a-b"}, {"dash", "a_b"}, {"dash", "-"}, {"dash", "--"},
	{"prefix", "notation-foo"}, {"prefix", "notation"}, {"prefix", "Notation-x"},
	{"reserved", "CON"}, {"reserved", "aux"}, {"reserved", "1"}, {"reserved", "0.1"},
}

func renameStr(s string, m map[string]string) string {
	if t, ok := m[s]; ok {
		return t
	}
	if n, ok := strings.CutPrefix(s, "notation-"); ok {
		if t, ok := m[n]; ok {
			return "notation-" + t
		}
	}
	return s
}

// renamed: the same sequence about other plugin names (a deep copy): names of root directories, of the
// notation-<name> files and directories, and the names the scripts report are mapped consistently.
func renamed(in Input, m map[string]string) Input {
	out := in
	out.Ops = make([]Op, len(in.Ops))
	for i, op := range in.Ops {
		op.Name = renameStr(op.Name, m)
		op.SrcIn = renameStr(op.SrcIn, m)
		op.SrcBase = renameStr(op.SrcBase, m)
		es := make([]Entry, len(op.Entries))
		for j, e := range op.Entries {
			e.Name = renameStr(e.Name, m)
			if e.Script != nil {
				c := *e.Script
				c.Name = renameStr(c.Name, m)
				e.Script = &c
			}
			ns := make([]File, len(e.Nested))
			for k, f := range e.Nested {
				f.Name = renameStr(f.Name, m)
				if f.Script != nil {
					c := *f.Script
					c.Name = renameStr(c.Name, m)
					f.Script = &c
				}
				ns[k] = f
			}
			e.Nested = ns
			es[j] = e
		}
		op.Entries = es
		out.Ops[i] = op
	}
	return out
}

// cycleNames: base names -> three consecutive odd names starting at k
func cycleNames(k int) map[string]string {
	m := map[string]string{}
	for j, b := range baseNames {
		m[b] = oddNames[(k+j)%len(oddNames)].name
	}
	return m
}

// drawNames: every base name is kept or gets an odd name of its own
func (g *gen) drawNames() map[string]string {
	m := map[string]string{}
	perm := g.c.Rand.Perm(len(oddNames))
	for j, b := range baseNames {
		if g.chance(0.7) {
			o := oddNames[perm[j]]
			m[b] = o.name
			g.c.Count("name.renamed." + o.class)
		}
	}
	return m
}

// nameShapes: for every odd name the life of a plugin called so - installed, a downgrade refused, reinstalled
// with overwrite, uninstalled, uninstalled again - listed / fetched / asked after every step; and a root
// holding plugins of three kinds of names at once, one of them removed from the middle.
func (g *gen) nameShapes() []Input {
	var out []Input
	worlds := append([]string{"none"}, rootLinks...)
	un := func(n string) Op { return Op{Kind: "uninstall", Name: n, Entries: []Entry{}} }
	for k, o := range oddNames {
		n, fromDir := o.name, k%2 == 0
		out = append(out, Input{Kind: "seq", RootLink: worlds[k%len(worlds)], Ops: []Op{
			g.simpleInstall(n, "2.0.0", false, fromDir), g.simpleInstall(n, "1.0.0", false, !fromDir),
			g.simpleInstall(n, "2.0.0", true, !fromDir), un(n), un(n)}})
		n2 := oddNames[(k+1)%len(oddNames)].name
		out = append(out, Input{Kind: "seq", RootLink: worlds[(k+2)%len(worlds)], Ops: []Op{
			g.simpleInstall("foo", "1.1.0", false, !fromDir), g.simpleInstall(n, "2.0.0", false, fromDir),
			g.simpleInstall(n2, "1.0.0", false, !fromDir), g.simpleInstall(n, "2.0.1", false, !fromDir), un(n),
			g.simpleInstall("foo", "1.0.0", false, fromDir)}})
		g.c.Count("name.shape." + o.class)
	}
	return out
}

// simpleInstall: install plugin name at version from a plain source
func (g *gen) simpleInstall(name, version string, overwrite, fromDir bool) Op {
	s := &Script{Name: name, Version: version, Valid: true}
	op := Op{Kind: "install", Overwrite: overwrite, SrcIsDir: fromDir}
	cand := g.fileEntry("notation-"+name, true, s)
	if fromDir {
		op.SrcBase = "pkg"
		op.Entries = []Entry{g.fileEntry("LICENSE", false, nil), cand, g.fileEntry("zlib.so", false, nil)}
	} else {
		op.SrcBase = cand.Name
		op.Entries = []Entry{cand}
	}
	return op
}

func (g *gen) install() Op {
	op := g.install0()
	switch r := g.c.Rand.Float64(); {
	case r < 0.06:
		op.Ctx = "cancelled"
		g.c.Count("install.ctx=cancelled")
	}
	if g.chance(0.06) {
		op.ViaLink = true
		g.c.Count(fmt.Sprintf("shape.via-link.dir=%v", op.SrcIsDir))
	}
	return op
}

func (g *gen) install0() Op {
	name := g.pick(pluginNames)
	op := Op{Kind: "install", Overwrite: g.chance(0.3), Entries: []Entry{}}
	g.c.Count(fmt.Sprintf("install.overwrite=%v", op.Overwrite))
	r := g.c.Rand.Float64()
	if r < 0.30 { // ---- a single file
		fn := "notation-" + name
		exe := true
		switch q := g.c.Rand.Float64(); {
		case q < 0.08:
			exe = false
		case q < 0.14:
			fn = g.pick([]string{"foo", "notation-", "notation", "Notation-foo", "notation-..", "notation-.", `notation-a\b`})
		case q < 0.18:
			op.SrcBase = g.pick([]string{"", "missing"}) // no such path / empty path
			g.c.Count("shape.file.missing")
			return op
		}
		var s *Script
		if n, ok := strings.CutPrefix(fn, "notation-"); ok && n != "" {
			s = g.script(n)
		} else {
			s = g.script(name)
		}
		e := g.fileEntry(fn, exe, s)
		if !exe && g.chance(0.6) {
			e.Gox = true
		}
		op.SrcBase, op.Entries = fn, []Entry{e}
		g.c.Count(fmt.Sprintf("shape.file.exec=%v", exe))
		return op
	}
	// ---- a directory
	op.SrcIsDir = true
	op.SrcBase = g.pick([]string{"pkg", "src", "notation-" + name, "lib"})
	nExec := []int{0, 1, 1, 1, 1, 1, 1, 2}[g.c.Rand.Intn(8)]
	nNon := []int{0, 0, 0, 0, 1, 1, 2}[g.c.Rand.Intn(7)]
	used := map[string]bool{}
	candNames := []string{"notation-" + name}
	for _, n := range []string{"bar", "foo", "zed", "a.b", "0"} {
		if n != name {
			candNames = append(candNames, "notation-"+n)
		}
	}
	g.c.Rand.Shuffle(len(candNames)-1, func(i, j int) { candNames[i+1], candNames[j+1] = candNames[j+1], candNames[i+1] })
	if g.chance(0.1) { // an odd plugin name as the first candidate
		candNames[0] = g.pick([]string{"notation-..", `notation-a\b`, "notation-."})
	}
	k := 0
	for i := 0; i < nExec+nNon; i++ {
		fn := candNames[k]
		k++
		used[fn] = true
		n, _ := strings.CutPrefix(fn, "notation-")
		e := g.fileEntry(fn, i < nExec, g.script(n))
		if i >= nExec && g.chance(0.4) {
			e.Gox = true
			g.c.Count("shape.dir.candidate-gox-only")
		}
		op.Entries = append(op.Entries, e)
	}
	for _, x := range extras {
		if g.chance(0.3) && !used[x] {
			used[x] = true
			op.Entries = append(op.Entries, g.fileEntry(x, g.chance(0.15), nil))
		}
	}
	// sub-directories, also one named like the source directory itself and like the executable
	for _, d := range []string{"lib", "zzz", op.SrcBase, "notation-" + name, "0dir"} {
		if g.chance(0.17) && !used[d] {
			used[d] = true
			e := Entry{Kind: "dir", Name: d, Cid: g.next(), Nested: []File{}}
			if g.chance(0.8) {
				e.Nested = append(e.Nested, File{Name: "notation-" + name, Exec: true, Cid: g.next(),
					Script: &Script{Name: name, Version: g.pick(validVersions), Valid: true}})
			}
			if g.chance(0.5) {
				e.Nested = append(e.Nested, File{Name: g.pick(extras), Exec: false, Cid: g.next()})
			}
			if g.chance(0.3) {
				e.Nested = append(e.Nested, File{Name: "notation-zed", Exec: g.chance(0.5), Cid: g.next(),
					Script: &Script{Name: "zed", Version: "3.0.0", Valid: true}})
			}
			// distinct names inside the sub-directory
			seen := map[string]bool{}
			nn := e.Nested[:0]
			for _, f := range e.Nested {
				if !seen[f.Name] {
					seen[f.Name] = true
					nn = append(nn, f)
				}
			}
			e.Nested = nn
			op.Entries = append(op.Entries, e)
			g.c.Count("shape.dir.subdir")
			if d == op.SrcBase {
				g.c.Count("shape.dir.subdir-named-like-source")
			}
		}
	}
	if g.chance(0.08) {
		for _, x := range []string{"notation-" + name, "notation-lnk", "link.txt"} {
			if !used[x] {
				used[x] = true
				n, _ := strings.CutPrefix(x, "notation-")
				op.Entries = append(op.Entries, Entry{Kind: "symlink", Name: x, Exec: true, Cid: g.next(),
					Script: &Script{Name: n, Version: "5.0.0", Valid: true}, Nested: []File{}})
				g.c.Count("shape.dir.symlink")
				break
			}
		}
	}
	g.c.Rand.Shuffle(len(op.Entries), func(i, j int) { op.Entries[i], op.Entries[j] = op.Entries[j], op.Entries[i] })
	g.c.Count(fmt.Sprintf("shape.dir.execCand=%d.nonExecCand=%d", nExec, nNon))
	return op
}

// plant: the world puts a directory under the root: stale files of an interrupted
// installation (no executable), or a hand-copied / damaged plugin (an executable that is
// invalid, misnamed, a data file, not executable, or fine)
func (g *gen) plant() Op {
	name := g.pick(pluginNames)
	op := Op{Kind: "plant", Name: name, Entries: []Entry{}}
	if g.chance(0.08) {
		op.Name = g.pick([]string{"..", "", "a/b"}) // ignored by harness and model
	}
	used := map[string]bool{}
	for _, x := range []string{"libfoo-1.so", "LICENSE", "a.txt", "zlib.so", "~last", "0first", "notation-zed"} {
		if g.chance(0.3) {
			used[x] = true
			op.Entries = append(op.Entries, g.fileEntry(x, g.chance(0.1), nil))
		}
	}
	switch r := g.c.Rand.Float64(); {
	case r < 0.55: // stale: no executable
		g.c.Count("plant.stale")
	case r < 0.70: // a working plugin copied by hand
		op.Entries = append(op.Entries, g.fileEntry("notation-"+name, true, &Script{Name: name, Version: g.version(), Valid: true}))
		g.c.Count("plant.working")
	default: // malfunctioning
		exe := true
		var sc *Script
		switch g.c.Rand.Intn(4) {
		case 0:
			sc = &Script{Name: name, Version: g.pick(validVersions), Valid: false}
		case 1:
			sc = &Script{Name: "other", Version: g.pick(validVersions), Valid: true}
		case 2:
			sc = nil
		default:
			sc, exe = &Script{Name: name, Version: g.pick(validVersions), Valid: true}, false
		}
		e := g.fileEntry("notation-"+name, exe, sc)
		if !exe {
			e.Gox = false // root could run a file with any execute bit; keep "not executable" unambiguous
		}
		op.Entries = append(op.Entries, e)
		g.c.Count("plant.malfunctioning")
	}
	g.c.Rand.Shuffle(len(op.Entries), func(i, j int) { op.Entries[i], op.Entries[j] = op.Entries[j], op.Entries[i] })
	return op
}

// fromRoot: install from the directory <root>/<dirName> (holding exactly the regular files es),
// or from one file in it; directly or through a symbolic link
func (g *gen) fromRoot(dirName string, es []Entry, isDir bool, file *Entry, ow, lnk bool) Op {
	op := Op{Kind: "install", Overwrite: ow, SrcIsDir: isDir, SrcIn: dirName, ViaLink: lnk, Entries: []Entry{}}
	if isDir {
		op.SrcBase = dirName
		if lnk {
			op.SrcBase = "link"
		}
		op.Entries = append(op.Entries, es...)
	} else {
		op.SrcBase = file.Name
		op.Entries = []Entry{*file}
	}
	g.c.Count(fmt.Sprintf("shape.in-root.dir=%v.link=%v", isDir, lnk))
	return op
}

func regularFiles(es []Entry) []Entry {
	out := []Entry{}
	for _, e := range es {
		if e.Kind == "file" {
			out = append(out, e)
		}
	}
	return out
}

// afterPlant: an installation whose source is the directory just planted (or a file in it),
// also when its only candidate is not executable (Install then sets the bit on a file of the
// plugin root - only after the name and the location of the source are accepted).
func (g *gen) afterPlant(pl Op) (Op, bool) {
	if !validPluginName(pl.Name) {
		return Op{}, false
	}
	es := regularFiles(pl.Entries)
	var cands []int
	nExec := 0
	for i, e := range es {
		if n, ok := strings.CutPrefix(e.Name, "notation-"); ok && n != "" {
			cands = append(cands, i)
			if e.Exec {
				nExec++
			}
		}
	}
	isDir := g.chance(0.5)
	if nExec == 0 && len(cands) == 1 {
		isDir = g.chance(0.85)
		g.c.Count(fmt.Sprintf("shape.in-root.lone-non-exec-candidate.dir=%v", isDir))
	}
	if !isDir && len(es) == 0 {
		return Op{}, false
	}
	var f *Entry
	if !isDir {
		i := g.c.Rand.Intn(len(es))
		if len(cands) > 0 && g.chance(0.8) {
			i = cands[g.c.Rand.Intn(len(cands))]
		}
		f = &es[i]
	}
	return g.fromRoot(pl.Name, es, isDir, f, g.chance(0.5), g.chance(0.3)), true
}

var spellings = []string{"canonical", "slash", "dot", "dslash", "dotdot", "relative"}

var rootLinks = []string{"self-link", "self-real", "ancestor-link", "ancestor-real"}

func (g *gen) rmexe() Op {
	return Op{Kind: "rmexe", Name: g.pick(pluginNames), Entries: []Entry{}}
}

func (g *gen) uninstall() Op {
	n := g.pick([]string{"foo", "foo", "foo", "foo", "foo", "bar", "bar", "a.b", "a.b", "baz", "..", "", "a/b", "."})
	return Op{Kind: "uninstall", Name: n, Entries: []Entry{}}
}

func (g *gen) sequence() Input {
	n := 1 + g.c.Rand.Intn(6)
	in := Input{Kind: "seq", NoRoot: g.chance(0.1), RootLink: "none", Spelling: "canonical", RelRoot: g.chance(0.25), Ops: []Op{}}
	if g.chance(0.4) {
		in.Spelling = g.pick(spellings)
	}
	if g.chance(0.3) {
		in.RootLink = g.pick(rootLinks)
		if in.NoRoot && strings.HasPrefix(in.RootLink, "self") {
			in.RootLink = "ancestor" + strings.TrimPrefix(in.RootLink, "self")
		}
	}
	for i := 0; i < n; i++ {
		switch {
		case i == 0 && g.chance(0.6):
			in.Ops = append(in.Ops, g.simpleInstall(g.pick(pluginNames), g.pick(validVersions), false, g.chance(0.5)))
		case g.chance(0.15):
			in.Ops = append(in.Ops, g.uninstall())
		case g.chance(0.12):
			pl := g.plant()
			in.Ops = append(in.Ops, pl)
			if i+1 < n && g.chance(0.35) {
				if op, ok := g.afterPlant(pl); ok {
					in.Ops = append(in.Ops, op)
					i++
				}
			}
		case g.chance(0.05):
			in.Ops = append(in.Ops, g.rmexe())
		case g.chance(0.05):
			in.Ops = append(in.Ops, Op{Kind: "rminterp", Name: g.pick(pluginNames), Entries: []Entry{}})
		case g.chance(0.25):
			in.Ops = append(in.Ops, g.simpleInstall(g.pick(pluginNames), g.version(), g.chance(0.25), g.chance(0.5)))
		default:
			in.Ops = append(in.Ops, g.install())
		}
	}
	return in
}

// regressionShapes: fixed witnesses of the repaired defects (kept as a corpus)
func (g *gen) regressionShapes() []Input {
	var out []Input
	mk := func(second Op) Input {
		return Input{Kind: "seq", Ops: []Op{g.simpleInstall("foo", "1.0.0", false, false), second,
			{Kind: "uninstall", Name: "foo", Entries: []Entry{}}}}
	}
	s2 := func() *Script { return &Script{Name: "foo", Version: "2.0.0", Valid: true} }
	// F-C20c: a sub-directory named like the source directory holds the only candidate
	out = append(out, mk(Op{Kind: "install", SrcIsDir: true, SrcBase: "pkg", Entries: []Entry{
		g.fileEntry("LICENSE", false, nil),
		{Kind: "dir", Name: "pkg", Cid: g.next(), Nested: []File{{Name: "notation-foo", Exec: true, Cid: g.next(), Script: s2()}}}}}))
	// ... and next to a real candidate (would make "two candidates")
	out = append(out, mk(Op{Kind: "install", SrcIsDir: true, SrcBase: "pkg", Entries: []Entry{
		g.fileEntry("notation-foo", true, s2()),
		{Kind: "dir", Name: "pkg", Cid: g.next(), Nested: []File{{Name: "notation-bar", Exec: true, Cid: g.next(), Script: &Script{Name: "bar", Version: "1.0.0", Valid: true}}}}}}))
	// F-C20a: nested file with the executable's own name must not be flattened over it
	out = append(out, mk(Op{Kind: "install", SrcIsDir: true, SrcBase: "pkg", Entries: []Entry{
		g.fileEntry("notation-foo", true, s2()),
		{Kind: "dir", Name: "sub", Cid: g.next(), Nested: []File{{Name: "notation-foo", Exec: true, Cid: g.next(), Script: nil}, {Name: "zz.txt", Cid: g.next()}}}}}))
	// F-C20b: single non-executable candidate followed by a later-sorting non-plugin file
	out = append(out, mk(Op{Kind: "install", SrcIsDir: true, SrcBase: "pkg", Entries: []Entry{
		g.fileEntry("notation-foo", false, s2()), g.fileEntry("zlib.so", false, nil)}}))
	out = append(out, mk(Op{Kind: "install", SrcIsDir: true, SrcBase: "pkg", Entries: []Entry{
		g.fileEntry("LICENSE", false, nil), g.fileEntry("notation-foo", false, s2())}}))
	// an interrupted directory installation left libfoo-1.so (sorts before notation-foo); the next
	// installation - with / without overwrite, from a directory / a file - ends with exactly its own files
	for _, ow := range []bool{false, true} {
		for _, fromDir := range []bool{false, true} {
			out = append(out, Input{Kind: "seq", Ops: []Op{
				{Kind: "plant", Name: "foo", Entries: []Entry{g.fileEntry("libfoo-1.so", false, nil), g.fileEntry("LICENSE", false, nil)}},
				g.simpleInstall("foo", "1.0.0", ow, fromDir),
				{Kind: "uninstall", Name: "foo", Entries: []Entry{}}}})
			// only the binary was deleted
			out = append(out, Input{Kind: "seq", Ops: []Op{
				g.simpleInstall("foo", "2.0.0", false, true), {Kind: "rmexe", Name: "foo", Entries: []Entry{}},
				g.simpleInstall("foo", "1.0.0", ow, fromDir)}})
		}
	}
	// a stale directory is listed, cannot be fetched, and Uninstall removes it
	out = append(out, Input{Kind: "seq", Ops: []Op{
		{Kind: "plant", Name: "foo", Entries: []Entry{g.fileEntry("libfoo-1.so", false, nil)}},
		{Kind: "uninstall", Name: "foo", Entries: []Entry{}}}})
	// the source is the installed plugin's own directory / executable (directly, through a link):
	// refused without touching anything, with and without overwrite (3106bc6)
	for _, ow := range []bool{false, true} {
		for _, firstFromDir := range []bool{false, true} {
			for _, isDir := range []bool{false, true} {
				for _, lnk := range []bool{false, true} {
					first := g.simpleInstall("foo", "1.0.0", false, firstFromDir)
					es := regularFiles(first.Entries)
					var exe *Entry
					for i := range es {
						if es[i].Name == "notation-foo" {
							exe = &es[i]
						}
					}
					out = append(out, Input{Kind: "seq", Ops: []Op{first, g.fromRoot("foo", es, isDir, exe, ow, lnk),
						{Kind: "uninstall", Name: "foo", Entries: []Entry{}}}})
				}
			}
		}
		// from ANOTHER plugin's directory (a copy of foo 2.0.0 lying in <root>/bar): allowed, bar stays
		for _, isDir := range []bool{false, true} {
			pl := Op{Kind: "plant", Name: "bar", Entries: []Entry{g.fileEntry("notation-foo", true, s2()), g.fileEntry("LICENSE", false, nil)}}
			out = append(out, Input{Kind: "seq", Ops: []Op{g.simpleInstall("foo", "1.0.0", false, false), pl,
				g.fromRoot("bar", pl.Entries, isDir, &pl.Entries[0], ow, !isDir), {Kind: "uninstall", Name: "foo", Entries: []Entry{}}}})
		}
		// a hand-copied plugin reinstalled from its own directory
		pl := Op{Kind: "plant", Name: "foo", Entries: []Entry{g.fileEntry("notation-foo", true, s2()), g.fileEntry("zlib.so", false, nil)}}
		out = append(out, Input{Kind: "seq", Ops: []Op{pl, g.fromRoot("foo", pl.Entries, true, nil, ow, false)}})
	}
	// the in-root source holds a lone NON-executable candidate: nothing under the root may change
	// before the name and the location are accepted (chmod used to happen while locating)
	for _, ow := range []bool{false, true} {
		for _, lnk := range []bool{false, true} {
			// the plugin's own directory (hand-copied without the bit: it does not answer, and must keep not answering)
			e := g.fileEntry("notation-foo", false, s2())
			e.Gox = false
			pl := Op{Kind: "plant", Name: "foo", Entries: []Entry{e, g.fileEntry("LICENSE", false, nil)}}
			out = append(out, Input{Kind: "seq", Ops: []Op{pl, g.fromRoot("foo", pl.Entries, true, nil, ow, lnk),
				g.simpleInstall("foo", "1.0.0", false, false)}})
			// another plugin's directory: lower / higher than the installed foo 1.1.0
			for _, v := range []string{"1.0.0", "2.0.0"} {
				e := g.fileEntry("notation-foo", false, &Script{Name: "foo", Version: v, Valid: true})
				pl := Op{Kind: "plant", Name: "bar", Entries: []Entry{e}}
				out = append(out, Input{Kind: "seq", Ops: []Op{g.simpleInstall("foo", "1.1.0", false, true), pl,
					g.fromRoot("bar", pl.Entries, true, nil, ow, lnk), {Kind: "uninstall", Name: "bar", Entries: []Entry{}}}})
			}
		}
		// an odd name: <root>/x holds a lone non-executable notation-.. : refused, untouched
		e := g.fileEntry("notation-..", false, &Script{Name: "..", Version: "1.0.0", Valid: true})
		pl := Op{Kind: "plant", Name: "x", Entries: []Entry{e}}
		out = append(out, Input{Kind: "seq", Ops: []Op{pl, g.fromRoot("x", pl.Entries, true, nil, ow, false)}})
		// the binary was deleted, a non-executable notation-bar is left in <root>/foo: installs bar from there
		first := g.simpleInstall("foo", "1.0.0", false, false)
		first.SrcIsDir, first.SrcBase = true, "pkg"
		nb := g.fileEntry("notation-bar", false, &Script{Name: "bar", Version: "1.0.0", Valid: true})
		first.Entries = append(first.Entries, nb)
		out = append(out, Input{Kind: "seq", Ops: []Op{first, {Kind: "rmexe", Name: "foo", Entries: []Entry{}},
			g.fromRoot("foo", []Entry{nb}, true, nil, ow, false)}})
	}
	// the installed plugin's files are intact but the interpreter its #! line names has disappeared
	// (removed runtime): it does not answer; without overwrite no version replaces it, with overwrite every one
	for _, fromDir := range []bool{false, true} {
		for _, v := range []string{"1.0.0", "2.0.0", "3.0.0"} {
			for _, ow := range []bool{false, true} {
				first := g.simpleInstall("foo", "2.0.0", false, fromDir)
				for i := range first.Entries {
					if first.Entries[i].Script != nil {
						first.Entries[i].Script.Interp = true
					}
				}
				out = append(out, Input{Kind: "seq", Ops: []Op{first, {Kind: "rminterp", Name: "foo", Entries: []Entry{}},
					g.simpleInstall("foo", v, ow, !fromDir), {Kind: "uninstall", Name: "foo", Entries: []Entry{}}}})
			}
		}
	}
	// plugin output shapes: a valid metadata object followed by more output is not a response
	for _, fl := range []int{6, 7, 8, 9, 10} {
		for _, ow := range []bool{false, true} {
			// as the NEW plugin (3.0.0 over the installed 2.0.0): refused, 2.0.0 untouched
			bad := g.simpleInstall("foo", "3.0.0", ow, fl%2 == 0)
			for i := range bad.Entries {
				if sc := bad.Entries[i].Script; sc != nil {
					sc.Valid, sc.Flavour = false, fl
				}
			}
			out = append(out, Input{Kind: "seq", Ops: []Op{g.simpleInstall("foo", "2.0.0", false, false), bad,
				{Kind: "uninstall", Name: "foo", Entries: []Entry{}}}})
			// as the INSTALLED plugin (its first object says 1.0.0): malfunctioning, replaced only with overwrite
			e := g.fileEntry("notation-foo", true, &Script{Name: "foo", Version: "1.0.0", Valid: false, Flavour: fl})
			e.Script.Flavour = fl
			out = append(out, Input{Kind: "seq", Ops: []Op{{Kind: "plant", Name: "foo", Entries: []Entry{e}},
				g.simpleInstall("foo", "2.0.0", ow, fl%2 == 1), {Kind: "uninstall", Name: "foo", Entries: []Entry{}}}})
		}
	}
	// "executable" means the owner execute bit: notation-foo with mode 0654 / 0610 / 0601 / 0655
	for k := 0; k < 4; k++ {
		// as a single file: refused, the installed plugin stays (with and without overwrite)
		e := g.goxOnly("notation-foo", s2())
		out = append(out, Input{Kind: "seq", Ops: []Op{g.simpleInstall("foo", "1.0.0", false, false),
			{Kind: "install", Overwrite: k%2 == 0, SrcBase: e.Name, Entries: []Entry{e}}}})
		// as the only candidate of a directory: gets the owner execute bit
		out = append(out, mk(Op{Kind: "install", SrcIsDir: true, SrcBase: "pkg", Entries: []Entry{
			g.goxOnly("notation-foo", s2()), g.fileEntry("zlib.so", false, nil)}}))
		// a plugin-named data file with such a mode next to the real executable is no second executable
		out = append(out, mk(Op{Kind: "install", SrcIsDir: true, SrcBase: "pkg", Entries: []Entry{
			g.fileEntry("notation-foo", true, s2()), g.goxOnly("notation-bar", nil)}}))
	}
	return out
}

// slowShapes: plugins that hang, under a context with a deadline (each hanging execution costs a second)
func (g *gen) slowShapes() []Input {
	var out []Input
	hang := func() Entry {
		e := g.fileEntry("notation-foo", true, &Script{Name: "foo", Version: "1.0.0", Valid: false, Flavour: 11})
		e.Script.Flavour, e.Script.Interp = 11, false
		return e
	}
	dl := func(op Op) Op { op.Ctx = "deadline"; return op }
	for _, fromDir := range []bool{false, true} {
		for _, ow := range []bool{false, true} {
			// the installed plugin hangs and uses up the deadline inside Install: with overwrite the new
			// version is installed all the same, without it the installation is refused; never "neither"
			out = append(out, Input{Kind: "seq", RootLink: "none", Ops: []Op{
				{Kind: "plant", Name: "foo", Entries: []Entry{hang(), g.fileEntry("LICENSE", false, nil)}},
				dl(g.simpleInstall("foo", "2.0.0", ow, fromDir)), {Kind: "uninstall", Name: "foo", Entries: []Entry{}}}})
		}
	}
	// the NEW plugin hangs: refused when the deadline ends, the installed plugin untouched
	bad := g.simpleInstall("foo", "3.0.0", true, true)
	for i := range bad.Entries {
		if sc := bad.Entries[i].Script; sc != nil {
			sc.Valid, sc.Flavour, sc.Interp = false, 11, false
		}
	}
	out = append(out, Input{Kind: "seq", RootLink: "self-link", Ops: []Op{g.simpleInstall("foo", "2.0.0", false, false), dl(bad)}})
	return out
}

// ---- semver stream ----------------------------------------------------------------------------

var nums = []string{"0", "1", "2", "9", "10", "11", "99", "100", "18446744073709551616", "00", "01"}
var preIds = []string{"alpha", "beta", "rc", "0", "1", "2", "10", "11", "a", "A", "-", "a-b", "0a", "1a", "x1", "Z", "z", "00", "01", "--", "a1b"}
var buildIds = []string{"build5", "001", "a", "-", "b-7", "0"}

const mutAlphabet = "0123456789.-+aAzZv _\n\té٣"

func (g *gen) semverString() string {
	r := g.c.Rand
	var b strings.Builder
	goodNums := nums[:9]
	b.WriteString(goodNums[r.Intn(len(goodNums))] + "." + goodNums[r.Intn(4)] + "." + goodNums[r.Intn(4)])
	if r.Intn(2) == 0 {
		n := 1 + r.Intn(3)
		ids := make([]string, n)
		for i := range ids {
			ids[i] = preIds[r.Intn(len(preIds))]
		}
		b.WriteString("-" + strings.Join(ids, "."))
	}
	if r.Intn(4) == 0 {
		n := 1 + r.Intn(2)
		ids := make([]string, n)
		for i := range ids {
			ids[i] = buildIds[r.Intn(len(buildIds))]
		}
		b.WriteString("+" + strings.Join(ids, "."))
	}
	return b.String()
}

func (g *gen) mutate(s string) string {
	r := g.c.Rand
	rs := []rune(s)
	al := []rune(mutAlphabet)
	for k := 1 + r.Intn(2); k > 0; k-- {
		switch r.Intn(3) {
		case 0: // insert
			p := r.Intn(len(rs) + 1)
			rs = append(rs[:p], append([]rune{al[r.Intn(len(al))]}, rs[p:]...)...)
		case 1: // delete
			if len(rs) > 0 {
				p := r.Intn(len(rs))
				rs = append(rs[:p], rs[p+1:]...)
			}
		default: // replace
			if len(rs) > 0 {
				rs[r.Intn(len(rs))] = al[r.Intn(len(al))]
			}
		}
	}
	return string(rs)
}

// variant keeps the core of v and changes the tail, so comparisons go deep
func (g *gen) variant(v string) string {
	core := v
	if i := strings.IndexAny(v, "-+"); i >= 0 {
		core = v[:i]
	}
	w := g.semverString()
	if i := strings.IndexAny(w, "-+"); i >= 0 {
		return core + w[i:]
	}
	return core
}

var semverFixed = []string{"0.0.0", "0.0.1", "0.1.0", "1.0.0-0", "1.0.0-1", "1.0.0-2", "1.0.0-10", "1.0.0-11", "1.0.0-1a", "1.0.0-A",
	"1.0.0-a", "1.0.0-a.0", "1.0.0-a.1", "1.0.0-a.a", "1.0.0-a-", "1.0.0-alpha", "1.0.0-alpha.1", "1.0.0-alpha.beta", "1.0.0-beta",
	"1.0.0-beta.2", "1.0.0-beta.11", "1.0.0-rc.1", "1.0.0", "1.0.0+b", "1.0.0-rc.1+b.7", "1.0.0+0.0", "1.0.1", "1.1.0", "1.10.0", "1.9.0",
	"2.0.0", "9.0.0", "10.0.0", "18446744073709551616.0.0", "18446744073709551615.0.0", "1.0.0--", "1.0.0-a.-.b", "1.0.0-0a",
	// not versions
	"", "1", "1.0", "1.0.0.0", "v1.0.0", "01.0.0", "1.00.0", "1.0.00", "1.0.0-", "1.0.0-01", "1.0.0-a..b", "1.0.0-a.", "1.0.0+", "1.0.0+a..b",
	"1.0.0+a+b", "1.0.0-a+", "1.0.0 ", " 1.0.0", "1.0.0\n", "1.0.0-é", "٣.0.0", "1.0.0-a_b", "-1.0.0", "1.-1.0", "+1.0.0", "1.0.0-+b"}

// ---- driver ---------------------------------------------------------------------------------

type rawLine struct {
	Input json.RawMessage `json:"input"`
	Obs   json.RawMessage `json:"obs"`
}

// Run generates the cases of C20.
func Run(c *common.Ctx) error {
	g := &gen{c: c}
	// --- operation sequences (generated first: worker processes regenerate the same list)
	var seqs []Input
	// every regression shape in every world: plain root, root (or an ancestor) reached through a
	// symbolic link, in-root sources spelled through the link or through the real path
	shapes := g.regressionShapes()
	for _, sh := range shapes {
		for _, rl := range append([]string{"none"}, rootLinks...) {
			sh.RootLink = rl
			seqs = append(seqs, sh)
		}
	}
	nShapes := len(seqs)
	// every ordered pair of versions x overwrite x source kind on one plugin
	pool := append(append([]string{}, validVersions...), invalidVersions...)
	for _, vo := range pool {
		for _, vn := range pool {
			for _, ow := range []bool{false, true} {
				for _, fromDir := range []bool{false, true} {
					seqs = append(seqs, Input{Kind: "seq", RootLink: append([]string{"none"}, rootLinks...)[len(seqs)%5], Ops: []Op{
						g.simpleInstall("foo", vo, false, !fromDir), g.simpleInstall("foo", vn, ow, fromDir)}})
				}
			}
		}
	}
	nPairs := len(seqs) - nShapes
	// plugin names: the life of a plugin under every odd name, and every regression shape once more about
	// other names (the worlds cycle)
	seqs = append(seqs, g.nameShapes()...)
	for k, sh := range shapes {
		sh = renamed(sh, cycleNames(k))
		sh.RootLink = append([]string{"none"}, rootLinks...)[k%5]
		seqs = append(seqs, sh)
	}
	nNames := len(seqs) - nShapes - nPairs
	nRandom := 2500
	if c.Thorough() {
		nRandom = 30000
	}
	firstRandom := len(seqs)
	for i := 0; i < nRandom; i++ {
		seqs = append(seqs, g.sequence())
	}
	// 40 % of the random sequences are about other plugin names (drawn after the sequences themselves)
	nRenamed := 0
	for i := firstRandom; i < len(seqs); i++ {
		if g.chance(0.4) {
			seqs[i] = renamed(seqs[i], g.drawNames())
			nRenamed++
		}
	}

	seqs = append(seqs, g.slowShapes()...)
	for i := range seqs {
		for k := range seqs[i].Ops {
			if seqs[i].Ops[k].Ctx == "" {
				seqs[i].Ops[k].Ctx = "background"
			}
		}
		if seqs[i].RootLink == "" {
			seqs[i].RootLink = "none"
		}
		// spellings and relative roots: the random sequences draw them, everything else cycles through them
		if seqs[i].Spelling == "" {
			seqs[i].Spelling = spellings[i%len(spellings)]
			seqs[i].RelRoot = (i/len(spellings))%3 == 1
		}
	}

	// --- worker mode: run a share of the sequences and return
	if w := os.Getenv("C20_WORKER"); w != "" {
		var i, n int
		if _, err := fmt.Sscanf(w, "%d/%d", &i, &n); err != nil || n <= 0 {
			return fmt.Errorf("bad C20_WORKER %q", w)
		}
		for k := i; k < len(seqs); k += n {
			o, err := runSeq(filepath.Join(c.WorkDir, fmt.Sprintf("case%d", k)), seqs[k])
			if err != nil {
				return fmt.Errorf("sequence %d: %w", k, err)
			}
			c.Emit(seqs[k], o)
		}
		return nil
	}

	// --- parent: separate worker processes (concurrent fork+exec inside ONE process can hit
	// ETXTBSY on a script another goroutine has just written; processes do not share descriptors)
	nw := runtime.NumCPU()
	if nw > 8 {
		nw = 8
	}
	if nw < 1 {
		nw = 1
	}
	type child struct {
		cmd *exec.Cmd
		out string
	}
	var children []child
	for i := 0; i < nw; i++ {
		wd := filepath.Join(c.WorkDir, fmt.Sprintf("w%d", i))
		if err := os.MkdirAll(wd, 0o755); err != nil {
			return err
		}
		out := filepath.Join(wd, "cases.jsonl")
		cmd := exec.Command(os.Args[0], "C20", "-tier", c.Tier, "-seed", strconv.FormatInt(c.Seed, 10), "-out", out,
			"-stats", filepath.Join(wd, "stats.json"), "-work", filepath.Join(wd, "work"), "-cache", c.CacheDir)
		cmd.Env = append(os.Environ(), fmt.Sprintf("C20_WORKER=%d/%d", i, nw))
		cmd.Stderr = os.Stderr
		if err := os.MkdirAll(filepath.Join(wd, "work"), 0o755); err != nil {
			return err
		}
		if err := cmd.Start(); err != nil {
			return err
		}
		children = append(children, child{cmd, out})
	}
	var firstErr error
	for i, ch := range children {
		if err := ch.cmd.Wait(); err != nil && firstErr == nil {
			firstErr = fmt.Errorf("worker %d: %w", i, err)
		}
	}
	if firstErr != nil {
		return firstErr
	}
	readers := make([]*bufio.Scanner, nw)
	for i, ch := range children {
		f, err := os.Open(ch.out)
		if err != nil {
			return err
		}
		defer f.Close()
		readers[i] = bufio.NewScanner(f)
		readers[i].Buffer(make([]byte, 1<<20), 1<<26)
	}
	for k := range seqs {
		sc := readers[k%nw]
		if !sc.Scan() {
			return fmt.Errorf("worker %d produced no line for sequence %d", k%nw, k)
		}
		var l rawLine
		if err := json.Unmarshal(sc.Bytes(), &l); err != nil {
			return err
		}
		// the worker must have run exactly the sequence generated here
		want, _ := json.Marshal(seqs[k])
		if string(want) != string(l.Input) {
			return fmt.Errorf("worker %d ran another input for sequence %d", k%nw, k)
		}
		c.Emit(l.Input, l.Obs)
		c.Count(fmt.Sprintf("seq.len=%d", len(seqs[k].Ops)))
		var o Obs
		if err := json.Unmarshal(l.Obs, &o); err == nil {
			for j, s := range o.Steps {
				c.Count("step." + seqs[k].Ops[j].Kind + "." + s.Err)
			}
		}
	}

	// --- semver stream
	nSem := 0
	emitSem := func(v, w string) {
		in := Input{Kind: "semver", Ops: []Op{}, V: v, W: w}
		o := runSemver(in)
		c.Emit(in, o)
		nSem++
		switch {
		case o.Cmp == nil:
			c.Count("semver.invalid")
		default:
			c.Count(fmt.Sprintf("semver.cmp=%d", *o.Cmp))
		}
	}
	all := append(append([]string{}, semverFixed...), pool...)
	sort.Strings(all)
	for _, v := range all {
		for _, w := range all {
			emitSem(v, w)
		}
	}
	nGen := 20000
	if c.Thorough() {
		nGen = 300000
	}
	for i := 0; i < nGen; i++ {
		v := g.semverString()
		var w string
		switch g.c.Rand.Intn(4) {
		case 0:
			w = g.semverString()
		case 1:
			w = g.mutate(v)
		default:
			w = g.variant(v)
		}
		if g.c.Rand.Intn(5) == 0 {
			v = g.mutate(v)
		}
		if g.c.Rand.Intn(2) == 0 {
			v, w = w, v
		}
		emitSem(v, w)
	}
	c.Note("C20: %d operation sequences on a real plugin root with shell-script plugins (%d regression shapes, %d version-pair sequences = every ordered pair of %d versions x overwrite x source kind, %d plugin-name sequences = the life of a plugin under each of %d odd names (characters outside [a-zA-Z0-9_.-], spaces, non-ASCII, shell / pattern / format characters, case variants, dots, dashes, the prefix itself) + mixed roots + the regression shapes renamed, %d random sequences (%d of them renamed to odd plugin names) of 1..6 install/uninstall operations - interleaved with the world planting stale / hand-copied / malfunctioning plugin directories (plant) or deleting only the binary (rmexe), 10% on a plugin root that does not exist yet - over file modes (owner / group-other execute bits independent) and source shapes: file/dir, exec/non-exec candidates, extras sorting before/after, sub-directories incl. one named like the source, symlinks, misnamed/invalid metadata, odd names); %d semver pairs (all pairs of %d fixed strings + grammar-directed/mutated).",
		len(seqs), nShapes, nPairs, len(pool), nNames, len(oddNames), nRandom, nRenamed, nSem, len(all))
	return nil
}

package c18

import (
	"bytes"
	"encoding/json"
	"fmt"
	"math/rand"
	"strconv"
)

// JVal is a JSON document as written: members keep their order and duplicates.
type JVal struct {
	K string // z | b | n | s | a | o
	B bool
	N string // decimal integer literal
	S string
	A []JVal
	O []Member
}

type Member struct {
	Key string
	Val JVal
}

func Null() JVal                { return JVal{K: "z"} }
func Bool(b bool) JVal          { return JVal{K: "b", B: b} }
func Num(n int64) JVal          { return JVal{K: "n", N: strconv.FormatInt(n, 10)} }
func NumLit(s string) JVal      { return JVal{K: "n", N: s} }
func Str(s string) JVal         { return JVal{K: "s", S: s} }
func Arr(xs ...JVal) JVal       { return JVal{K: "a", A: append([]JVal{}, xs...)} }
func O(ms ...Member) JVal       { return JVal{K: "o", O: append([]Member{}, ms...)} }
func M(k string, v JVal) Member { return Member{k, v} }

// MarshalJSON emits the explicit AST the Lean model reads:
// ["z"] ["b",true] ["n",12] ["s","text"] ["a",[…]] ["o",[[key,val],…]]
func (v JVal) MarshalJSON() ([]byte, error) {
	var b bytes.Buffer
	v.wire(&b)
	return b.Bytes(), nil
}

func quote(s string) []byte {
	q, err := json.Marshal(s)
	if err != nil {
		fatal(err.Error())
	}
	return q
}

func (v JVal) wire(b *bytes.Buffer) {
	switch v.K {
	case "z":
		b.WriteString(`["z"]`)
	case "b":
		fmt.Fprintf(b, `["b",%v]`, v.B)
	case "n":
		fmt.Fprintf(b, `["n",%s]`, v.N)
	case "s":
		b.WriteString(`["s",`)
		b.Write(quote(v.S))
		b.WriteString(`]`)
	case "a":
		b.WriteString(`["a",[`)
		for i, x := range v.A {
			if i > 0 {
				b.WriteByte(',')
			}
			x.wire(b)
		}
		b.WriteString(`]]`)
	case "o":
		b.WriteString(`["o",[`)
		for i, m := range v.O {
			if i > 0 {
				b.WriteByte(',')
			}
			b.WriteByte('[')
			b.Write(quote(m.Key))
			b.WriteByte(',')
			m.Val.wire(b)
			b.WriteByte(']')
		}
		b.WriteString(`]]`)
	default:
		fatal("JVal: bad kind " + v.K)
	}
}

// Render writes the document as JSON text, members in order, duplicates kept.
func (v JVal) Render() []byte {
	var b bytes.Buffer
	v.render(&b)
	return b.Bytes()
}

func (v JVal) render(b *bytes.Buffer) {
	switch v.K {
	case "z":
		b.WriteString("null")
	case "b":
		fmt.Fprintf(b, "%v", v.B)
	case "n":
		b.WriteString(v.N)
	case "s":
		b.Write(quote(v.S))
	case "a":
		b.WriteByte('[')
		for i, x := range v.A {
			if i > 0 {
				b.WriteByte(',')
			}
			x.render(b)
		}
		b.WriteByte(']')
	case "o":
		b.WriteByte('{')
		for i, m := range v.O {
			if i > 0 {
				b.WriteByte(',')
			}
			b.Write(quote(m.Key))
			b.WriteByte(':')
			m.Val.render(b)
		}
		b.WriteByte('}')
	}
}

// RenderSpaced writes the same document with insignificant blanks between the tokens.
func (v JVal) RenderSpaced() []byte {
	var b bytes.Buffer
	v.renderSpaced(&b, 0)
	return b.Bytes()
}

func (v JVal) renderSpaced(b *bytes.Buffer, depth int) {
	ind := func(d int) {
		b.WriteString("\r\n")
		for i := 0; i < d; i++ {
			b.WriteString("\t ")
		}
	}
	switch v.K {
	case "a":
		b.WriteString("[ ")
		for i, x := range v.A {
			if i > 0 {
				b.WriteString(" ,")
			}
			ind(depth + 1)
			x.renderSpaced(b, depth+1)
		}
		ind(depth)
		b.WriteByte(']')
	case "o":
		b.WriteString("{ ")
		for i, m := range v.O {
			if i > 0 {
				b.WriteString(" ,")
			}
			ind(depth + 1)
			b.Write(quote(m.Key))
			b.WriteString(" :\t")
			m.Val.renderSpaced(b, depth+1)
		}
		ind(depth)
		b.WriteByte('}')
	default:
		v.render(b)
	}
}

func (v JVal) clone() JVal {
	c := v
	if v.A != nil {
		c.A = make([]JVal, len(v.A))
		for i, x := range v.A {
			c.A[i] = x.clone()
		}
	}
	if v.O != nil {
		c.O = make([]Member, len(v.O))
		for i, m := range v.O {
			c.O[i] = Member{m.Key, m.Val.clone()}
		}
	}
	return c
}

func lookupLast(ms []Member, k string) (JVal, int) {
	for i := len(ms) - 1; i >= 0; i-- {
		if ms[i].Key == k {
			return ms[i].Val, i
		}
	}
	return JVal{}, -1
}

func dupIn(ms []Member) bool {
	seen := map[string]bool{}
	for _, m := range ms {
		if seen[m.Key] {
			return true
		}
		seen[m.Key] = true
	}
	return false
}

// hasDup mirrors the model's `JVal.dupDeep`: some object, at any depth, repeats a member name.
func hasDup(v JVal) bool {
	switch v.K {
	case "a":
		for _, x := range v.A {
			if hasDup(x) {
				return true
			}
		}
	case "o":
		if dupIn(v.O) {
			return true
		}
		for _, m := range v.O {
			if hasDup(m.Val) {
				return true
			}
		}
	}
	return false
}

// descObj renders a descriptor the way notation does (annotations omitted when empty).
func descObj(d Desc) JVal {
	o := O(M("mediaType", Str(d.MediaType)), M("digest", Str(d.Digest)), M("size", Num(d.Size)))
	if len(d.Annotations) > 0 {
		a := O()
		for _, kv := range d.Annotations {
			a.O = append(a.O, M(kv[0], Str(kv[1])))
		}
		o.O = append(o.O, M("annotations", a))
	}
	return o
}

func goodPayload(d Desc) JVal { return O(M("targetArtifact", descObj(d))) }

func evilDesc(r *rand.Rand, d Desc) Desc {
	e := d
	e.Annotations = append([][2]string{}, d.Annotations...)
	switch r.Intn(4) {
	case 0:
		e.Digest = "sha256:" + fmt.Sprintf("%064x", r.Int63())
	case 1:
		e.Size = d.Size + 1
	case 2:
		e.MediaType = d.MediaType + "x"
	default:
		e.Digest = "sha256:" + fmt.Sprintf("%064x", r.Int63())
		e.Size = d.Size - 1
	}
	return e
}

var topSpellings = []string{"TargetArtifact", "targetartifact", "TARGETARTIFACT", "targetArtifact ", "target_artifact", "targetArtifacT", "TargetArtifaſt", "extra", ""}
var descSpellings = map[string][]string{
	"mediaType":   {"MediaType", "mediatype", "MEDIATYPE", "media_type", "mediaType "},
	"digest":      {"Digest", "DIGEST", "digeſt", "digeſt", "digest "},
	"size":        {"Size", "SIZE", "ſize", "sizE", "siz"},
	"annotations": {"Annotations", "ANNOTATIONS", "annotationſ", "annotation"},
}
var unknownDescKeys = []string{"foo", "io.evil", "subject", "config", "", "Urls", "DATA", "artifacttype", "Platform", "Key"}

func wrongTyped(r *rand.Rand) JVal {
	switch r.Intn(7) {
	case 0:
		return Num(int64(r.Intn(100)))
	case 1:
		return Bool(r.Intn(2) == 0)
	case 2:
		return Arr()
	case 3:
		return O()
	case 4:
		return Str("12")
	case 5:
		return Arr(Str("x"))
	default:
		return NumLit("9223372036854775808")
	}
}

// target returns a pointer to the last object-valued "targetArtifact" member, or nil.
func target(p *JVal) *JVal {
	if p.K != "o" {
		return nil
	}
	_, i := lookupLast(p.O, "targetArtifact")
	if i < 0 || p.O[i].Val.K != "o" {
		return nil
	}
	return &p.O[i].Val
}

func memberIndex(o *JVal, k string) int {
	_, i := lookupLast(o.O, k)
	return i
}

func insertAt(ms []Member, i int, m Member) []Member {
	out := append([]Member{}, ms[:i]...)
	out = append(out, m)
	return append(out, ms[i:]...)
}

const numPayloadMutations = 36

// mutatePayload applies payload mutation number m to in.Payload and names it.
func mutatePayload(r *rand.Rand, in *Input, m int) string {
	p := in.Payload.clone()
	defer func() { in.Payload = p }()
	t := target(&p)
	scalar := pick(r, "mediaType", "digest", "size")
	field := pick(r, "mediaType", "digest", "size", "annotations")
	noTarget := func(name string) string { return name + "(no target object)" }
	switch m {
	case 0: // another value
		if t == nil {
			return noTarget("otherValue")
		}
		e := descObj(evilDesc(r, in.Req))
		for i := range t.O {
			if v, j := lookupLast(e.O, t.O[i].Key); j >= 0 && t.O[i].Key != "annotations" {
				t.O[i].Val = v
			}
		}
		return "otherValue"
	case 1: // a scalar becomes null / wrong type
		if t == nil {
			return noTarget("scalarType")
		}
		if i := memberIndex(t, scalar); i >= 0 {
			if r.Intn(3) == 0 {
				t.O[i].Val = Null()
			} else {
				t.O[i].Val = wrongTyped(r)
			}
		}
		return "scalarNullOrWrongType"
	case 2: // drop a member
		if t == nil {
			return noTarget("drop")
		}
		if i := memberIndex(t, field); i >= 0 {
			t.O = append(t.O[:i], t.O[i+1:]...)
		}
		return "dropMember"
	case 3: // drop an annotation
		if t == nil {
			return noTarget("dropAnnotation")
		}
		if i := memberIndex(t, "annotations"); i >= 0 && len(t.O[i].Val.O) > 0 {
			a := &t.O[i].Val
			j := r.Intn(len(a.O))
			a.O = append(a.O[:j], a.O[j+1:]...)
		}
		return "dropAnnotation"
	case 4: // alter an annotation
		if t == nil {
			return noTarget("alterAnnotation")
		}
		if i := memberIndex(t, "annotations"); i >= 0 && len(t.O[i].Val.O) > 0 {
			a := &t.O[i].Val
			j := r.Intn(len(a.O))
			switch r.Intn(4) {
			case 0:
				a.O[j].Val = Str(a.O[j].Val.S + "!")
			case 1:
				a.O[j].Val = Null()
			case 2:
				a.O[j].Val = wrongTyped(r)
			default:
				a.O[j].Key = a.O[j].Key + "x"
			}
		}
		return "alterAnnotation"
	case 5: // extra annotation (allowed)
		if t == nil {
			return noTarget("extraAnnotation")
		}
		extra := M(pick(r, "plugin.added", "z", "a", "A"), Str(pick(r, "1", "new", "")))
		if i := memberIndex(t, "annotations"); i >= 0 && t.O[i].Val.K == "o" {
			a := &t.O[i].Val
			a.O = insertAt(a.O, r.Intn(len(a.O)+1), extra)
		} else if i < 0 {
			t.O = append(t.O, M("annotations", O(extra)))
		}
		return "extraAnnotation"
	case 6: // annotations: null / wrong type / empty
		if t == nil {
			return noTarget("annotationsValue")
		}
		v := Null()
		switch r.Intn(3) {
		case 0:
			v = wrongTyped(r)
		case 1:
			v = O()
		}
		if i := memberIndex(t, "annotations"); i >= 0 {
			t.O[i].Val = v
		} else {
			t.O = append(t.O, M("annotations", v))
		}
		return "annotationsValue"
	case 7: // duplicate annotation entry, first and last differing
		if t == nil {
			return noTarget("dupAnnotationEntry")
		}
		if i := memberIndex(t, "annotations"); i >= 0 && len(t.O[i].Val.O) > 0 {
			a := &t.O[i].Val
			j := r.Intn(len(a.O))
			other := M(a.O[j].Key, Str(a.O[j].Val.S+"?"))
			if r.Intn(2) == 0 {
				a.O = insertAt(a.O, 0, other)
			} else {
				a.O = append(a.O, other)
			}
		}
		return "dupAnnotationEntry"
	case 8: // extra member at payload level
		if p.K != "o" {
			return "extraTop(no object)"
		}
		var v JVal
		switch r.Intn(5) {
		case 0:
			v = descObj(in.Req)
		case 1:
			v = descObj(evilDesc(r, in.Req))
		case 2:
			v = Null()
		case 3:
			v = Str("x")
		default:
			v = O()
		}
		p.O = insertAt(p.O, r.Intn(len(p.O)+1), M(topSpellings[r.Intn(len(topSpellings))], v))
		return "extraTopMember"
	case 9: // unknown member at descriptor level
		if t == nil {
			return noTarget("unknownDescMember")
		}
		t.O = insertAt(t.O, r.Intn(len(t.O)+1), M(unknownDescKeys[r.Intn(len(unknownDescKeys))], pickVal(r)))
		return "unknownDescMember"
	case 10: // alternative spelling added next to the real member
		if t == nil {
			return noTarget("altSpellingAdded")
		}
		sp := descSpellings[field]
		var v JVal
		e := descObj(evilDesc(r, in.Req))
		if x, j := lookupLast(e.O, field); j >= 0 && r.Intn(3) > 0 {
			v = x
		} else if x, j := lookupLast(t.O, field); j >= 0 {
			v = x.clone()
		} else {
			v = Null()
		}
		t.O = insertAt(t.O, r.Intn(len(t.O)+1), M(sp[r.Intn(len(sp))], v))
		return "altSpellingAdded"
	case 11: // rename a descriptor member to an alternative spelling
		if t == nil {
			return noTarget("altSpellingRename")
		}
		if i := memberIndex(t, field); i >= 0 {
			sp := descSpellings[field]
			t.O[i].Key = sp[r.Intn(len(sp))]
		}
		return "altSpellingRename"
	case 12: // rename the top-level key
		if p.K != "o" {
			return "topRename(no object)"
		}
		if _, i := lookupLast(p.O, "targetArtifact"); i >= 0 {
			p.O[i].Key = topSpellings[r.Intn(len(topSpellings))]
		}
		return "topRename"
	case 13: // duplicate top-level key: evil first, good last
		if p.K != "o" {
			return "dupTop(no object)"
		}
		p.O = insertAt(p.O, 0, M("targetArtifact", descObj(evilDesc(r, in.Req))))
		return "dupTopEvilFirst"
	case 14: // duplicate top-level key: good first, evil last
		if p.K != "o" {
			return "dupTop(no object)"
		}
		p.O = append(p.O, M("targetArtifact", descObj(evilDesc(r, in.Req))))
		return "dupTopEvilLast"
	case 15: // duplicate top-level key: good first, then null / {} / partial
		if p.K != "o" {
			return "dupTop(no object)"
		}
		var v JVal
		switch r.Intn(4) {
		case 0:
			v = Null()
		case 1:
			v = O()
		case 2:
			v = Str("x")
		default:
			v = O(M("annotations", O(M("late", Str("1")))))
		}
		p.O = append(p.O, M("targetArtifact", v))
		return "dupTopThenOther"
	case 16: // the descriptor split over two top-level members
		if t == nil || len(t.O) < 2 {
			return noTarget("dupTopSplit")
		}
		k := 1 + r.Intn(len(t.O)-1)
		first := O(t.O[:k]...).clone()
		second := O(t.O[k:]...).clone()
		p = O(M("targetArtifact", first), M("targetArtifact", second))
		return "dupTopSplit"
	case 17: // duplicate descriptor member: evil first / evil last
		if t == nil {
			return noTarget("dupDescMember")
		}
		e := descObj(evilDesc(r, in.Req))
		if v, j := lookupLast(e.O, scalar); j >= 0 {
			if r.Intn(2) == 0 {
				t.O = insertAt(t.O, 0, M(scalar, v))
				return "dupDescMemberFirst"
			}
			t.O = append(t.O, M(scalar, v))
		}
		return "dupDescMemberLast"
	case 18: // duplicate descriptor member: value then null
		if t == nil {
			return noTarget("dupDescNull")
		}
		t.O = append(t.O, M(field, Null()))
		return "dupDescMemberThenNull"
	case 19: // duplicate annotations member (Go merges the two maps)
		if t == nil {
			return noTarget("dupAnnotations")
		}
		extra := M("annotations", O(M(pick(r, "late", "a", "b"), Str("L"))))
		if r.Intn(2) == 0 {
			t.O = insertAt(t.O, 0, extra)
		} else {
			t.O = append(t.O, extra)
		}
		return "dupAnnotationsMember"
	case 20: // annotations split over two members
		if t == nil {
			return noTarget("splitAnnotations")
		}
		if i := memberIndex(t, "annotations"); i >= 0 && len(t.O[i].Val.O) >= 2 {
			a := t.O[i].Val
			k := 1 + r.Intn(len(a.O)-1)
			t.O[i].Val = O(a.O[:k]...).clone()
			t.O = append(t.O, M("annotations", O(a.O[k:]...).clone()))
		}
		return "splitAnnotations"
	case 21: // targetArtifact is not an object
		if p.K != "o" {
			return "targetValue(no object)"
		}
		if _, i := lookupLast(p.O, "targetArtifact"); i >= 0 {
			p.O[i].Val = pickNonObject(r)
		}
		return "targetNotObject"
	case 22: // the document is not an object
		p = pickNonObject(r)
		return "documentNotObject"
	case 23: // empty documents
		p = pick2(r, O(), O(M("targetArtifact", O())))
		return "emptyDocument"
	case 24: // shuffle descriptor members
		if t == nil {
			return noTarget("shuffle")
		}
		r.Shuffle(len(t.O), func(i, j int) { t.O[i], t.O[j] = t.O[j], t.O[i] })
		return "shuffleMembers"
	case 25: // known extra descriptor fields, well typed
		if t == nil {
			return noTarget("knownExtra")
		}
		t.O = insertAt(t.O, r.Intn(len(t.O)+1), knownExtra(r, true))
		return "knownExtraWellTyped"
	case 26: // known extra descriptor fields, ill typed
		if t == nil {
			return noTarget("knownExtraIllTyped")
		}
		t.O = insertAt(t.O, r.Intn(len(t.O)+1), knownExtra(r, false))
		return "knownExtraIllTyped"
	case 27: // size edge values
		if t == nil {
			return noTarget("sizeEdge")
		}
		if i := memberIndex(t, "size"); i >= 0 {
			t.O[i].Val = NumLit(pick(r, "9223372036854775807", "9223372036854775808", "-9223372036854775808", "-9223372036854775809", "-0", "0", "-1", "18446744073709551616"))
		}
		return "sizeEdge"
	case 28: // evil descriptor under an alternative top-level spelling, placed last
		if p.K != "o" {
			return "altTopEvil(no object)"
		}
		p.O = append(p.O, M(pick(r, "TargetArtifact", "targetartifact", "TARGETARTIFACT", "TargetArtifaſt"), descObj(evilDesc(r, in.Req))))
		return "altTopEvilLast"
	case 29: // good descriptor only under an alternative spelling + evil under the exact one first
		p = O(M("targetArtifact", descObj(evilDesc(r, in.Req))), M(pick(r, "TargetArtifact", "targetartifact"), descObj(in.Req)))
		return "exactEvilThenAltGood"
	case 30: // nested: the descriptor one level too deep
		p = O(M("targetArtifact", O(M("targetArtifact", descObj(in.Req)))))
		return "nestedTarget"
	case 31: // alternative spelling of a scalar carrying the evil value placed AFTER the exact one
		if t == nil {
			return noTarget("altSpellingEvilLast")
		}
		e := descObj(evilDesc(r, in.Req))
		sp := descSpellings[scalar]
		if v, j := lookupLast(e.O, scalar); j >= 0 {
			t.O = append(t.O, M(sp[r.Intn(len(sp))], v))
		}
		return "altSpellingEvilLast"
	case 32: // platform member with members of its own
		if t == nil {
			return noTarget("platform")
		}
		pm := O(M(pick(r, "architecture", "Architecture", "os", "OS", "os.version", "variant", "other"), pickVal(r)),
			M(pick(r, "os.features", "OS.Features", "os.features", "x"), pick2(r, Arr(Str("f"), Null()), pickVal(r))))
		t.O = append(t.O, M("platform", pm))
		return "platformMembers"
	case 33: // a random document
		p = randomJVal(r, 3)
		return "randomDocument"
	case 34: // a duplicate member name deep inside an otherwise acceptable payload
		if t == nil {
			return noTarget("deepDuplicate")
		}
		switch r.Intn(4) {
		case 0:
			t.O = append(t.O, M("platform", O(M("os", Str("linux")), M("os", Str("linux")))))
		case 1:
			t.O = append(t.O, M("platform", O(M("architecture", Str("amd64")), M("unknown", O(M("x", Num(1)), M("x", Num(1)))))))
		case 2:
			t.O = append(t.O, M("platform", O(M("os.features", Arr(Str("f"))), M("skipped", Arr(Arr(O(M("k", Null()), M("k", Null()))))))))
		default:
			t.O = append(t.O, M("urls", Arr()), M("platform", O(M("variant", Null()), M("variant", Str("v8")))))
		}
		return "deepDuplicate"
	default: // 35: an exact copy of a member next to the original (same name, same value)
		if t == nil {
			return noTarget("identicalDuplicate")
		}
		switch r.Intn(3) {
		case 0:
			p.O = append(p.O, M("targetArtifact", t.clone()))
		case 1:
			if len(t.O) == 0 {
				return noTarget("identicalDuplicate")
			}
			j := r.Intn(len(t.O))
			t.O = append(t.O, M(t.O[j].Key, t.O[j].Val.clone()))
		default:
			if i := memberIndex(t, "annotations"); i >= 0 && len(t.O[i].Val.O) > 0 {
				a := &t.O[i].Val
				j := r.Intn(len(a.O))
				a.O = append(a.O, M(a.O[j].Key, a.O[j].Val.clone()))
			} else {
				t.O = append(t.O, M("digest", Str(in.Req.Digest)))
			}
		}
		return "identicalDuplicate"
	}
}

func pick2(r *rand.Rand, xs ...JVal) JVal { return xs[r.Intn(len(xs))] }

func pickNonObject(r *rand.Rand) JVal {
	return pick2(r, Null(), Str("x"), Num(1), Bool(true), Arr(), Arr(O()), Str(""))
}

func pickVal(r *rand.Rand) JVal {
	return pick2(r, Null(), Str("x"), Str(""), Num(7), Bool(false), Arr(), Arr(Str("u")), O(), O(M("k", Str("v"))))
}

func knownExtra(r *rand.Rand, wellTyped bool) Member {
	if wellTyped {
		switch r.Intn(8) {
		case 0:
			return M("urls", Arr(Str("https://example.com/x")))
		case 1:
			return M("urls", pick2(r, Null(), Arr(), Arr(Null(), Str("u"))))
		case 2:
			return M("data", Str(pick(r, "", "aGVsbG8=", "aGVsbA==", "aGVsbG8h", "aGVs\nbG8h", "ab==", "abc=")))
		case 3:
			return M("data", pick2(r, Null(), Arr(Num(1), Num(255)), Arr()))
		case 4:
			return M("platform", O(M("architecture", Str("amd64")), M("os", Str("linux"))))
		case 5:
			return M("platform", pick2(r, Null(), O(), O(M("os.features", Arr(Str("a")))), O(M("unknown", Num(1)))))
		case 6:
			return M("artifactType", Str("application/vnd.example"))
		default:
			return M("artifactType", Null())
		}
	}
	switch r.Intn(8) {
	case 0:
		return M("urls", pick2(r, Str("u"), Arr(Num(1)), O(), Num(3), Bool(true)))
	case 1:
		return M("data", Str(pick(r, "not base64!", "a", "abc", "ab=c", "a===", "=abc", "aGVsbG8", "ab==cd==")))
	case 2:
		return M("data", pick2(r, Num(1), Arr(Num(256)), Arr(Num(-1)), Arr(Str("x")), O(), Bool(false)))
	case 3:
		return M("platform", pick2(r, Str("linux"), Arr(), Num(1), Bool(true)))
	case 4:
		return M("platform", O(M(pick(r, "architecture", "OS", "Variant", "os.version"), pick2(r, Num(1), Arr(), O(), Bool(true)))))
	case 5:
		return M("platform", O(M("os.features", pick2(r, Str("x"), Arr(Num(1)), O()))))
	case 6:
		return M("artifactType", pick2(r, Num(1), Arr(), O(), Bool(true)))
	default:
		return M(pick(r, "URLS", "Data", "ArtifactType"), Num(1)) // ill typed AND unknown spelling
	}
}

var randKeys = []string{"targetArtifact", "TargetArtifact", "mediaType", "digest", "size", "annotations", "urls", "data", "platform", "artifactType", "x", "Size", "ſize"}

func randomJVal(r *rand.Rand, depth int) JVal {
	k := r.Intn(8)
	if depth == 0 && k >= 5 {
		k = r.Intn(5)
	}
	switch k {
	case 0:
		return Null()
	case 1:
		return Bool(r.Intn(2) == 0)
	case 2:
		return Num(int64(r.Intn(300)) - 20)
	case 3:
		return Str(pick(r, "", "x", "sha256:00", "aGk="))
	case 4:
		return Str(pick(r, "application/octet-stream", "m"))
	case 5:
		n := r.Intn(3)
		a := Arr()
		for i := 0; i < n; i++ {
			a.A = append(a.A, randomJVal(r, depth-1))
		}
		return a
	default:
		n := r.Intn(4)
		o := O()
		for i := 0; i < n; i++ {
			o.O = append(o.O, M(randKeys[r.Intn(len(randKeys))], randomJVal(r, depth-1)))
		}
		return o
	}
}

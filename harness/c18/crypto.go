package c18

import (
	"crypto"
	"crypto/ecdsa"
	"crypto/elliptic"
	"crypto/rand"
	"crypto/rsa"
	_ "crypto/sha256"
	_ "crypto/sha512"
	"crypto/x509"
	"encoding/asn1"
	"encoding/base64"
	"encoding/hex"
	"encoding/json"
	"fmt"
	"io"
	"math/big"
	"os"
	"path/filepath"
	"time"

	"github.com/fxamacker/cbor/v2"
	"github.com/notaryproject/notation-go/xverif/common"
	"github.com/veraison/go-cose"
)

// keySet is everything the scripted plugin owns for one key spec.
type keySet struct {
	name       string
	key        crypto.Signer // the plugin's signing key
	other      crypto.Signer // another key of the same spec
	hash       crypto.Hash
	wrongHash  crypto.Hash
	jwsAlg     string
	coseAlg    cose.Algorithm
	chainOK    [][]byte // leaf, root
	chainSelf  [][]byte // self-signed leaf
	chainOther [][]byte // leaf (for `other`), root
}

type world struct {
	keys map[string]*keySet
}

// secondKey returns another key of the spec, cached next to the pool keys.
func secondKey(cacheDir, spec string) crypto.Signer {
	var path string
	if cacheDir != "" {
		path = filepath.Join(cacheDir, "key2-"+spec+".pk8")
		if b, err := os.ReadFile(path); err == nil {
			if k, err := x509.ParsePKCS8PrivateKey(b); err == nil {
				return k.(crypto.Signer)
			}
		}
	}
	var k crypto.Signer
	var err error
	switch spec {
	case "RSA-2048":
		k, err = rsa.GenerateKey(rand.Reader, 2048)
	case "RSA-3072":
		k, err = rsa.GenerateKey(rand.Reader, 3072)
	case "RSA-4096":
		k, err = rsa.GenerateKey(rand.Reader, 4096)
	case "EC-256":
		k, err = ecdsa.GenerateKey(elliptic.P256(), rand.Reader)
	case "EC-384":
		k, err = ecdsa.GenerateKey(elliptic.P384(), rand.Reader)
	case "EC-521":
		k, err = ecdsa.GenerateKey(elliptic.P521(), rand.Reader)
	}
	if err != nil || k == nil {
		fatal(fmt.Sprintf("secondKey %s: %v", spec, err))
	}
	if path != "" {
		if b, err := x509.MarshalPKCS8PrivateKey(k); err == nil {
			os.MkdirAll(cacheDir, 0o755)
			os.WriteFile(path, b, 0o600)
		}
	}
	return k
}

func der(c *common.Chain) [][]byte {
	out := [][]byte{}
	for _, x := range c.X509() {
		out = append(out, x.Raw)
	}
	return out
}

func newWorld(cacheDir string) *world {
	w := &world{keys: map[string]*keySet{}}
	algs := map[string]struct {
		h, wrong crypto.Hash
		jws      string
		cose     cose.Algorithm
	}{
		"rsa2048": {crypto.SHA256, crypto.SHA384, "PS256", cose.AlgorithmPS256},
		"rsa3072": {crypto.SHA384, crypto.SHA256, "PS384", cose.AlgorithmPS384},
		"rsa4096": {crypto.SHA512, crypto.SHA256, "PS512", cose.AlgorithmPS512},
		"ec256":   {crypto.SHA256, crypto.SHA384, "ES256", cose.AlgorithmES256},
		"ec384":   {crypto.SHA384, crypto.SHA512, "ES384", cose.AlgorithmES384},
		"ec521":   {crypto.SHA512, crypto.SHA256, "ES512", cose.AlgorithmES512},
	}
	for _, name := range keyNames {
		spec := specOf[name]
		a := algs[name]
		ks := &keySet{name: name, key: common.PoolKey(cacheDir, spec), other: secondKey(cacheDir, spec),
			hash: a.h, wrongHash: a.wrong, jwsAlg: a.jws, coseAlg: a.cose}
		ks.chainOK = der(common.MakeChain(common.ChainOpts{Tag: "c18 " + name, LeafKey: ks.key}))
		ks.chainSelf = der(common.MakeChain(common.ChainOpts{Tag: "c18 self " + name, LeafKey: ks.key, SelfSignedLeaf: true}))
		ks.chainOther = der(common.MakeChain(common.ChainOpts{Tag: "c18 other " + name, LeafKey: ks.other}))
		w.keys[name] = ks
	}
	return w
}

// rawSign produces the primitive signature notation expects from a plugin:
// RSASSA-PSS with salt length = hash length, or ECDSA as fixed-size r||s.
func rawSign(key crypto.Signer, h crypto.Hash, data []byte) []byte {
	hh := h.New()
	hh.Write(data)
	d := hh.Sum(nil)
	switch k := key.(type) {
	case *rsa.PrivateKey:
		sig, err := rsa.SignPSS(rand.Reader, k, h, d, &rsa.PSSOptions{SaltLength: rsa.PSSSaltLengthEqualsHash})
		if err != nil {
			fatal(err.Error())
		}
		return sig
	case *ecdsa.PrivateKey:
		r, s, err := ecdsa.Sign(rand.Reader, k, d)
		if err != nil {
			fatal(err.Error())
		}
		n := (k.Curve.Params().BitSize + 7) / 8
		sig := make([]byte, 2*n)
		r.FillBytes(sig[:n])
		s.FillBytes(sig[n:])
		return sig
	}
	fatal("rawSign: unsupported key")
	return nil
}

func signWithMode(mode string, ks *keySet, data []byte) []byte {
	switch mode {
	case "good":
		return rawSign(ks.key, ks.hash, data)
	case "flipped":
		sig := rawSign(ks.key, ks.hash, data)
		sig[len(sig)/2] ^= 0x20
		return sig
	case "otherKey":
		return rawSign(ks.other, ks.hash, data)
	case "wrongHash":
		return rawSign(ks.key, ks.wrongHash, data)
	case "emptySig":
		return []byte{}
	}
	fatal("signWithMode: " + mode)
	return nil
}

// buildJWS assembles a JWS JSON-serialization envelope around payload bytes that are carried
// verbatim (notation-core-go's own JWS signer would re-marshal the payload through a map).
func buildJWS(payload []byte, cty, key string, chain [][]byte, sign func([]byte) []byte) ([]byte, error) {
	alg := map[string]string{"rsa2048": "PS256", "rsa3072": "PS384", "rsa4096": "PS512", "ec256": "ES256", "ec384": "ES384", "ec521": "ES512"}[key]
	prot, err := json.Marshal(struct {
		Alg    string   `json:"alg"`
		Crit   []string `json:"crit"`
		Cty    string   `json:"cty"`
		Scheme string   `json:"io.cncf.notary.signingScheme"`
		Time   string   `json:"io.cncf.notary.signingTime"`
	}{alg, []string{"io.cncf.notary.signingScheme"}, cty, "notary.x509", time.Now().UTC().Truncate(time.Second).Format(time.RFC3339)})
	if err != nil {
		return nil, err
	}
	p64 := base64.RawURLEncoding.EncodeToString(prot)
	pl64 := base64.RawURLEncoding.EncodeToString(payload)
	sig := sign([]byte(p64 + "." + pl64))
	type hdr struct {
		X5c [][]byte `json:"x5c"`
	}
	return json.Marshal(struct {
		Payload   string `json:"payload"`
		Protected string `json:"protected"`
		Header    hdr    `json:"header"`
		Signature string `json:"signature"`
	}{pl64, p64, hdr{chain}, base64.RawURLEncoding.EncodeToString(sig)})
}

type coseSigner struct {
	alg  cose.Algorithm
	sign func([]byte) []byte
}

func (s coseSigner) Algorithm() cose.Algorithm { return s.alg }
func (s coseSigner) Sign(_ io.Reader, content []byte) ([]byte, error) {
	sig := s.sign(content)
	if len(sig) == 0 {
		// go-cose refuses to encode an empty signature: the closest encodable answer
		sig = []byte{0}
	}
	return sig, nil
}

// buildCOSE assembles a COSE_Sign1 envelope the way notation-core-go does; payload bytes verbatim.
func buildCOSE(payload []byte, cty, key string, chain [][]byte, sign func([]byte) []byte) ([]byte, error) {
	alg := map[string]cose.Algorithm{"rsa2048": cose.AlgorithmPS256, "rsa3072": cose.AlgorithmPS384, "rsa4096": cose.AlgorithmPS512,
		"ec256": cose.AlgorithmES256, "ec384": cose.AlgorithmES384, "ec521": cose.AlgorithmES512}[key]
	msg := cose.NewSign1Message()
	msg.Headers.Protected.SetAlgorithm(alg)
	msg.Headers.Protected["io.cncf.notary.signingScheme"] = "notary.x509"
	em, err := cbor.EncOptions{Time: cbor.TimeUnix, TimeTag: cbor.EncTagRequired}.EncMode()
	if err != nil {
		return nil, err
	}
	t, err := em.Marshal(time.Now().Truncate(time.Second))
	if err != nil {
		return nil, err
	}
	msg.Headers.Protected["io.cncf.notary.signingTime"] = cbor.RawMessage(t)
	msg.Headers.Protected[cose.HeaderLabelCritical] = []any{"io.cncf.notary.signingScheme"}
	msg.Headers.Protected[cose.HeaderLabelContentType] = cty
	msg.Payload = payload
	if err := msg.Sign(rand.Reader, nil, coseSigner{alg, sign}); err != nil {
		return nil, err
	}
	certs := make([]any, len(chain))
	for i, c := range chain {
		certs[i] = c
	}
	msg.Headers.Unprotected[cose.HeaderLabelX5Chain] = certs
	return msg.MarshalCBOR()
}

// fatal reports a bug of the harness itself: loud, and never mistaken for a panic of the signer
// (the signing calls run under recover).
func fatal(msg string) {
	fmt.Fprintln(os.Stderr, "c18 harness:", msg)
	os.Exit(3)
}

// sigEncodings are the wire forms of the signature bytes other than the one the plugin contract names ("fixed").
var sigEncodings = []string{"der", "derWideR", "derWideS", "derHuge", "derNegative", "derZero", "derTrailing", "derTruncated",
	"padded", "truncated", "extended", "doubled", "oneByte", "b64", "hex"}

// encodeSig writes a signature (RSASSA-PSS octets, or ECDSA r||s) in another wire form. The two halves of the
// octets are taken as the integers r and s (for ECDSA they are; for RSA it is just a way to write the octets).
func encodeSig(enc string, sig []byte) []byte {
	if enc == "" || enc == "fixed" {
		return sig
	}
	h := len(sig) / 2
	r, s := new(big.Int).SetBytes(sig[:h]), new(big.Int).SetBytes(sig[h:])
	seq := func(r, s *big.Int) []byte {
		b, err := asn1.Marshal(struct{ R, S *big.Int }{r, s})
		if err != nil {
			fatal("encodeSig: " + err.Error())
		}
		return b
	}
	wide := new(big.Int).Lsh(big.NewInt(1), uint(8*(len(sig)-h))) // one bit more than a half can hold
	switch enc {
	case "der":
		return seq(r, s)
	case "derWideR":
		return seq(wide, s)
	case "derWideS":
		return seq(r, wide)
	case "derHuge":
		return seq(new(big.Int).Lsh(big.NewInt(1), uint(16*len(sig)+599)), big.NewInt(1))
	case "derNegative":
		return seq(new(big.Int).Neg(new(big.Int).Add(r, big.NewInt(1))), s)
	case "derZero":
		return seq(big.NewInt(0), big.NewInt(0))
	case "derTrailing":
		return append(seq(r, s), 0x00)
	case "derTruncated":
		b := seq(r, s)
		return b[:len(b)-1]
	case "padded":
		out := append([]byte{0}, sig[:h]...)
		out = append(out, 0)
		return append(out, sig[h:]...)
	case "truncated":
		if len(sig) == 0 {
			return []byte{}
		}
		return append([]byte(nil), sig[:len(sig)-1]...)
	case "extended":
		return append(append([]byte(nil), sig...), 0x00)
	case "doubled":
		return append(append([]byte(nil), sig...), sig...)
	case "oneByte":
		if len(sig) == 0 {
			return []byte{0x30}
		}
		return []byte{sig[0]}
	case "b64":
		return []byte(base64.StdEncoding.EncodeToString(sig))
	case "hex":
		return []byte(hex.EncodeToString(sig))
	}
	fatal("encodeSig: " + enc)
	return nil
}

package c18

import (
	"fmt"
	"math/rand"
)

// The duplicate-name scanner of the signer (findDuplicateKey) is a token state machine with an
// explicit stack. These payloads walk it through its states: a member name repeated (or not: the
// controls) at every depth, with members of every value shape - arrays (empty, of scalars, nested,
// of objects), objects, strings that look like brackets / quotes / member names, scalars - placed
// before, between and after the two occurrences. Everything else in the payload is acceptable, so
// the signer's answer is the scanner's verdict, which must equal the model's `JVal.dupDeep`.

type scanCase struct {
	tag     string
	payload JVal
}

// separators that may stand anywhere (inside `platform`, whose unknown members the struct decoder skips)
func anySeps() []struct {
	name string
	val  JVal
} {
	return []struct {
		name string
		val  JVal
	}{
		{"emptyArray", Arr()},
		{"scalarArray", Arr(Str("a"), Num(1), Null(), Bool(true))},
		{"nestedArrays", Arr(Arr(), Arr(Arr(Num(1)), Arr()))},
		{"arrayOfObjects", Arr(O(M("a", Num(1))), O(M("a", Num(2)), M("b", Arr())))},
		{"arrayOfNames", Arr(Str("n"), Str("n"), Str("m"))},
		{"emptyObject", O()},
		{"object", O(M("p", Str("q")), M("r", Num(2)))},
		{"objectWithArray", O(M("p", Arr(Num(1), Arr())), M("q", Str("n")))},
		{"bracketString", Str("]}[{,:")},
		{"quoteString", Str("a\"b\\\"]")},
		{"nameString", Str("n")},
		{"number", Num(7)},
		{"null", Null()},
		{"bool", Bool(false)},
	}
}

// scopeAt wraps members into an object placed at the given depth below `platform`
// (2: platform itself, 3: object in platform, 4: object in an array in platform, 5: deeper mix).
func scopeAt(depth int, ms []Member) JVal {
	o := O(ms...)
	switch depth {
	case 2:
		return o
	case 3:
		return O(M("first", Arr(Str("x"))), M("w", o), M("last", Str("n")))
	case 4:
		return O(M("w", Arr(Num(0), o, Str("n"))), M("after", Arr()))
	default:
		return O(M("w", Arr(Arr(O(M("z", o), M("y", Arr(Arr())))))), M("v", O()))
	}
}

// scannerCases lists the systematic cases for a request without annotations.
func scannerCases(req Desc) []scanCase {
	var out []scanCase
	base := func() []Member {
		return []Member{M("mediaType", Str(req.MediaType)), M("digest", Str(req.Digest)), M("size", Num(req.Size))}
	}
	with := func(ms []Member) JVal { return O(M("targetArtifact", O(ms...))) }

	// --- depth 1: the descriptor's own members; separators must be well-typed known members
	d1seps := []Member{
		M("urls", Arr()),
		M("urls", Arr(Str("https://example.com/a"))),
		M("urls", Arr(Str("digest"), Str("mediaType"), Str("digest"))),
		M("urls", Arr(Null(), Str("u"), Null())),
		M("data", Arr(Num(1), Num(2))),
		M("data", Str("aGk=")),
		M("platform", O()),
		M("platform", O(M("x", Arr(Num(1), Arr(Num(2)))), M("os", Str("linux")))),
		M("platform", O(M("x", O(M("digest", Str("d")))), M("y", Arr(O(M("digest", Num(1))))))),
		M("artifactType", Str("]}[{\"digest\"")),
		M("annotations", O(M("digest", Str("mediaType")))),
	}
	pairs := []struct {
		name        string
		first, last JVal
	}{
		{"digest", Str("sha256:" + fmt.Sprintf("%064x", 0xbad)), Str(req.Digest)},
		{"digest", Str(req.Digest), Str(req.Digest)},
		{"mediaType", Str(req.MediaType + "x"), Str(req.MediaType)},
		{"size", Num(req.Size + 1), Num(req.Size)},
	}
	for si, sep := range d1seps {
		for pi, p := range pairs {
			rest := func() []Member {
				var r []Member
				for _, m := range base() {
					if m.Key != p.name {
						r = append(r, m)
					}
				}
				return r
			}
			tag := fmt.Sprintf("d1/sep%d/%s%d", si, p.name, pi)
			// separator BEFORE both occurrences (the scanner state after the separator decides)
			out = append(out, scanCase{tag + "/sepBefore/dup", with(append(append([]Member{sep}, rest()...), M(p.name, p.first), M(p.name, p.last)))})
			// separator BETWEEN
			out = append(out, scanCase{tag + "/sepBetween/dup", with(append(append(rest(), M(p.name, p.first), sep), M(p.name, p.last)))})
			// separator directly before the pair, other members first
			out = append(out, scanCase{tag + "/sepDirectlyBefore/dup", with(append(append(rest(), sep), M(p.name, p.first), M(p.name, p.last)))})
		}
		// controls: no name repeated, the separator in every position; values that equal member names
		b := base()
		out = append(out, scanCase{fmt.Sprintf("d1/sep%d/first/control", si), with(append([]Member{sep}, b...))})
		out = append(out, scanCase{fmt.Sprintf("d1/sep%d/middle/control", si), with(append(append([]Member{b[0]}, sep), b[1:]...))})
		out = append(out, scanCase{fmt.Sprintf("d1/sep%d/last/control", si), with(append(b, sep))})
		if sep.Key != "artifactType" {
			out = append(out, scanCase{fmt.Sprintf("d1/sep%d/nameAsValue/control", si), with(append(append([]Member{sep}, b...), M("artifactType", Str("digest"))))})
		}
	}
	// two separators of different kinds in a row before the pair
	for i := 0; i+1 < len(d1seps); i++ {
		if d1seps[i].Key == d1seps[i+1].Key {
			continue
		}
		p := pairs[0]
		out = append(out, scanCase{fmt.Sprintf("d1/twoSeps%d/dup", i), with([]Member{d1seps[i], d1seps[i+1], M("mediaType", Str(req.MediaType)), M("size", Num(req.Size)), M(p.name, p.first), M(p.name, p.last)})})
		out = append(out, scanCase{fmt.Sprintf("d1/twoSeps%d/control", i), with(append([]Member{d1seps[i], d1seps[i+1]}, base()...))})
	}

	// --- depth 2..5: anything goes below `platform`
	for depth := 2; depth <= 5; depth++ {
		for _, sep := range anySeps() {
			s := M("s", sep.val)
			for _, vals := range [][2]JVal{{Num(1), Num(2)}, {Str("m"), Str("n")}, {Arr(Str("n")), O(M("n", Null()))}} {
				variants := []struct {
					pos string
					ms  func(second string) []Member
				}{
					{"sepBefore", func(second string) []Member { return []Member{s, M("n", vals[0]), M(second, vals[1])} }},
					{"sepBetween", func(second string) []Member { return []Member{M("n", vals[0]), s, M(second, vals[1])} }},
					{"sepAfter", func(second string) []Member { return []Member{M("n", vals[0]), M(second, vals[1]), s} }},
					{"otherBetween", func(second string) []Member {
						return []Member{s, M("n", vals[0]), M("k", Str("n")), M(second, vals[1])}
					}},
				}
				for _, v := range variants {
					for _, second := range []string{"n", "m", "N"} {
						kind := "dup"
						if second != "n" {
							kind = "control"
						}
						if second == "N" && v.pos != "sepBetween" { // a case variant is another name: one position is enough
							continue
						}
						plat := scopeAt(depth, v.ms(second))
						// the platform member first, so that the descriptor's own members follow the structure
						ms := append([]Member{M("platform", plat)}, base()...)
						if depth%2 == 0 {
							ms = append(base(), M("platform", plat))
						}
						out = append(out, scanCase{fmt.Sprintf("d%d/%s/%s/%s/%s", depth, sep.name, v.pos, vals[0].K+vals[1].K, kind), with(ms)})
					}
				}
			}
		}
	}
	return out
}

var scanNames = []string{"n", "m", "k", "n"}

// randomScannerJVal builds a random document over a tiny name pool, so that repeated names are frequent.
func randomScannerJVal(r *rand.Rand, depth int) JVal {
	k := r.Intn(9)
	if depth == 0 && k >= 5 {
		k = r.Intn(5)
	}
	switch k {
	case 0:
		return Null()
	case 1:
		return Num(int64(r.Intn(3)))
	case 2:
		return Str(pick(r, "n", "m", "]", "{", "\"", ""))
	case 3:
		return Bool(r.Intn(2) == 0)
	case 4:
		return Arr()
	case 5, 6:
		a := Arr()
		for i := r.Intn(4); i > 0; i-- {
			a.A = append(a.A, randomScannerJVal(r, depth-1))
		}
		return a
	default:
		o := O()
		names := r.Perm(5)
		for i := r.Intn(4); i > 0; i-- {
			name := fmt.Sprintf("n%d", names[i]) // distinct by default …
			if r.Intn(6) == 0 {
				name = scanNames[r.Intn(len(scanNames))] // … sometimes from the clash pool
			}
			o.O = append(o.O, M(name, randomScannerJVal(r, depth-1)))
		}
		return o
	}
}

// randomScannerPayload hides a random document under `platform` of an otherwise perfect payload.
func randomScannerPayload(r *rand.Rand, req Desc) JVal {
	doc := randomScannerJVal(r, 4)
	if doc.K != "o" {
		doc = O(M("x", doc))
	}
	ms := []Member{M("mediaType", Str(req.MediaType)), M("digest", Str(req.Digest)), M("size", Num(req.Size))}
	pos := r.Intn(len(ms) + 1)
	ms = insertAt(ms, pos, M("platform", doc))
	if r.Intn(3) == 0 {
		ms = insertAt(ms, r.Intn(len(ms)+1), M("urls", pick2(r, Arr(), Arr(Str("u")), Arr(Str("digest"), Str("digest")))))
	}
	if r.Intn(6) == 0 { // a late repeated descriptor member, requested value last
		ms = append(ms, M("digest", Str(req.Digest)))
	}
	return O(M("targetArtifact", O(ms...)))
}

// Package c18 drives the real signer.PluginSigner (Sign and SignBlob) against a scripted
// plugin.SignPlugin that answers adversarially: envelopes (JWS assembled by hand, COSE
// through go-cose) over ARBITRARY payload documents signed with real keys of the six key
// specs, wrong echoes, other formats, broken signatures and chains, and raw-signature
// answers with mismatching key ids, key specs, chains and signatures.
// The payload travels to the Lean model as an explicit AST (order and duplicate keys kept)
// and is rendered to bytes by this package's own serializer (json.go).
package c18

import (
	"bytes"
	"context"
	"encoding/json"
	"errors"
	"fmt"
	"io"
	"math/rand"
	"os"
	"reflect"
	"strconv"
	"strings"

	"github.com/notaryproject/notation-core-go/signature"
	_ "github.com/notaryproject/notation-core-go/signature/cose"
	_ "github.com/notaryproject/notation-core-go/signature/jws"
	"github.com/notaryproject/notation-go"
	"github.com/notaryproject/notation-go/signer"
	"github.com/notaryproject/notation-go/xverif/common"
	pluginfw "github.com/notaryproject/notation-plugin-framework-go/plugin"
	"github.com/opencontainers/go-digest"
	ocispec "github.com/opencontainers/image-spec/specs-go/v1"
)

type Desc struct {
	MediaType   string      `json:"mediaType"`
	Digest      string      `json:"digest"`
	Size        int64       `json:"size"`
	Annotations [][2]string `json:"annotations"`
}

// oddMediaTypes are what a signed descriptor may carry where the request has none
var otherMediaTypes = []string{"application/vnd.oci.image.index.v1+json", "text/x-shellscript", "x", " "}

type Input struct {
	Api       string `json:"api"`    // sign | signBlob
	Cap       string `json:"cap"`    // envelope | raw | both | neither
	Format    string `json:"format"` // jws | cose
	Key       string `json:"key"`    // rsa2048 … ec521
	Req       Desc   `json:"req"`
	PluginErr string `json:"pluginErr"` // noErr | metadata | describeKey | generate
	DkKeyIdOk bool   `json:"dkKeyIdOk"`
	DkKeySpec string `json:"dkKeySpec"`
	Echo      string `json:"echo"` // requested | otherFormat | empty | junk: what the response's envelope type names
	EnvFmt    string `json:"envFmt"`
	Garbage   bool   `json:"garbage"`
	CtypeOk   bool   `json:"ctypeOk"`
	Payload   JVal   `json:"payload"`
	Lead      string `json:"lead"`   // bytes before the JSON document in the signed payload
	Trail     string `json:"trail"`  // bytes after it
	Spaced    bool   `json:"spaced"` // document rendered with blanks between tokens
	GsKeyIdOk bool   `json:"gsKeyIdOk"`
	GsAlg     string `json:"gsAlg"`
	SigMode   string `json:"sigMode"` // good | flipped | otherKey | wrongHash | emptySig
	SigEnc    string `json:"sigEnc"`  // wire form of the signature bytes: fixed | der | derWideR | … (sigEncodings, crypto.go)
	Chain     string `json:"chain"`   // ok | selfSigned | empty | garbage | otherKey | otherSpec
	Gen       string `json:"gen"`     // fixed | stream | failing: the descriptor generator handed to SignBlob
	Blob      string `json:"blob"`    // the blob a stream generator digests
	Honest    bool   `json:"honest"`  // the plugin signs the request's payload bytes verbatim
	Wrap      string `json:"wrap"`    // asIs | untagged | doubleTag | trailingByte | indefinite | jsonWs: framing of the envelope bytes
	History   []Step `json:"history"` // earlier calls on the same signer value
	DupKeys   bool   `json:"dupKeys"`
	// the requested descriptor carries an empty, non-nil annotation map (only when it has no annotations)
	EmptyAnnMap bool `json:"emptyAnnMap"`
}

type Obs struct {
	Outcome   string   `json:"outcome"` // sig | err | panic
	PayloadOk bool     `json:"payloadOk"`
	LeafOk    bool     `json:"leafOk"`
	Earlier   []string `json:"earlier"` // outcomes of the earlier calls on the same signer value
}

// Step is an earlier call on the same PluginSigner value: the main scenario with these answers instead.
type Step struct {
	Api       string `json:"api"`
	Cap       string `json:"cap"`
	DkKeyIdOk bool   `json:"dkKeyIdOk"`
	DkKeySpec string `json:"dkKeySpec"`
	GsKeyIdOk bool   `json:"gsKeyIdOk"`
	Echo      string `json:"echo"`
	SigMode   string `json:"sigMode"`
}

func (st Step) apply(in *Input) *Input {
	e := *in
	e.Cap = st.Cap
	e.Api, e.DkKeyIdOk, e.DkKeySpec, e.GsKeyIdOk, e.Echo, e.SigMode = st.Api, st.DkKeyIdOk, st.DkKeySpec, st.GsKeyIdOk, st.Echo, st.SigMode
	e.History = []Step{}
	e.Gen = "fixed" // an earlier SignBlob call gets a generator that returns the requested descriptor
	return &e
}

var keyNames = []string{"rsa2048", "rsa3072", "rsa4096", "ec256", "ec384", "ec521"}
var specOf = map[string]string{"rsa2048": "RSA-2048", "rsa3072": "RSA-3072", "rsa4096": "RSA-4096", "ec256": "EC-256", "ec384": "EC-384", "ec521": "EC-521"}
var nextKey = map[string]string{"rsa2048": "rsa3072", "rsa3072": "rsa4096", "rsa4096": "ec256", "ec256": "ec384", "ec384": "ec521", "ec521": "rsa2048"}
var sigAlgWire = map[string]string{"rsa2048": "RSASSA-PSS-SHA-256", "rsa3072": "RSASSA-PSS-SHA-384", "rsa4096": "RSASSA-PSS-SHA-512",
	"ec256": "ECDSA-SHA-256", "ec384": "ECDSA-SHA-384", "ec521": "ECDSA-SHA-512"}

func mediaOf(f string) string {
	if f == "cose" {
		return common.MediaCOSE
	}
	return common.MediaJWS
}

const keyID = "the-requested-key"

// ---------------------------------------------------------------------------------------
// scripted plugin

type plug struct {
	in   *Input   // the scenario of the call being answered: selected by the call's PluginConfig (use)
	effs []*Input // the scenarios of all calls on this signer value, by call number
	w    *world
	r    *rand.Rand
	// what the plugin produced
	envelope   []byte
	payload    []byte
	leaf       []byte
	genSigReqs int
	genEnvReqs int
}

// use selects the scenario by the plugin configuration of the CALL (as a plugin selects a vault by it).
func (p *plug) use(cfg map[string]string) {
	if n, err := strconv.Atoi(cfg["call"]); err == nil && n >= 0 && n < len(p.effs) {
		p.in = p.effs[n]
	}
}

func (p *plug) GetMetadata(ctx context.Context, req *pluginfw.GetMetadataRequest) (*pluginfw.GetMetadataResponse, error) {
	p.use(req.PluginConfig)
	if p.in.PluginErr == "metadata" {
		return nil, errors.New("scripted: get-plugin-metadata fails")
	}
	m := &pluginfw.GetMetadataResponse{Name: "scripted", Description: "scripted signing plugin", Version: "1.0.0",
		URL: "https://example.com/scripted", SupportedContractVersions: []string{pluginfw.ContractVersion}}
	switch p.in.Cap {
	case "envelope":
		m.Capabilities = []pluginfw.Capability{pluginfw.CapabilityEnvelopeGenerator}
	case "raw":
		m.Capabilities = []pluginfw.Capability{pluginfw.CapabilitySignatureGenerator}
	case "both":
		m.Capabilities = []pluginfw.Capability{pluginfw.CapabilityEnvelopeGenerator, pluginfw.CapabilitySignatureGenerator}
	default:
		m.Capabilities = []pluginfw.Capability{pluginfw.CapabilityTrustedIdentityVerifier}
	}
	return m, nil
}

func (p *plug) DescribeKey(ctx context.Context, req *pluginfw.DescribeKeyRequest) (*pluginfw.DescribeKeyResponse, error) {
	p.use(req.PluginConfig)
	if p.in.PluginErr == "describeKey" {
		return nil, errors.New("scripted: describe-key fails")
	}
	id := req.KeyID
	if !p.in.DkKeyIdOk {
		id = pick(p.r, "another-key", "", req.KeyID+" ", "THE-REQUESTED-KEY")
	}
	return &pluginfw.DescribeKeyResponse{KeyID: id, KeySpec: pluginfw.KeySpec(p.in.DkKeySpec)}, nil
}

func (p *plug) chainDER() [][]byte {
	ks := p.w.keys[p.in.Key]
	switch p.in.Chain {
	case "ok":
		return ks.chainOK
	case "selfSigned":
		return ks.chainSelf
	case "otherKey":
		return ks.chainOther
	case "otherSpec":
		return p.w.keys[nextKey[p.in.Key]].chainOK
	case "garbage":
		g := []byte("this is not a certificate")
		switch p.r.Intn(3) {
		case 0:
			return [][]byte{g}
		case 1:
			return [][]byte{g, ks.chainOK[1]}
		default:
			return [][]byte{ks.chainOK[0], g}
		}
	default:
		return [][]byte{}
	}
}

func (p *plug) sign(data []byte) []byte {
	ks := p.w.keys[p.in.Key]
	return encodeSig(p.in.SigEnc, signWithMode(p.in.SigMode, ks, data))
}

func (p *plug) GenerateSignature(ctx context.Context, req *pluginfw.GenerateSignatureRequest) (*pluginfw.GenerateSignatureResponse, error) {
	p.use(req.PluginConfig)
	p.genSigReqs++
	if p.in.PluginErr == "generate" {
		return nil, errors.New("scripted: generate-signature fails")
	}
	id := req.KeyID
	if !p.in.GsKeyIdOk {
		id = pick(p.r, "another-key", "", req.KeyID+"x")
	}
	chain := p.chainDER()
	if len(chain) > 0 {
		p.leaf = chain[0]
	}
	return &pluginfw.GenerateSignatureResponse{KeyID: id, Signature: p.sign(req.Payload),
		SigningAlgorithm: pluginfw.SignatureAlgorithm(p.in.GsAlg), CertificateChain: chain}, nil
}

func (p *plug) GenerateEnvelope(ctx context.Context, req *pluginfw.GenerateEnvelopeRequest) (*pluginfw.GenerateEnvelopeResponse, error) {
	p.use(req.PluginConfig)
	p.genEnvReqs++
	if p.in.PluginErr == "generate" {
		return nil, errors.New("scripted: generate-envelope fails")
	}
	doc := p.in.Payload.Render()
	if p.in.Spaced {
		doc = p.in.Payload.RenderSpaced()
	}
	p.payload = append(append([]byte(p.in.Lead), doc...), p.in.Trail...)
	if p.in.Honest {
		p.payload = append([]byte(nil), req.Payload...) // an honest plugin signs what it was asked to sign
	}
	cty := req.PayloadType
	if !p.in.CtypeOk {
		cty = pick(p.r, "application/vnd.cncf.notary.payload.v2+json", "application/json", "application/vnd.cncf.notary.payload.v1+JSON", "text/plain",
			req.PayloadType+";version=2", req.PayloadType+"; charset=utf-8", " "+req.PayloadType, req.PayloadType+" ", "Application/Vnd.Cncf.Notary.Payload.V1+json",
			"", req.PayloadType+"\n", "application/vnd.cncf.notary.payload.v1")
	}
	chain := p.chainDER()
	if len(chain) > 0 {
		p.leaf = chain[0]
	}
	var env []byte
	var err error
	if p.in.EnvFmt == "cose" {
		env, err = buildCOSE(p.payload, cty, p.in.Key, chain, p.sign)
	} else {
		env, err = buildJWS(p.payload, cty, p.in.Key, chain, p.sign)
	}
	if err != nil && !p.in.CtypeOk {
		// go-cose refuses to ENCODE some malformed content types: use a plainly wrong one instead
		cty = "application/json"
		if p.in.EnvFmt == "cose" {
			env, err = buildCOSE(p.payload, cty, p.in.Key, chain, p.sign)
		} else {
			env, err = buildJWS(p.payload, cty, p.in.Key, chain, p.sign)
		}
	}
	if err != nil {
		// a generator bug must be loud and must not be mistaken for a panic of the signer
		fmt.Fprintf(os.Stderr, "c18 harness: scripted plugin cannot build its envelope: %v\n", err)
		os.Exit(3)
	}
	env = wrapBytes(p.in.Wrap, p.in.EnvFmt, env) // framing first: garbage stays garbage whatever the framing
	if p.in.Garbage {
		switch p.r.Intn(4) {
		case 0:
			env = []byte("garbage")
		case 1:
			env = env[:len(env)/2]
		case 2:
			env = []byte{}
		default:
			env = append([]byte{0xff}, env...)
		}
	}
	p.envelope = env
	typ := req.SignatureEnvelopeType
	if p.in.Echo != "requested" {
		other := common.MediaCOSE
		if typ == common.MediaCOSE {
			other = common.MediaJWS
		}
		switch p.in.Echo {
		case "otherFormat":
			typ = other
		case "empty":
			typ = ""
		default:
			typ = pick(p.r, typ+" ", "application/JOSE+json", "application/octet-stream", " "+typ, typ+";v=1", "application/Cose")
		}
	}
	return &pluginfw.GenerateEnvelopeResponse{SignatureEnvelope: env, SignatureEnvelopeType: typ,
		Annotations: map[string]string{"scripted": "yes"}}, nil
}

func (p *plug) VerifySignature(ctx context.Context, req *pluginfw.VerifySignatureRequest) (*pluginfw.VerifySignatureResponse, error) {
	return nil, errors.New("not a verification plugin")
}

func pick(r *rand.Rand, xs ...string) string { return xs[r.Intn(len(xs))] }

// ---------------------------------------------------------------------------------------
// one case

func toOCI(d Desc, emptyMap bool) ocispec.Descriptor {
	o := ocispec.Descriptor{MediaType: d.MediaType, Digest: digest.Digest(d.Digest), Size: d.Size}
	if emptyMap && len(d.Annotations) == 0 {
		o.Annotations = map[string]string{}
	}
	if len(d.Annotations) > 0 {
		o.Annotations = map[string]string{}
		for _, kv := range d.Annotations {
			o.Annotations[kv[0]] = kv[1]
		}
	}
	return o
}

// normalise makes the redundant parts of a scenario consistent: with a stream generator the requested
// descriptor IS the blob's descriptor under the digest algorithm of the DESCRIBED key spec (that is what
// a correct signer asks the generator for); an honest plugin signs the canonical payload of the request.
func normalise(in *Input) {
	if in.Api == "signBlob" && in.Gen == "stream" {
		alg := blobAlg[in.Key]
		for k, name := range specOf {
			if name == in.DkKeySpec {
				alg = blobAlg[k]
			}
		}
		in.Req.Digest = string(alg.FromString(in.Blob))
		in.Req.Size = int64(len(in.Blob))
	}
	if in.Honest {
		in.Payload = goodPayload(in.Req)
		in.Lead, in.Trail, in.Spaced = "", "", false
	}
}

func runCase(c *common.Ctx, w *world, in *Input) {
	normalise(in)
	if in.Wrap == "" {
		in.Wrap = "asIs"
	}
	if in.SigEnc == "" {
		in.SigEnc = "fixed"
	}
	if in.History == nil {
		in.History = []Step{}
	}
	in.DupKeys = hasDup(in.Payload)
	p := &plug{in: in, w: w, r: rand.New(rand.NewSource(c.Rand.Int63()))}
	for _, st := range in.History {
		e := st.apply(in)
		normalise(e)
		p.effs = append(p.effs, e)
	}
	p.effs = append(p.effs, in)
	desc := toOCI(in.Req, in.EmptyAnnMap)
	// ONE signer value for all calls
	var s *signer.PluginSigner
	var asSigner notation.Signer
	var e error
	if len(in.History) == 0 && in.Api == "sign" && p.r.Intn(2) == 0 {
		asSigner, e = signer.NewFromPlugin(p, keyID, nil)
	} else {
		s, e = signer.NewPluginSigner(p, keyID, map[string]string{"k": "v"})
		asSigner = s
	}
	if e != nil {
		fmt.Fprintln(os.Stderr, "c18 harness: NewPluginSigner:", e)
		os.Exit(3)
	}
	obs := Obs{Outcome: "err", Earlier: []string{}}
	for k, eff := range p.effs {
		p.envelope, p.payload, p.leaf, p.genSigReqs, p.genEnvReqs = nil, nil, nil, 0, 0
		p.in = eff
		opts := notation.SignerSignOptions{SignatureMediaType: mediaOf(eff.Format), PluginConfig: map[string]string{"call": strconv.Itoa(k)}}
		var sig []byte
		var info *signature.SignerInfo
		var err error
		panicked := false
		func() {
			defer func() {
				if r := recover(); r != nil {
					panicked = true
				}
			}()
			ctx := context.Background()
			if eff.Api == "signBlob" {
				sig, info, err = s.SignBlob(ctx, blobGenerator(eff, desc), opts)
			} else {
				sig, info, err = asSigner.Sign(ctx, desc, opts)
			}
		}()
		out := "err"
		switch {
		case panicked:
			out = "panic"
		case err == nil:
			out = "sig"
		}
		if k < len(p.effs)-1 {
			obs.Earlier = append(obs.Earlier, out)
			continue
		}
		obs.Outcome = out
		if out == "sig" {
			obs.PayloadOk, obs.LeafOk = inspect(in, p, desc, sig, info)
		}
	}
	c.Count("outcome=" + obs.Outcome)
	c.Count(fmt.Sprintf("path=%s/%s/%s %s", in.Cap, in.Api, in.Format, obs.Outcome))
	c.Count("key=" + in.Key)
	c.Emit(in, obs)
}

// wrapBytes frames the envelope bytes the plugin hands over.
func wrapBytes(wrap, envFmt string, env []byte) []byte {
	if len(env) == 0 {
		return env
	}
	switch wrap {
	case "untagged": // COSE: the bare COSE_Sign1 array without tag 18
		return append([]byte(nil), env[1:]...)
	case "doubleTag":
		return append([]byte{env[0]}, env...)
	case "trailingByte":
		return append(append([]byte(nil), env...), 0x00)
	case "indefinite":
		if envFmt == "cose" && len(env) > 2 && env[0] == 0xd2 && env[1] == 0x84 {
			out := append([]byte{0xd2, 0x9f}, env[2:]...) // indefinite-length array … break
			return append(out, 0xff)
		}
		return append(append([]byte(nil), env...), []byte("\n{}")...)
	case "jsonWs":
		return append(append([]byte(" \n\t"), env...), []byte("\r\n ")...)
	}
	return env
}

// blobGenerator is the notation.BlobDescriptorGenerator of the scenario. "stream" behaves like the one
// notation.SignBlob hands out: it digests a reader with the algorithm it is asked for, and the reader
// can be read once.
func blobGenerator(in *Input, desc ocispec.Descriptor) notation.BlobDescriptorGenerator {
	switch in.Gen {
	case "failing":
		return func(digest.Algorithm) (ocispec.Descriptor, error) {
			return ocispec.Descriptor{}, errors.New("scripted: the blob cannot be read")
		}
	case "stream":
		reader := strings.NewReader(in.Blob)
		return func(alg digest.Algorithm) (ocispec.Descriptor, error) {
			digester := alg.Digester()
			n, err := io.Copy(digester.Hash(), reader)
			if err != nil {
				return ocispec.Descriptor{}, err
			}
			return ocispec.Descriptor{MediaType: desc.MediaType, Digest: digester.Digest(), Size: n, Annotations: desc.Annotations}, nil
		}
	}
	return func(digest.Algorithm) (ocispec.Descriptor, error) { return desc, nil }
}

var blobAlg = map[string]digest.Algorithm{"rsa2048": digest.SHA256, "ec256": digest.SHA256, "rsa3072": digest.SHA384, "ec384": digest.SHA384,
	"rsa4096": digest.SHA512, "ec521": digest.SHA512}

// useStream turns a SignBlob scenario into one with a stream-backed generator: the requested descriptor
// is the blob's descriptor under the digest algorithm that goes with the key; the payload is rebuilt.
func useStream(r *rand.Rand, in *Input) {
	if in.Api != "signBlob" {
		return
	}
	in.Gen = "stream"
	in.Blob = pick(r, "", "x", "hello blob", strings.Repeat("0123456789", 1+r.Intn(40)))
	alg := blobAlg[in.Key]
	in.Req.Digest = string(alg.FromString(in.Blob))
	in.Req.Size = int64(len(in.Blob))
	in.Payload = goodPayload(in.Req)
}

// signedDescriptorIs: the signed payload names exactly the descriptor (annotations may be extended).
func signedDescriptorIs(payload []byte, desc ocispec.Descriptor) bool {
	var p struct {
		TargetArtifact ocispec.Descriptor `json:"targetArtifact"`
	}
	if json.Unmarshal(payload, &p) != nil {
		return false
	}
	t := p.TargetArtifact
	if t.MediaType != desc.MediaType || t.Digest != desc.Digest || t.Size != desc.Size {
		return false
	}
	for k, v := range desc.Annotations {
		if got, ok := t.Annotations[k]; !ok || got != v {
			return false
		}
	}
	return true
}

// inspect re-parses the returned signature independently.
func inspect(in *Input, p *plug, desc ocispec.Descriptor, sig []byte, info *signature.SignerInfo) (payloadOk, leafOk bool) {
	env, err := signature.ParseEnvelope(mediaOf(in.Format), sig)
	if err != nil {
		return false, false
	}
	content, err := env.Verify() // what comes back verifies under its own certificate chain
	if err != nil {
		return false, false
	}
	viaRaw := in.Cap == "raw" || in.Cap == "both"
	if viaRaw {
		// built locally: the payload must be the canonical payload of the requested descriptor
		want := common.PayloadFor(ocispec.Descriptor{MediaType: desc.MediaType, Digest: desc.Digest, Size: desc.Size, Annotations: desc.Annotations})
		var a, b any
		if json.Unmarshal(want, &a) == nil && json.Unmarshal(content.Payload.Content, &b) == nil {
			payloadOk = reflect.DeepEqual(a, b) && p.genSigReqs == 1 && p.genEnvReqs == 0
		}
	} else {
		payloadOk = bytes.Equal(sig, p.envelope) && bytes.Equal(content.Payload.Content, p.payload) && p.genEnvReqs == 1 && p.genSigReqs == 0 &&
			signedDescriptorIs(content.Payload.Content, desc)
	}
	leafOk = info != nil && len(info.CertificateChain) > 0 && p.leaf != nil && bytes.Equal(info.CertificateChain[0].Raw, p.leaf) &&
		len(content.SignerInfo.CertificateChain) > 0 && bytes.Equal(content.SignerInfo.CertificateChain[0].Raw, p.leaf)
	return
}

// ---------------------------------------------------------------------------------------
// generator

var mediaTypes = []string{"application/vnd.oci.image.manifest.v1+json", "application/vnd.docker.distribution.manifest.v2+json", "application/octet-stream", "m", ""}
var annKeys = []string{"a", "b", "org.opencontainers.image.title", "io.cncf.notary.x", "A"}
var annVals = []string{"1", "2", "", "x y", "é"}

func genDesc(r *rand.Rand) Desc {
	d := Desc{MediaType: mediaTypes[r.Intn(len(mediaTypes))], Annotations: [][2]string{}}
	var b [32]byte
	r.Read(b[:])
	d.Digest = fmt.Sprintf("sha256:%x", b)
	if r.Intn(12) == 0 {
		d.Digest = "" // a library caller may pass anything
	}
	switch r.Intn(6) {
	case 0:
		d.Size = 0
	case 1:
		d.Size = int64(r.Intn(10))
	case 2:
		d.Size = 1<<62 + int64(r.Intn(100))
	default:
		d.Size = int64(r.Intn(1 << 30))
	}
	n := r.Intn(4)
	if r.Intn(3) == 0 {
		n = 0
	}
	perm := r.Perm(len(annKeys))
	for i := 0; i < n; i++ {
		d.Annotations = append(d.Annotations, [2]string{annKeys[perm[i]], annVals[r.Intn(len(annVals))]})
	}
	return d
}

// base returns a fully benign scenario.
func base(r *rand.Rand, api, cap_, format, key string) *Input {
	req := genDesc(r)
	return &Input{Api: api, Cap: cap_, Format: format, Key: key, Req: req, PluginErr: "noErr",
		DkKeyIdOk: true, DkKeySpec: specOf[key], Echo: "requested", EnvFmt: format, Garbage: false, CtypeOk: true,
		Payload: goodPayload(req), GsKeyIdOk: true, GsAlg: sigAlgWire[key], SigMode: "good", Chain: "ok", Gen: "fixed"}
}

var badKeySpecs = []string{"", "RSA-1024", "rsa-2048", "EC-512", "EC-256 ", "ED25519", "RSA2048", "EC-521\n"}

// keySpecSpellings: the right name of the key spec, written another way (the wire format names
// exactly six strings; blanks, line ends, case, padding are NOT part of them)
func keySpecSpellings(name string) []string {
	return []string{name + "\n", name + "\r\n", " " + name, name + " ", "\t" + name + "  ", "\u00a0" + name + "\u00a0", name + "\v", "\f" + name,
		"\u0085" + name, "\u2003" + name, name + "\u0000", strings.ToLower(name), strings.Replace(name, "-", "_", 1), strings.Replace(name, "-", " -", 1),
		strings.Replace(name, "-", "", 1), "\"" + name + "\"", name + ";", name + "\\n", "\ufeff" + name}
}

var gsAlgs = []string{"", "ECDSA-SHA-256", "RSASSA-PSS-SHA-512", "RSASSA-PKCS1-v1_5-SHA-256", "none", "ES256"}
var sigModes = []string{"flipped", "otherKey", "wrongHash", "emptySig"}
var chains = []string{"selfSigned", "empty", "garbage", "otherKey", "otherSpec"}

// cryptoMutation applies one non-payload deviation.
func cryptoMutation(r *rand.Rand, in *Input) string {
	switch k := r.Intn(14); k {
	case 0:
		in.Echo = pick(r, "otherFormat", "empty", "junk")
		return "echo"
	case 1:
		if in.EnvFmt == "jws" {
			in.EnvFmt = "cose"
		} else {
			in.EnvFmt = "jws"
		}
		return "otherFormat"
	case 2:
		in.Garbage = true
		return "garbage"
	case 3:
		in.CtypeOk = false
		return "ctype"
	case 4:
		in.SigMode = sigModes[r.Intn(len(sigModes))]
		return "sig:" + in.SigMode
	case 5:
		in.Chain = chains[r.Intn(len(chains))]
		return "chain:" + in.Chain
	case 6:
		in.DkKeyIdOk = false
		return "dkKeyId"
	case 7:
		in.GsKeyIdOk = false
		return "gsKeyId"
	case 8:
		if r.Intn(2) == 0 {
			sp := keySpecSpellings(specOf[in.Key])
			in.DkKeySpec = sp[r.Intn(len(sp))]
			return "dkKeySpec:spelling"
		}
		in.DkKeySpec = badKeySpecs[r.Intn(len(badKeySpecs))]
		return "dkKeySpec:undecodable"
	case 9:
		other := keyNames[r.Intn(len(keyNames))]
		in.DkKeySpec = specOf[other]
		return "dkKeySpec:other"
	case 10:
		in.GsAlg = gsAlgs[r.Intn(len(gsAlgs))]
		return "gsAlg"
	case 11:
		in.PluginErr = pick(r, "metadata", "describeKey", "generate")
		return "pluginErr:" + in.PluginErr
	case 12:
		in.SigEnc = sigEncodings[r.Intn(len(sigEncodings))]
		return "sigEnc:" + in.SigEnc
	default:
		in.Cap = pick(r, "both", "neither", "raw", "envelope")
		return "cap:" + in.Cap
	}
}

var wsTexts = []string{" ", "\n", "\r\n\t ", "\t"}
var junkTrails = []string{"]", "}", ",", "x", ":", "\"", "null", "0", "{}", "[]", "//c", "/**/", "\u0000", "\v", "\f", "\u00a0", "\u0085", "\u2028", "\ufeff", "\\n", " ]", "\n}"}
var junkLeads = []string{"\ufeff", "\v", "\f", "\u00a0", "x", "[", ",", "{}", "null", "null\n", "\u0000", "\ufeff ", " \ufeff", "0 "}

// secondDocs are whole JSON values a plugin may append to (or put before) the real document.
func secondDocs(r *rand.Rand, in *Input) []string {
	evil := string(goodPayload(evilDesc(r, in.Req)).Render())
	same := string(goodPayload(in.Req).Render())
	return []string{evil, "\n" + evil, " " + evil, "\r\n" + evil + "\n", "," + evil, same, "\n" + same, evil + evil}
}

// byteMutation changes the bytes AROUND the JSON document of the signed payload.
func byteMutation(r *rand.Rand, in *Input) string {
	switch r.Intn(8) {
	case 0:
		in.Trail = wsTexts[r.Intn(len(wsTexts))]
		return "bytes:trailBlank"
	case 1:
		in.Lead = wsTexts[r.Intn(len(wsTexts))]
		return "bytes:leadBlank"
	case 2, 3:
		d := secondDocs(r, in)
		in.Trail = d[r.Intn(len(d))]
		return "bytes:secondDocument"
	case 4:
		in.Trail = junkTrails[r.Intn(len(junkTrails))]
		return "bytes:trailJunk"
	case 5:
		in.Lead = junkLeads[r.Intn(len(junkLeads))]
		return "bytes:leadJunk"
	case 6:
		d := secondDocs(r, in)
		in.Lead = d[r.Intn(len(d))]
		return "bytes:documentBefore"
	default:
		in.Lead, in.Trail = wsTexts[r.Intn(len(wsTexts))], wsTexts[r.Intn(len(wsTexts))]
		in.Spaced = true
		return "bytes:blanksEverywhere"
	}
}

// depthOf / scannerClass read the tag of a scanner case ("d3/emptyArray/sepBefore/nn/dup")
func depthOf(tag string) int {
	if len(tag) > 1 && tag[0] == 'd' {
		return int(tag[1] - '0')
	}
	return 0
}

func scannerClass(tag string) string {
	parts := strings.Split(tag, "/")
	return parts[0] + "/" + parts[len(parts)-1]
}

// payload mutations that need a request with annotations to bite
var annotationMutations = map[int]bool{3: true, 4: true, 7: true, 20: true}

// Run generates the cases of C18.
func Run(c *common.Ctx) error {
	w := newWorld(c.CacheDir)
	r := c.Rand
	apis := []string{"sign", "signBlob"}
	formats := []string{"jws", "cose"}

	// 1. the benign scenario and every single deviation, for every api x format x key x capability
	for _, api := range apis {
		for _, f := range formats {
			for _, k := range keyNames {
				for _, cp := range []string{"envelope", "raw"} {
					in := base(r, api, cp, f, k)
					c.Count("gen=benign")
					runCase(c, w, in)
					for _, sm := range sigModes {
						in := base(r, api, cp, f, k)
						in.SigMode = sm
						c.Count("gen=sig:" + sm)
						runCase(c, w, in)
					}
					for _, ch := range chains {
						in := base(r, api, cp, f, k)
						in.Chain = ch
						c.Count("gen=chain:" + ch)
						runCase(c, w, in)
					}
					// consistent use of the other key (signature AND chain): a valid answer
					in = base(r, api, cp, f, k)
					in.SigMode, in.Chain = "otherKey", "otherKey"
					c.Count("gen=otherKeyThroughout")
					runCase(c, w, in)
					// key id echoes: a wrong id at describe-key (the scripted plugin picks: another id, empty, the
					// requested id with a suffix, another case), and a wrong id at generate-signature together
					// with a consistent use of the other key
					if cp == "raw" {
						for rep := 0; rep < 3; rep++ {
							in = base(r, api, cp, f, k)
							in.DkKeyIdOk = false
							c.Count("gen=dkKeyId")
							runCase(c, w, in)
							in = base(r, api, cp, f, k)
							in.GsKeyIdOk = false
							in.SigMode, in.Chain = "otherKey", "otherKey"
							c.Count("gen=gsKeyId+otherKeyThroughout")
							runCase(c, w, in)
						}
					}
					// chain of the next key spec, DescribeKey claiming that spec too
					in = base(r, api, cp, f, k)
					in.Chain, in.DkKeySpec = "otherSpec", specOf[nextKey[k]]
					c.Count("gen=otherSpecConsistentClaim")
					runCase(c, w, in)
				}
			}
		}
	}
	// 1a. consistent answers in ANOTHER registered format (truthful label), and the inconsistent ones
	for _, api := range apis {
		for _, f := range formats {
			other := "cose"
			if f == "cose" {
				other = "jws"
			}
			for _, k := range keyNames {
				for _, v := range [][2]string{{"otherFormat", other}, {"requested", other}, {"otherFormat", f}, {"empty", f}, {"junk", f}, {"empty", other}} {
					in := base(r, api, "envelope", f, k)
					in.Echo, in.EnvFmt = v[0], v[1]
					in.Honest = k != "ec256"
					c.Count("gen=echo:" + v[0] + "/fmt:" + map[bool]string{true: "requested", false: "other"}[v[1] == f])
					runCase(c, w, in)
				}
			}
		}
	}
	// 1e. framing of the envelope bytes: untagged / doubly tagged COSE, bytes after the message, indefinite-length
	// array, blanks around (fine for JWS only) - cryptographically valid envelopes over the requested payload
	for _, api := range apis {
		for _, f := range formats {
			for ki, k := range keyNames {
				for wi, wr := range []string{"untagged", "doubleTag", "trailingByte", "indefinite", "jsonWs"} {
					if !c.Thorough() && (ki+wi)%2 == 1 {
						continue
					}
					in := base(r, api, "envelope", f, k)
					in.Wrap = wr
					in.Honest = wi%2 == 0
					c.Count("gen=wrap:" + wr + "/" + f)
					runCase(c, w, in)
				}
			}
		}
	}
	// 1g. the WIRE FORM of the signature bytes: the same (good) signature written as a DER SEQUENCE{r,s} (what key
	// vaults answer), forged SEQUENCEs whose integers are wider than the field / negative / zero, bytes after or
	// missing from the SEQUENCE, padded / truncated / extended / doubled / one-octet / text-encoded octets - for
	// both apis, both formats, all six key specs, raw-signature AND envelope plugins. EC-521 is the spec whose bit
	// size is no multiple of 8 and whose honest integers are randomly one octet shorter: honest answers are repeated.
	en := 0
	for _, api := range apis {
		for _, f := range formats {
			for _, k := range keyNames {
				for _, cp := range []string{"raw", "envelope", "both"} {
					for _, enc := range sigEncodings {
						reps := 1
						if enc == "der" && cp != "both" {
							reps = 2
							if k == "ec521" {
								reps = 6
							}
						}
						en++
						if cp != "raw" && !c.Thorough() && en%3 != 0 && enc != "der" { // quick tier: a third of the non-raw grid, rotating
							continue
						}
						if cp == "both" && !c.Thorough() && k != "ec256" && k != "ec521" {
							continue
						}
						for rep := 0; rep < reps; rep++ {
							in := base(r, api, cp, f, k)
							in.SigEnc = enc
							if rep%2 == 1 {
								in.Honest = true
							}
							c.Count("gen=sigEnc:" + enc + "/" + cp)
							runCase(c, w, in)
						}
					}
				}
			}
		}
	}
	// the other wire forms of a signature that is wrong anyway (empty, flipped, other key), and with an earlier call on
	// the same signer value (the earlier call is answered by the same plugin, in the same wire form)
	for _, f := range formats {
		for ki, k := range keyNames {
			for ei, enc := range sigEncodings {
				if !c.Thorough() && (ki+ei)%2 == 1 {
					continue
				}
				in := base(r, apis[(ki+ei)%2], "raw", f, k)
				in.SigEnc = enc
				in.SigMode = sigModes[(ki+ei)%len(sigModes)]
				if in.SigMode == "otherKey" {
					in.Chain = "otherKey"
				}
				c.Count("gen=sigEnc:" + enc + "+sig:" + in.SigMode)
				runCase(c, w, in)
				in = base(r, apis[(ki+ei)%2], "raw", f, k)
				in.SigEnc = enc
				in.History = []Step{{Api: apis[ei%2], Cap: pick(r, "raw", "raw", "envelope"), DkKeyIdOk: true, DkKeySpec: specOf[k], GsKeyIdOk: true, Echo: "requested", SigMode: "good"}}
				c.Count("gen=sigEnc:" + enc + "+history")
				runCase(c, w, in)
			}
		}
	}
	// 1f. HISTORIES on one signer value: every pair (and some triples) of answers, each call with its own
	// PluginConfig, which the scripted plugin selects its answers by; each call is judged on its own
	stepKinds := []struct {
		name string
		f    func(st *Step, key string)
	}{
		{"benign", func(st *Step, key string) {}},
		{"dkKeyId", func(st *Step, key string) { st.DkKeyIdOk = false }},
		{"dkSpecUndecodable", func(st *Step, key string) { st.DkKeySpec = "EC-512" }},
		{"dkSpecOther", func(st *Step, key string) { st.DkKeySpec = specOf[nextKey[key]] }},
		{"gsKeyId", func(st *Step, key string) { st.GsKeyIdOk = false }},
		{"echo", func(st *Step, key string) { st.Echo = "otherFormat" }},
		{"sigFlipped", func(st *Step, key string) { st.SigMode = "flipped" }},
		{"otherCapability", func(st *Step, key string) {
			st.Cap = map[string]string{"raw": "envelope", "envelope": "raw", "both": "envelope"}[st.Cap]
		}},
	}
	mkStep := func(api, cp, key string, kind int) Step {
		st := Step{Api: api, Cap: cp, DkKeyIdOk: true, DkKeySpec: specOf[key], GsKeyIdOk: true, Echo: "requested", SigMode: "good"}
		stepKinds[kind].f(&st, key)
		return st
	}
	hn := 0
	for _, f := range formats {
		for _, pc := range [][2]string{{"raw", "sign"}, {"raw", "signBlob"}, {"envelope", "signBlob"}, {"envelope", "sign"}, {"both", "sign"}} {
			for a := range stepKinds {
				for b := range stepKinds {
					key := pick(r, "ec256", "ec256", "ec384", "rsa2048")
					in := base(r, pc[1], pc[0], f, key)
					last := mkStep(pc[1], pc[0], key, b)
					in.Cap = last.Cap
					in.DkKeyIdOk, in.DkKeySpec, in.GsKeyIdOk, in.Echo, in.SigMode = last.DkKeyIdOk, last.DkKeySpec, last.GsKeyIdOk, last.Echo, last.SigMode
					firstApi := pc[1]
					if hn%3 == 0 {
						firstApi = apis[hn%2]
					}
					in.History = []Step{mkStep(firstApi, pc[0], key, a)}
					if hn%4 == 0 { // a triple
						in.History = append(in.History, mkStep(apis[(hn/4)%2], pc[0], key, (a+b)%len(stepKinds)))
					}
					hn++
					c.Count("gen=history:" + stepKinds[a].name + ">" + stepKinds[b].name)
					runCase(c, w, in)
				}
			}
		}
	}
	// 1d. payload types that are not the Notary payload type (the scripted plugin picks: other types, and near
	// misses - parameters, blanks, another letter case)
	for _, api := range apis {
		for _, f := range formats {
			for rep := 0; rep < 8; rep++ {
				in := base(r, api, "envelope", f, keyNames[rep%6])
				in.CtypeOk = false
				c.Count("gen=ctype")
				runCase(c, w, in)
			}
		}
	}
	// 1c. SignBlob through a one-shot, reader-backed descriptor generator (what notation.SignBlob hands
	// out), honest and scripted plugins, every key spec (the digest algorithm goes with the key spec);
	// a generator that fails
	for _, f := range formats {
		for _, k := range keyNames {
			for _, cp := range []string{"envelope", "raw", "both"} {
				for rep := 0; rep < 2; rep++ {
					in := base(r, "signBlob", cp, f, k)
					useStream(r, in)
					in.Honest = rep == 0
					c.Count("gen=blob:stream/" + cp)
					runCase(c, w, in)
				}
				in := base(r, "signBlob", cp, f, k)
				in.Gen = "failing"
				c.Count("gen=blob:failing")
				runCase(c, w, in)
			}
			// the stream generator with a deviating answer: the check is made against the blob's descriptor
			in := base(r, "signBlob", "envelope", f, k)
			useStream(r, in)
			mutatePayload(r, in, 0)
			c.Count("gen=blob:stream/otherValue")
			runCase(c, w, in)
		}
	}
	// 1b. describe-key names the RIGHT key spec in another spelling (raw-signature plugins; SignBlob
	// reads the key spec on the envelope path too)
	kn := 0
	for _, api := range apis {
		for _, f := range formats {
			for _, k := range keyNames {
				for si := range keySpecSpellings(specOf[k]) {
					if !c.Thorough() && (si+kn)%3 != 0 { // quick tier: a third of the grid, rotating
						continue
					}
					cp := "raw"
					if api == "signBlob" && si%4 == 3 {
						cp = "envelope"
					}
					in := base(r, api, cp, f, k)
					in.DkKeySpec = keySpecSpellings(specOf[k])[si]
					c.Count("gen=keySpecSpelling")
					runCase(c, w, in)
				}
				kn++
			}
		}
	}
	// 2. every payload mutation alone (all keys rotate), then the zero-descriptor corner
	n := 0
	for _, f := range formats {
		for m := 0; m < numPayloadMutations; m++ {
			reps := 3
			if c.Thorough() {
				reps = 12
			}
			for rep := 0; rep < reps; rep++ {
				in := base(r, apis[n%2], "envelope", f, keyNames[n%6])
				for annotationMutations[m] && len(in.Req.Annotations) < 2 {
					in = base(r, apis[n%2], "envelope", f, keyNames[n%6])
				}
				name := mutatePayload(r, in, m)
				c.Count("gen=payload:" + name)
				runCase(c, w, in)
				n++
			}
		}
	}
	for _, f := range formats {
		for _, pl := range []JVal{O(), Null(), O(M("targetArtifact", Null())), O(M("targetArtifact", O())), O(M("TargetArtifact", O()))} {
			in := base(r, "sign", "envelope", f, "ec256")
			in.Req = Desc{Annotations: [][2]string{}}
			in.Payload = pl
			c.Count("gen=zeroDescriptor")
			runCase(c, w, in)
		}
	}
	// 2b. the bytes around the document: every blank / junk / second-document text, before and after,
	// around the requested document, around one with an unknown member, and around a wrong one
	for _, f := range formats {
		variants := func(in *Input) []string {
			out := []string{"good"}
			_ = in
			return append(out, "unknownMember", "wrongDigest")
		}
		emit := func(lead, trail, variant, tag string) {
			in := base(r, apis[n%2], "envelope", f, keyNames[n%6])
			n++
			switch variant {
			case "unknownMember":
				mutatePayload(r, in, 9)
			case "wrongDigest":
				mutatePayload(r, in, 0)
			}
			if lead == "<doc>" {
				d := secondDocs(r, in)
				lead = d[r.Intn(len(d))]
			}
			if trail == "<doc>" {
				d := secondDocs(r, in)
				trail = d[r.Intn(len(d))]
			}
			in.Lead, in.Trail = lead, trail
			in.Spaced = n%3 == 0
			c.Count("gen=bytes:" + tag + "/" + variant)
			runCase(c, w, in)
		}
		for _, v := range variants(nil) {
			for _, t := range wsTexts {
				emit("", t, v, "trailBlank")
				emit(t, "", v, "leadBlank")
			}
			for _, t := range junkTrails {
				emit("", t, v, "trailJunk")
			}
			for _, t := range junkLeads {
				emit(t, "", v, "leadJunk")
			}
			for k := 0; k < 8; k++ {
				emit("", "<doc>", v, "secondDocument")
			}
			for k := 0; k < 3; k++ {
				emit("<doc>", "", v, "documentBefore")
			}
		}
	}
	// 2e. the duplicate-name scanner's state machine: names repeated (and controls) at every depth, around
	// members of every value shape (scanner.go)
	for fi, f := range formats {
		in0 := base(r, "sign", "envelope", f, "ec256")
		in0.Req.Annotations = [][2]string{}
		cases := scannerCases(in0.Req)
		for ci, sc := range cases {
			if !c.Thorough() && depthOf(sc.tag) >= 3 && (ci+fi)%2 == 1 { // quick tier: half of the deep grid per format
				continue
			}
			in := base(r, apis[ci%2], "envelope", f, pick(r, "ec256", "ec256", "ec384", "rsa2048"))
			in.Req = in0.Req
			in.Payload = sc.payload
			in.Spaced = ci%5 == 0
			c.Count("gen=scanner:" + scannerClass(sc.tag))
			runCase(c, w, in)
		}
		reps := 150
		if c.Thorough() {
			reps = 3000
		}
		for k := 0; k < reps; k++ {
			in := base(r, apis[k%2], "envelope", f, "ec256")
			in.Req.Annotations = [][2]string{}
			in.Payload = randomScannerPayload(r, in.Req)
			c.Count("gen=scanner:random")
			runCase(c, w, in)
		}
	}
	// 2f. optional descriptor members spelled as JSON null (how Jackson / System.Text.Json / serde write an
	// unset optional field), alone and together, in every position: null means absent
	for _, f := range formats {
		opt := []string{"platform", "urls", "data", "artifactType", "annotations"}
		var sets [][]string
		for _, o := range opt {
			sets = append(sets, []string{o})
		}
		sets = append(sets, []string{"platform", "urls"}, []string{"urls", "data", "platform"}, opt)
		for si, set := range sets {
			for pos := 0; pos < 3; pos++ {
				in := base(r, apis[(si+pos)%2], "envelope", f, keyNames[(si+pos)%6])
				in.Req.Annotations = [][2]string{}
				in.Payload = goodPayload(in.Req)
				t := target(&in.Payload)
				for _, name := range set {
					at := map[int]int{0: 0, 1: len(t.O) / 2, 2: len(t.O)}[pos]
					t.O = insertAt(t.O, at, M(name, Null()))
				}
				c.Count("gen=nullMember")
				runCase(c, w, in)
			}
		}
		// null for a member the request has a value for
		for _, name := range []string{"mediaType", "digest", "size"} {
			in := base(r, "sign", "envelope", f, "ec256")
			in.Payload = goodPayload(in.Req)
			t := target(&in.Payload)
			t.O[memberIndex(t, name)].Val = Null()
			c.Count("gen=nullMember:required")
			runCase(c, w, in)
		}
	}
	// 2c. an original annotation with an EMPTY value is dropped / kept / nulled (a missing key and an
	// empty value must not be confused)
	for _, f := range formats {
		for k := 0; k < 4; k++ {
			for _, how := range []string{"drop", "keep", "null", "dropAll"} {
				in := base(r, apis[k%2], "envelope", f, keyNames[(n+k)%6])
				in.Req.Annotations = [][2]string{{"io.example.prerelease", ""}}
				if k >= 2 {
					in.Req.Annotations = append(in.Req.Annotations, [2]string{"a", "1"})
				}
				d := in.Req
				switch how {
				case "drop":
					d.Annotations = d.Annotations[1:]
				case "dropAll":
					d.Annotations = nil
				}
				in.Payload = goodPayload(d)
				if how == "null" {
					t := target(&in.Payload)
					a := &t.O[len(t.O)-1].Val
					a.O[0].Val = Null()
				}
				c.Count("gen=emptyAnnotation:" + how)
				runCase(c, w, in)
			}
		}
	}
	// 2d. odd but legal requests (no media type, no digest, size 0, nothing at all, empty annotation
	// map) crossed with a signed descriptor that differs in exactly ONE of mediaType / digest / size
	for _, f := range formats {
		for _, odd := range []string{"noMediaType", "noDigest", "sizeZero", "onlyDigest", "onlySize", "emptyAnnMap", "plain"} {
			for _, field := range []string{"mediaType", "digest", "size", "none"} {
				for _, how := range []string{"other", "drop", "null", "zero"} {
					if field == "none" && how != "other" {
						continue
					}
					in := base(r, apis[n%2], "envelope", f, keyNames[n%6])
					n++
					in.Req.Annotations = [][2]string{}
					switch odd {
					case "noMediaType":
						in.Req.MediaType = ""
					case "noDigest":
						in.Req.Digest = ""
					case "sizeZero":
						in.Req.Size = 0
					case "onlyDigest":
						in.Req.MediaType, in.Req.Size = "", 0
					case "onlySize":
						in.Req.MediaType, in.Req.Digest, in.Req.Size = "", "", 1+int64(r.Intn(9))
					case "emptyAnnMap":
						in.EmptyAnnMap = true
					}
					in.Payload = goodPayload(in.Req)
					t := target(&in.Payload)
					if i := memberIndex(t, field); i >= 0 {
						switch how {
						case "other":
							switch field {
							case "mediaType":
								t.O[i].Val = Str(otherMediaTypes[r.Intn(len(otherMediaTypes))])
							case "digest":
								t.O[i].Val = Str(fmt.Sprintf("sha256:%064x", r.Int63()))
							default:
								t.O[i].Val = Num(in.Req.Size + 1 + int64(r.Intn(3)))
							}
						case "drop":
							t.O = append(t.O[:i], t.O[i+1:]...)
						case "null":
							t.O[i].Val = Null()
						default:
							if field == "size" {
								t.O[i].Val = Num(0)
							} else {
								t.O[i].Val = Str("")
							}
						}
					}
					c.Count("gen=oddRequest:" + odd + "/" + field + ":" + how)
					runCase(c, w, in)
				}
			}
		}
	}
	// 3. random combinations
	total := 7300
	if c.Thorough() {
		total = 40000
	}
	for c.N() < total {
		k := keyNames[r.Intn(6)]
		if r.Intn(3) > 0 { // favour the fast keys, keep all six in play
			k = pick(r, "ec256", "ec384", "ec521", "rsa2048")
		}
		cp := pick(r, "envelope", "envelope", "envelope", "raw", "raw", "both", "neither")
		in := base(r, apis[r.Intn(2)], cp, formats[r.Intn(2)], k)
		if r.Intn(3) == 0 {
			useStream(r, in) // before any deviation is applied
		}
		if r.Intn(5) == 0 { // an earlier call on the same signer value
			st := Step{Api: apis[r.Intn(2)], Cap: pick(r, in.Cap, in.Cap, "raw", "envelope"), DkKeyIdOk: r.Intn(3) > 0, DkKeySpec: specOf[in.Key], GsKeyIdOk: r.Intn(3) > 0, Echo: "requested", SigMode: "good"}
			if r.Intn(4) == 0 {
				st.DkKeySpec = specOf[keyNames[r.Intn(6)]]
			}
			in.History = []Step{st}
		}
		if r.Intn(12) == 0 {
			in.Wrap = pick(r, "untagged", "doubleTag", "trailingByte", "indefinite", "jsonWs")
		}
		var tags []string
		switch r.Intn(10) {
		case 0, 1, 2, 3, 4: // payload deviations only
			for j := r.Intn(3) + 1; j > 0; j-- {
				if r.Intn(5) == 0 {
					tags = append(tags, byteMutation(r, in))
				} else {
					tags = append(tags, mutatePayload(r, in, r.Intn(numPayloadMutations)))
				}
			}
		case 5, 6, 7: // one crypto / protocol deviation
			tags = append(tags, cryptoMutation(r, in))
		case 8: // both kinds
			tags = append(tags, mutatePayload(r, in, r.Intn(numPayloadMutations)), cryptoMutation(r, in))
		default: // several
			for j := r.Intn(3) + 2; j > 0; j-- {
				tags = append(tags, cryptoMutation(r, in))
			}
			if r.Intn(2) == 0 {
				in.Payload = randomJVal(r, 3)
			}
		}
		if r.Intn(6) == 0 {
			in.Spaced = true
		}
		if r.Intn(4) == 0 {
			in.EmptyAnnMap = true
		}
		c.Count(fmt.Sprintf("gen=random(%d deviations)", len(tags)))
		runCase(c, w, in)
	}
	c.Note("scripted plugin.SignPlugin over 2 apis x 2 formats x 6 key specs x {envelope, raw, both, neither}; "+
		"%d payload mutation kinds (value/type changes, dropped members, annotation edits, extra members at both levels, "+
		"alternative spellings incl. U+017F/U+212A, duplicate members, null / non-object targets, non-object documents) "+
		"signed with real keys; signature bytes in %d wire forms (fixed r||s / PSS, DER SEQUENCE honest and forged, padded, truncated, extended, doubled, text); payload BYTES = lead + document (compact or spaced) + trail with blanks, BOM, junk bytes and whole second "+
		"documents before / after the first JSON value; JWS envelopes assembled by hand, COSE through go-cose; signature modes %v; chains ok,%v.",
		numPayloadMutations, 1+len(sigEncodings), sigModes, chains)
	return nil
}

// Package c18 - correspondence harness for C18 (stub: not built yet).
package c18

import (
	"errors"

	"github.com/notaryproject/notation-go/xverif/common"
)

// Run generates the cases of C18.
func Run(c *common.Ctx) error { return errors.New("C18: harness not built yet") }

// Package c02 - correspondence harness for C02 (stub: not built yet).
package c02

import (
	"errors"

	"github.com/notaryproject/notation-go/xverif/common"
)

// Run generates the cases of C02.
func Run(c *common.Ctx) error { return errors.New("C02: harness not built yet") }

// Package c02 drives the real verifier.Verify over scenarios of processSignature:
// level x override x validation outcomes x plugin situations x verdicts x extended
// attributes, with an instrumented trust store, revocation validator and plugin manager.
package c02

import (
	"context"
	"crypto/x509"
	"errors"
	"fmt"
	"sort"
	"time"

	revresult "github.com/notaryproject/notation-core-go/revocation/result"
	"github.com/notaryproject/notation-core-go/signature"
	"github.com/notaryproject/notation-go"
	"github.com/notaryproject/notation-go/plugin"
	"github.com/notaryproject/notation-go/verifier"
	"github.com/notaryproject/notation-go/verifier/trustpolicy"
	"github.com/notaryproject/notation-go/xverif/common"
	pluginfw "github.com/notaryproject/notation-plugin-framework-go/plugin"
	"github.com/opencontainers/go-digest"
	ocispec "github.com/opencontainers/image-spec/specs-go/v1"
)

type ExtAttr struct {
	Key      string `json:"key"`
	Critical bool   `json:"critical"`
}

type Input struct {
	Level             string      `json:"level"`
	Override          [][2]string `json:"override"`
	PluginAttr        string      `json:"pluginAttr"`
	MinVerAttr        string      `json:"minVerAttr"`
	ExtAttrs          []ExtAttr   `json:"extAttrs"`
	PluginState       string      `json:"pluginState"`
	PluginVersion     string      `json:"pluginVersion"`
	CapIdentity       bool        `json:"capIdentity"`
	CapRevocation     bool        `json:"capRevocation"`
	Trust             string      `json:"trust"`
	IdentityMatch     bool        `json:"identityMatch"`
	WildcardIdentity  bool        `json:"wildcardIdentity"`
	Expired           bool        `json:"expired"`
	TimestampOk       bool        `json:"timestampOk"`
	Revocation        string      `json:"revocation"`
	PluginCallError   bool        `json:"pluginCallError"`
	Processed         []string    `json:"processed"`
	VerdictIdentity   string      `json:"verdictIdentity"`
	VerdictRevocation string      `json:"verdictRevocation"`
}

type Result struct {
	Type   string `json:"type"`
	Action string `json:"action"`
	Failed bool   `json:"failed"`
}

type Obs struct {
	Accepted             bool     `json:"accepted"`
	Results              []Result `json:"results"`
	StoreLoads           int      `json:"storeLoads"`
	ValidatorCalls       int      `json:"validatorCalls"`
	ManagerGets          int      `json:"managerGets"`
	PluginVerifyCaps     []string `json:"pluginVerifyCaps"`     // null when the plugin was not executed
	PluginAttrsToProcess []string `json:"pluginAttrsToProcess"` // null when the plugin was not executed
}

const pluginName = "verif-plugin"

var target = ocispec.Descriptor{MediaType: "application/vnd.oci.image.manifest.v1+json", Digest: digest.FromString("c02 artifact"), Size: 12}

type world struct {
	good, expiredLeaf *common.Chain // same subjects; expiredLeaf's leaf certificate is no longer valid
	unrelated         *common.Chain
	envCache          map[string][]byte
}

func newWorld() *world {
	now := time.Now()
	nb := now.Add(-48 * time.Hour)
	leafName := common.Name("c02 leaf")
	return &world{
		good:        common.MakeChain(common.ChainOpts{Tag: "c02", LeafSubject: &leafName, RootNB: nb, LeafNB: nb}),
		expiredLeaf: common.MakeChain(common.ChainOpts{Tag: "c02", LeafSubject: &leafName, RootNB: nb, LeafNB: nb, LeafNA: now.Add(-30 * time.Minute)}),
		unrelated:   common.MakeChain(common.ChainOpts{Tag: "c02 unrelated", RootNB: nb, LeafNB: nb}),
		envCache:    map[string][]byte{},
	}
}

func (w *world) chain(in Input) *common.Chain {
	if in.TimestampOk {
		return w.good
	}
	return w.expiredLeaf
}

// envelope builds (and caches) the signature for the envelope-related part of the scenario.
func (w *world) envelope(in Input, format string) []byte {
	key := fmt.Sprint(format, in.PluginAttr, in.MinVerAttr, in.PluginVersion, in.ExtAttrs, in.Expired, in.TimestampOk)
	if b, ok := w.envCache[key]; ok {
		return b
	}
	var attrs []signature.Attribute
	switch in.PluginAttr {
	case "notCritical":
		attrs = append(attrs, signature.Attribute{Key: verifier.HeaderVerificationPlugin, Critical: false, Value: pluginName})
	case "notString":
		attrs = append(attrs, signature.Attribute{Key: verifier.HeaderVerificationPlugin, Critical: true, Value: 42})
	case "blank":
		attrs = append(attrs, signature.Attribute{Key: verifier.HeaderVerificationPlugin, Critical: true, Value: "  "})
	case "named":
		attrs = append(attrs, signature.Attribute{Key: verifier.HeaderVerificationPlugin, Critical: true, Value: pluginName})
	}
	minVer := "1.0.0"
	if in.PluginVersion == "tooOld" {
		minVer = "2.0.0"
	}
	switch in.MinVerAttr {
	case "notCritical":
		attrs = append(attrs, signature.Attribute{Key: verifier.HeaderVerificationPluginMinVersion, Critical: false, Value: minVer})
	case "notString":
		attrs = append(attrs, signature.Attribute{Key: verifier.HeaderVerificationPluginMinVersion, Critical: true, Value: 7})
	case "blank":
		attrs = append(attrs, signature.Attribute{Key: verifier.HeaderVerificationPluginMinVersion, Critical: true, Value: " "})
	case "invalidSemver":
		attrs = append(attrs, signature.Attribute{Key: verifier.HeaderVerificationPluginMinVersion, Critical: true, Value: "1.x"})
	case "valid":
		attrs = append(attrs, signature.Attribute{Key: verifier.HeaderVerificationPluginMinVersion, Critical: true, Value: minVer})
	}
	for _, a := range in.ExtAttrs {
		attrs = append(attrs, signature.Attribute{Key: a.Key, Critical: a.Critical, Value: "v-" + a.Key})
	}
	now := time.Now().Truncate(time.Second)
	o := common.EnvOpts{Format: format, Chain: w.chain(in), Target: &target, ExtAttrs: attrs, SigningTime: now.Add(-2 * time.Hour)}
	if in.Expired {
		o.Expiry = now.Add(-time.Hour)
	} else {
		o.Expiry = now.Add(24 * time.Hour)
	}
	b := common.MustSign(o)
	w.envCache[key] = b
	return b
}

func runCase(w *world, in Input, format string) Obs {
	env := w.envelope(in, format)
	chain := w.chain(in)

	store := common.NewMemStore()
	switch in.Trust {
	case "found":
		store.Certs["ca:c02"] = []*x509.Certificate{chain.Root().Cert}
	case "notFound":
		store.Certs["ca:c02"] = []*x509.Certificate{w.unrelated.Root().Cert}
	case "emptyStores":
		store.Empty["ca:c02"] = true
	case "storeError":
		store.Errs["ca:c02"] = errors.New("cannot load store")
	}
	rev := &common.ScriptedRevocation{}
	switch in.Revocation {
	case "ok":
		rev.Results = common.UniformResults(revresult.ResultOK)
	case "revoked":
		rev.Results = common.VectorResults([]revresult.Result{revresult.ResultRevoked, revresult.ResultOK})
	case "unknown":
		rev.Results = common.VectorResults([]revresult.Result{revresult.ResultUnknown, revresult.ResultOK})
	default:
		rev.Results = func([]*x509.Certificate) ([]*revresult.CertRevocationResult, error) {
			return nil, errors.New("validator failure")
		}
	}
	identity := "x509.subject: C=US, ST=WA, O=Notary, CN=c02 leaf"
	if !in.IdentityMatch {
		identity = "x509.subject: C=US, ST=WA, O=Notary, CN=c02 somebody else"
	}
	if in.WildcardIdentity {
		identity = "*"
	}
	ov := map[trustpolicy.ValidationType]trustpolicy.ValidationAction{}
	for _, kv := range in.Override {
		ov[trustpolicy.ValidationType(kv[0])] = trustpolicy.ValidationAction(kv[1])
	}
	if len(ov) == 0 {
		ov = nil
	}
	doc := &trustpolicy.OCIDocument{Version: "1.0", TrustPolicies: []trustpolicy.OCITrustPolicy{{
		Name:                  "c02",
		RegistryScopes:        []string{"*"},
		SignatureVerification: trustpolicy.SignatureVerification{VerificationLevel: in.Level, Override: ov},
		TrustStores:           []string{"ca:c02"},
		TrustedIdentities:     []string{identity},
	}}}
	sp := &common.ScriptedPlugin{}
	mgr := &common.ScriptedManager{Plugins: map[string]pluginfw.Plugin{}}
	var caps []pluginfw.Capability
	// a signing capability first: it must be filtered out
	caps = append(caps, pluginfw.CapabilitySignatureGenerator)
	if in.CapIdentity {
		caps = append(caps, pluginfw.CapabilityTrustedIdentityVerifier)
	}
	if in.CapRevocation {
		caps = append(caps, pluginfw.CapabilityRevocationCheckVerifier)
	}
	version := "1.0.0"
	if in.PluginVersion == "invalidSemver" {
		version = "1.0"
	}
	sp.Metadata = &pluginfw.GetMetadataResponse{Name: pluginName, Description: "d", Version: version, URL: "u",
		SupportedContractVersions: []string{"1.0"}, Capabilities: caps}
	switch in.PluginState {
	case "metadataError":
		sp.MetadataErr = errors.New("metadata failure")
		mgr.Plugins[pluginName] = sp
	case "installed":
		mgr.Plugins[pluginName] = sp
	}
	resp := &pluginfw.VerifySignatureResponse{VerificationResults: map[pluginfw.Capability]*pluginfw.VerificationResult{}}
	for _, k := range in.Processed {
		resp.ProcessedAttributes = append(resp.ProcessedAttributes, k)
	}
	switch in.VerdictIdentity {
	case "success":
		resp.VerificationResults[pluginfw.CapabilityTrustedIdentityVerifier] = &pluginfw.VerificationResult{Success: true}
	case "failure":
		resp.VerificationResults[pluginfw.CapabilityTrustedIdentityVerifier] = &pluginfw.VerificationResult{Success: false, Reason: "no"}
	}
	switch in.VerdictRevocation {
	case "success":
		resp.VerificationResults[pluginfw.CapabilityRevocationCheckVerifier] = &pluginfw.VerificationResult{Success: true}
	case "failure":
		resp.VerificationResults[pluginfw.CapabilityRevocationCheckVerifier] = &pluginfw.VerificationResult{Success: false, Reason: "revoked"}
	}
	sp.VerifyResp = resp
	if in.PluginCallError {
		sp.VerifyResp, sp.VerifyErr = nil, errors.New("plugin call failed")
	}
	// the same verifier also serves blobs: a statement of the SAME NAME with a very different level
	blobLevel := "audit"
	if in.Level == "audit" {
		blobLevel = "strict"
	}
	bdoc := &trustpolicy.BlobDocument{Version: "1.0", TrustPolicies: []trustpolicy.BlobTrustPolicy{{
		Name:                  "c02",
		SignatureVerification: trustpolicy.SignatureVerification{VerificationLevel: blobLevel},
		TrustStores:           []string{"ca:c02"},
		TrustedIdentities:     []string{"*"},
	}}}
	opts := verifier.VerifierOptions{OCITrustPolicy: doc, BlobTrustPolicy: bdoc, RevocationCodeSigningValidator: rev}
	if in.PluginState != "managerNil" {
		opts.PluginManager = mgr
	}
	v, err := verifier.NewVerifierWithOptions(store, opts)
	if err != nil {
		panic(fmt.Sprintf("c02: NewVerifierWithOptions: %v (level %s override %v)", err, in.Level, in.Override))
	}
	vopts := notation.VerifierVerifyOptions{ArtifactReference: "reg.example/c02@" + target.Digest.String(), SignatureMediaType: format}
	if in.PluginCallError || len(in.Override)%2 == 1 {
		// history on one verifier: first a blob verification under the same-named blob statement
		// (its result is irrelevant), then the verification under test
		v.VerifyBlob(context.Background(), func(a digest.Algorithm) (ocispec.Descriptor, error) {
			return ocispec.Descriptor{Digest: a.FromString("c02 blob"), Size: 8}, nil
		}, env, notation.BlobVerifierVerifyOptions{SignatureMediaType: format, TrustPolicyName: "c02"})
		store.Reset()
		rev.Calls, mgr.Gets, sp.VerifyRequests, sp.MetadataCalls = nil, nil, nil, 0
	}
	outcome, verr := v.Verify(context.Background(), target, env, vopts)
	o := Obs{Accepted: verr == nil, Results: []Result{}}
	if outcome != nil {
		for i, r := range outcome.VerificationResults {
			if i == 0 && r.Type == trustpolicy.TypeIntegrity {
				if r.Error != nil {
					panic(fmt.Sprintf("c02: integrity failed on a freshly signed envelope: %v", r.Error))
				}
				continue
			}
			o.Results = append(o.Results, Result{string(r.Type), string(r.Action), r.Error != nil})
		}
	}
	for _, c := range store.Calls {
		if c.Type == "ca" || c.Type == "signingAuthority" {
			o.StoreLoads++
		}
	}
	o.ValidatorCalls = len(rev.Calls)
	o.ManagerGets = len(mgr.Gets)
	if len(sp.VerifyRequests) > 0 {
		req := sp.VerifyRequests[0]
		o.PluginVerifyCaps = []string{}
		for _, c := range req.TrustPolicy.SignatureVerification {
			o.PluginVerifyCaps = append(o.PluginVerifyCaps, string(c))
		}
		o.PluginAttrsToProcess = append([]string{}, req.Signature.UnprocessedAttributes...)
		sort.Strings(o.PluginAttrsToProcess)
	}
	return o
}

// legal overrides per type (none = leave the base action)
var overrideChoices = map[string][]string{
	"authenticity":       {"", "enforce", "log"},
	"authenticTimestamp": {"", "enforce", "log"},
	"expiry":             {"", "enforce", "log"},
	"revocation":         {"", "enforce", "log", "skip"},
}
var overrideTypes = []string{"authenticity", "authenticTimestamp", "expiry", "revocation"}

func pick[T any](c *common.Ctx, xs []T) T { return xs[c.Rand.Intn(len(xs))] }

// weighted boolean: true with probability p
func chance(c *common.Ctx, p float64) bool { return c.Rand.Float64() < p }

func genInput(c *common.Ctx) Input {
	in := Input{Override: [][2]string{}, ExtAttrs: []ExtAttr{}, Processed: []string{}}
	in.Level = pick(c, []string{"strict", "permissive", "audit"})
	for _, t := range overrideTypes {
		if a := pick(c, overrideChoices[t]); a != "" && chance(c, 0.5) {
			in.Override = append(in.Override, [2]string{t, a})
		}
	}
	// plugin attribute: mostly absent or named, rarely malformed
	switch r := c.Rand.Float64(); {
	case r < 0.30:
		in.PluginAttr = "absent"
	case r < 0.92:
		in.PluginAttr = "named"
	default:
		in.PluginAttr = pick(c, []string{"notCritical", "notString", "blank"})
	}
	switch r := c.Rand.Float64(); {
	case r < 0.45:
		in.MinVerAttr = "absent"
	case r < 0.92:
		in.MinVerAttr = "valid"
	default:
		in.MinVerAttr = pick(c, []string{"notCritical", "notString", "blank", "invalidSemver"})
	}
	switch r := c.Rand.Float64(); {
	case r < 0.80:
		in.PluginState = "installed"
	default:
		in.PluginState = pick(c, []string{"managerNil", "notInstalled", "metadataError"})
	}
	switch r := c.Rand.Float64(); {
	case r < 0.80:
		in.PluginVersion = "ok"
	default:
		in.PluginVersion = pick(c, []string{"invalidSemver", "tooOld"})
	}
	switch c.Rand.Intn(8) {
	case 0:
	case 1, 2:
		in.CapIdentity = true
	case 3, 4:
		in.CapRevocation = true
	default:
		in.CapIdentity, in.CapRevocation = true, true
	}
	if chance(c, 0.8) {
		in.Trust = "found"
	} else {
		in.Trust = pick(c, []string{"notFound", "emptyStores", "storeError"})
	}
	in.IdentityMatch = chance(c, 0.8)
	if in.IdentityMatch && chance(c, 0.35) {
		in.WildcardIdentity = true
	}
	in.Expired = chance(c, 0.2)
	in.TimestampOk = chance(c, 0.8)
	if chance(c, 0.7) {
		in.Revocation = "ok"
	} else {
		in.Revocation = pick(c, []string{"revoked", "unknown", "validatorError"})
	}
	in.PluginCallError = chance(c, 0.07)
	// extended attributes: none / one / two, mostly critical
	// the second key shares the prefix of the two plugin headers without being one of them: it is an
	// ordinary extended attribute and must be treated like any other
	keys := []string{"com.example.alpha", "io.cncf.notary.verificationPluginConfigDigest"}
	if chance(c, 0.5) {
		keys[0], keys[1] = keys[1], keys[0]
	}
	n := pick(c, []int{0, 0, 1, 1, 2})
	for k := 0; k < n; k++ {
		in.ExtAttrs = append(in.ExtAttrs, ExtAttr{Key: keys[k], Critical: chance(c, 0.85)})
	}
	// processed attributes: usually all, sometimes a strict subset, sometimes extra
	for _, a := range in.ExtAttrs {
		if chance(c, 0.8) {
			in.Processed = append(in.Processed, a.Key)
		}
	}
	if chance(c, 0.1) {
		in.Processed = append(in.Processed, "com.example.unrelated")
	}
	in.VerdictIdentity = pick(c, []string{"success", "success", "success", "failure", "missing"})
	in.VerdictRevocation = pick(c, []string{"success", "success", "success", "failure", "missing"})
	return in
}

// corpus: witnesses of earlier findings, always run first
func corpus() []Input {
	base := Input{Level: "strict", Override: [][2]string{{"revocation", "skip"}}, PluginAttr: "absent", MinVerAttr: "absent",
		ExtAttrs: []ExtAttr{{"com.example.mustUnderstand", true}}, PluginState: "installed", PluginVersion: "ok",
		Trust: "found", IdentityMatch: true, TimestampOk: true, Revocation: "ok", Processed: []string{},
		VerdictIdentity: "success", VerdictRevocation: "success"}
	// F-C02a: critical attribute, no plugin named
	a := base
	// F-C02b: plugin named, revocation-only capability, revocation skipped -> never executed
	b := base
	b.PluginAttr, b.CapRevocation = "named", true
	// the same with the plugin owning identity: executed, attribute unprocessed
	c := b
	c.CapIdentity = true
	return []Input{a, b, c}
}

// Run: corpus, then a stratified random sample of the scenario product.
func Run(c *common.Ctx) error {
	w := newWorld()
	n := 12000
	if c.Thorough() {
		n = 150000
	}
	emit := func(in Input) {
		format := common.MediaJWS
		if c.Rand.Intn(3) == 0 {
			format = common.MediaCOSE
		}
		o := runCase(w, in, format)
		c.Emit(in, o)
		c.Count("level=" + in.Level)
		c.Count("plugin=" + in.PluginAttr + "/" + in.PluginState)
		c.Count(fmt.Sprintf("accepted=%v", o.Accepted))
		c.Count("format=" + format)
		if o.PluginVerifyCaps != nil {
			c.Count("plugin-executed")
		}
		c.Count(fmt.Sprintf("results=%d", len(o.Results)))
	}
	for _, in := range corpus() {
		emit(in)
	}
	for k := 0; k < n; k++ {
		emit(genInput(c))
	}
	c.Note("stratified random scenarios of processSignature (level x legal override x plugin attribute/state/version/capabilities x trust x identity x expiry x timestamp x revocation x verdicts x extended attributes); signatures are real JWS/COSE envelopes verified by the real verifier.Verify with instrumented trust store, revocation validator and plugin manager")
	return nil
}

var _ = plugin.NewCLIManager

// Package c02 drives the real verifier.Verify over scenarios of processSignature:
// level x override x validation outcomes x plugin situations x verdicts x extended
// attributes, with an instrumented trust store, revocation validator and plugin manager.
package c02

import (
	"context"
	"crypto/sha256"
	"crypto/x509"
	"encoding/json"
	"errors"
	"fmt"
	"os"
	"path/filepath"
	"reflect"
	"sort"
	"sync"
	"time"

	revresult "github.com/notaryproject/notation-core-go/revocation/result"
	"github.com/notaryproject/notation-core-go/signature"
	"github.com/notaryproject/notation-core-go/signature/cose"
	"github.com/notaryproject/notation-core-go/signature/jws"
	"github.com/notaryproject/notation-go"
	"github.com/notaryproject/notation-go/dir"
	"github.com/notaryproject/notation-go/plugin"
	"github.com/notaryproject/notation-go/verifier"
	"github.com/notaryproject/notation-go/verifier/trustpolicy"
	"github.com/notaryproject/notation-go/verifier/truststore"
	"github.com/notaryproject/notation-go/xverif/common"
	pluginfw "github.com/notaryproject/notation-plugin-framework-go/plugin"
	"github.com/opencontainers/go-digest"
	ocispec "github.com/opencontainers/image-spec/specs-go/v1"
)

type ExtAttr struct {
	Key      string `json:"key"`
	Critical bool   `json:"critical"`
}

type Input struct {
	Level             string      `json:"level"`
	Override          [][2]string `json:"override"`
	PluginAttr        string      `json:"pluginAttr"`
	MinVerAttr        string      `json:"minVerAttr"`
	ExtAttrs          []ExtAttr   `json:"extAttrs"`
	PluginState       string      `json:"pluginState"`
	PluginVersion     string      `json:"pluginVersion"`
	CapIdentity       bool        `json:"capIdentity"`
	CapRevocation     bool        `json:"capRevocation"`
	Trust             string      `json:"trust"`
	IdentityMatch     bool        `json:"identityMatch"`
	WildcardIdentity  bool        `json:"wildcardIdentity"`
	Expired           bool        `json:"expired"`
	TimestampOk       bool        `json:"timestampOk"`
	Revocation        string      `json:"revocation"`
	PluginCallError   bool        `json:"pluginCallError"`
	Processed         []string    `json:"processed"`
	VerdictIdentity   string      `json:"verdictIdentity"`
	VerdictRevocation string      `json:"verdictRevocation"`
	// how the scenario is concretised (the model does not look at these)
	Stores    []string `json:"stores"`    // the statement's trust store list by kind; [] = one store chosen by Trust
	StoreImpl string   `json:"storeImpl"` // fake | fs
	Ctor      string   `json:"ctor"`      // New | NewWithOptions | NewVerifierWithOptions | NewFromConfig | NewOCIVerifierFromConfig
	RevSupply string   `json:"revSupply"` // validator | client | both | none
	// how the truth of the authentic-timestamp validation is realised
	Scheme   string `json:"scheme"`   // x509 (valid NOW, no countersignature) | signingAuthority (valid at the signing time)
	ChainLen int    `json:"chainLen"` // certificates in the chain, 1 = self-signed signing certificate; 0 = 2
	BadCert  int    `json:"badCert"`  // when !TimestampOk: index (leaf = 0) of the certificate not valid at that time
	BadHow   string `json:"badHow"`   // expired | notYetValid | noCountersignature (valid chain, a timestamp is demanded and missing)
	// round 7: the statement's timestamp configuration and the distance from the end points of a validity period
	TsaStore        bool   `json:"tsaStore"`        // the statement lists a tsa trust store as well
	VerifyTimestamp string `json:"verifyTimestamp"` // "" | always | afterCertExpiry
	BadBy           string `json:"badBy"`           // when !TimestampOk: "" (half an hour or more) | second (exactly one second outside)
	Edge            string `json:"edge"`            // when TimestampOk: "" | notBefore | notAfter (the signing time IS that end point of certificate BadCert)
}

type Result struct {
	Type   string `json:"type"`
	Action string `json:"action"`
	Failed bool   `json:"failed"`
}

type Obs struct {
	Accepted             bool     `json:"accepted"`
	Results              []Result `json:"results"`
	StoreLoads           int      `json:"storeLoads"`
	ValidatorCalls       int      `json:"validatorCalls"`
	ManagerGets          int      `json:"managerGets"`
	PluginVerifyCaps     []string `json:"pluginVerifyCaps"`     // null when the plugin was not executed
	PluginAttrsToProcess []string `json:"pluginAttrsToProcess"` // null when the plugin was not executed
}

const pluginName = "verif-plugin"

var target = ocispec.Descriptor{MediaType: "application/vnd.oci.image.manifest.v1+json", Digest: digest.FromString("c02 artifact"), Size: 12}

type world struct {
	good, expiredLeaf *common.Chain // same subjects; expiredLeaf's leaf certificate is no longer valid
	unrelated         *common.Chain
	envCache          map[string][]byte
	workDir           string
	fsDone            map[string]bool
	chains            map[string]*common.Chain
	signingTime       time.Time // the (whole-second) signing time every signature of the harness claims
}

// signingAge: every signature of the harness claims to have been produced two hours ago
const signingAge = 2 * time.Hour

// mintChain mints a chain of n certificates (leaf first, all with the scenario's leaf subject and a valid
// code-signing shape) of which certificate `special` (if >= 0) stands in the relation `how` to the time `ref`:
// expired / notYetValid (outside by half an hour or more), expired-second / notYetValid-second (outside by exactly
// one second), notBefore / notAfter (ref IS that end point of its validity period: still inside).
func mintChain(n, special int, how string, ref time.Time) *common.Chain {
	now := time.Now()
	window := func(k int) (time.Time, time.Time) {
		nb, na := now.Add(-48*time.Hour), now.Add(48*time.Hour)
		if k == special {
			switch how {
			case "notYetValid":
				nb = ref.Add(time.Hour) // a renewed certificate: valid only after the reference time
			case "notYetValid-second":
				nb = ref.Add(time.Second)
			case "expired":
				na = ref.Add(-30 * time.Minute) // expired before the reference time
			case "expired-second":
				na = ref.Add(-time.Second)
			case "notBefore":
				nb = ref
			case "notAfter":
				na = ref
			default:
				panic("c02: mintChain " + how)
			}
		}
		return nb, na
	}
	leafName := common.Name("c02 leaf")
	if n == 1 {
		nb, na := window(0)
		return &common.Chain{Certs: []*common.Cert{common.MakeCert(common.CertOpts{Subject: leafName,
			EKU: []x509.ExtKeyUsage{x509.ExtKeyUsageCodeSigning}, NotBefore: nb, NotAfter: na})}}
	}
	nb, na := window(n - 1)
	issuer := common.MakeCert(common.CertOpts{Subject: common.Name("root c02"), CA: true, PathLen: n - 2, NotBefore: nb, NotAfter: na})
	certs := []*common.Cert{issuer}
	for k := n - 2; k >= 1; k-- {
		nb, na := window(k)
		inter := common.MakeCert(common.CertOpts{Subject: common.Name(fmt.Sprintf("intermediate%d c02", k)), CA: true, PathLen: k - 1,
			Parent: issuer, NotBefore: nb, NotAfter: na})
		certs = append([]*common.Cert{inter}, certs...)
		issuer = inter
	}
	nb, na = window(0)
	leaf := common.MakeCert(common.CertOpts{Subject: leafName, Parent: issuer, EKU: []x509.ExtKeyUsage{x509.ExtKeyUsageCodeSigning}, NotBefore: nb, NotAfter: na})
	return &common.Chain{Certs: append([]*common.Cert{leaf}, certs...)}
}

func isSA(in Input) bool { return in.Scheme == "signingAuthority" }

// neededType is the trust store type the signature's scheme asks for; otherType the one it must not touch.
func neededType(in Input) (needed, other string) {
	if isSA(in) {
		return "signingAuthority", "ca"
	}
	return "ca", "signingAuthority"
}

// chainBad: a certificate of the chain is minted outside the prescribed time (a failing validation whose reason
// is a missing countersignature has a perfectly valid chain).
func chainBad(in Input) bool { return !in.TimestampOk && in.BadHow != "noCountersignature" }

// chainKey identifies the chain of the scenario ("" = one of the two original chains).
func chainKey(in Input) string {
	if in.ChainLen == 0 && !isSA(in) {
		return ""
	}
	n := in.ChainLen
	if n == 0 {
		n = 2
	}
	if !chainBad(in) {
		if in.TimestampOk && in.Edge != "" {
			return fmt.Sprintf("n%d-edge%d-%s-sa=%v", n, in.BadCert, in.Edge, isSA(in))
		}
		return fmt.Sprintf("n%d-ok", n)
	}
	return fmt.Sprintf("n%d-bad%d-%s-%s-sa=%v", n, in.BadCert, in.BadHow, in.BadBy, isSA(in))
}

// rawSign signs with the format-specific envelope, stepping over the signer-side sanity checks of
// notation-core-go (which refuse to SIGN with a chain that is not valid at the signing time): any signer is
// free to produce such a signature, it is the verifier that has to judge it.
func rawSign(o common.EnvOpts) []byte {
	if o.Scheme == "" {
		o.Scheme = common.SchemeX509
	}
	var wrapped signature.Envelope
	if o.Format == common.MediaCOSE {
		wrapped = cose.NewEnvelope()
	} else {
		wrapped = jws.NewEnvelope()
	}
	inner, ok := reflect.ValueOf(wrapped).Elem().FieldByName("Envelope").Interface().(signature.Envelope)
	if !ok {
		panic("c02: cannot reach the format specific envelope")
	}
	signer, err := signature.NewLocalSigner(o.Chain.X509(), o.Chain.Leaf().Key)
	if err != nil {
		panic(err)
	}
	b, err := inner.Sign(&signature.SignRequest{
		Payload:                  signature.Payload{ContentType: common.PayloadTypeV1, Content: common.PayloadFor(*o.Target)},
		Signer:                   signer,
		SigningTime:              o.SigningTime.Truncate(time.Second),
		Expiry:                   o.Expiry.Truncate(time.Second),
		ExtendedSignedAttributes: o.ExtAttrs,
		SigningScheme:            signature.SigningScheme(o.Scheme),
	})
	if err != nil {
		panic(fmt.Sprintf("c02: raw sign: %v", err))
	}
	return b
}

// countingStore wraps a real trust store and logs the calls.
type countingStore struct {
	mu    sync.Mutex
	inner truststore.X509TrustStore
	calls []common.StoreCall
}

func (s *countingStore) GetCertificates(ctx context.Context, t truststore.Type, name string) ([]*x509.Certificate, error) {
	s.mu.Lock()
	s.calls = append(s.calls, common.StoreCall{Type: string(t), Name: name})
	s.mu.Unlock()
	return s.inner.GetCertificates(ctx, t, name)
}

// storeEntry is one concrete entry of the statement's trustStores list.
type storeEntry struct {
	kind, typ, name string
	brokenVariant   int
}

// layout names the concrete stores of the scenario; first = "type:name" of the first entry of the needed type.
func layout(in Input) (entries []storeEntry, first string) {
	needed, other := neededType(in)
	if len(in.Stores) == 0 {
		kind := map[string]string{"found": "anchor", "notFound": "other", "emptyStores": "empty", "storeError": "broken"}[in.Trust]
		return []storeEntry{{kind: kind, typ: needed, name: "c02"}}, "c02"
	}
	for k, kind := range in.Stores {
		e := storeEntry{kind: kind, typ: needed, name: fmt.Sprintf("c02-%d-%s", k, kind), brokenVariant: (k + len(in.Stores)) % 3}
		if kind == "otherType" || kind == "otherTypeBroken" {
			e.typ = other
		}
		entries = append(entries, e)
	}
	for _, e := range entries {
		if e.typ == needed && e.kind != "dup" {
			first = e.name
			break
		}
	}
	for k := range entries {
		if entries[k].kind == "dup" {
			entries[k].name = first
		}
	}
	return entries, first
}

// trustOf mirrors Model/C02.lean trustOf.
func trustOf(kinds []string) string {
	has := func(k string) bool {
		for _, x := range kinds {
			if x == k {
				return true
			}
		}
		return false
	}
	switch {
	case has("broken"):
		return "storeError"
	case has("anchor"):
		return "found"
	case has("other"):
		return "notFound"
	}
	return "emptyStores"
}

// wellFormed mirrors Model/C02.lean concretisationOK (plus: an empty store needs the fake).
func wellFormed(in Input) error {
	n := in.ChainLen
	if n == 0 {
		n = 2
	}
	if in.BadCert >= n || n > 4 {
		return fmt.Errorf("certificate %d of a chain of %d", in.BadCert, n)
	}
	if in.Scheme != "x509" && in.Scheme != "signingAuthority" && !(in.Scheme == "" && in.ChainLen == 0) {
		return errors.New("scheme " + in.Scheme)
	}
	if chainKey(in) != "" && !in.TimestampOk && in.BadHow != "expired" && in.BadHow != "notYetValid" && in.BadHow != "noCountersignature" {
		return errors.New("badHow " + in.BadHow)
	}
	if chainKey(in) == "" && !in.TimestampOk && in.BadHow != "expired" && in.BadHow != "noCountersignature" {
		return errors.New("the original chain with the bad leaf is an expired one")
	}
	// round 7 (mirrors the first four conjuncts of concretisationOK)
	if in.Edge != "" && in.Edge != "notBefore" && in.Edge != "notAfter" {
		return errors.New("edge " + in.Edge)
	}
	if in.BadBy != "" && in.BadBy != "second" {
		return errors.New("badBy " + in.BadBy)
	}
	if (in.Edge != "" || in.BadBy != "") && !isSA(in) {
		return errors.New("only the signing time can be placed on / one second off an end point of a validity period")
	}
	if in.VerifyTimestamp != "" && in.VerifyTimestamp != "always" && in.VerifyTimestamp != "afterCertExpiry" {
		return errors.New("verifyTimestamp " + in.VerifyTimestamp)
	}
	demanding := !isSA(in) && in.TsaStore && in.VerifyTimestamp != "afterCertExpiry"
	if !in.TimestampOk && in.BadHow == "noCountersignature" && !demanding {
		return errors.New("a missing countersignature fails only a statement that demands one")
	}
	if in.TimestampOk && !isSA(in) && in.TsaStore && in.VerifyTimestamp != "afterCertExpiry" {
		return errors.New("the statement demands a timestamp and the signatures of the harness carry none")
	}
	if len(in.Stores) > 0 {
		if trustOf(in.Stores) != in.Trust {
			return fmt.Errorf("stores %v realise %s, not %s", in.Stores, trustOf(in.Stores), in.Trust)
		}
		rel := false
		for _, k := range in.Stores {
			if k == "anchor" || k == "other" || k == "empty" || k == "broken" {
				rel = true
			}
			if k == "empty" && in.StoreImpl == "fs" {
				return errors.New("the file-system trust store cannot hold an empty store")
			}
		}
		if !rel {
			return errors.New("no store of the needed type")
		}
	} else if in.StoreImpl == "fs" && in.Trust == "emptyStores" {
		return errors.New("the file-system trust store cannot hold an empty store")
	}
	fromConfig := in.Ctor == "NewFromConfig" || in.Ctor == "NewOCIVerifierFromConfig"
	if (in.Ctor == "New" || fromConfig) && in.RevSupply != "none" {
		return errors.New("constructor takes no revocation option")
	}
	if in.RevSupply == "none" && in.Revocation != "ok" {
		return errors.New("the default validator has no objection to the scenario's certificates")
	}
	if fromConfig && (in.StoreImpl != "fs" || in.PluginAttr == "named") {
		return errors.New("from-config constructors use the file-system store and the CLI plugin manager")
	}
	return nil
}

// fsWorld provisions (once per layout) a notation configuration directory with the stores of the layout.
func (w *world) fsWorld(in Input, chain *common.Chain, entries []storeEntry) string {
	kinds := []string{}
	for _, e := range entries {
		kinds = append(kinds, e.typ+":"+e.name+":"+e.kind)
	}
	key := fmt.Sprintf("%x", sha256.Sum256([]byte(fmt.Sprint(kinds, chainBad(in), chainKey(in)))))[:16]
	base := filepath.Join(w.workDir, "c02fs", key)
	if w.fsDone[key] {
		return base
	}
	must := func(err error) {
		if err != nil {
			panic(fmt.Sprintf("c02: provisioning %s: %v", base, err))
		}
	}
	os.RemoveAll(base)
	anchor := common.PEM(chain.Root().Cert)
	other := common.PEM(w.unrelated.Root().Cert)
	for k, e := range entries {
		d := filepath.Join(base, dir.X509TrustStoreDir(e.typ, e.name))
		switch e.kind {
		case "anchor", "otherType":
			must(os.MkdirAll(d, 0o755))
			if k%2 == 1 {
				must(os.WriteFile(filepath.Join(d, "a-other.crt"), other, 0o644))
			}
			must(os.WriteFile(filepath.Join(d, "anchor.crt"), anchor, 0o644))
		case "other":
			must(os.MkdirAll(d, 0o755))
			must(os.WriteFile(filepath.Join(d, "other.pem"), other, 0o644))
		case "broken":
			switch e.brokenVariant {
			case 0: // not provisioned on this machine
			case 1: // a symbolic link to a perfectly good store
				tgt := filepath.Join(base, fmt.Sprintf("elsewhere-%d", k))
				must(os.MkdirAll(tgt, 0o755))
				must(os.WriteFile(filepath.Join(tgt, "anchor.crt"), anchor, 0o644))
				must(os.MkdirAll(filepath.Dir(d), 0o755))
				must(os.Symlink(tgt, d))
			default: // the anchor and, after it, a file that is no certificate
				must(os.MkdirAll(d, 0o755))
				must(os.WriteFile(filepath.Join(d, "anchor.crt"), anchor, 0o644))
				must(os.WriteFile(filepath.Join(d, "junk.crt"), []byte("not a certificate\n"), 0o644))
			}
		case "dup", "otherTypeBroken":
			// dup: provisioned by its original; otherTypeBroken: not provisioned
		default:
			panic("c02: fs store of kind " + e.kind)
		}
	}
	must(os.MkdirAll(base, 0o755))
	w.fsDone[key] = true
	return base
}

func newWorld(workDir string) *world {
	now := time.Now()
	nb := now.Add(-48 * time.Hour)
	leafName := common.Name("c02 leaf")
	return &world{
		good:        common.MakeChain(common.ChainOpts{Tag: "c02", LeafSubject: &leafName, RootNB: nb, LeafNB: nb}),
		expiredLeaf: common.MakeChain(common.ChainOpts{Tag: "c02", LeafSubject: &leafName, RootNB: nb, LeafNB: nb, LeafNA: now.Add(-30 * time.Minute)}),
		unrelated:   common.MakeChain(common.ChainOpts{Tag: "c02 unrelated", RootNB: nb, LeafNB: nb}),
		envCache:    map[string][]byte{},
		fsDone:      map[string]bool{},
		chains:      map[string]*common.Chain{},
		workDir:     workDir,
		signingTime: now.Truncate(time.Second).Add(-signingAge),
	}
}

func (w *world) chain(in Input) *common.Chain {
	if k := chainKey(in); k != "" {
		if c, ok := w.chains[k]; ok {
			return c
		}
		n := in.ChainLen
		if n == 0 {
			n = 2
		}
		special, how, ref := -1, "", time.Now() // x509 without countersignature: valid at the time of verification
		if isSA(in) {
			ref = w.signingTime // signing authority: valid at the (authentic) signing time, to the second
		}
		switch {
		case chainBad(in):
			special, how = in.BadCert, in.BadHow
			if in.BadBy != "" {
				how += "-" + in.BadBy
			}
		case in.TimestampOk && in.Edge != "":
			special, how = in.BadCert, in.Edge
		}
		c := mintChain(n, special, how, ref)
		w.chains[k] = c
		return c
	}
	if !chainBad(in) {
		return w.good
	}
	return w.expiredLeaf
}

// envelope builds (and caches) the signature for the envelope-related part of the scenario.
func (w *world) envelope(in Input, format string) []byte {
	key := fmt.Sprint(format, in.PluginAttr, in.MinVerAttr, in.PluginVersion, in.ExtAttrs, in.Expired, chainBad(in), in.Scheme, chainKey(in))
	if b, ok := w.envCache[key]; ok {
		return b
	}
	var attrs []signature.Attribute
	switch in.PluginAttr {
	case "notCritical":
		attrs = append(attrs, signature.Attribute{Key: verifier.HeaderVerificationPlugin, Critical: false, Value: pluginName})
	case "notString":
		attrs = append(attrs, signature.Attribute{Key: verifier.HeaderVerificationPlugin, Critical: true, Value: 42})
	case "blank":
		attrs = append(attrs, signature.Attribute{Key: verifier.HeaderVerificationPlugin, Critical: true, Value: "  "})
	case "named":
		attrs = append(attrs, signature.Attribute{Key: verifier.HeaderVerificationPlugin, Critical: true, Value: pluginName})
	}
	minVer := "1.0.0"
	if in.PluginVersion == "tooOld" {
		minVer = "2.0.0"
	}
	switch in.MinVerAttr {
	case "notCritical":
		attrs = append(attrs, signature.Attribute{Key: verifier.HeaderVerificationPluginMinVersion, Critical: false, Value: minVer})
	case "notString":
		attrs = append(attrs, signature.Attribute{Key: verifier.HeaderVerificationPluginMinVersion, Critical: true, Value: 7})
	case "blank":
		attrs = append(attrs, signature.Attribute{Key: verifier.HeaderVerificationPluginMinVersion, Critical: true, Value: " "})
	case "invalidSemver":
		attrs = append(attrs, signature.Attribute{Key: verifier.HeaderVerificationPluginMinVersion, Critical: true, Value: "1.x"})
	case "valid":
		attrs = append(attrs, signature.Attribute{Key: verifier.HeaderVerificationPluginMinVersion, Critical: true, Value: minVer})
	}
	for _, a := range in.ExtAttrs {
		attrs = append(attrs, signature.Attribute{Key: a.Key, Critical: a.Critical, Value: "v-" + a.Key})
	}
	now := time.Now().Truncate(time.Second)
	o := common.EnvOpts{Format: format, Chain: w.chain(in), Target: &target, ExtAttrs: attrs, SigningTime: w.signingTime}
	if isSA(in) {
		o.Scheme = common.SchemeAuthority
	}
	if in.Expired {
		o.Expiry = now.Add(-time.Hour)
	} else {
		o.Expiry = now.Add(24 * time.Hour)
	}
	var b []byte
	if chainKey(in) != "" && (chainBad(in) || in.Edge != "") {
		b = rawSign(o)
	} else {
		b = common.MustSign(o)
	}
	w.envCache[key] = b
	return b
}

func runCase(w *world, in Input, format string) Obs {
	env := w.envelope(in, format)
	chain := w.chain(in)

	if err := wellFormed(in); err != nil {
		panic(fmt.Sprintf("c02: generator emitted an ill-formed concretisation: %v (%+v)", err, in))
	}
	entries, first := layout(in)
	fromConfig := in.Ctor == "NewFromConfig" || in.Ctor == "NewOCIVerifierFromConfig"
	store := common.NewMemStore()
	var counting *countingStore
	var x509Store truststore.X509TrustStore = store
	fsBase := ""
	if in.StoreImpl == "fs" {
		fsBase = w.fsWorld(in, chain, entries)
		counting = &countingStore{inner: truststore.NewX509TrustStore(dir.NewSysFS(fsBase))}
		x509Store = counting
	} else {
		for k, e := range entries {
			key := e.typ + ":" + e.name
			switch e.kind {
			case "anchor", "otherType":
				if k%2 == 1 {
					store.Certs[key] = []*x509.Certificate{w.unrelated.Root().Cert, chain.Root().Cert}
				} else {
					store.Certs[key] = []*x509.Certificate{chain.Root().Cert}
				}
			case "other":
				store.Certs[key] = []*x509.Certificate{w.unrelated.Root().Cert}
			case "empty":
				store.Empty[key] = true
			case "broken":
				if e.brokenVariant == 0 || len(in.Stores) == 0 {
					store.Errs[key] = errors.New("cannot load store")
				} // else: not provisioned, the fake answers with a TrustStoreError
			}
		}
	}
	trustStores := []string{}
	for _, e := range entries {
		trustStores = append(trustStores, e.typ+":"+e.name)
	}
	if in.TsaStore {
		// a tsa store (holding a root certificate) listed first, between or last
		const tsaName = "c02-tsa"
		at := (in.ChainLen + len(in.Override) + len(in.ExtAttrs)) % (len(trustStores) + 1)
		trustStores = append(trustStores[:at], append([]string{"tsa:" + tsaName}, trustStores[at:]...)...)
		if in.StoreImpl == "fs" {
			d := filepath.Join(fsBase, dir.X509TrustStoreDir("tsa", tsaName))
			if _, serr := os.Stat(d); serr != nil {
				if err := os.MkdirAll(d, 0o755); err != nil {
					panic(err)
				}
				if err := os.WriteFile(filepath.Join(d, "tsa-root.crt"), common.PEM(w.unrelated.Root().Cert), 0o644); err != nil {
					panic(err)
				}
			}
		} else {
			store.Certs["tsa:"+tsaName] = []*x509.Certificate{w.unrelated.Root().Cert}
		}
	}
	rev := &common.ScriptedRevocation{}
	switch in.Revocation {
	case "ok":
		rev.Results = common.UniformResults(revresult.ResultOK)
	case "revoked":
		rev.Results = common.VectorResults([]revresult.Result{revresult.ResultRevoked, revresult.ResultOK})
	case "unknown":
		rev.Results = common.VectorResults([]revresult.Result{revresult.ResultUnknown, revresult.ResultOK})
	default:
		rev.Results = func([]*x509.Certificate) ([]*revresult.CertRevocationResult, error) {
			return nil, errors.New("validator failure")
		}
	}
	identity := "x509.subject: C=US, ST=WA, O=Notary, CN=c02 leaf"
	if !in.IdentityMatch {
		identity = "x509.subject: C=US, ST=WA, O=Notary, CN=c02 somebody else"
	}
	if in.WildcardIdentity {
		identity = "*"
	}
	ov := map[trustpolicy.ValidationType]trustpolicy.ValidationAction{}
	for _, kv := range in.Override {
		ov[trustpolicy.ValidationType(kv[0])] = trustpolicy.ValidationAction(kv[1])
	}
	if len(ov) == 0 {
		ov = nil
	}
	doc := &trustpolicy.OCIDocument{Version: "1.0", TrustPolicies: []trustpolicy.OCITrustPolicy{{
		Name:           "c02",
		RegistryScopes: []string{"*"},
		SignatureVerification: trustpolicy.SignatureVerification{VerificationLevel: in.Level, Override: ov,
			VerifyTimestamp: trustpolicy.TimestampOption(in.VerifyTimestamp)},
		TrustStores:       trustStores,
		TrustedIdentities: []string{identity},
	}}}
	sp := &common.ScriptedPlugin{}
	mgr := &common.ScriptedManager{Plugins: map[string]pluginfw.Plugin{}}
	var caps []pluginfw.Capability
	// a signing capability first: it must be filtered out
	caps = append(caps, pluginfw.CapabilitySignatureGenerator)
	if in.CapIdentity {
		caps = append(caps, pluginfw.CapabilityTrustedIdentityVerifier)
	}
	if in.CapRevocation {
		caps = append(caps, pluginfw.CapabilityRevocationCheckVerifier)
	}
	version := "1.0.0"
	if in.PluginVersion == "invalidSemver" {
		version = "1.0"
	}
	sp.Metadata = &pluginfw.GetMetadataResponse{Name: pluginName, Description: "d", Version: version, URL: "u",
		SupportedContractVersions: []string{"1.0"}, Capabilities: caps}
	switch in.PluginState {
	case "metadataError":
		sp.MetadataErr = errors.New("metadata failure")
		mgr.Plugins[pluginName] = sp
	case "installed":
		mgr.Plugins[pluginName] = sp
	}
	resp := &pluginfw.VerifySignatureResponse{VerificationResults: map[pluginfw.Capability]*pluginfw.VerificationResult{}}
	for _, k := range in.Processed {
		resp.ProcessedAttributes = append(resp.ProcessedAttributes, k)
	}
	switch in.VerdictIdentity {
	case "success":
		resp.VerificationResults[pluginfw.CapabilityTrustedIdentityVerifier] = &pluginfw.VerificationResult{Success: true}
	case "failure":
		resp.VerificationResults[pluginfw.CapabilityTrustedIdentityVerifier] = &pluginfw.VerificationResult{Success: false, Reason: "no"}
	}
	switch in.VerdictRevocation {
	case "success":
		resp.VerificationResults[pluginfw.CapabilityRevocationCheckVerifier] = &pluginfw.VerificationResult{Success: true}
	case "failure":
		resp.VerificationResults[pluginfw.CapabilityRevocationCheckVerifier] = &pluginfw.VerificationResult{Success: false, Reason: "revoked"}
	}
	sp.VerifyResp = resp
	if in.PluginCallError {
		sp.VerifyResp, sp.VerifyErr = nil, errors.New("plugin call failed")
	}
	// the same verifier also serves blobs: a statement of the SAME NAME with a very different level
	blobLevel := "audit"
	if in.Level == "audit" {
		blobLevel = "strict"
	}
	bdoc := &trustpolicy.BlobDocument{Version: "1.0", TrustPolicies: []trustpolicy.BlobTrustPolicy{{
		Name:                  "c02",
		SignatureVerification: trustpolicy.SignatureVerification{VerificationLevel: blobLevel},
		TrustStores:           trustStores,
		TrustedIdentities:     []string{"*"},
	}}}
	// the contradicting script: what a checker that must NOT be consulted would say
	contra := &common.ScriptedRevocation{Results: common.UniformResults(revresult.ResultOK)}
	if in.Revocation == "ok" {
		contra.Results = common.VectorResults([]revresult.Result{revresult.ResultRevoked, revresult.ResultOK})
	}
	opts := verifier.VerifierOptions{BlobTrustPolicy: bdoc}
	switch in.RevSupply {
	case "", "validator":
		opts.RevocationCodeSigningValidator = rev
	case "client":
		opts.RevocationClient = rev.ClientView()
	case "both":
		opts.RevocationCodeSigningValidator = rev
		opts.RevocationClient = contra.ClientView()
	case "none":
	default:
		panic("c02: revSupply " + in.RevSupply)
	}
	var pm plugin.Manager
	if in.PluginState != "managerNil" {
		pm = mgr
	}
	var v notation.Verifier
	var err error
	switch in.Ctor {
	case "", "NewVerifierWithOptions":
		opts.OCITrustPolicy, opts.PluginManager = doc, pm
		v, err = verifier.NewVerifierWithOptions(x509Store, opts)
	case "NewWithOptions":
		v, err = verifier.NewWithOptions(doc, x509Store, pm, opts)
	case "New":
		v, err = verifier.New(doc, x509Store, pm)
	case "NewFromConfig", "NewOCIVerifierFromConfig":
		// the library reads the statement and the stores from its configuration directory
		os.Remove(filepath.Join(fsBase, dir.PathOCITrustPolicy))
		os.Remove(filepath.Join(fsBase, dir.PathTrustPolicy))
		pj, jerr := json.Marshal(doc)
		if jerr != nil {
			panic(jerr)
		}
		file := dir.PathOCITrustPolicy
		if in.Ctor == "NewFromConfig" {
			file = dir.PathTrustPolicy // the older name, found by fallback
		}
		if werr := os.WriteFile(filepath.Join(fsBase, file), pj, 0o600); werr != nil {
			panic(werr)
		}
		oldCfg, oldLibexec := dir.UserConfigDir, dir.UserLibexecDir
		dir.UserConfigDir, dir.UserLibexecDir = fsBase, filepath.Join(fsBase, "libexec")
		if in.Ctor == "NewFromConfig" {
			v, err = verifier.NewFromConfig()
		} else {
			v, err = verifier.NewOCIVerifierFromConfig()
		}
		dir.UserConfigDir, dir.UserLibexecDir = oldCfg, oldLibexec
		counting = nil // the library's own store object: calls cannot be counted
	default:
		panic("c02: ctor " + in.Ctor)
	}
	if err != nil {
		panic(fmt.Sprintf("c02: %s: %v (level %s override %v)", in.Ctor, err, in.Level, in.Override))
	}
	vopts := notation.VerifierVerifyOptions{ArtifactReference: "reg.example/c02@" + target.Digest.String(), SignatureMediaType: format}
	if in.PluginCallError || len(in.Override)%2 == 1 {
		// history on one verifier: first a blob verification under the same-named blob statement
		// (its result is irrelevant), then the verification under test
		if bv, ok := v.(notation.BlobVerifier); ok {
			bv.VerifyBlob(context.Background(), func(a digest.Algorithm) (ocispec.Descriptor, error) {
				return ocispec.Descriptor{Digest: a.FromString("c02 blob"), Size: 8}, nil
			}, env, notation.BlobVerifierVerifyOptions{SignatureMediaType: format, TrustPolicyName: "c02"})
		}
		store.Reset()
		if counting != nil {
			counting.calls = nil
		}
		rev.Calls, contra.Calls, mgr.Gets, sp.VerifyRequests, sp.MetadataCalls = nil, nil, nil, nil, 0
	}
	outcome, verr := v.Verify(context.Background(), target, env, vopts)
	o := Obs{Accepted: verr == nil, Results: []Result{}}
	if outcome != nil {
		for i, r := range outcome.VerificationResults {
			if i == 0 && r.Type == trustpolicy.TypeIntegrity {
				if r.Error != nil {
					panic(fmt.Sprintf("c02: integrity failed on a freshly signed envelope: %v", r.Error))
				}
				continue
			}
			o.Results = append(o.Results, Result{string(r.Type), string(r.Action), r.Error != nil})
		}
	}
	hasResult := func(t trustpolicy.ValidationType) int {
		n := 0
		if outcome != nil {
			for _, r := range outcome.VerificationResults {
				if r.Type == t {
					n++
				}
			}
		}
		return n
	}
	// one load of the statement's stores = one call for the first listed store of the needed type
	// (whatever stands behind it); a call for a store of another signing type is one too many
	calls := store.Calls
	if counting != nil {
		calls = counting.calls
	}
	needed, other := neededType(in)
	for _, c := range calls {
		if (c.Type == needed && c.Name == first) || c.Type == other {
			o.StoreLoads++
		}
	}
	if fromConfig {
		o.StoreLoads = hasResult(trustpolicy.TypeAuthenticity) // not countable: as many loads as authenticity results
	}
	// native revocation checks: whichever checker was consulted (the one that must not be included)
	o.ValidatorCalls = len(rev.Calls) + len(contra.Calls)
	if in.RevSupply == "none" {
		// the default validator cannot be instrumented: a native check leaves a revocation result
		// that no plugin was asked for
		o.ValidatorCalls = hasResult(trustpolicy.TypeRevocation)
		if len(sp.VerifyRequests) > 0 {
			for _, c := range sp.VerifyRequests[0].TrustPolicy.SignatureVerification {
				if string(c) == string(pluginfw.CapabilityRevocationCheckVerifier) {
					o.ValidatorCalls = 0
				}
			}
		}
	}
	o.ManagerGets = len(mgr.Gets)
	if len(sp.VerifyRequests) > 0 {
		req := sp.VerifyRequests[0]
		o.PluginVerifyCaps = []string{}
		for _, c := range req.TrustPolicy.SignatureVerification {
			o.PluginVerifyCaps = append(o.PluginVerifyCaps, string(c))
		}
		o.PluginAttrsToProcess = append([]string{}, req.Signature.UnprocessedAttributes...)
		sort.Strings(o.PluginAttrsToProcess)
	}
	return o
}

// legal overrides per type (none = leave the base action)
var overrideChoices = map[string][]string{
	"authenticity":       {"", "enforce", "log"},
	"authenticTimestamp": {"", "enforce", "log"},
	"expiry":             {"", "enforce", "log"},
	"revocation":         {"", "enforce", "log", "skip"},
}
var overrideTypes = []string{"authenticity", "authenticTimestamp", "expiry", "revocation"}

func pick[T any](c *common.Ctx, xs []T) T { return xs[c.Rand.Intn(len(xs))] }

// weighted boolean: true with probability p
func chance(c *common.Ctx, p float64) bool { return c.Rand.Float64() < p }

func genInput(c *common.Ctx) Input {
	in := Input{Override: [][2]string{}, ExtAttrs: []ExtAttr{}, Processed: []string{}}
	in.Level = pick(c, []string{"strict", "permissive", "audit"})
	for _, t := range overrideTypes {
		if a := pick(c, overrideChoices[t]); a != "" && chance(c, 0.5) {
			in.Override = append(in.Override, [2]string{t, a})
		}
	}
	// plugin attribute: mostly absent or named, rarely malformed
	switch r := c.Rand.Float64(); {
	case r < 0.30:
		in.PluginAttr = "absent"
	case r < 0.92:
		in.PluginAttr = "named"
	default:
		in.PluginAttr = pick(c, []string{"notCritical", "notString", "blank"})
	}
	switch r := c.Rand.Float64(); {
	case r < 0.45:
		in.MinVerAttr = "absent"
	case r < 0.92:
		in.MinVerAttr = "valid"
	default:
		in.MinVerAttr = pick(c, []string{"notCritical", "notString", "blank", "invalidSemver"})
	}
	switch r := c.Rand.Float64(); {
	case r < 0.80:
		in.PluginState = "installed"
	default:
		in.PluginState = pick(c, []string{"managerNil", "notInstalled", "metadataError"})
	}
	switch r := c.Rand.Float64(); {
	case r < 0.80:
		in.PluginVersion = "ok"
	default:
		in.PluginVersion = pick(c, []string{"invalidSemver", "tooOld"})
	}
	switch c.Rand.Intn(8) {
	case 0:
	case 1, 2:
		in.CapIdentity = true
	case 3, 4:
		in.CapRevocation = true
	default:
		in.CapIdentity, in.CapRevocation = true, true
	}
	if chance(c, 0.8) {
		in.Trust = "found"
	} else {
		in.Trust = pick(c, []string{"notFound", "emptyStores", "storeError"})
	}
	in.IdentityMatch = chance(c, 0.8)
	if in.IdentityMatch && chance(c, 0.35) {
		in.WildcardIdentity = true
	}
	in.Expired = chance(c, 0.2)
	in.TimestampOk = chance(c, 0.8)
	if chance(c, 0.7) {
		in.Revocation = "ok"
	} else {
		in.Revocation = pick(c, []string{"revoked", "unknown", "validatorError"})
	}
	in.PluginCallError = chance(c, 0.07)
	// extended attributes: none / one / two, mostly critical
	// the second key shares the prefix of the two plugin headers without being one of them: it is an
	// ordinary extended attribute and must be treated like any other
	keys := []string{"com.example.alpha", "io.cncf.notary.verificationPluginConfigDigest"}
	if chance(c, 0.5) {
		keys[0], keys[1] = keys[1], keys[0]
	}
	n := pick(c, []int{0, 0, 1, 1, 2})
	for k := 0; k < n; k++ {
		in.ExtAttrs = append(in.ExtAttrs, ExtAttr{Key: keys[k], Critical: chance(c, 0.85)})
	}
	// processed attributes: usually all, sometimes a strict subset, sometimes extra
	for _, a := range in.ExtAttrs {
		if chance(c, 0.8) {
			in.Processed = append(in.Processed, a.Key)
		}
	}
	if chance(c, 0.1) {
		in.Processed = append(in.Processed, "com.example.unrelated")
	}
	in.VerdictIdentity = pick(c, []string{"success", "success", "success", "failure", "missing"})
	in.VerdictRevocation = pick(c, []string{"success", "success", "success", "failure", "missing"})
	concretise(c, &in)
	return in
}

// concretise chooses HOW the scenario is realised: constructor, revocation supply, trust store
// implementation and the statement's trust store list (adjusting the scenario where a choice cannot realise it).
func concretise(c *common.Ctx, in *Input) {
	switch r := c.Rand.Float64(); {
	case r < 0.50:
		in.Ctor = "NewVerifierWithOptions"
	case r < 0.74:
		in.Ctor = "NewWithOptions"
	case r < 0.86:
		in.Ctor = "New"
	case r < 0.93:
		in.Ctor = "NewFromConfig"
	default:
		in.Ctor = "NewOCIVerifierFromConfig"
	}
	fromConfig := in.Ctor == "NewFromConfig" || in.Ctor == "NewOCIVerifierFromConfig"
	if in.Ctor == "New" || fromConfig {
		in.RevSupply = "none"
	} else {
		in.RevSupply = pick(c, []string{"validator", "validator", "client", "client", "both", "both", "none"})
	}
	if in.RevSupply == "none" {
		in.Revocation = "ok"
	}
	in.StoreImpl = "fake"
	if fromConfig || chance(c, 0.25) {
		in.StoreImpl = "fs"
	}
	if fromConfig && in.PluginAttr == "named" {
		in.PluginAttr = "absent"
	}
	// how the authentic-timestamp truth is realised: scheme x chain length x which certificate is the bad one x how
	in.Scheme, in.ChainLen, in.BadCert, in.BadHow = "x509", 0, 0, "expired" // the two original chains
	if chance(c, 0.7) {
		in.Scheme = pick(c, []string{"x509", "signingAuthority", "signingAuthority"})
		in.ChainLen = pick(c, []int{1, 2, 2, 3, 4})
		if !in.TimestampOk {
			in.BadCert = c.Rand.Intn(in.ChainLen)
			in.BadHow = pick(c, []string{"expired", "notYetValid"})
		}
	}
	// round 7: the statement's timestamp configuration; how close to an end point of a validity period the signing time lies
	in.TsaStore = chance(c, 0.45)
	in.VerifyTimestamp = pick(c, []string{"", "always", "afterCertExpiry", "afterCertExpiry"})
	if isSA(*in) {
		// the scheme does not look at the timestamp configuration; the signing time has a resolution of one second
		if in.TimestampOk && chance(c, 0.4) {
			in.Edge, in.BadCert = pick(c, []string{"notBefore", "notAfter"}), c.Rand.Intn(in.ChainLen)
		}
		if !in.TimestampOk && chance(c, 0.4) {
			in.BadBy = "second"
		}
	} else if in.TsaStore {
		if in.TimestampOk {
			in.VerifyTimestamp = "afterCertExpiry" // every other option demands the timestamp the signature does not carry
		} else if in.VerifyTimestamp != "afterCertExpiry" && chance(c, 0.5) {
			in.BadHow = "noCountersignature" // a valid chain: the timestamp is demanded and missing
		}
	}
	fs := in.StoreImpl == "fs"
	if fs && in.Trust == "emptyStores" {
		in.Trust = pick(c, []string{"notFound", "storeError"})
	}
	if chance(c, 0.25) {
		in.Stores = []string{} // the single store
		return
	}
	fill := map[string][]string{
		"found":       {"anchor", "other", "other", "empty"},
		"notFound":    {"other", "other", "empty"},
		"emptyStores": {"empty"},
		"storeError":  {"anchor", "anchor", "other", "empty", "broken"},
	}[in.Trust]
	must := map[string]string{"found": "anchor", "notFound": "other", "emptyStores": "empty", "storeError": "broken"}[in.Trust]
	stores := []string{must}
	for n := c.Rand.Intn(4); n > 0; n-- {
		k := pick(c, fill)
		if k == "empty" && fs {
			k = "other"
			if in.Trust == "emptyStores" {
				continue
			}
		}
		stores = append(stores, k)
	}
	for _, extra := range []string{"otherType", "otherTypeBroken", "dup"} {
		if chance(c, 0.2) {
			stores = append(stores, extra)
		}
	}
	c.Rand.Shuffle(len(stores), func(a, b int) { stores[a], stores[b] = stores[b], stores[a] })
	in.Stores = stores
}

// where the first unloadable store stands among the stores of the needed type
func brokenPosition(stores []string) string {
	rel := []string{}
	for _, k := range stores {
		if k == "anchor" || k == "other" || k == "empty" || k == "broken" {
			rel = append(rel, k)
		}
	}
	for k, x := range rel {
		if x == "broken" {
			switch {
			case len(rel) == 1:
				return "alone"
			case k == 0:
				return "before"
			case k == len(rel)-1:
				return "after"
			}
			return "between"
		}
	}
	return "none"
}

// corpus: witnesses of earlier findings, always run first
func corpus() []Input {
	base := Input{Level: "strict", Override: [][2]string{{"revocation", "skip"}}, PluginAttr: "absent", MinVerAttr: "absent",
		ExtAttrs: []ExtAttr{{"com.example.mustUnderstand", true}}, PluginState: "installed", PluginVersion: "ok",
		Trust: "found", IdentityMatch: true, TimestampOk: true, Revocation: "ok", Processed: []string{},
		VerdictIdentity: "success", VerdictRevocation: "success"}
	// F-C02a: critical attribute, no plugin named
	a := base
	// F-C02b: plugin named, revocation-only capability, revocation skipped -> never executed
	b := base
	b.PluginAttr, b.CapRevocation = "named", true
	// the same with the plugin owning identity: executed, attribute unprocessed
	c := b
	c.CapIdentity = true
	out := []Input{a, b, c}
	for k := range out {
		out[k].Stores, out[k].StoreImpl, out[k].Ctor, out[k].RevSupply = []string{}, "fake", "NewVerifierWithOptions", "validator"
	}
	// concretisation grid, always run: every level x unloadable store at each position x store implementation,
	// and every constructor x every revocation supply x verdict
	plain := Input{Override: [][2]string{}, PluginAttr: "absent", MinVerAttr: "absent", ExtAttrs: []ExtAttr{}, PluginState: "installed",
		PluginVersion: "ok", Trust: "found", IdentityMatch: true, TimestampOk: true, Revocation: "ok", Processed: []string{},
		VerdictIdentity: "success", VerdictRevocation: "success", Stores: []string{}, StoreImpl: "fake", Ctor: "NewVerifierWithOptions", RevSupply: "validator"}
	for _, lv := range []string{"strict", "permissive", "audit"} {
		for _, impl := range []string{"fake", "fs"} {
			for _, st := range [][]string{{"broken", "anchor"}, {"anchor", "broken"}, {"anchor", "broken", "anchor"}, {"other", "broken", "other", "anchor"},
				{"broken", "broken", "anchor"}, {"broken", "anchor", "anchor"}, {"otherTypeBroken", "anchor"}, {"anchor", "otherTypeBroken"},
				{"other", "anchor"}, {"anchor", "other", "dup"}, {"otherType", "other"}, {"dup", "broken", "anchor"}} {
				x := plain
				x.Level, x.StoreImpl, x.Stores, x.Trust = lv, impl, st, trustOf(st)
				out = append(out, x)
				if impl == "fs" {
					x.Ctor, x.RevSupply = "NewFromConfig", "none"
					out = append(out, x)
				}
			}
		}
		for _, ctor := range []string{"New", "NewWithOptions", "NewVerifierWithOptions", "NewFromConfig", "NewOCIVerifierFromConfig"} {
			for _, sup := range []string{"validator", "client", "both", "none"} {
				for _, rv := range []string{"ok", "revoked", "unknown", "validatorError"} {
					for _, ov := range [][][2]string{{}, {{"revocation", "enforce"}}, {{"revocation", "log"}}, {{"revocation", "skip"}}} {
						x := plain
						x.Level, x.Ctor, x.RevSupply, x.Revocation, x.Override = lv, ctor, sup, rv, ov
						if ctor == "NewFromConfig" || ctor == "NewOCIVerifierFromConfig" {
							x.StoreImpl = "fs"
						}
						if wellFormed(x) == nil {
							out = append(out, x)
						}
					}
				}
			}
		}
	}
	// every level (and a tightened / relaxed authenticTimestamp) x scheme x chain length x bad certificate x how
	for _, lv := range []string{"strict", "permissive", "audit"} {
		for _, ov := range [][][2]string{{}, {{"authenticTimestamp", "enforce"}}, {{"authenticTimestamp", "log"}}} {
			for _, sch := range []string{"x509", "signingAuthority"} {
				for n := 1; n <= 4; n++ {
					x := plain
					x.Level, x.Override, x.Scheme, x.ChainLen, x.BadHow = lv, ov, sch, n, "expired"
					out = append(out, x)
					for bad := 0; bad < n; bad++ {
						for _, how := range []string{"expired", "notYetValid"} {
							y := x
							y.TimestampOk, y.BadCert, y.BadHow = false, bad, how
							out = append(out, y)
						}
					}
				}
			}
		}
	}
	// round 7a: every level (and a tightened / relaxed authenticTimestamp) x every timestamp configuration of the
	// statement x chain length x {valid chain, each certificate expired / not yet valid}, scheme notary.x509
	type tsCfg struct {
		tsa bool
		opt string
	}
	for _, lv := range []string{"strict", "permissive", "audit"} {
		for _, ov := range [][][2]string{{}, {{"authenticTimestamp", "enforce"}}, {{"authenticTimestamp", "log"}}} {
			for _, cfg := range []tsCfg{{false, "always"}, {false, "afterCertExpiry"}, {true, ""}, {true, "always"}, {true, "afterCertExpiry"}} {
				for n := 1; n <= 3; n++ {
					x := plain
					x.Level, x.Override, x.Scheme, x.ChainLen, x.BadHow = lv, ov, "x509", n, "expired"
					x.TsaStore, x.VerifyTimestamp = cfg.tsa, cfg.opt
					if cfg.tsa && cfg.opt != "afterCertExpiry" {
						x.TimestampOk, x.BadHow = false, "noCountersignature"
					}
					out = append(out, x) // the valid chain: passes unless a timestamp is demanded
					for bad := 0; bad < n; bad++ {
						for _, how := range []string{"expired", "notYetValid"} {
							y := x
							y.TimestampOk, y.BadCert, y.BadHow = false, bad, how
							out = append(out, y)
						}
					}
				}
			}
			// round 7b: scheme signingAuthority, the signing time on / one second off each end point of each certificate
			for n := 1; n <= 4; n++ {
				for k := 0; k < n; k++ {
					x := plain
					x.Level, x.Override, x.Scheme, x.ChainLen, x.BadCert, x.BadHow = lv, ov, "signingAuthority", n, k, "expired"
					x.TsaStore, x.VerifyTimestamp = (n+k)%2 == 0, []string{"", "always", "afterCertExpiry"}[(n+k)%3]
					for _, e := range []string{"notBefore", "notAfter"} {
						y := x
						y.Edge = e
						out = append(out, y)
					}
					for _, how := range []string{"expired", "notYetValid"} {
						y := x
						y.TimestampOk, y.BadHow, y.BadBy = false, how, "second"
						out = append(out, y)
					}
				}
			}
		}
	}
	return out
}

// where the prescribed time lies relative to the validity period of the scenario's special certificate
func timePosition(in Input) string {
	switch {
	case in.TimestampOk && in.Edge != "":
		return "at-" + in.Edge
	case in.TimestampOk:
		return "inside"
	case in.BadHow == "noCountersignature":
		return "inside(timestamp demanded)"
	case in.BadBy != "":
		return in.BadHow + "-by-one-" + in.BadBy
	}
	return in.BadHow
}

func badCertPosition(in Input) string {
	n := in.ChainLen
	if n == 0 {
		n = 2
	}
	switch {
	case !chainBad(in):
		return "none"
	case n == 1:
		return "only"
	case in.BadCert == 0:
		return "leaf"
	case in.BadCert == n-1:
		return "last"
	}
	return "middle"
}

// Run: corpus, then a stratified random sample of the scenario product.
func Run(c *common.Ctx) error {
	w := newWorld(c.WorkDir)
	n := 12000
	if c.Thorough() {
		n = 150000
	}
	emit := func(in Input) {
		format := common.MediaJWS
		if c.Rand.Intn(3) == 0 {
			format = common.MediaCOSE
		}
		o := runCase(w, in, format)
		c.Emit(in, o)
		c.Count("level=" + in.Level)
		c.Count("plugin=" + in.PluginAttr + "/" + in.PluginState)
		c.Count(fmt.Sprintf("accepted=%v", o.Accepted))
		c.Count("format=" + format)
		if o.PluginVerifyCaps != nil {
			c.Count("plugin-executed")
		}
		c.Count(fmt.Sprintf("results=%d", len(o.Results)))
		c.Count("ctor=" + in.Ctor + "/revSupply=" + in.RevSupply)
		c.Count(fmt.Sprintf("storeImpl=%s/stores=%d", in.StoreImpl, len(in.Stores)))
		c.Count("unloadable-store=" + brokenPosition(in.Stores))
		c.Count(fmt.Sprintf("scheme=%s/chain=%d", in.Scheme, in.ChainLen))
		c.Count("cert-invalid-at-time=" + in.Scheme + "/" + badCertPosition(in))
		c.Count(fmt.Sprintf("timestamp-config=%s/tsa=%v/verifyTimestamp=%s/ok=%v", in.Scheme, in.TsaStore, in.VerifyTimestamp, in.TimestampOk))
		c.Count("time-vs-period=" + in.Scheme + "/" + timePosition(in))
	}
	for _, in := range corpus() {
		emit(in)
	}
	for k := 0; k < n; k++ {
		emit(genInput(c))
	}
	c.Note("stratified random scenarios of processSignature (level x legal override x plugin attribute/state/version/capabilities x trust x identity x expiry x timestamp x revocation x verdicts x extended attributes); signatures are real JWS/COSE envelopes verified by the real verifier.Verify with instrumented trust store, revocation validator and plugin manager; each scenario is concretised along: the statement's trust store list (1-7 entries: anchor / unrelated / empty / unloadable / duplicate / other signing type, unloadable one before, between, after good ones) x trust store implementation (in-memory fake, real file-system store with missing directory / symlink / junk file) x public constructor (New, NewWithOptions, NewVerifierWithOptions, NewFromConfig, NewOCIVerifierFromConfig over a provisioned configuration directory) x revocation supply (RevocationCodeSigningValidator, deprecated RevocationClient, both with a contradicting client, none = default validator); x how the authentic-timestamp truth is realised (scheme notary.x509 without countersignature: a chain certificate not valid now; scheme notary.x509.signingAuthority: a chain certificate not valid at the signing time; chains of 1-4 certificates, the bad one being the leaf / a middle one / the last / the only one, expired before or valid only after that time; such signatures are produced by the format-specific envelope because the signer-side wrapper refuses them); x the statement's timestamp configuration (a tsa trust store listed first / between / last or not at all x verifyTimestamp unset / always / afterCertExpiry; the signatures carry no countersignature, so a demanded timestamp fails the validation over a valid chain, and afterCertExpiry over an unexpired chain must judge like no tsa store at all - in particular a NOT YET valid certificate still fails) x the distance of the signing time from the end points of a validity period (signingAuthority: the signing time IS notBefore / notAfter of any one chain certificate = valid; exactly one second before notBefore / after notAfter = not valid); a fixed grid of these runs first")
	return nil
}

var _ = plugin.NewCLIManager

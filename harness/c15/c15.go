// Package c15 drives the real crl.FileCache (verifier/crl) with sequences of Set / Get
// operations and explicit corruptions of stored entry files, over URL sets containing
// near-identical, path-traversal shaped, very long and empty strings, with CRLs whose
// NextUpdate lies before / after now (base and delta independently).
//
// Overlapping Set calls (pinned interleavings through the step callbacks of file.WriteFile, and a
// free-running stress) are in concurrent.go; they are emitted as sequential histories too.
//
// Abstract input (Lean `C15.Input`): the URL table (text + the SHA-256 digest the harness
// computed for it - the digest function of that run) and the operations. A corruption is
// sent as a `plant` operation whose label (does it unmarshal; which bytes do the two
// fields hold; do those bytes parse as a CRL and with which NextUpdate) comes from the
// harness's own std-lib parse (encoding/json + x509.ParseRevocationList) of the bytes it
// planted. DER byte strings are identified by a per-case registry id.
//
// Observation (Lean `C15.Obs`): per operation ok / err / miss / bundle(id of the base
// bytes, id of the delta bytes), and at the end which entry files exist under the root,
// how many other directory entries there are, whether every entry is a regular file with
// a 64-hex name, and whether anything around the root changed.
package c15

import (
	"context"
	"crypto/ed25519"
	"crypto/rand"
	"crypto/sha256"
	"crypto/x509"
	"crypto/x509/pkix"
	"encoding/asn1"
	"encoding/base64"
	"encoding/hex"
	"encoding/json"
	"encoding/pem"
	"errors"
	"fmt"
	"io/fs"
	"math/big"
	"os"
	"path/filepath"
	"strings"
	"syscall"
	"time"

	corecrl "github.com/notaryproject/notation-core-go/revocation/crl"
	"github.com/notaryproject/notation-go/verifier/crl"
	"github.com/notaryproject/notation-go/xverif/common"
)

// ---- JSON shapes of Lean's Input / Obs ------------------------------------------------

type CrlRef struct {
	ID         int    `json:"id"`
	Parses     bool   `json:"parses"`
	NextUpdate *int64 `json:"nextUpdate"`
}

type Url struct {
	Text   string `json:"text"`
	Digest []int  `json:"digest"`
}

type Op struct {
	Kind   string  `json:"kind"` // setNil | set | get | plant
	Url    int     `json:"url"`
	Base   *CrlRef `json:"base"`
	Delta  *CrlRef `json:"delta"`
	Now    int64   `json:"now"`
	JsonOk bool    `json:"jsonOk"`
	What   string  `json:"what"`
}

type Input struct {
	Urls []Url `json:"urls"`
	Ops  []Op  `json:"ops"`
}

type Out struct {
	Res   string `json:"res"` // ok | err | bundle | miss | panic
	Base  *int   `json:"base"`
	Delta *int   `json:"delta"`
}

type Obs struct {
	Results        []Out  `json:"results"`
	Present        []bool `json:"present"`
	Stray          int    `json:"stray"`
	Files          int    `json:"files"`
	AllHex         bool   `json:"allHex"`
	OutsideChanged bool   `json:"outsideChanged"`
}

// mirror of fileCacheContent for the harness's own (trusted, std-lib) labelling parse
type mirror struct {
	BaseCRL  []byte `json:"baseCRL"`
	DeltaCRL []byte `json:"deltaCRL,omitempty"`
}

// ---- CRL pool -------------------------------------------------------------------------

const unknownID = 999999 // bytes returned by Get that the harness never saw

// offsets of NextUpdate relative to the pool's reference time, in seconds; |offset| >= 75
// while a pool lives at most maxPoolAge, so every margin exceeds 60 s.
const maxPoolAge = 5 * time.Second

type poolCRL struct {
	name string
	der  []byte
	rl   *x509.RevocationList // what is handed to Set (hand-made for the garbage entry)
}

type pool struct {
	t0   time.Time // truncated to the second; abstract time 0
	crls []*poolCRL
	refs []CrlRef // what the std-lib says about each pool CRL (id = pool index)
}

func describe(id int, der []byte, t0 time.Time) CrlRef {
	r := CrlRef{ID: id}
	if rl, err := x509.ParseRevocationList(der); err == nil {
		r.Parses = true
		if !rl.NextUpdate.IsZero() {
			nu := rl.NextUpdate.Unix() - t0.Unix()
			r.NextUpdate = &nu
		}
	}
	return r
}

const (
	pFresh75a = iota
	pFresh75b
	pFresh3600
	pFresh30d
	pExp75a
	pExp75b
	pExp3600
	pExp30d
	pZeroNU
	pGarbage
	pDeltaFresh75
	pDeltaExp75
	pDeltaFreshOld // fresh delta whose thisUpdate lies before that of every base CRL
	poolSize       // the CRLs of the sequential families
)

// CRLs of the concurrency stage (concurrent.go), signed by an Ed25519 issuer so that their
// length is fixed: nEq CRLs of exactly equal length, nVar CRLs of pairwise different length
// (k revoked entries), all with NextUpdate = +3600.
const (
	nEq      = 16
	nVar     = 16
	pEq0     = poolSize
	pVar0    = pEq0 + nEq
	poolFull = pVar0 + nVar
)

// Extreme NextUpdate values (family T): centuries back and ahead, and the boundaries of the
// integer representations a time can be squeezed into (int32 / uint32 / int64-nanosecond Unix time,
// int64-nanosecond durations: 2^63 ns = 9223372036.85 s = 292.27 years). `rel` entries are offsets
// from the pool's reference time (reproducible abstract values), `abs` entries are calendar dates
// (their abstract offset depends on the day the harness runs).
type extreme struct {
	name string
	rel  int64  // seconds relative to t0 (used when abs == "")
	abs  string // RFC 3339
}

const yearSec = 31556952

var extremes = []extreme{
	{name: "-100y", rel: -100 * yearSec}, {name: "-292y", rel: -292 * yearSec},
	{name: "-2^63ns", rel: -9223372036}, {name: "-2^63ns-1s", rel: -9223372037}, {name: "-293y", rel: -293 * yearSec},
	{name: "-300y", rel: -300 * yearSec}, {name: "-425y", rel: -425 * yearSec}, {name: "-526y", rel: -526 * yearSec},
	{name: "-584y", rel: -584 * yearSec}, {name: "-585y", rel: -585 * yearSec}, {name: "-726y", rel: -726 * yearSec},
	{name: "-1026y", rel: -1026 * yearSec}, {name: "-2000y", rel: -2000 * yearSec},
	{name: "+100y", rel: 100 * yearSec}, {name: "+2^63ns", rel: 9223372036}, {name: "+2^63ns+1s", rel: 9223372037},
	{name: "+300y", rel: 300 * yearSec}, {name: "+600y", rel: 600 * yearSec}, {name: "+1000y", rel: 1000 * yearSec}, {name: "+7000y", rel: 7000 * yearSec},
	{name: "0001-01-01T00:00:01Z", abs: "0001-01-01T00:00:01Z"}, {name: "1000", abs: "1000-01-01T00:00:00Z"},
	{name: "1500", abs: "1500-01-01T00:00:00Z"}, {name: "1601 (FILETIME 0)", abs: "1601-01-01T00:00:00Z"},
	{name: "int64ns-min", abs: "1677-09-21T00:12:43Z"}, {name: "int64ns-min+1s", abs: "1677-09-21T00:12:44Z"},
	{name: "1700", abs: "1700-01-01T00:00:00Z"}, {name: "1900", abs: "1900-01-01T00:00:00Z"},
	{name: "int32-min", abs: "1901-12-13T20:45:52Z"}, {name: "unix -1", abs: "1969-12-31T23:59:59Z"},
	{name: "unix 0", abs: "1970-01-01T00:00:00Z"}, {name: "unix 1", abs: "1970-01-01T00:00:01Z"},
	{name: "int32-max", abs: "2038-01-19T03:14:07Z"}, {name: "int32-max+1s", abs: "2038-01-19T03:14:08Z"},
	{name: "uint32-max", abs: "2106-02-07T06:28:15Z"}, {name: "uint32-max+1s", abs: "2106-02-07T06:28:16Z"},
	{name: "int64ns-max", abs: "2262-04-11T23:47:16Z"}, {name: "int64ns-max+1s", abs: "2262-04-11T23:47:17Z"},
	{name: "9999", abs: "9999-12-31T23:59:59Z"},
}

const pExt0 = poolFull

var poolOffsets = map[int]int64{pFresh75a: 75, pFresh75b: 75, pFresh3600: 3600, pFresh30d: 30 * 86400,
	pExp75a: -75, pExp75b: -75, pExp3600: -3600, pExp30d: -30 * 86400, pDeltaFresh75: 75, pDeltaExp75: -75, pDeltaFreshOld: 75}

var poolNames = []string{"fresh75a", "fresh75b", "fresh3600", "fresh30d", "exp75a", "exp75b", "exp3600", "exp30d",
	"zeroNU", "garbage", "deltaFresh75", "deltaExp75", "deltaFreshOld"}

var oidDeltaCRLIndicator = asn1.ObjectIdentifier{2, 5, 29, 27}

func mintPool(ca, edca *common.Cert) *pool {
	p := &pool{t0: time.Now().Truncate(time.Second)}
	for i := 0; i < poolSize; i++ {
		pc := &poolCRL{name: poolNames[i]}
		switch i {
		case pZeroNU:
			// x509.CreateRevocationList refuses a zero NextUpdate; the deprecated CreateCRL
			// omits the optional field, and ParseRevocationList then yields the zero time.
			der, err := ca.Cert.CreateCRL(rand.Reader, ca.Key, nil, p.t0.Add(-time.Hour), time.Time{})
			if err != nil {
				panic(err)
			}
			pc.der = der
		case pGarbage:
			pc.der = []byte("0\x82this is not a certificate revocation list at all")
			pc.rl = &x509.RevocationList{Raw: pc.der}
		default:
			off := poolOffsets[i]
			nu := p.t0.Add(time.Duration(off) * time.Second)
			this := p.t0.Add(-time.Hour)
			if nu.Before(this) {
				this = nu.Add(-time.Hour)
			}
			if i == pDeltaFreshOld {
				this = p.t0.Add(-2 * time.Hour)
			}
			// CRL numbers: fresh75a / fresh75b / fresh3600 are re-issues under ONE number (different
			// bytes, same number), so are the two fresh deltas; the bytes, not the number, are the identity
			number := int64(100 + i)
			switch i {
			case pFresh75a, pFresh75b, pFresh3600:
				number = 100
			case pDeltaFresh75, pDeltaFreshOld:
				number = 150
			}
			t := &x509.RevocationList{Number: big.NewInt(number), ThisUpdate: this, NextUpdate: nu,
				RevokedCertificateEntries: []x509.RevocationListEntry{{SerialNumber: big.NewInt(int64(7000 + i)), RevocationTime: this}}}
			if i == pDeltaFresh75 || i == pDeltaExp75 || i == pDeltaFreshOld {
				v, _ := asn1.Marshal(big.NewInt(100))
				t.ExtraExtensions = []pkix.Extension{{Id: oidDeltaCRLIndicator, Critical: true, Value: v}}
			}
			der, err := x509.CreateRevocationList(rand.Reader, t, ca.Cert, ca.Key)
			if err != nil {
				panic(err)
			}
			pc.der = der
		}
		if pc.rl == nil {
			rl, err := x509.ParseRevocationList(pc.der)
			if err != nil {
				panic(fmt.Sprintf("pool CRL %s does not parse: %v", pc.name, err))
			}
			pc.rl = rl
		}
		p.crls = append(p.crls, pc)
	}
	if !p.crls[pZeroNU].rl.NextUpdate.IsZero() {
		panic("zero-NextUpdate CRL could not be minted")
	}
	// concurrency stage
	this, nu := p.t0.Add(-time.Hour), p.t0.Add(time.Hour)
	for i := 0; i < nEq+nVar; i++ {
		t := &x509.RevocationList{Number: big.NewInt(int64(300 + i)), ThisUpdate: this, NextUpdate: nu}
		name := fmt.Sprintf("eq%d", i)
		n := 1
		if i >= nEq {
			n = i - nEq // 0..nVar-1 entries
			name = fmt.Sprintf("var%d", n)
		}
		for k := 0; k < n; k++ {
			t.RevokedCertificateEntries = append(t.RevokedCertificateEntries,
				x509.RevocationListEntry{SerialNumber: big.NewInt(int64(9000 + 20*i + k)), RevocationTime: this})
		}
		der, err := x509.CreateRevocationList(rand.Reader, t, edca.Cert, edca.Key)
		must(err)
		rl, err := x509.ParseRevocationList(der)
		must(err)
		p.crls = append(p.crls, &poolCRL{name: name, der: der, rl: rl})
	}
	for i := 1; i < nEq; i++ {
		if len(p.crls[pEq0+i].der) != len(p.crls[pEq0].der) {
			panic("equal-length CRLs differ in length")
		}
	}
	for i := 1; i < nVar; i++ {
		if len(p.crls[pVar0+i].der) <= len(p.crls[pVar0+i-1].der) {
			panic("variable-length CRLs are not increasing in length")
		}
	}
	// extreme NextUpdate values
	for i, e := range extremes {
		// time.Duration cannot hold centuries: add the seconds through Unix time
		nu := time.Unix(p.t0.Unix()+e.rel, 0).UTC()
		if e.abs != "" {
			var err error
			nu, err = time.Parse(time.RFC3339, e.abs)
			must(err)
		}
		this := p.t0.Add(-time.Hour)
		if nu.Before(this) {
			this = nu.Add(-time.Second)
			if this.Year() < 1 || nu.Year() == 1 {
				this = nu
			}
		}
		t := &x509.RevocationList{Number: big.NewInt(int64(500 + i)), ThisUpdate: this, NextUpdate: nu,
			RevokedCertificateEntries: []x509.RevocationListEntry{{SerialNumber: big.NewInt(int64(8000 + i)), RevocationTime: this}}}
		der, err := x509.CreateRevocationList(rand.Reader, t, ca.Cert, ca.Key)
		if err != nil {
			panic(fmt.Sprintf("extreme CRL %s: %v", e.name, err))
		}
		rl, err := x509.ParseRevocationList(der)
		if err != nil || !rl.NextUpdate.Equal(nu) {
			panic(fmt.Sprintf("extreme CRL %s does not round-trip: %v %v", e.name, err, rl))
		}
		p.crls = append(p.crls, &poolCRL{name: "NU " + e.name, der: der, rl: rl})
	}
	for i, pc := range p.crls {
		p.refs = append(p.refs, describe(i, pc.der, p.t0))
	}
	return p
}

// ---- per-case world -------------------------------------------------------------------

type world struct {
	dir, root string
	cache     *crl.FileCache
	p         *pool
	reg       map[string]int // DER bytes -> id (per case, in order of first appearance)
	refs      map[int]CrlRef
	site      *site
	caches    []*crl.FileCache // two-roots family: caches[k] lives on roots[k]
	roots     []string
}

func (w *world) ref(der []byte) *CrlRef {
	id, ok := w.reg[string(der)]
	if !ok {
		// the identity of a CRL is the bytes x509 says it consists of (RevocationList.Raw):
		// ParseRevocationList reads one SEQUENCE and ignores bytes after it, so "DER + junk"
		// is the same CRL as "DER" (and Get returns it with Raw = DER)
		if rl, err := x509.ParseRevocationList(der); err == nil && len(rl.Raw) != len(der) {
			return w.ref(rl.Raw)
		}
		id = len(w.reg)
		w.reg[string(der)] = id
		w.refs[id] = describe(id, der, w.p.t0)
	}
	r := w.refs[id]
	return &r
}

func (w *world) idOf(der []byte) *int {
	id, ok := w.reg[string(der)]
	if !ok {
		id = unknownID
	}
	return &id
}

func digestInts(s string) []int {
	h := sha256.Sum256([]byte(s))
	out := make([]int, len(h))
	for i, b := range h {
		out[i] = int(b)
	}
	return out
}

func hexName(s string) string {
	h := sha256.Sum256([]byte(s))
	return hex.EncodeToString(h[:])
}

func snapshot(dir, exclude string) map[string]string {
	m := map[string]string{}
	filepath.WalkDir(dir, func(path string, d fs.DirEntry, err error) error {
		if err != nil {
			m[path] = "error:" + err.Error()
			return nil
		}
		info, ierr := d.Info()
		if ierr != nil {
			m[path] = "error:" + ierr.Error()
			return nil
		}
		if path == exclude {
			m[path] = "root:" + info.Mode().String()
			return fs.SkipDir
		}
		if d.IsDir() {
			m[path] = "dir:" + info.Mode().String()
			return nil
		}
		b, _ := os.ReadFile(path)
		m[path] = fmt.Sprintf("file:%s:%d:%x", info.Mode(), info.Size(), sha256.Sum256(b))
		return nil
	})
	return m
}

func sameSnapshot(a, b map[string]string) bool {
	if len(a) != len(b) {
		return false
	}
	for k, v := range a {
		if b[k] != v {
			return false
		}
	}
	return true
}

func must(err error) {
	if err != nil {
		panic(err)
	}
}

// site is the directory tree around the cache root, built once and checked after every case:
//
//	dir/{etc/passwd, b, outer/{victim.txt, b, sibling/keep, cache/}}
//
// so that every traversal-shaped URL, were it used as a path, would hit a sentinel.
// (Creating and deleting the whole tree per case costs milliseconds on this file system; the
// root is emptied after every case.)
type site struct {
	dir, root string
	root2     string            // a second cache root (outer/cache-b), empty between cases; used by the two-roots family
	before    map[string]string // full snapshot: every path with mode, size and content hash
	stampCore string            // the part of stamp that does not involve the times of root2
	stamp     string            // cheap snapshot: inode, mode, size, mtime, ctime, nlink of every directory and sentinel
	cases     int
}

// stampOf lstat()s the directories and sentinel files around the root. Any creation, removal or
// rename in a directory changes that directory's mtime/ctime, any write to a file changes the
// file's, so an unchanged stamp means an unchanged tree; the root itself (whose mtime changes
// with every entry written) contributes only its inode and mode.
func (s *site) stampOf() string {
	core, r2 := s.stamps()
	return core + r2
}

// stamps: everything around the roots, and separately the second root (whose times change
// legitimately in a two-roots case)
func (s *site) stamps() (string, string) {
	var b strings.Builder
	outer := filepath.Dir(s.root)
	for _, p := range []string{s.dir, filepath.Join(s.dir, "etc"), filepath.Join(s.dir, "etc", "passwd"), filepath.Join(s.dir, "b"),
		outer, filepath.Join(outer, "b"), filepath.Join(outer, "victim.txt"), filepath.Join(outer, "sibling"), filepath.Join(outer, "sibling", "keep")} {
		fi, err := os.Lstat(p)
		if err != nil {
			fmt.Fprintf(&b, "%s:error;", p)
			continue
		}
		st := fi.Sys().(*syscall.Stat_t)
		fmt.Fprintf(&b, "%d:%o:%d:%d.%d:%d.%d:%d;", st.Ino, st.Mode, st.Size, st.Mtim.Sec, st.Mtim.Nsec, st.Ctim.Sec, st.Ctim.Nsec, st.Nlink)
	}
	if fi, err := os.Lstat(s.root); err == nil {
		fmt.Fprintf(&b, "root:%d:%o", fi.Sys().(*syscall.Stat_t).Ino, fi.Sys().(*syscall.Stat_t).Mode)
	} else {
		b.WriteString("root:error")
	}
	r2 := ";root2:error"
	if fi, err := os.Lstat(s.root2); err == nil {
		st := fi.Sys().(*syscall.Stat_t)
		fmt.Fprintf(&b, ";root2:%d:%o", st.Ino, st.Mode)
		r2 = fmt.Sprintf(";%d.%d:%d.%d:%d", st.Mtim.Sec, st.Mtim.Nsec, st.Ctim.Sec, st.Ctim.Nsec, st.Nlink)
	}
	return b.String(), r2
}

// changed: the cheap comparison after every case, the full one (walk + content hashes) every
// 256 cases and whenever the cheap one sees a difference.
func (s *site) changed() bool { return s.changedBut(false) }

// changedBut(true): a two-roots case - the second root was used (and emptied again by the caller):
// its own times are not compared, and the stamp is taken afresh.
func (s *site) changedBut(usedRoot2 bool) bool {
	s.cases++
	core, r2 := s.stamps()
	if usedRoot2 {
		if core != s.stampCore {
			return true
		}
		s.stamp = core + r2
	} else if core+r2 != s.stamp {
		return true
	}
	if s.cases%256 == 0 {
		return !sameSnapshot(s.before, snapshot(s.dir, s.root))
	}
	return false
}

func newSite(c *common.Ctx, n int) *site {
	dir := filepath.Join(c.WorkDir, fmt.Sprintf("c15-%d", n))
	outer := filepath.Join(dir, "outer")
	root := filepath.Join(outer, "cache")
	must(os.MkdirAll(filepath.Join(dir, "etc"), 0o755))
	must(os.MkdirAll(filepath.Join(outer, "sibling"), 0o755))
	must(os.WriteFile(filepath.Join(dir, "etc", "passwd"), []byte("sentinel passwd"), 0o644))
	must(os.WriteFile(filepath.Join(dir, "b"), []byte("sentinel b"), 0o644))
	must(os.WriteFile(filepath.Join(outer, "b"), []byte("sentinel outer b"), 0o644))
	must(os.WriteFile(filepath.Join(outer, "victim.txt"), []byte("sentinel victim"), 0o644))
	must(os.WriteFile(filepath.Join(outer, "sibling", "keep"), []byte("sentinel keep"), 0o644))
	must(os.MkdirAll(root, 0o700))
	root2 := filepath.Join(outer, "cache-b")
	must(os.MkdirAll(root2, 0o700))
	s := &site{dir: dir, root: root, root2: root2}
	s.before = snapshot(dir, root) // root2 is empty whenever a snapshot is taken
	s.stampCore, _ = s.stamps()
	s.stamp = s.stampOf()
	return s
}

func newWorld(s *site, p *pool) *world {
	fc, err := crl.NewFileCache(s.root)
	must(err)
	w := &world{site: s, dir: s.dir, root: s.root, cache: fc, p: p, reg: map[string]int{}, refs: map[int]CrlRef{}}
	for i, pc := range p.crls {
		w.reg[string(pc.der)] = i
		w.refs[i] = p.refs[i]
	}
	return w
}

// ---- corruptions ----------------------------------------------------------------------

type corruption struct {
	name string
	arg  int
}

var foreignDocs = []string{
	`{"foo":1}`,
	`[]`,
	`"just a string"`,
	`null`,
	`{"baseCRL":123}`,
	`{"baseCRL":"!!not base64!!"}`,
	`{"version":"1.0","trustPolicies":[{"name":"p","registryScopes":["*"]}]}`,
	`{"baseCRL":{"raw":"AAAA"}}`,
	`{}`,
	"\x00\x01\x02\xff\xfe",
}

// all corruptions, for the systematic matrix
func allCorruptions() []corruption {
	var out []corruption
	for a := 0; a < 6; a++ {
		out = append(out, corruption{"truncate", a})
	}
	for a := 0; a < 5; a++ {
		out = append(out, corruption{"flipraw", a})
	}
	for a := 0; a < 3; a++ {
		out = append(out, corruption{"flipder", a})
	}
	out = append(out, corruption{"swap", 0})
	for a := range foreignDocs {
		out = append(out, corruption{"foreign", a})
	}
	for a := 0; a < 6; a++ {
		out = append(out, corruption{"garbageder", a})
	}
	for a := 0; a < 4; a++ {
		out = append(out, corruption{"replace", a})
	}
	out = append(out, corruption{"dupkeys", 0}, corruption{"dupkeys", 1})
	for a := 0; a < 4; a++ {
		out = append(out, corruption{"trailing", a})
	}
	out = append(out, corruption{"casekeys", 0}, corruption{"dertrail", 0}, corruption{"dertrail", 1})
	return out
}

func b64(b []byte) string { return base64.StdEncoding.EncodeToString(b) }

func entryJSON(base, delta []byte) []byte {
	b, err := json.Marshal(mirror{BaseCRL: base, DeltaCRL: delta})
	must(err)
	return b
}

// apply computes the corrupted bytes from the current content of the entry file.
func (w *world) apply(c *common.Ctx, co corruption, cur []byte) []byte {
	p := w.p.crls
	var m mirror
	json.Unmarshal(cur, &m) // cur is a well-formed or previously corrupted entry; best effort
	switch co.name {
	case "truncate":
		offs := []int{0, 1, 12, len(cur) / 2, len(cur) - 2, len(cur) - 1}
		o := offs[co.arg%len(offs)]
		if o < 0 {
			o = 0
		}
		if o > len(cur) {
			o = len(cur)
		}
		return append([]byte{}, cur[:o]...)
	case "flipraw":
		out := append([]byte{}, cur...)
		if len(out) == 0 {
			return []byte("{")
		}
		off, bit := 0, 0
		switch co.arg % 5 {
		case 0:
			off, bit = 0, 0 // '{'
		case 1:
			off, bit = 2, 5 // 'b' -> 'B': encoding/json matches keys case-insensitively
		case 2:
			off, bit = 2, 0 // 'b' -> 'c': unknown key, BaseCRL stays nil
		case 3:
			off, bit = len(out)-1, 0 // '}'
		case 4:
			off, bit = c.Rand.Intn(len(out)), c.Rand.Intn(8)
		}
		if off >= len(out) {
			off = len(out) - 1
		}
		out[off] ^= 1 << bit
		return out
	case "flipder":
		base, delta := append([]byte{}, m.BaseCRL...), m.DeltaCRL
		if len(base) == 0 {
			base = append([]byte{}, p[pFresh75a].der...)
		}
		switch co.arg % 3 {
		case 0:
			base[len(base)-1] ^= 1 // inside the signature bits: still parses, other bytes
		case 1:
			base[0] ^= 1 // SEQUENCE tag destroyed
		case 2:
			if len(delta) > 0 {
				delta = append([]byte{}, delta...)
				delta[len(delta)-1] ^= 1
			} else {
				base[len(base)-2] ^= 0x80
			}
		}
		return entryJSON(base, delta)
	case "swap":
		// baseCRL <-> deltaCRL (a missing delta leaves the entry without a base)
		if m.DeltaCRL == nil {
			return []byte(`{"deltaCRL":"` + b64(m.BaseCRL) + `"}`)
		}
		return []byte(`{"baseCRL":"` + b64(m.DeltaCRL) + `","deltaCRL":"` + b64(m.BaseCRL) + `"}`)
	case "foreign":
		return []byte(foreignDocs[co.arg%len(foreignDocs)])
	case "garbageder":
		base := m.BaseCRL
		if len(base) == 0 {
			base = p[pFresh75a].der
		}
		switch co.arg % 6 {
		case 0:
			return []byte(`{"baseCRL":"` + b64([]byte("garbage, not DER")) + `"}`)
		case 1:
			return []byte(`{"baseCRL":"` + b64(base) + `","deltaCRL":"` + b64([]byte{0x30, 0x03, 0x02, 0x01}) + `"}`)
		case 2:
			return []byte(`{"baseCRL":"` + b64(base) + `","deltaCRL":""}`) // empty, non-nil delta
		case 3:
			return []byte(`{"baseCRL":"` + b64(base) + `","deltaCRL":null}`) // nil delta: fine
		case 4:
			return []byte(`{"baseCRL":"` + b64(pem.EncodeToMemory(&pem.Block{Type: "X509 CRL", Bytes: base})) + `"}`)
		default:
			return []byte(`{"baseCRL":"","deltaCRL":"` + b64(base) + `"}`)
		}
	case "replace":
		// another writer stores a well-formed entry in a different layout
		switch co.arg % 4 {
		case 0:
			b, _ := json.MarshalIndent(mirror{BaseCRL: p[pFresh3600].der}, "", "  ")
			return b
		case 1:
			return []byte(`{"deltaCRL":"` + b64(p[pDeltaFresh75].der) + `", "baseCRL":"` + b64(p[pFresh75b].der) + `"}`)
		case 2:
			return entryJSON(p[pExp3600].der, nil)
		default:
			return entryJSON(p[pFresh30d].der, p[pDeltaExp75].der)
		}
	case "dupkeys":
		a, b := p[pExp75a].der, p[pFresh75b].der
		if co.arg%2 == 1 {
			a, b = b, a
		}
		return []byte(`{"baseCRL":"` + b64(a) + `","baseCRL":"` + b64(b) + `"}`) // the last one wins
	case "trailing":
		switch co.arg % 4 {
		case 0:
			return append(append([]byte{}, cur...), '\n')
		case 1:
			return append(append([]byte{}, cur...), 'x')
		case 2:
			return append(append([]byte{}, cur...), cur...)
		default:
			return append([]byte("\xef\xbb\xbf"), cur...) // byte order mark
		}
	case "dertrail":
		// bytes after the CRL's SEQUENCE inside the base64 field: x509 ignores them
		base, delta := m.BaseCRL, m.DeltaCRL
		if len(base) == 0 {
			base = p[pFresh75a].der
		}
		if co.arg%2 == 1 && delta != nil {
			delta = append(append([]byte{}, delta...), 0, 1, 2)
		} else {
			base = append(append([]byte{}, base...), 0)
		}
		return entryJSON(base, delta)
	case "casekeys":
		if m.DeltaCRL == nil {
			return []byte(`{"BASECRL":"` + b64(m.BaseCRL) + `"}`)
		}
		return []byte(`{"BASECRL":"` + b64(m.BaseCRL) + `","DeltaCrl":"` + b64(m.DeltaCRL) + `"}`)
	}
	panic("unknown corruption " + co.name)
}

// label: what the std-lib makes of planted bytes.
func (w *world) label(b []byte) (jsonOk bool, base, delta *CrlRef) {
	var m mirror
	if err := json.Unmarshal(b, &m); err != nil {
		return false, nil, nil
	}
	base = w.ref(m.BaseCRL)
	if m.DeltaCRL != nil {
		delta = w.ref(m.DeltaCRL)
	}
	return true, base, delta
}

func tooClose(r *CrlRef) bool {
	return r != nil && r.Parses && r.NextUpdate != nil && *r.NextUpdate > -60 && *r.NextUpdate < 60
}

// ---- plans ----------------------------------------------------------------------------

type planOp struct {
	kind        string // setNil | set | get | plant
	cache       int    // two-roots plans: which cache value (0: first root, 1: second root)
	url         int
	base, delta int // pool indices, -1 = nil
	co          corruption
}

type plan struct {
	urls     []string
	ops      []planOp
	twoRoots bool // two FileCache values on two DIFFERENT roots in this process, used with the same URLs
}

// A two-roots case is judged with each cache against its own abstract map: the abstract URL table
// has one entry per (cache, URL) pair - entry k*len(urls)+u - so the model keeps the two caches'
// contents apart. The model only needs the digests of distinct entries to differ (its file names
// are not compared with the real ones; existence, strays and the shape of the real names are
// observed per root by the harness), so entry (k, u) carries the SHA-256 of "cache k" NUL url.
func entryText(k int, u string) string { return fmt.Sprintf("[cache %d] %s", k, u) }
func entryDigest(k int, u string) []int {
	return digestInts(fmt.Sprintf("cache %d\x00%s", k, u))
}

func (w *world) execute(c *common.Ctx, pl plan) (Input, Obs) {
	ctx := context.Background()
	in := Input{Urls: []Url{}, Ops: []Op{}}
	obs := Obs{Results: []Out{}, Present: []bool{}}
	if pl.twoRoots {
		c2, err := crl.NewFileCache(w.site.root2)
		must(err)
		w.caches, w.roots = []*crl.FileCache{w.cache, c2}, []string{w.root, w.site.root2}
		for k := range w.roots {
			for _, u := range pl.urls {
				in.Urls = append(in.Urls, Url{Text: entryText(k, u), Digest: entryDigest(k, u)})
			}
		}
	} else {
		for _, u := range pl.urls {
			in.Urls = append(in.Urls, Url{Text: u, Digest: digestInts(u)})
		}
	}
	for _, po := range pl.ops {
		url := pl.urls[po.url]
		op := Op{Kind: po.kind, Url: po.url}
		if pl.twoRoots {
			w.cache, w.root = w.caches[po.cache], w.roots[po.cache]
			op.Url = po.cache*len(pl.urls) + po.url
			c.Count(fmt.Sprintf("two-roots-op=cache%d", po.cache))
		}
		var out Out
		switch po.kind {
		case "setNil":
			out.Res = w.set(ctx, url, nil)
		case "set":
			b := &corecrl.Bundle{}
			what := "set"
			if po.base >= 0 {
				b.BaseCRL = w.p.crls[po.base].rl
				op.Base = w.ref(w.p.crls[po.base].der)
				what += " base=" + w.p.crls[po.base].name
			}
			if po.delta >= 0 {
				b.DeltaCRL = w.p.crls[po.delta].rl
				op.Delta = w.ref(w.p.crls[po.delta].der)
				what += " delta=" + w.p.crls[po.delta].name
			}
			op.What = what
			out.Res = w.set(ctx, url, b)
		case "get":
			bundle, err, panicked := w.get(ctx, url)
			switch {
			case panicked:
				out.Res = "panic"
			case err == nil && bundle != nil && bundle.BaseCRL != nil:
				out.Res = "bundle"
				out.Base = w.idOf(bundle.BaseCRL.Raw)
				if bundle.DeltaCRL != nil {
					out.Delta = w.idOf(bundle.DeltaCRL.Raw)
				}
			case err == nil:
				out.Res = "bundle" // success without a usable bundle: never what the model says
				id := unknownID
				out.Base = &id
			case errors.Is(err, corecrl.ErrCacheMiss):
				out.Res = "miss"
			default:
				out.Res = "err"
			}
			c.Count("get=" + out.Res)
		case "plant":
			path := filepath.Join(w.root, hexName(url))
			cur, err := os.ReadFile(path)
			if err != nil {
				// nothing stored under this URL: corrupt the entry a Set would have written
				var d []byte
				if po.delta >= 0 {
					d = w.p.crls[po.delta].der
				}
				base := po.base
				if base < 0 {
					base = pFresh75a
				}
				cur = entryJSON(w.p.crls[base].der, d)
			}
			nb := w.apply(c, po.co, cur)
			ok, base, delta := w.label(nb)
			what := fmt.Sprintf("%s/%d", po.co.name, po.co.arg)
			if tooClose(base) || tooClose(delta) {
				// a corruption moved a NextUpdate to within a minute of now: not decidable by wall clock
				nb = []byte(foreignDocs[0])
				ok, base, delta = w.label(nb)
				what += "->foreign/0"
			}
			must(os.WriteFile(path, nb, 0o600))
			op.JsonOk, op.Base, op.Delta, op.What = ok, base, delta, what
			out.Res = "ok"
			c.Count("corruption=" + po.co.name)
			if !ok {
				c.Count("planted=not-json")
			} else if !base.Parses || (delta != nil && !delta.Parses) {
				c.Count("planted=json-but-bad-der")
			} else {
				c.Count("planted=decodes")
			}
		}
		c.Count("op=" + po.kind)
		in.Ops = append(in.Ops, op)
		obs.Results = append(obs.Results, out)
	}
	if pl.twoRoots {
		w.cache, w.root = w.caches[0], w.roots[0]
	}
	w.finalState(pl.urls, &obs)
	return in, obs
}

// finalState: which entry files exist, what else lives in the root, did anything around it change;
// then empties the root for the next case.
func (w *world) finalState(urls []string, obs *Obs) {
	roots := []string{w.root}
	if w.roots != nil {
		roots = w.roots
	}
	obs.AllHex = true
	var all []string
	for _, root := range roots {
		names := map[string]bool{}
		for _, u := range urls {
			n := hexName(u)
			names[n] = true
			fi, err := os.Lstat(filepath.Join(root, n))
			obs.Present = append(obs.Present, err == nil && fi.Mode().IsRegular())
		}
		entries, err := os.ReadDir(root)
		must(err)
		for _, e := range entries {
			obs.Files++
			if !names[e.Name()] {
				obs.Stray++
			}
			if !e.Type().IsRegular() || !is64Hex(e.Name()) {
				obs.AllHex = false
			}
			all = append(all, filepath.Join(root, e.Name()))
		}
	}
	if w.roots != nil {
		// the second root is emptied before the surroundings are compared (it is empty in the snapshot)
		for _, p := range all {
			if strings.HasPrefix(p, w.site.root2+string(filepath.Separator)) {
				os.RemoveAll(p)
			}
		}
	}
	obs.OutsideChanged = w.site.changedBut(w.roots != nil)
	if !obs.OutsideChanged {
		// empty the roots for the next case (a damaged site is rebuilt by the caller)
		for _, p := range all {
			os.RemoveAll(p)
		}
	}
}

// set / get call the real cache; a panic is reported as its own result kind
func (w *world) set(ctx context.Context, url string, b *corecrl.Bundle) (res string) {
	defer func() {
		if r := recover(); r != nil {
			res = "panic"
		}
	}()
	return resOf(w.cache.Set(ctx, url, b))
}

func (w *world) get(ctx context.Context, url string) (b *corecrl.Bundle, err error, panicked bool) {
	defer func() {
		if r := recover(); r != nil {
			panicked = true
		}
	}()
	b, err = w.cache.Get(ctx, url)
	return
}

func is64Hex(s string) bool {
	if len(s) != 64 {
		return false
	}
	for _, r := range s {
		if !strings.ContainsRune("0123456789abcdef", r) {
			return false
		}
	}
	return true
}

func resOf(err error) string {
	if err == nil {
		return "ok"
	}
	return "err"
}

// ---- URL catalogue --------------------------------------------------------------------

var nearURLs = []string{"http://a/crl", "http://a/crl/", "http://A/crl", "http://a/crl ", " http://a/crl",
	"http://a/crl?x=1", "http://a/crl#", "http://a//crl", "http://a/crl\n", "http://а/crl", "HTTP://a/crl", "http://a/crl\x00"}

var traversalURLs = []string{"../../etc/passwd", "/abs/path", "a/../../b", "..", ".", "/", "../victim.txt", "../sibling/keep",
	"..\\..\\etc\\passwd", "notation-123456", "%2e%2e%2fvictim.txt", "./x", "../../../../../../../../etc/passwd", "sibling/../../b"}

// prefixURLs: realistic long URLs (LDAP / HTTP distribution points) that agree on a long prefix
// and differ only in their tail, with the first difference at byte 64, 128, 255, 256, 257, 300,
// 512, 1024, 4096 - a key derived from a bounded prefix of the URL makes some of them collide.
func prefixURLs() []string {
	var out []string
	base := "ldap://directory.example.com/CN=Example%20Issuing%20CA%201,OU=Certification%20Authorities,O=Example%20Corporation,C=US"
	for _, at := range []int{64, 128, 255, 256, 257, 300, 512, 1024, 4096} {
		p := base
		for len(p) < at {
			p += ",OU=Level" + fmt.Sprint(len(p))
		}
		p = p[:at]
		out = append(out, p+"?certificateRevocationList;binary?base?objectClass=cRLDistributionPoint",
			p+"?deltaRevocationList;binary?base?objectClass=cRLDistributionPoint")
	}
	h := "http://crl.example.com/crl?issuer=" + strings.Repeat("0123456789abcdef", 20)
	out = append(out, h, h+"&delta=1", h+"&delta=2", h[:256], h[:257])
	return out
}

func longURLs() []string {
	a := strings.Repeat("a", 10000)
	return []string{a, a + "b", "http://a/" + strings.Repeat("../", 3400), strings.Repeat("/", 10000)}
}

type gen struct {
	c       *common.Ctx
	ca      *common.Cert
	edca    *common.Cert // Ed25519 issuer of the fixed-length CRLs of the concurrency stage
	p       *pool
	n       int
	site    *site
	long    []string
	prefix  []string
	special []string
}

func (g *gen) pool() *pool {
	if g.p == nil || time.Since(g.p.t0) > maxPoolAge {
		g.p = mintPool(g.ca, g.edca)
		g.c.Count("pool-minted")
	}
	return g.p
}

func (g *gen) run(pl plan, family string) {
	if g.site == nil {
		g.site = newSite(g.c, g.n)
		g.n++
	}
	w := newWorld(g.site, g.pool())
	in, obs := w.execute(g.c, pl)
	g.c.Emit(in, obs)
	g.c.Count("cases=" + family)
	if obs.OutsideChanged {
		os.RemoveAll(g.site.dir) // the surroundings were damaged: start from a clean tree
		g.site = nil
	}
}

func (g *gen) pickURLs() []string {
	r := g.c.Rand
	seen := map[string]bool{}
	var out []string
	add := func(s string) {
		if !seen[s] {
			seen[s] = true
			out = append(out, s)
		}
	}
	for i, n := 0, 1+r.Intn(3); i < n; i++ {
		add(nearURLs[r.Intn(len(nearURLs))])
	}
	for i, n := 0, r.Intn(3); i < n; i++ {
		add(traversalURLs[r.Intn(len(traversalURLs))])
	}
	if r.Intn(40) == 0 {
		add(g.long[r.Intn(len(g.long))])
		g.c.Count("url=long")
	}
	if r.Intn(8) == 0 {
		// two URLs of one prefix group (they differ only in the tail)
		k := r.Intn(len(g.prefix) - 1)
		add(g.prefix[k])
		add(g.prefix[k+1])
		g.c.Count("url=long-common-prefix")
	}
	if r.Intn(5) == 0 {
		add(g.special[r.Intn(len(g.special))])
	}
	if len(out) < 2 {
		add(traversalURLs[r.Intn(len(traversalURLs))])
		add(nearURLs[0])
	}
	return out
}

func (g *gen) randomCase() plan {
	r := g.c.Rand
	pl := plan{urls: g.pickURLs()}
	cos := allCorruptions()
	pickCRL := func() int {
		if r.Intn(10) == 0 {
			return pExt0 + r.Intn(len(extremes)) // a NextUpdate centuries away / at an integer boundary
		}
		if r.Intn(3) == 0 {
			return r.Intn(poolSize)
		}
		// mostly parseable CRLs with a NextUpdate
		return []int{pFresh75a, pFresh75b, pFresh3600, pFresh30d, pExp75a, pExp75b, pExp3600, pDeltaFresh75, pDeltaExp75}[r.Intn(9)]
	}
	for i, n := 0, 3+r.Intn(10); i < n; i++ {
		u := r.Intn(len(pl.urls))
		switch x := r.Intn(100); {
		case x < 35:
			d := -1
			if r.Intn(5) < 2 {
				d = pickCRL()
			}
			pl.ops = append(pl.ops, planOp{kind: "set", url: u, base: pickCRL(), delta: d})
		case x < 38:
			pl.ops = append(pl.ops, planOp{kind: "setNil", url: u})
		case x < 41:
			pl.ops = append(pl.ops, planOp{kind: "set", url: u, base: -1, delta: pickCRL()})
		case x < 58:
			d := -1
			if r.Intn(2) == 0 {
				d = pickCRL()
			}
			pl.ops = append(pl.ops, planOp{kind: "plant", url: u, base: pickCRL(), delta: d, co: cos[r.Intn(len(cos))]})
		default:
			pl.ops = append(pl.ops, planOp{kind: "get", url: u})
		}
	}
	for u := range pl.urls {
		pl.ops = append(pl.ops, planOp{kind: "get", url: u})
	}
	return pl
}

// Run generates the cases of C15.
func Run(c *common.Ctx) error {
	g := &gen{c: c, ca: common.MakeCert(common.CertOpts{Subject: common.Name("C15 CRL issuer"), CA: true, PathLen: -1,
		KeyUsage: x509.KeyUsageCertSign | x509.KeyUsageCRLSign}), long: longURLs(), prefix: prefixURLs()}
	_, edKey, err := ed25519.GenerateKey(rand.Reader)
	must(err)
	g.edca = common.MakeCert(common.CertOpts{Subject: common.Name("C15 fixed-length CRL issuer"), CA: true, PathLen: -1,
		KeyUsage: x509.KeyUsageCertSign | x509.KeyUsageCRLSign, Key: edKey})
	g.special = []string{"", hexName("http://a/crl"), filepath.Join("..", "cache", hexName("http://a/crl")), "http://a/crl"}

	// A. every (base, delta) combination of the pool, stored and read back; a sibling URL stays a miss
	for b := 0; b < poolSize; b++ {
		for d := -1; d < poolSize; d++ {
			g.run(plan{urls: []string{"http://a/crl", "http://a/crl/"}, ops: []planOp{
				{kind: "get", url: 0}, {kind: "set", url: 0, base: b, delta: d}, {kind: "get", url: 0}, {kind: "get", url: 1}}}, "A:base-x-delta")
		}
	}
	// B. every corruption of a stored entry, then recovery by a fresh Set
	entries := [][2]int{{pFresh75a, -1}, {pFresh3600, pDeltaFresh75}, {pExp75a, -1}, {pFresh75b, pDeltaExp75}}
	for _, co := range allCorruptions() {
		for _, e := range entries {
			g.run(plan{urls: []string{"http://a/crl", "http://A/crl"}, ops: []planOp{
				{kind: "set", url: 0, base: e[0], delta: e[1]}, {kind: "set", url: 1, base: pFresh30d, delta: -1},
				{kind: "plant", url: 0, base: e[0], delta: e[1], co: co}, {kind: "get", url: 0}, {kind: "get", url: 1},
				{kind: "set", url: 0, base: pFresh75b, delta: -1}, {kind: "get", url: 0}}}, "B:corruption-matrix")
		}
		// the same corruption planted where nothing was ever stored
		g.run(plan{urls: []string{"../../etc/passwd", "http://a/crl"}, ops: []planOp{
			{kind: "plant", url: 0, base: pFresh75a, delta: pDeltaFresh75, co: co}, {kind: "get", url: 0}, {kind: "get", url: 1}}}, "B:corruption-unset")
	}
	// C. every pair of catalogue URLs: isolation, last write wins, nil rejected without effect
	var cat []string
	cat = append(cat, nearURLs...)
	cat = append(cat, traversalURLs...)
	cat = append(cat, g.special[:3]...)
	pairs := 0
	for i := range cat {
		for j := range cat {
			if i == j {
				continue
			}
			if !c.Thorough() && (i+j)%3 != 0 {
				continue // a third of the ordered pairs in the quick tier
			}
			g.run(plan{urls: []string{cat[i], cat[j]}, ops: []planOp{
				{kind: "set", url: 0, base: pFresh75a, delta: -1}, {kind: "get", url: 1},
				{kind: "set", url: 1, base: pFresh75b, delta: pDeltaFresh75}, {kind: "get", url: 0}, {kind: "get", url: 1},
				{kind: "set", url: 0, base: pExp75a, delta: -1}, {kind: "get", url: 1}, {kind: "get", url: 0},
				{kind: "setNil", url: 1}, {kind: "set", url: 1, base: -1, delta: pFresh75a}, {kind: "get", url: 1},
				{kind: "set", url: 0, base: pFresh3600, delta: pDeltaExp75}, {kind: "get", url: 0},
				{kind: "set", url: 0, base: pFresh3600, delta: -1}, {kind: "get", url: 0}}}, "C:url-pairs")
			pairs++
		}
	}
	// T. extreme NextUpdate values, as base alone, as delta of a fresh base, as base of a fresh / expired
	// delta, and two extremes together; then overwritten by an ordinary fresh bundle
	for i := range extremes {
		x := pExt0 + i
		y := pExt0 + (i+7)%len(extremes)
		for _, bd := range [][2]int{{x, -1}, {pFresh3600, x}, {x, pDeltaFresh75}, {x, pDeltaExp75}, {x, y}, {y, x}} {
			g.run(plan{urls: []string{"http://a/crl", "http://a/crl/"}, ops: []planOp{
				{kind: "set", url: 0, base: bd[0], delta: bd[1]}, {kind: "get", url: 0}, {kind: "get", url: 1},
				{kind: "set", url: 0, base: pFresh75a, delta: -1}, {kind: "get", url: 0}}}, "T:extreme-next-update")
		}
	}
	// H. re-issued CRLs: same CRL number, different bytes, stored one after the other under one URL
	sameNo := []int{pFresh75a, pFresh75b, pFresh3600}
	for _, x := range sameNo {
		for _, y := range sameNo {
			if x == y {
				continue
			}
			for _, d := range [][2]int{{-1, -1}, {pDeltaFresh75, pDeltaFresh75}, {pDeltaFresh75, pDeltaFreshOld}, {pDeltaFreshOld, pDeltaFresh75}} {
				g.run(plan{urls: []string{"http://a/crl", "http://a/crl/"}, ops: []planOp{
					{kind: "set", url: 0, base: x, delta: d[0]}, {kind: "get", url: 0},
					{kind: "set", url: 0, base: y, delta: d[1]}, {kind: "get", url: 0}, {kind: "get", url: 1},
					{kind: "set", url: 0, base: x, delta: d[0]}, {kind: "get", url: 0}}}, "H:same-number-reissue")
			}
		}
	}
	// P. long URLs with a long common prefix, every pair within the catalogue
	for i := range g.prefix {
		for j := range g.prefix {
			if i == j || (!c.Thorough() && j != i+1 && j != i-1 && (i+j)%5 != 0) {
				continue
			}
			g.run(plan{urls: []string{g.prefix[i], g.prefix[j]}, ops: []planOp{
				{kind: "set", url: 0, base: pFresh75a, delta: -1}, {kind: "get", url: 1}, {kind: "get", url: 0},
				{kind: "set", url: 1, base: pFresh75b, delta: pDeltaFresh75}, {kind: "get", url: 0}, {kind: "get", url: 1}}}, "P:long-common-prefix")
		}
	}
	// D. the very long URLs, each against each other and a short one
	for i := range g.long {
		j := (i + 1) % len(g.long)
		g.run(plan{urls: []string{g.long[i], g.long[j], "http://a/crl"}, ops: []planOp{
			{kind: "set", url: 0, base: pFresh75a, delta: pDeltaFresh75}, {kind: "get", url: 1}, {kind: "get", url: 2},
			{kind: "set", url: 1, base: pFresh75b, delta: -1}, {kind: "get", url: 0}, {kind: "get", url: 1},
			{kind: "plant", url: 0, base: pFresh75a, delta: -1, co: corruption{"truncate", 3}}, {kind: "get", url: 0}, {kind: "get", url: 1}}}, "D:long-urls")
	}
	// R. two FileCache values on two DIFFERENT roots in one process, used with the same URLs: each is
	// judged against its own abstract map (what one cache stores must never show in, or disturb, the other)
	rURLs := [][]string{{"http://a/crl", "http://a/crl/"}, {"../../etc/passwd", "http://A/crl"}, {g.prefix[6], g.prefix[7]},
		{hexName("http://a/crl"), "http://a/crl"}, {"", "http://crl.example.com/ca-a.crl"}}
	for _, us := range rURLs {
		for first := 0; first < 2; first++ {
			a, b := first, 1-first
			g.run(plan{urls: us, twoRoots: true, ops: []planOp{
				{kind: "get", cache: b, url: 0},
				{kind: "set", cache: a, url: 0, base: pFresh75a, delta: -1}, {kind: "get", cache: b, url: 0}, {kind: "get", cache: a, url: 0},
				{kind: "set", cache: b, url: 0, base: pFresh75b, delta: pDeltaFresh75}, {kind: "get", cache: a, url: 0}, {kind: "get", cache: b, url: 0},
				{kind: "set", cache: a, url: 1, base: pFresh3600, delta: -1}, {kind: "get", cache: b, url: 1}, {kind: "get", cache: a, url: 1},
				{kind: "plant", cache: a, url: 0, base: pFresh75a, delta: -1, co: corruption{"truncate", 3}}, {kind: "get", cache: b, url: 0}, {kind: "get", cache: a, url: 0},
				{kind: "set", cache: a, url: 0, base: pExp75a, delta: -1}, {kind: "get", cache: a, url: 0}, {kind: "get", cache: b, url: 0},
				{kind: "setNil", cache: b, url: 0}, {kind: "get", cache: b, url: 0},
				{kind: "set", cache: b, url: 0, base: pExp3600, delta: -1}, {kind: "get", cache: b, url: 0}, {kind: "get", cache: a, url: 0},
				{kind: "set", cache: a, url: 0, base: pFresh30d, delta: -1}, {kind: "get", cache: b, url: 0}, {kind: "get", cache: a, url: 0}}}, "R:two-roots")
			// only the second-listed cache stores anything; the other must stay empty
			g.run(plan{urls: us, twoRoots: true, ops: []planOp{
				{kind: "set", cache: b, url: 0, base: pFresh75a, delta: -1}, {kind: "set", cache: b, url: 1, base: pFresh75b, delta: -1},
				{kind: "get", cache: a, url: 0}, {kind: "get", cache: a, url: 1}, {kind: "get", cache: b, url: 0}, {kind: "get", cache: b, url: 1}}}, "R:two-roots")
		}
	}
	nr := 300
	if c.Thorough() {
		nr = 4000
	}
	for i := 0; i < nr; i++ {
		pl := g.randomCase()
		pl.twoRoots = true
		pl.ops = pl.ops[:len(pl.ops)-len(pl.urls)] // the closing reads are re-done per cache below
		for j := range pl.ops {
			pl.ops[j].cache = c.Rand.Intn(2)
		}
		for k := 0; k < 2; k++ {
			for u := range pl.urls {
				pl.ops = append(pl.ops, planOp{kind: "get", cache: k, url: u})
			}
		}
		g.run(pl, "R:two-roots-random")
	}
	// F, G. overlapping Set calls: pinned interleavings and a free-running stress (concurrent.go)
	runConcurrent(g, c)
	// E. random operation sequences
	n := 2500
	if c.Thorough() {
		n = 25000
	}
	for i := 0; i < n; i++ {
		g.run(g.randomCase(), "E:random-sequences")
	}
	c.Note("real crl.NewFileCache on an empty root directory per case inside a tree of sentinel files whose lstat stamps (inode, mode, size, mtime, ctime, nlink; directories included) are compared after every case and whose full content snapshot every 256 cases; CRLs minted with x509.CreateRevocationList "+
		"(zero NextUpdate via the deprecated CreateCRL; a hand-made RevocationList with garbage Raw as the unparseable one), NextUpdate at "+
		"-30d/-1h/-75s/+75s/+1h/+30d relative to a pool re-minted every %s, abstract now = 0; %d pool base x delta combinations, %d corruptions "+
		"x 4 stored entries + unset, %d ordered URL pairs, %d random sequences of 3-12 operations followed by a Get of every URL. "+
		"Corruption labels come from the harness's own json.Unmarshal + x509.ParseRevocationList of the planted bytes. "+
		"The digest sent with every URL is crypto/sha256 of its bytes: the model's digest function for the run.",
		maxPoolAge, poolSize*(poolSize+1), len(allCorruptions()), pairs, n)
	return nil
}

// Package c15 - correspondence harness for C15 (stub: not built yet).
package c15

import (
	"errors"

	"github.com/notaryproject/notation-go/xverif/common"
)

// Run generates the cases of C15.
func Run(c *common.Ctx) error { return errors.New("C15: harness not built yet") }

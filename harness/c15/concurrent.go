//go:build verif

package c15

// Concurrency stage of C15: overlapping Set calls on one FileCache value (and on two values
// sharing a root), for different URLs and for one URL, with readers.
//
// F. PINNED interleavings. Writers are goroutines parked at the step callbacks of
// file.WriteFile (build tag verif: "created", "written", "closed", "returned"); the controller
// releases exactly one writer at a time for exactly one step, and reads every URL between the
// steps while all writers are parked. A completed file.WriteFile publishes its content with one
// atomic rename, so the history has ONE legal sequential reading: every Set takes effect in the
// step that leaves "closed" (the rename). The case is emitted as that sequential history - the
// set operation stands where its rename happened, the reads stand where they happened - and the
// Lean model judges it like any other case. The stage runs with GOMAXPROCS(1), which makes
// per-P runtime state (sync.Pool caches) shared between the writers: the schedule alone decides
// what happens.
//
// G. FREE-RUNNING stress (sampled, not reproducible): N writers, each storing its OWN URL
// repeatedly, and readers reading every URL, in true parallel. Every read records how many
// Sets of that URL had completed before it started (lo) and how many had started when it
// ended (hi); since each URL has one writer, its Sets are totally ordered, and the read must
// return the bundle of Set number j for some lo <= j <= hi (j = 0: a miss). The harness picks
// such a j where one exists (otherwise j = hi) and emits, per run, the sequential history
// "Sets of each URL in order, every read after its Set number j"; the Lean model judges that.
// Trusted here: the counters lo / hi (atomics read before / after the call).

import (
	"context"
	"errors"
	"fmt"
	"runtime"
	"sync"
	"sync/atomic"
	"time"

	corecrl "github.com/notaryproject/notation-core-go/revocation/crl"
	"github.com/notaryproject/notation-go/internal/file"
	"github.com/notaryproject/notation-go/verifier/crl"
	"github.com/notaryproject/notation-go/xverif/common"
)

const stepTimeout = 60 * time.Second

// ---- F. pinned interleavings ------------------------------------------------------------

type cwriter struct {
	idx    int
	url    int
	crl    int // pool index of the base CRL
	cache  *crl.FileCache
	arrive chan string
	rel    chan struct{}
	done   chan string
	last   string // last step reported; "" before the first
	ended  bool
	stuck  bool
	res    string // ok | err | panic
	opAt   int    // index of its set operation in the emitted history, -1 = not placed yet
}

// exactly one writer runs between a release and its next report, so the hook knows whose call it is
var activeW atomic.Pointer[cwriter]

func pinnedHook(step, _ string) {
	w := activeW.Load()
	if w == nil {
		return
	}
	w.arrive <- step
	<-w.rel
}

// step releases the writer for one step and waits until it is parked again or has returned.
func (cw *cwriter) step() {
	if cw.ended || cw.stuck {
		return
	}
	activeW.Store(cw)
	cw.rel <- struct{}{}
	select {
	case s := <-cw.arrive:
		cw.last = s
	case r := <-cw.done:
		cw.ended, cw.res = true, r
		activeW.Store(nil)
	case <-time.After(stepTimeout):
		cw.stuck, cw.res = true, "panic"
		activeW.Store(nil)
	}
}

type pinnedWriter struct {
	url, crl, cache int
}

// pinned runs one schedule: sched[k] = index of the writer released for its next step.
func (g *gen) pinned(urls []string, ws []pinnedWriter, sched []int, twoCaches bool, family string) {
	if g.site == nil {
		g.site = newSite(g.c, g.n)
		g.n++
	}
	w := newWorld(g.site, g.pool())
	caches := []*crl.FileCache{w.cache}
	if twoCaches {
		c2, err := crl.NewFileCache(w.root)
		must(err)
		caches = append(caches, c2)
	}
	ctx := context.Background()
	in := Input{Urls: []Url{}, Ops: []Op{}}
	obs := Obs{Results: []Out{}, Present: []bool{}}
	for _, u := range urls {
		in.Urls = append(in.Urls, Url{Text: u, Digest: digestInts(u)})
	}
	readAll := func(when string) {
		for u := range urls {
			old := w.cache
			w.cache = caches[u%len(caches)]
			b, err, panicked := w.get(ctx, urls[u])
			w.cache = old
			in.Ops = append(in.Ops, Op{Kind: "get", Url: u, What: when})
			obs.Results = append(obs.Results, w.outOf(b, err, panicked))
		}
	}
	var cws []*cwriter
	for i, pw := range ws {
		cw := &cwriter{idx: i, url: pw.url, crl: pw.crl, cache: caches[pw.cache%len(caches)],
			arrive: make(chan string), rel: make(chan struct{}), done: make(chan string, 1), opAt: -1}
		cws = append(cws, cw)
		go func() {
			<-cw.rel
			old := *w // each writer calls through its own copy of the world (its cache value)
			old.cache = cw.cache
			cw.done <- old.set(ctx, urls[cw.url], &corecrl.Bundle{BaseCRL: w.p.crls[cw.crl].rl})
		}()
	}
	place := func(cw *cwriter, k int) {
		if cw.opAt >= 0 {
			return
		}
		cw.opAt = len(in.Ops)
		in.Ops = append(in.Ops, Op{Kind: "set", Url: cw.url, Base: w.ref(w.p.crls[cw.crl].der),
			What: fmt.Sprintf("writer %d base=%s, concurrent: takes effect at schedule position %d of %v", cw.idx, w.p.crls[cw.crl].name, k, sched)})
		obs.Results = append(obs.Results, Out{Res: "pending"})
	}
	file.VerifHook = pinnedHook
	for k, i := range sched {
		cw := cws[i]
		if cw.ended || cw.stuck {
			continue
		}
		if cw.last == "closed" {
			place(cw, k) // this step performs the rename
		}
		cw.step()
		if cw.ended {
			place(cw, k) // a Set that returned without ever reaching "closed"
		}
		readAll(fmt.Sprintf("after step %d (writer %d now at %q)", k, i, cw.last))
	}
	for _, cw := range cws { // run whatever is left, in writer order
		for !cw.ended && !cw.stuck {
			if cw.last == "closed" {
				place(cw, len(sched))
			}
			cw.step()
		}
		place(cw, len(sched))
	}
	file.VerifHook = nil
	activeW.Store(nil)
	for _, cw := range cws {
		obs.Results[cw.opAt].Res = cw.res
		if cw.stuck {
			g.c.Count("pinned=writer-stuck")
		}
	}
	readAll("at the end")
	w.finalState(urls, &obs)
	g.c.Emit(in, obs)
	g.c.Count("cases=" + family)
	if obs.OutsideChanged {
		g.site = nil
	}
}

func (w *world) outOf(bundle *corecrl.Bundle, err error, panicked bool) Out {
	var out Out
	switch {
	case panicked:
		out.Res = "panic"
	case err == nil && bundle != nil && bundle.BaseCRL != nil:
		out.Res = "bundle"
		out.Base = w.idOf(bundle.BaseCRL.Raw)
		if bundle.DeltaCRL != nil {
			out.Delta = w.idOf(bundle.DeltaCRL.Raw)
		}
	case err == nil:
		out.Res = "bundle"
		id := unknownID
		out.Base = &id
	case errors.Is(err, corecrl.ErrCacheMiss):
		out.Res = "miss"
	default:
		out.Res = "err"
	}
	return out
}

// merges enumerates all interleavings of a steps of writer 0 and b steps of writer 1.
func merges(a, b int) [][]int {
	if a == 0 && b == 0 {
		return [][]int{{}}
	}
	var out [][]int
	if a > 0 {
		for _, m := range merges(a-1, b) {
			out = append(out, append([]int{0}, m...))
		}
	}
	if b > 0 {
		for _, m := range merges(a, b-1) {
			out = append(out, append([]int{1}, m...))
		}
	}
	return out
}

// a writer takes five steps: start -> created -> written -> closed -> returned -> end
const writerSteps = 5

func (g *gen) pinnedStage() {
	prev := runtime.GOMAXPROCS(1)
	defer runtime.GOMAXPROCS(prev)
	c := g.c
	const urlA, urlB = "http://crl.example.com/ca-a.crl", "http://crl.example.com/ca-b.crl"
	short, long := pVar0, pVar0+8
	type cfg struct {
		name     string
		urls     []string
		w0, w1   pinnedWriter
		twoCache bool
	}
	cfgs := []cfg{
		{"different URLs, equal length", []string{urlA, urlB}, pinnedWriter{0, pEq0, 0}, pinnedWriter{1, pEq0 + 1, 0}, false},
		{"different URLs, second shorter", []string{urlA, urlB}, pinnedWriter{0, pEq0, 0}, pinnedWriter{1, short, 0}, false},
		{"different URLs, second longer", []string{urlA, urlB}, pinnedWriter{0, pEq0, 0}, pinnedWriter{1, long, 0}, false},
		{"different URLs, two cache values on one root", []string{urlA, urlB}, pinnedWriter{0, pEq0, 0}, pinnedWriter{1, pEq0 + 1, 1}, true},
		{"one URL, equal length", []string{urlA, urlB}, pinnedWriter{0, pEq0, 0}, pinnedWriter{0, pEq0 + 1, 0}, false},
		{"one URL, second shorter", []string{urlA, urlB}, pinnedWriter{0, long, 0}, pinnedWriter{0, short, 0}, false},
		{"one URL, second longer", []string{urlA, urlB}, pinnedWriter{0, short, 0}, pinnedWriter{0, long, 0}, false},
		{"one URL, two cache values on one root", []string{urlA, urlB}, pinnedWriter{0, pEq0, 0}, pinnedWriter{0, long, 1}, true},
	}
	all := merges(writerSteps, writerSteps)
	n := 0
	for ci, cf := range cfgs {
		for mi, m := range all {
			// quick tier: every interleaving for the first configuration of each kind, every third otherwise
			if !c.Thorough() && ci != 0 && ci != 4 && (mi+ci)%3 != 0 {
				continue
			}
			g.pinned(cf.urls, []pinnedWriter{cf.w0, cf.w1}, m, cf.twoCache, "F:pinned-2-writers")
			c.Count("pinned=" + cf.name)
			n++
		}
	}
	// three writers (two on one URL, one on another), random schedules
	k := 150
	if c.Thorough() {
		k = 1500
	}
	for i := 0; i < k; i++ {
		var sched []int
		left := []int{writerSteps, writerSteps, writerSteps}
		for left[0]+left[1]+left[2] > 0 {
			j := c.Rand.Intn(3)
			if left[j] > 0 {
				left[j]--
				sched = append(sched, j)
			}
		}
		crls := []int{pEq0 + c.Rand.Intn(4), pEq0 + 4 + c.Rand.Intn(4), pVar0 + c.Rand.Intn(nVar)}
		c.Rand.Shuffle(3, func(a, b int) { crls[a], crls[b] = crls[b], crls[a] })
		g.pinned([]string{urlA, urlB, "http://crl.example.com/ca-a.crl/"},
			[]pinnedWriter{{0, crls[0], 0}, {1, crls[1], i % 2}, {0, crls[2], 0}}, sched, i%2 == 1, "F:pinned-3-writers")
		n++
	}
	c.Note("concurrency, pinned: %d schedules of 2-3 overlapping Set calls (all %d interleavings of two writers' five WriteFile steps for "+
		"different URLs / one URL with equal-length entries, a third of them for the shorter / longer / two-cache-values variants, random "+
		"schedules of three writers), every URL read after every step; emitted as the sequential history in which a Set takes effect at its rename.",
		n, len(all))
}

// ---- G. free-running stress -------------------------------------------------------------

type sread struct {
	url, lo, hi int
	out         Out
}

func (g *gen) stress(name string, nw, rounds, readers int, equalLen, twoCaches bool) {
	if g.site == nil {
		g.site = newSite(g.c, g.n)
		g.n++
	}
	w := newWorld(g.site, g.pool())
	caches := []*crl.FileCache{w.cache}
	if twoCaches {
		c2, err := crl.NewFileCache(w.root)
		must(err)
		caches = append(caches, c2)
	}
	ctx := context.Background()
	urls := make([]string, nw)
	for i := range urls {
		urls[i] = fmt.Sprintf("http://crl.example.com/issuer-%d.crl", i)
	}
	// writer i alternates between two CRLs nobody else stores
	crlOf := func(i, round int) int {
		k := 2*i + round%2
		if equalLen {
			return pEq0 + k%nEq
		}
		return pVar0 + k%nVar
	}
	if 2*nw > nEq {
		panic("stress: more writers than distinct CRLs")
	}
	started := make([]atomic.Int64, nw)
	completed := make([]atomic.Int64, nw)
	setRes := make([][]string, nw)
	var wg sync.WaitGroup
	var writersDone atomic.Bool
	for i := 0; i < nw; i++ {
		wg.Add(1)
		go func(i int) {
			defer wg.Done()
			ww := *w
			ww.cache = caches[i%len(caches)]
			for r := 0; r < rounds; r++ {
				started[i].Add(1)
				res := ww.set(ctx, urls[i], &corecrl.Bundle{BaseCRL: w.p.crls[crlOf(i, r)].rl})
				setRes[i] = append(setRes[i], res)
				completed[i].Add(1)
			}
		}(i)
	}
	reads := make([][]sread, readers)
	var rg sync.WaitGroup
	maxReads := 40 * nw
	for r := 0; r < readers; r++ {
		rg.Add(1)
		go func(r int) {
			defer rg.Done()
			rw := *w
			rw.cache = caches[r%len(caches)]
			for n := 0; n < maxReads && !writersDone.Load(); n++ {
				u := (n + r) % nw
				lo := int(completed[u].Load())
				b, err, panicked := rw.get(ctx, urls[u])
				hi := int(started[u].Load())
				reads[r] = append(reads[r], sread{u, lo, hi, w.outOf(b, err, panicked)})
				if n%8 == 7 {
					runtime.Gosched()
				}
			}
		}(r)
	}
	wg.Wait()
	writersDone.Store(true)
	rg.Wait()

	// the sequential history: per URL its Sets in order, every read after the Set it is matched with
	in := Input{Urls: []Url{}, Ops: []Op{}}
	obs := Obs{Results: []Out{}, Present: []bool{}}
	for _, u := range urls {
		in.Urls = append(in.Urls, Url{Text: u, Digest: digestInts(u)})
	}
	bad := 0
	for u := 0; u < nw; u++ {
		slots := make([][]sread, rounds+1)
		for _, rs := range reads {
			for _, rd := range rs {
				if rd.url != u {
					continue
				}
				j := -1
				switch rd.out.Res {
				case "miss":
					if rd.lo == 0 {
						j = 0
					}
				case "bundle":
					if rd.out.Delta == nil && rd.out.Base != nil {
						for k := rd.hi; k >= rd.lo && k >= 1; k-- {
							if crlOf(u, k-1) == *rd.out.Base {
								j = k
								break
							}
						}
					}
				}
				if j < 0 {
					j = rd.hi // no Set in the window explains the read
					bad++
				}
				slots[j] = append(slots[j], rd)
			}
		}
		for j := 0; j <= rounds; j++ {
			if j >= 1 {
				in.Ops = append(in.Ops, Op{Kind: "set", Url: u, Base: w.ref(w.p.crls[crlOf(u, j-1)].der), What: fmt.Sprintf("stress(sampled): Set #%d of this URL", j)})
				obs.Results = append(obs.Results, Out{Res: setRes[u][j-1]})
			}
			for _, rd := range slots[j] {
				in.Ops = append(in.Ops, Op{Kind: "get", Url: u, What: fmt.Sprintf("stress(sampled): read overlapping Sets #%d..#%d of this URL", rd.lo, rd.hi)})
				obs.Results = append(obs.Results, rd.out)
			}
		}
	}
	for u := range urls {
		b, err, panicked := w.get(ctx, urls[u])
		in.Ops = append(in.Ops, Op{Kind: "get", Url: u, What: "at the end"})
		obs.Results = append(obs.Results, w.outOf(b, err, panicked))
	}
	w.finalState(urls, &obs)
	g.c.Emit(in, obs)
	g.c.Count("cases=G:stress-sampled")
	g.c.Count("stress=" + name)
	total := 0
	for _, rs := range reads {
		total += len(rs)
	}
	g.c.Count("stress-reads-unexplained=" + fmt.Sprint(bad > 0))
	_ = total
	if obs.OutsideChanged {
		g.site = nil
	}
}

func (g *gen) stressStage() {
	runs := 1
	if g.c.Thorough() {
		runs = 4
	}
	n := 0
	for i := 0; i < runs; i++ {
		g.stress("own URLs, equal-length entries, one cache value", 8, 60, 4, true, false)
		g.stress("own URLs, different-length entries, one cache value", 8, 60, 4, false, false)
		g.stress("own URLs, equal-length entries, two cache values on one root", 8, 60, 4, true, true)
		g.stress("own URLs, different-length entries, two cache values on one root", 6, 80, 6, false, true)
		n += 4
	}
	g.c.Note("concurrency, free-running stress (SAMPLED, not reproducible): %d runs of 6-8 writers x 60-80 Sets each on its own URL with 4-6 "+
		"readers in true parallel; each read is matched with a Set of its real-time window [completed before it started, started before it "+
		"ended] and the run is emitted as that sequential history.", n)
}

func runConcurrent(g *gen, c *common.Ctx) {
	g.pinnedStage()
	g.stressStage()
}

//go:build !verif

package c15

import "github.com/notaryproject/notation-go/xverif/common"

// Without the verif build tag file.WriteFile has no step callbacks: the concurrency stage
// (concurrent.go) is left out. ./check always builds the harness with -tags verif.
func runConcurrent(g *gen, c *common.Ctx) {
	c.Note("concurrency stage skipped: harness built without -tags verif")
}

// Package c07 - correspondence harness for C07 (stub: not built yet).
package c07

import (
	"errors"

	"github.com/notaryproject/notation-go/xverif/common"
)

// Run generates the cases of C07.
func Run(c *common.Ctx) error { return errors.New("C07: harness not built yet") }

// Package c07 feeds the output of the real signing API (notation.SignBlob / notation.SignOCI
// with a local GenericSigner, a GenericSigner from files, and PluginSigners over in-process
// raw-signature and envelope plugins) into the real verification API (notation.VerifyBlob /
// notation.Verify with verifier.NewVerifierWithOptions) and records what was signed, what
// was verified, what was returned and what can be read back.
package c07

import (
	"bytes"
	"context"
	"crypto"
	"crypto/ecdsa"
	"crypto/rand"
	"crypto/rsa"
	"crypto/sha256"
	"crypto/sha512"
	"crypto/x509"
	"encoding/base64"
	"encoding/hex"
	"encoding/json"
	"encoding/pem"
	"errors"
	"fmt"
	"io"
	"mime"
	"os"
	"path/filepath"
	"runtime"
	"sort"
	"sync"
	"time"
	_ "time/tzdata" // the embedded zone database, should the host have none

	"github.com/notaryproject/notation-core-go/signature"
	"github.com/notaryproject/notation-go"
	"github.com/notaryproject/notation-go/registry"
	"github.com/notaryproject/notation-go/signer"
	"github.com/notaryproject/notation-go/verifier"
	"github.com/notaryproject/notation-go/verifier/trustpolicy"
	"github.com/notaryproject/notation-go/xverif/common"
	pluginfw "github.com/notaryproject/notation-plugin-framework-go/plugin"
	"github.com/opencontainers/go-digest"
	ocispec "github.com/opencontainers/image-spec/specs-go/v1"
	"oras.land/oras-go/v2/content/memory"
)

// ---- JSON shapes of the Lean structures -------------------------------------------------

type KV struct {
	K string `json:"k"`
	V string `json:"v"`
}

type FullDesc struct {
	MediaType    string   `json:"mediaType"`
	Digest       string   `json:"digest"`
	Size         int64    `json:"size"`
	Annotations  []KV     `json:"annotations"`
	URLs         []string `json:"urls"`
	Platform     bool     `json:"platform"`
	Data         string   `json:"data"`
	ArtifactType string   `json:"artifactType"`
}

type DescObs struct {
	MediaType   string   `json:"mediaType"`
	Digest      string   `json:"digest"`
	Size        int64    `json:"size"`
	Annotations []KV     `json:"annotations"`
	ExtraKeys   []string `json:"extraKeys"`
}

type Blob struct {
	Size   int64  `json:"size"`
	SHA256 string `json:"sha256"`
	SHA384 string `json:"sha384"`
	SHA512 string `json:"sha512"`
}

// ReadStep: `times` Read calls delivering `n` bytes each with a nil error; if `eof`, the last of
// them delivers its bytes together with io.EOF.
type ReadStep struct {
	N     int  `json:"n"`
	Times int  `json:"times"`
	EOF   bool `json:"eof"`
}

// Reader is the behaviour of the io.Reader a blob is handed over with.
type Reader struct {
	Direct bool       `json:"direct"`
	Steps  []ReadStep `json:"steps"`
	label  string
}

type Input struct {
	Kind             string   `json:"kind"`
	KeySpec          string   `json:"keySpec"`
	Format           string   `json:"format"`
	Signer           string   `json:"signer"`
	Desc             FullDesc `json:"desc"`
	Blob             Blob     `json:"blob"`
	SignReader       Reader   `json:"signReader"`
	VerifyReader     Reader   `json:"verifyReader"`
	ContentMediaType string   `json:"contentMediaType"`
	MediaTypeValid   bool     `json:"mediaTypeValid"`
	Metadata         []KV     `json:"metadata"`
	DurationNs       int64    `json:"durationNs"`
	NowFracNs        int64    `json:"nowFracNs"`
	Agent            string   `json:"agent"`
	VerifyMediaType  string   `json:"verifyMediaType"`
	VerifyMetadata   string   `json:"verifyMetadata"`
	LagSec           int64    `json:"lagSec"`
	ExactIdentity    bool     `json:"exactIdentity"`
	ByTag            bool     `json:"byTag"`
	History          History  `json:"history"`
	Tamper           string   `json:"tamper"`
	EnvelopeLastByte *int     `json:"envelopeLastByte"`
	TrailingNewline  bool     `json:"trailingNewline"`
	ExtAttrs         string   `json:"extAttrs"`
	TimeZone         string   `json:"timeZone"`
	Policy           Policy   `json:"policy"`
	InFlight         string   `json:"inFlight"`
	Identities       string   `json:"identities"`
	OtherSignature   string   `json:"otherSignature"`
	Scheme           string   `json:"scheme"`
	CertWindow       string   `json:"certWindow"`

	// concretisation only: what the blob readers are wrapped in (gates of a pinned interleaving, yields)
	wrapSign, wrapVerify func(io.Reader) io.Reader
}

// Policy is the shape of the trust policy statement the verification runs under.
type Policy struct {
	TSAStore        bool   `json:"tsaStore"`
	VerifyTimestamp string `json:"verifyTimestamp"`
	Named           bool   `json:"named"`
}

// History is what happened before on the shared signer object this round trip uses.
type History struct {
	Position    int     `json:"position"`
	PrevKeySpec *string `json:"prevKeySpec"`
	PrevKind    *string `json:"prevKind"`
	PrevFormat  *string `json:"prevFormat"`
	KeyVia      string  `json:"keyVia"`
}

type Obs struct {
	Signed       bool     `json:"signed"`
	Verified     bool     `json:"verified"`
	Payload      *DescObs `json:"payload"`
	ExpirySec    *int64   `json:"expirySec"`
	Returned     *DescObs `json:"returned"`
	UserMetadata *[]KV    `json:"userMetadata"`
}

// ---- world --------------------------------------------------------------------------------

var specOf = map[string]string{"rsa2048": "RSA-2048", "rsa3072": "RSA-3072", "rsa4096": "RSA-4096",
	"ec256": "EC-256", "ec384": "EC-384", "ec521": "EC-521"}
var specNames = []string{"rsa2048", "rsa3072", "rsa4096", "ec256", "ec384", "ec521"}
var formatOf = map[string]string{"jws": common.MediaJWS, "cose": common.MediaCOSE}
var signerKinds = []string{"localKey", "localFiles", "pluginSignature", "pluginEnvelope"}

type keyWorld struct {
	key      crypto.Signer
	chain    *common.Chain
	keyPath  string
	certPath string
	subject  string
}

type blobData struct {
	content []byte
	abs     Blob
}

// signerObj is ONE signer object that lives for the whole run, with the history of its calls.
type signerObj struct {
	s      bothSigner
	plugin *signPlugin // nil for the local signers
	hist   History     // position / previous call
}

type bothVerifier interface {
	notation.Verifier
	notation.BlobVerifier
}

type world struct {
	c     *common.Ctx
	keys  map[string]*keyWorld
	store *common.MemStore
	blobs map[int][]*blobData // by size class
	// shared objects: one GenericSigner per key and constructor, ONE PluginSigner per plugin kind
	// (the key behind its key id changes between calls), ONE verifier per identity style
	signers      map[string]*signerObj
	verifiers    map[verifierKey]bothVerifier
	stranger     bothSigner // a signer NO policy of this harness trusts (its chain is in no trust store)
	strangerRoot *x509.Certificate
	mu           sync.Mutex // guards the two maps and the history of the signer objects (concurrent stages)
	inFlight     bool       // a concurrent stage runs: time.Local is left alone (it is process-wide)
}

type verifierKey struct {
	exact      bool
	policy     Policy
	identities string
}

func newWorld(c *common.Ctx) *world {
	w := &world{c: c, keys: map[string]*keyWorld{}, store: common.NewMemStore(), blobs: map[int][]*blobData{},
		signers: map[string]*signerObj{}, verifiers: map[verifierKey]bothVerifier{}}
	var roots []*x509.Certificate
	for _, name := range specNames {
		spec := specOf[name]
		key := common.PoolKey(c.CacheDir, spec)
		chain := common.MakeChain(common.ChainOpts{Tag: "c07-" + spec, LeafKey: key, Intermediate: name == "ec384" || name == "rsa3072"})
		kw := &keyWorld{key: key, chain: chain}
		der, err := x509.MarshalPKCS8PrivateKey(key)
		if err != nil {
			panic(err)
		}
		kw.keyPath = filepath.Join(c.WorkDir, "c07-"+spec+".key")
		kw.certPath = filepath.Join(c.WorkDir, "c07-"+spec+".crt")
		if err := os.WriteFile(kw.keyPath, pem.EncodeToMemory(&pem.Block{Type: "PRIVATE KEY", Bytes: der}), 0o600); err != nil {
			panic(err)
		}
		if err := os.WriteFile(kw.certPath, common.PEM(chain.X509()...), 0o644); err != nil {
			panic(err)
		}
		kw.subject = "x509.subject: CN=leaf c07-" + spec + ",O=Notary,ST=WA,C=US"
		w.keys[name] = kw
		roots = append(roots, chain.Root().Cert)
	}
	w.store.Certs["ca:c07"] = roots
	w.store.Certs["signingAuthority:c07"] = roots
	sch := common.MakeChain(common.ChainOpts{Tag: "c07-stranger"})
	sgs, err := signer.NewGenericSigner(sch.Leaf().Key, sch.X509())
	if err != nil {
		panic(err)
	}
	w.stranger, w.strangerRoot = sgs, sch.Root().Cert
	// a tsa store the statements may name; no signature of this harness carries a timestamp
	tsaRoot := common.MakeChain(common.ChainOpts{Tag: "c07-tsa"}).Root().Cert
	w.store.Certs["tsa:c07tsa"] = []*x509.Certificate{tsaRoot}
	return w
}

func digests(b []byte) Blob {
	s256 := sha256.Sum256(b)
	s384 := sha512.Sum384(b)
	s512 := sha512.Sum512(b)
	return Blob{Size: int64(len(b)), SHA256: "sha256:" + hex.EncodeToString(s256[:]),
		SHA384: "sha384:" + hex.EncodeToString(s384[:]), SHA512: "sha512:" + hex.EncodeToString(s512[:])}
}

func (w *world) randBytes(n int) []byte {
	b := make([]byte, n)
	w.c.Rand.Read(b)
	return b
}

// blob returns a blob of the size class (big ones come from a small pool).
func (w *world) blob(size int) *blobData {
	if size >= 1<<20 {
		pool := w.blobs[size]
		if len(pool) < 2 {
			b := w.randBytes(size)
			bd := &blobData{content: b, abs: digests(b)}
			w.blobs[size] = append(pool, bd)
			return bd
		}
		return pool[w.c.Rand.Intn(len(pool))]
	}
	b := w.randBytes(size)
	return &blobData{content: b, abs: digests(b)}
}

// ---- honest in-process signing plugins -------------------------------------------------------

// signPlugin signs honestly with the key that currently backs the key id: the key selected by
// the request's plugin config ("c07.keyVersion"), else the current one (switched by rotation).
type signPlugin struct {
	w        *world
	current  string // abstract key spec name currently behind the key id
	envelope bool
	tamper   string // envelope plugin: what it does to the payload it is given (set per call)
	ext      string // envelope plugin: the extended signed attributes it adds (set per call)
	scheme   string // envelope plugin: "x509" or "signingAuthority" (set per call)
	window   string // signingAuthority: validity of the certificate minted at signing time (set per call)
}

// extended signed attributes an envelope plugin writes of its own (it names no verification plugin)
func extAttributes(kind string) []signature.Attribute {
	nc := signature.Attribute{Key: "com.example.kms.keyVersion", Critical: false, Value: "v3"}
	switch kind {
	case "", "none":
		return nil
	case "nonCritical":
		return []signature.Attribute{nc}
	case "severalNonCritical":
		return []signature.Attribute{nc, {Key: "com.example.kms.region", Critical: false, Value: "eu-1"},
			{Key: "com.example.build", Critical: false, Value: "4711"}}
	case "critical":
		return []signature.Attribute{{Key: "com.example.kms.policy", Critical: true, Value: "must-understand"}}
	case "criticalAndNonCritical":
		return []signature.Attribute{nc, {Key: "com.example.kms.policy", Critical: true, Value: "must-understand"}}
	}
	panic("c07: extended attributes " + kind)
}

const keyVersionConfig = "c07.keyVersion"

// key returns the key world and the wire key spec for a request's plugin config.
func (p *signPlugin) key(config map[string]string) (*keyWorld, string) {
	name := p.current
	if v, ok := config[keyVersionConfig]; ok {
		name = v
	}
	kw, ok := p.w.keys[name]
	if !ok {
		panic("c07: plugin asked for unknown key version " + name)
	}
	return kw, specOf[name]
}

func (p *signPlugin) GetMetadata(ctx context.Context, req *pluginfw.GetMetadataRequest) (*pluginfw.GetMetadataResponse, error) {
	cap := pluginfw.CapabilitySignatureGenerator
	if p.envelope {
		cap = pluginfw.CapabilityEnvelopeGenerator
	}
	return &pluginfw.GetMetadataResponse{Name: "c07-plugin", Description: "honest scripted signing plugin", Version: "1.0.0",
		URL: "https://example.test/c07", SupportedContractVersions: []string{"1.0"}, Capabilities: []pluginfw.Capability{cap}}, nil
}

func (p *signPlugin) DescribeKey(ctx context.Context, req *pluginfw.DescribeKeyRequest) (*pluginfw.DescribeKeyResponse, error) {
	_, spec := p.key(req.PluginConfig)
	return &pluginfw.DescribeKeyResponse{KeyID: req.KeyID, KeySpec: pluginfw.KeySpec(spec)}, nil
}

var hashOfName = map[pluginfw.HashAlgorithm]crypto.Hash{
	pluginfw.HashAlgorithmSHA256: crypto.SHA256, pluginfw.HashAlgorithmSHA384: crypto.SHA384, pluginfw.HashAlgorithmSHA512: crypto.SHA512}

func (p *signPlugin) GenerateSignature(ctx context.Context, req *pluginfw.GenerateSignatureRequest) (*pluginfw.GenerateSignatureResponse, error) {
	if p.envelope {
		return nil, errors.New("not a raw signature plugin")
	}
	kw, spec := p.key(req.PluginConfig)
	if string(req.KeySpec) != spec {
		return nil, fmt.Errorf("key spec %q is not the spec of the key (%s)", req.KeySpec, spec)
	}
	h, ok := hashOfName[req.Hash]
	if !ok {
		return nil, fmt.Errorf("unknown hash %q", req.Hash)
	}
	hh := h.New()
	hh.Write(req.Payload)
	dg := hh.Sum(nil)
	var sig []byte
	var alg pluginfw.SignatureAlgorithm
	switch k := kw.key.(type) {
	case *rsa.PrivateKey:
		s, err := rsa.SignPSS(rand.Reader, k, h, dg, &rsa.PSSOptions{SaltLength: rsa.PSSSaltLengthEqualsHash})
		if err != nil {
			return nil, err
		}
		sig = s
		alg = map[crypto.Hash]pluginfw.SignatureAlgorithm{crypto.SHA256: pluginfw.SignatureAlgorithmRSASSA_PSS_SHA256,
			crypto.SHA384: pluginfw.SignatureAlgorithmRSASSA_PSS_SHA384, crypto.SHA512: pluginfw.SignatureAlgorithmRSASSA_PSS_SHA512}[h]
	case *ecdsa.PrivateKey:
		r, s, err := ecdsa.Sign(rand.Reader, k, dg)
		if err != nil {
			return nil, err
		}
		n := (k.Curve.Params().N.BitLen() + 7) / 8
		sig = make([]byte, 2*n)
		r.FillBytes(sig[:n])
		s.FillBytes(sig[n:])
		alg = map[crypto.Hash]pluginfw.SignatureAlgorithm{crypto.SHA256: pluginfw.SignatureAlgorithmECDSA_SHA256,
			crypto.SHA384: pluginfw.SignatureAlgorithmECDSA_SHA384, crypto.SHA512: pluginfw.SignatureAlgorithmECDSA_SHA512}[h]
	default:
		return nil, errors.New("unsupported key")
	}
	var raw [][]byte
	for _, c := range kw.chain.X509() {
		raw = append(raw, c.Raw)
	}
	return &pluginfw.GenerateSignatureResponse{KeyID: req.KeyID, Signature: sig, SigningAlgorithm: alg, CertificateChain: raw}, nil
}

func (p *signPlugin) GenerateEnvelope(ctx context.Context, req *pluginfw.GenerateEnvelopeRequest) (*pluginfw.GenerateEnvelopeResponse, error) {
	if !p.envelope {
		return nil, errors.New("not an envelope plugin")
	}
	kw, _ := p.key(req.PluginConfig)
	certs := kw.chain.X509()
	now := time.Now()
	scheme := signature.SigningSchemeX509
	if p.scheme == "signingAuthority" {
		// a signing service: ONE clock reading is the authentic signing time and the start (or end) of the validity of
		// the short-lived certificate it mints for this signature (both have a resolution of one second)
		scheme = signature.SigningSchemeX509SigningAuthority
		now = now.Truncate(time.Second)
		nb, na := now.Add(-time.Hour), now.Add(24*time.Hour)
		switch p.window {
		case "notBeforeIsSigningTime":
			nb = now
		case "notAfterIsSigningTime":
			na = now
		case "oneSecond":
			nb, na = now, now
		}
		leaf := kw.chain.Leaf().Cert
		minted := common.MakeCert(common.CertOpts{RawSubject: leaf.RawSubject, Key: kw.key, Parent: kw.chain.Certs[1],
			EKU: []x509.ExtKeyUsage{x509.ExtKeyUsageCodeSigning}, NotBefore: nb, NotAfter: na})
		certs = append([]*x509.Certificate{minted.Cert}, certs[1:]...)
	}
	ls, err := signature.NewLocalSigner(certs, kw.key)
	if err != nil {
		return nil, err
	}
	env, err := signature.NewEnvelope(req.SignatureEnvelopeType)
	if err != nil {
		return nil, err
	}
	sr := &signature.SignRequest{
		Payload:       signature.Payload{ContentType: req.PayloadType, Content: tamperPayload(p.tamper, req.Payload)},
		Signer:        ls,
		SigningTime:   now,
		SigningScheme: scheme,
		SigningAgent:  "c07-plugin/1.0.0",

		ExtendedSignedAttributes: extAttributes(p.ext),
	}
	if req.ExpiryDurationInSeconds != 0 {
		sr.Expiry = sr.SigningTime.Add(time.Duration(req.ExpiryDurationInSeconds) * time.Second)
	}
	sig, err := env.Sign(sr)
	if err != nil {
		return nil, err
	}
	return &pluginfw.GenerateEnvelopeResponse{SignatureEnvelope: sig, SignatureEnvelopeType: req.SignatureEnvelopeType}, nil
}

const (
	pluginAddedKey   = "c07.plugin.added"
	pluginAddedValue = "x"
)

func otherThan(v, a, b string) string {
	if v == a {
		return b
	}
	return a
}

// tamperPayload is what an envelope plugin makes of the payload it is given (model: tamperPayload).
func tamperPayload(t string, payload []byte) []byte {
	if t == "faithful" || t == "" {
		return payload
	}
	var top map[string]json.RawMessage
	if err := json.Unmarshal(payload, &top); err != nil {
		panic(fmt.Sprintf("c07: plugin got a payload that is not JSON: %v", err))
	}
	var ta map[string]json.RawMessage
	if err := json.Unmarshal(top["targetArtifact"], &ta); err != nil {
		panic(fmt.Sprintf("c07: plugin got a payload without targetArtifact: %v", err))
	}
	var ann map[string]string
	if raw, ok := ta["annotations"]; ok {
		if err := json.Unmarshal(raw, &ann); err != nil {
			panic(err)
		}
	}
	keys := make([]string, 0, len(ann))
	for k := range ann {
		keys = append(keys, k)
	}
	sort.Strings(keys)
	raw := func(v any) json.RawMessage {
		b, err := json.Marshal(v)
		if err != nil {
			panic(err)
		}
		return b
	}
	switch t {
	case "reserialised":
		// the same JSON value with members in reverse order and generous white space
		return []byte("{\n\t \"targetArtifact\" :\r\n  " + reorder(ta, 2) + "\n }\n")
	case "dropAnnotation":
		if len(keys) == 0 {
			return payload
		}
		delete(ann, keys[0])
		if len(ann) == 0 {
			delete(ta, "annotations")
		} else {
			ta["annotations"] = raw(ann)
		}
	case "addAnnotation":
		if ann == nil {
			ann = map[string]string{}
		}
		ann[pluginAddedKey] = pluginAddedValue
		ta["annotations"] = raw(ann)
	case "changeAnnotation":
		if len(keys) == 0 {
			return payload
		}
		ann[keys[0]] = otherThan(ann[keys[0]], "c07-changed", "c07-changed-2")
		ta["annotations"] = raw(ann)
	case "changeMediaType":
		var mt string
		json.Unmarshal(ta["mediaType"], &mt)
		ta["mediaType"] = raw(otherThan(mt, "application/x-c07-changed", "application/x-c07-changed-2"))
	case "changeSize":
		var n int64
		json.Unmarshal(ta["size"], &n)
		ta["size"] = raw(n + 1)
	case "addUnknownField":
		ta["c07Unknown"] = raw(true)
	case "probe:addArtifactType":
		// not generated (see corpus/C07/README.md, observations): a member areUnknownAttributesAdded tolerates
		ta["artifactType"] = raw("application/x-c07-plugin")
	default:
		panic("c07: tamper " + t)
	}
	top["targetArtifact"] = raw(ta)
	return raw(top)
}

// reorder renders a JSON object with its members in reverse key order, nested objects too.
func reorder(obj map[string]json.RawMessage, depth int) string {
	keys := make([]string, 0, len(obj))
	for k := range obj {
		keys = append(keys, k)
	}
	sort.Sort(sort.Reverse(sort.StringSlice(keys)))
	var b bytes.Buffer
	b.WriteString("{ ")
	for n, k := range keys {
		if n > 0 {
			b.WriteString(" ,\n" + string(bytes.Repeat([]byte(" "), depth)))
		}
		kb, _ := json.Marshal(k)
		b.Write(kb)
		b.WriteString("\t: ")
		var nested map[string]json.RawMessage
		if len(obj[k]) > 0 && obj[k][0] == '{' && json.Unmarshal(obj[k], &nested) == nil {
			b.WriteString(reorder(nested, depth+2))
		} else {
			b.Write(obj[k])
		}
	}
	b.WriteString(" }")
	return b.String()
}

func (p *signPlugin) VerifySignature(ctx context.Context, req *pluginfw.VerifySignatureRequest) (*pluginfw.VerifySignatureResponse, error) {
	return nil, errors.New("not a verification plugin")
}

// ---- readers with scripted behaviour -----------------------------------------------------------

// scriptReader delivers data exactly as the script says; after the script (or after the read
// that reported io.EOF) it answers (0, io.EOF).
type scriptReader struct {
	data  []byte
	steps []ReadStep
	i     int // current step
	done  int // repetitions of the current step already delivered
	carry int // rest of a scripted read the consumer's buffer was too small for
}

func (r *scriptReader) Read(p []byte) (int, error) {
	if len(p) == 0 {
		return 0, nil
	}
	for r.i < len(r.steps) && r.steps[r.i].Times == 0 {
		r.i++
	}
	if r.i >= len(r.steps) {
		return 0, io.EOF
	}
	st := r.steps[r.i]
	n := st.N
	if r.carry > 0 {
		n = r.carry
	}
	if n > len(r.data) {
		panic("c07: reader script delivers more than the blob")
	}
	if n > len(p) {
		copy(p, r.data[:len(p)])
		r.data = r.data[len(p):]
		r.carry = n - len(p)
		return len(p), nil
	}
	copy(p, r.data[:n])
	r.data = r.data[n:]
	r.carry = 0
	r.done++
	if r.done == st.Times {
		r.i++
		r.done = 0
		if st.EOF {
			r.i = len(r.steps)
			return n, io.EOF
		}
	}
	return n, nil
}

// represented is the length of the byte sequence a script stands for (model: `represented`).
func represented(steps []ReadStep) int {
	total := 0
	for _, st := range steps {
		if st.Times == 0 {
			continue
		}
		total += st.N * st.Times
		if st.EOF {
			break
		}
	}
	return total
}

// reader concretises a reader behaviour over the content.
func (rd Reader) reader(content []byte) io.Reader {
	if represented(rd.Steps) != len(content) {
		panic(fmt.Sprintf("c07: reader script stands for %d bytes, the blob has %d", represented(rd.Steps), len(content)))
	}
	if rd.Direct {
		return bytes.NewReader(content)
	}
	return &scriptReader{data: content, steps: rd.Steps}
}

const copyChunk = 32 * 1024 // io.Copy's buffer; scripted reads never exceed it

var identityLists = []string{"plain", "foreignBefore", "foreignAfter", "foreignBetween"}
var otherSignatures = []string{"none", "strangerBeforeOtherFormat", "strangerBeforeSameFormat", "strangerAfterOtherFormat", "strangerAfterSameFormat"}
var certWindows = []string{"wide", "notBeforeIsSigningTime", "notAfterIsSigningTime", "oneSecond"}

var verifyTimestamps = []string{"unset", "always", "afterCertExpiry"}

// genPolicy draws a policy shape; shapes that demand a timestamp (which no signature here has) are the minority
func genPolicy(c *common.Ctx) Policy {
	p := Policy{TSAStore: chance(c, 0.5), VerifyTimestamp: pick(c, verifyTimestamps), Named: chance(c, 0.5)}
	if p.TSAStore && p.VerifyTimestamp != "afterCertExpiry" && chance(c, 0.6) {
		p.VerifyTimestamp = "afterCertExpiry"
	}
	return p
}

// ---- other calls in flight -----------------------------------------------------------------------------------

// a pinned interleaving of two blob calls: the FIRST call's reader fills the consumer's buffer with its first
// read, then lets the SECOND call run to completion before its Read returns
type gate struct {
	firstFilled chan struct{} // closed when the first call's first Read has filled the buffer
	secondDone  chan struct{} // closed when the second call has returned
}

type firstReader struct {
	r    io.Reader
	g    *gate
	done bool
}

func (f *firstReader) Read(p []byte) (int, error) {
	n, err := f.r.Read(p)
	if !f.done {
		f.done = true
		close(f.g.firstFilled)
		select {
		case <-f.g.secondDone:
		case <-time.After(20 * time.Second):
		}
	}
	return n, err
}

// yieldReader hands the processor to other goroutines around every Read
type yieldReader struct{ r io.Reader }

func (y yieldReader) Read(p []byte) (int, error) {
	runtime.Gosched()
	n, err := y.r.Read(p)
	runtime.Gosched()
	return n, err
}

// pinned runs `first` and `second` so that second runs entirely while first is inside its first Read.
// first gets the wrapper for its reader; it is started first, second only once first's reader has been read.
func pinned(first func(wrap func(io.Reader) io.Reader), second func()) {
	g := &gate{firstFilled: make(chan struct{}), secondDone: make(chan struct{})}
	old := runtime.GOMAXPROCS(1) // one P: whatever the first call handed to a pool is what the second call gets
	defer runtime.GOMAXPROCS(old)
	var wg sync.WaitGroup
	wg.Add(1)
	go func() {
		defer wg.Done()
		first(func(r io.Reader) io.Reader { return &firstReader{r: r, g: g} })
		// a first call that never read (refused): do not keep the second waiting
		select {
		case <-g.firstFilled:
		default:
			close(g.firstFilled)
		}
	}()
	select {
	case <-g.firstFilled:
	case <-time.After(20 * time.Second):
	}
	second()
	close(g.secondDone)
	wg.Wait()
}

var timeZones = []string{"UTC", "America/New_York", "Europe/Berlin", "Australia/Lord_Howe"}

// validities that, from whatever day the run happens on, reach across one daylight-saving change in some zone
var dstDurations = []time.Duration{time.Hour, 24 * time.Hour, 30 * 24 * time.Hour, 100 * 24 * time.Hour, 2400 * time.Hour,
	150 * 24 * time.Hour, 200 * 24 * time.Hour, 250 * 24 * time.Hour}

var extKinds = []string{"none", "nonCritical", "severalNonCritical", "critical", "criticalAndNonCritical"}

var tampers = []string{"faithful", "reserialised", "dropAnnotation", "addAnnotation", "changeAnnotation", "changeMediaType", "changeSize", "addUnknownField"}

var readerKinds = []string{"direct", "chunks", "oneByte", "dataEOF", "dataEOFsmall", "shortReads", "zeroReads", "mixed"}

// genReader draws a reader behaviour for a blob of the given size.
func genReader(c *common.Ctx, size int, kind string) Reader {
	rd := Reader{Steps: []ReadStep{}, label: kind}
	if kind == "direct" {
		rd.Direct = true
		if size > 0 {
			rd.Steps = append(rd.Steps, ReadStep{size, 1, false})
		}
		return rd
	}
	if kind == "oneByte" && size > 256<<10 {
		kind = "chunks"
	}
	zero := func(p float64) {
		if kind == "zeroReads" || kind == "mixed" {
			if chance(c, p) {
				rd.Steps = append(rd.Steps, ReadStep{0, 1 + c.Rand.Intn(3), false})
			}
		}
	}
	chunkOf := func() int {
		switch kind {
		case "chunks", "dataEOF", "zeroReads":
			return copyChunk
		case "oneByte":
			return 1
		case "dataEOFsmall":
			return pick(c, []int{1, 2, 7, 512, 4096})
		}
		return pick(c, []int{1, 2, 3, 7, 100, 1000, 4095, 4096, 4097, copyChunk - 1, copyChunk})
	}
	remaining := size
	zero(0.6)
	fixed := chunkOf()
	for remaining > 0 {
		ch := fixed
		if kind == "shortReads" || kind == "mixed" {
			ch = chunkOf()
		}
		if len(rd.Steps) > 40 {
			ch = copyChunk // keep the script short: the rest in full chunks
		}
		if ch > remaining {
			ch = remaining
		}
		times := remaining / ch
		if (kind == "shortReads" || kind == "mixed") && len(rd.Steps) <= 40 && times > 1 {
			times = 1 + c.Rand.Intn(min(times, 5))
		}
		rd.Steps = append(rd.Steps, ReadStep{ch, times, false})
		remaining -= ch * times
		if remaining > 0 {
			zero(0.3)
		}
	}
	// how the end is reported
	withData := kind == "dataEOF" || kind == "dataEOFsmall" || (kind == "mixed" || kind == "shortReads" || kind == "zeroReads") && chance(c, 0.5)
	switch {
	case withData && len(rd.Steps) > 0 && rd.Steps[len(rd.Steps)-1].N > 0:
		rd.Steps[len(rd.Steps)-1].EOF = true // the last bytes arrive together with io.EOF
	case withData:
		rd.Steps = append(rd.Steps, ReadStep{0, 1, true}) // empty blob: (0, io.EOF) at once
	default:
		zero(0.5) // zero-length reads with a nil error before the final (0, io.EOF)
	}
	return rd
}

// ---- canonicalisation ------------------------------------------------------------------------

func sortedKV(m map[string]string) []KV {
	out := make([]KV, 0, len(m))
	for k, v := range m {
		out = append(out, KV{k, v})
	}
	sort.Slice(out, func(a, b int) bool { return out[a].K < out[b].K })
	return out
}

func kvMap(kvs []KV) map[string]string {
	if len(kvs) == 0 {
		return nil
	}
	m := map[string]string{}
	for _, x := range kvs {
		m[x.K] = x.V
	}
	return m
}

// descObsFromMap reads the JSON object of a descriptor.
func descObsFromMap(m map[string]json.RawMessage, extra []string) *DescObs {
	o := &DescObs{Annotations: []KV{}, ExtraKeys: append([]string{}, extra...)}
	for k, raw := range m {
		switch k {
		case "mediaType":
			if json.Unmarshal(raw, &o.MediaType) != nil {
				o.ExtraKeys = append(o.ExtraKeys, "!mediaType")
			}
		case "digest":
			if json.Unmarshal(raw, &o.Digest) != nil {
				o.ExtraKeys = append(o.ExtraKeys, "!digest")
			}
		case "size":
			if json.Unmarshal(raw, &o.Size) != nil {
				o.ExtraKeys = append(o.ExtraKeys, "!size")
			}
		case "annotations":
			var a map[string]string
			if json.Unmarshal(raw, &a) != nil {
				o.ExtraKeys = append(o.ExtraKeys, "!annotations")
			}
			o.Annotations = sortedKV(a)
		default:
			o.ExtraKeys = append(o.ExtraKeys, k)
		}
	}
	sort.Strings(o.ExtraKeys)
	return o
}

func descObsOf(d ocispec.Descriptor) *DescObs {
	b, err := json.Marshal(d)
	if err != nil {
		panic(err)
	}
	var m map[string]json.RawMessage
	if err := json.Unmarshal(b, &m); err != nil {
		panic(err)
	}
	return descObsFromMap(m, nil)
}

// payloadObs reads the payload `{"targetArtifact": {...}}` as it is in the envelope.
func payloadObs(content []byte) *DescObs {
	var top map[string]json.RawMessage
	if err := json.Unmarshal(content, &top); err != nil {
		return &DescObs{Annotations: []KV{}, ExtraKeys: []string{"!payload"}}
	}
	var extra []string
	var ta map[string]json.RawMessage
	for k, raw := range top {
		if k == "targetArtifact" {
			if err := json.Unmarshal(raw, &ta); err != nil {
				extra = append(extra, "!targetArtifact")
			}
		} else {
			extra = append(extra, "/"+k)
		}
	}
	if ta == nil {
		extra = append(extra, "!noTargetArtifact")
	}
	return descObsFromMap(ta, extra)
}

// ---- one round trip ------------------------------------------------------------------------------

type signedCase struct {
	in       Input
	obs      Obs
	sig      []byte // blob: the signature
	repo     registry.Repository
	ref      string
	content  []byte // blob content
	signTime time.Time
	expiry   time.Time
	signedMT string
}

// sharedVerifier returns THE verifier object of an identity style (created once, used for every
// verification of the run): wildcard identity, or the exact subjects of the six signing certificates.
const ociScope = "reg.example/c07"

const foreignIdentity = "com.example.kms.key:projects/p/locations/l/keyRings/r/cryptoKeys/k1"

func (w *world) sharedVerifier(exact bool, pol Policy, identities string) bothVerifier {
	w.mu.Lock()
	defer w.mu.Unlock()
	if !exact {
		identities = "plain" // the wildcard stands alone
	}
	key := verifierKey{exact, pol, identities}
	if v, ok := w.verifiers[key]; ok {
		return v
	}
	ids := []string{"*"}
	if exact {
		ids = nil
		for _, name := range specNames {
			ids = append(ids, w.keys[name].subject)
		}
		// plugin-defined identities (left to verification plugins) anywhere in the list
		switch identities {
		case "foreignBefore":
			ids = append([]string{foreignIdentity}, ids...)
		case "foreignAfter":
			ids = append(ids, foreignIdentity)
		case "foreignBetween":
			ids = append(append(append([]string{}, ids[:3]...), foreignIdentity, "com.example.other:x"), ids[3:]...)
		}
	}
	sv := trustpolicy.SignatureVerification{VerificationLevel: "strict",
		Override: map[trustpolicy.ValidationType]trustpolicy.ValidationAction{trustpolicy.TypeRevocation: trustpolicy.ActionSkip}}
	switch pol.VerifyTimestamp {
	case "always":
		sv.VerifyTimestamp = trustpolicy.OptionAlways
	case "afterCertExpiry":
		sv.VerifyTimestamp = trustpolicy.OptionAfterCertExpiry
	}
	stores := []string{"ca:c07", "signingAuthority:c07"}
	if pol.TSAStore {
		stores = append(stores, "tsa:c07tsa")
	}
	scopes := []string{"*"}
	if pol.Named {
		scopes = []string{ociScope}
	}
	opts := verifier.VerifierOptions{
		OCITrustPolicy: &trustpolicy.OCIDocument{Version: "1.0", TrustPolicies: []trustpolicy.OCITrustPolicy{{
			Name: "c07", RegistryScopes: scopes, SignatureVerification: sv,
			TrustStores: stores, TrustedIdentities: ids}}},
		// blob: the global statement, or a named one picked by TrustPolicyName
		BlobTrustPolicy: &trustpolicy.BlobDocument{Version: "1.0", TrustPolicies: []trustpolicy.BlobTrustPolicy{{
			Name: "c07", SignatureVerification: sv, TrustStores: stores, TrustedIdentities: ids, GlobalPolicy: !pol.Named}}},
	}
	v, err := verifier.NewVerifierWithOptions(w.store, opts)
	if err != nil {
		panic(fmt.Sprintf("c07: NewVerifierWithOptions: %v", err))
	}
	w.verifiers[key] = v
	return v
}

type bothSigner interface {
	notation.Signer
	notation.BlobSigner
}

// sharedSigner returns THE signer object a case signs with: one GenericSigner per key for each of
// the two local constructors, and ONE PluginSigner per plugin kind whatever the key.
func (w *world) sharedSigner(in Input) *signerObj {
	id := in.Signer
	if in.Signer == "localKey" || in.Signer == "localFiles" {
		id += "/" + in.KeySpec
	}
	if o, ok := w.signers[id]; ok {
		return o
	}
	kw := w.keys[in.KeySpec]
	o := &signerObj{}
	switch in.Signer {
	case "localKey":
		s, err := signer.NewGenericSigner(kw.key, kw.chain.X509())
		if err != nil {
			panic(fmt.Sprintf("c07: NewGenericSigner: %v", err))
		}
		o.s = s
	case "localFiles":
		// NewFromFiles is NewGenericSignerFromFiles behind the notation.Signer interface
		if _, err := signer.NewFromFiles(kw.keyPath, kw.certPath); err != nil {
			panic(fmt.Sprintf("c07: NewFromFiles: %v", err))
		}
		s, err := signer.NewGenericSignerFromFiles(kw.keyPath, kw.certPath)
		if err != nil {
			panic(fmt.Sprintf("c07: NewGenericSignerFromFiles: %v", err))
		}
		o.s = s
	case "pluginSignature", "pluginEnvelope":
		o.plugin = &signPlugin{w: w, current: in.KeySpec, envelope: in.Signer == "pluginEnvelope"}
		s, err := signer.NewPluginSigner(o.plugin, "c07-key", nil)
		if err != nil {
			panic(fmt.Sprintf("c07: NewPluginSigner: %v", err))
		}
		o.s = s
	default:
		panic("c07: signer kind " + in.Signer)
	}
	w.signers[id] = o
	return o
}

func wantedMetadata(in Input) map[string]string {
	switch in.VerifyMetadata {
	case "all":
		return kvMap(in.Metadata)
	case "wrong":
		m := kvMap(in.Metadata)
		if m == nil {
			m = map[string]string{}
		}
		m["c07.not.signed"] = "x"
		return m
	}
	return nil
}

// ociDescriptor concretises the abstract resolved descriptor.
func ociDescriptor(d FullDesc) ocispec.Descriptor {
	desc := ocispec.Descriptor{MediaType: d.MediaType, Digest: digest.Digest(d.Digest), Size: d.Size,
		Annotations: kvMap(d.Annotations), ArtifactType: d.ArtifactType}
	if len(d.URLs) > 0 {
		desc.URLs = d.URLs
	}
	if d.Platform {
		desc.Platform = &ocispec.Platform{Architecture: "amd64", OS: "linux"}
	}
	if d.Data != "" {
		b, err := base64.StdEncoding.DecodeString(d.Data)
		if err != nil {
			panic(err)
		}
		desc.Data = b
	}
	return desc
}

const tagName = "v1"

// sign runs the signing API; content is the artifact (oci) or the blob.
func (w *world) sign(in Input, content []byte) *signedCase {
	ctx := context.Background()
	w.mu.Lock()
	obj := w.sharedSigner(in)
	// the history of the shared object is part of the case; this call becomes its last one
	via := in.History.KeyVia
	in.History = obj.hist
	in.History.KeyVia = via
	ks, kd, fm := in.KeySpec, in.Kind, in.Format
	obj.hist = History{Position: obj.hist.Position + 1, PrevKeySpec: &ks, PrevKind: &kd, PrevFormat: &fm}
	concurrent := w.inFlight
	w.mu.Unlock()
	sc := &signedCase{in: in, content: content}
	s := obj.s
	sso := notation.SignerSignOptions{SignatureMediaType: formatOf[in.Format], ExpiryDuration: time.Duration(in.DurationNs), SigningAgent: in.Agent}
	if obj.plugin != nil {
		obj.plugin.tamper = in.Tamper
		obj.plugin.ext = in.ExtAttrs
		obj.plugin.scheme, obj.plugin.window = in.Scheme, in.CertWindow
		switch via {
		case "rotated":
			// the key behind the key id has been switched since the previous call
			obj.plugin.current = in.KeySpec
		case "pluginConfig":
			// the key id keeps pointing at the previous key; this call selects a key version
			sso.PluginConfig = map[string]string{keyVersionConfig: in.KeySpec}
		default:
			panic("c07: plugin signer needs keyVia rotated or pluginConfig")
		}
	} else if via != "fixed" {
		panic("c07: local signer needs keyVia fixed")
	}
	// the signing process runs in this time zone (time.Now() carries time.Local)
	loc, err := time.LoadLocation(in.TimeZone)
	if err != nil {
		panic(fmt.Sprintf("c07: time zone %q: %v", in.TimeZone, err))
	}
	if !concurrent {
		oldLocal := time.Local
		time.Local = loc
		defer func() { time.Local = oldLocal }()
	}
	var sig []byte
	sigMT := formatOf[in.Format]
	if in.Kind == "blob" {
		var b []byte
		for try := 0; ; try++ {
			var err error
			rd := in.SignReader.reader(content)
			if in.wrapSign != nil {
				rd = in.wrapSign(rd)
			}
			b, _, err = notation.SignBlob(ctx, s, rd, notation.SignBlobOptions{
				SignerSignOptions: sso, ContentMediaType: in.ContentMediaType, UserMetadata: kvMap(in.Metadata)})
			if err != nil {
				return sc
			}
			// sign again (same object, fresh randomness) until the envelope ends in the wanted byte
			if in.EnvelopeLastByte == nil || int(b[len(b)-1]) == *in.EnvelopeLastByte {
				break
			}
			if try > 20000 {
				panic(fmt.Sprintf("c07: no envelope ending in byte %#x after %d signatures", *in.EnvelopeLastByte, try))
			}
			obj.hist.Position++
			sc.in.History.Position++
		}
		sig = b
		sc.sig = b
	} else {
		store := memory.New()
		desc := ociDescriptor(in.Desc)
		if err := store.Push(ctx, ocispec.Descriptor{MediaType: desc.MediaType, Digest: desc.Digest, Size: desc.Size}, bytes.NewReader(content)); err != nil {
			panic(fmt.Sprintf("c07: push artifact: %v", err))
		}
		if err := store.Tag(ctx, desc, desc.Digest.String()); err != nil {
			panic(err)
		}
		if err := store.Tag(ctx, desc, tagName); err != nil {
			panic(err)
		}
		repo := registry.NewRepository(store)
		sc.repo = repo
		// the built-in verifier's trust policy lookup needs a digest reference; signing may go by tag
		sc.ref = "reg.example/c07@" + desc.Digest.String()
		signRef := sc.ref
		if in.ByTag {
			signRef = "reg.example/c07:" + tagName
		}
		// somebody the policy does not trust signs the same artifact through SignOCI too, before or after, in the
		// same or the other envelope format
		strangerSigns := func() {
			f := formatOf[in.Format]
			if in.OtherSignature == "strangerBeforeOtherFormat" || in.OtherSignature == "strangerAfterOtherFormat" {
				f = formatOf[map[string]string{"jws": "cose", "cose": "jws"}[in.Format]]
			}
			if _, _, err := notation.SignOCI(ctx, w.stranger, repo, notation.SignOptions{
				SignerSignOptions: notation.SignerSignOptions{SignatureMediaType: f}, ArtifactReference: sc.ref}); err != nil {
				panic(fmt.Sprintf("c07: the stranger cannot sign: %v", err))
			}
		}
		if in.OtherSignature == "strangerBeforeOtherFormat" || in.OtherSignature == "strangerBeforeSameFormat" {
			strangerSigns()
		}
		_, _, err := notation.SignOCI(ctx, s, repo, notation.SignOptions{SignerSignOptions: sso, ArtifactReference: signRef, UserMetadata: kvMap(in.Metadata)})
		if err != nil {
			return sc
		}
		if in.OtherSignature == "strangerAfterOtherFormat" || in.OtherSignature == "strangerAfterSameFormat" {
			strangerSigns()
		}
		// read the pushed signature back through the real repository client (skipping the stranger's)
		n := 0
		err = repo.ListSignatures(ctx, desc, func(ms []ocispec.Descriptor) error {
			for _, m := range ms {
				b, bd, err := repo.FetchSignatureBlob(ctx, m)
				if err != nil {
					return err
				}
				if e, err := signature.ParseEnvelope(bd.MediaType, b); err == nil {
					if ec, err := e.Content(); err == nil && len(ec.SignerInfo.CertificateChain) > 0 {
						chain := ec.SignerInfo.CertificateChain
						if chain[len(chain)-1].Equal(w.strangerRoot) {
							continue
						}
					}
				}
				sig, sigMT = b, bd.MediaType
				n++
			}
			return nil
		})
		if err != nil || n != 1 {
			panic(fmt.Sprintf("c07: expected exactly one signature of the signer under test, got %d (%v)", n, err))
		}
	}
	sc.obs.Signed = true
	env, err := signature.ParseEnvelope(sigMT, sig)
	if err != nil {
		// never matches the model: the signing API returned something that is not an envelope
		sc.obs.Payload = &DescObs{Annotations: []KV{}, ExtraKeys: []string{"!envelope does not parse"}}
		return sc
	}
	ec, err := env.Content()
	if err != nil {
		sc.obs.Payload = &DescObs{Annotations: []KV{}, ExtraKeys: []string{"!envelope has no content"}}
		return sc
	}
	sc.obs.Payload = payloadObs(ec.Payload.Content)
	st, ex := ec.SignerInfo.SignedAttributes.SigningTime, ec.SignerInfo.SignedAttributes.Expiry
	sc.signTime, sc.expiry = st, ex
	if !ex.IsZero() {
		d := ex.Sub(st)
		v := int64(d / time.Second)
		if d%time.Second != 0 || st.Nanosecond() != 0 {
			v = -999 // sub-second times never match the model
		}
		sc.obs.ExpirySec = &v
	}
	return sc
}

// verify runs the verification API on a signed case and completes the observation.
func (w *world) verify(sc *signedCase) Obs {
	ctx := context.Background()
	in, o := sc.in, sc.obs
	v := w.sharedVerifier(in.ExactIdentity, in.Policy, in.Identities)
	var outcome *notation.VerificationOutcome
	var returned ocispec.Descriptor
	if in.Kind == "blob" {
		stated := map[string]string{"same": in.ContentMediaType, "unstated": "", "other": "application/x-c07-other"}[in.VerifyMediaType]
		sig := sc.sig
		if in.TrailingNewline {
			// a detached JWS signature file with a line break at its end
			sig = append(append([]byte{}, sig...), '\n')
		}
		rd := in.VerifyReader.reader(sc.content)
		if in.wrapVerify != nil {
			rd = in.wrapVerify(rd)
		}
		policyName := ""
		if in.Policy.Named {
			policyName = "c07"
		}
		d, vo, err := notation.VerifyBlob(ctx, v, rd, sig, notation.VerifyBlobOptions{
			BlobVerifierVerifyOptions: notation.BlobVerifierVerifyOptions{SignatureMediaType: formatOf[in.Format], UserMetadata: wantedMetadata(in), TrustPolicyName: policyName},
			ContentMediaType:          stated})
		if err != nil {
			return o
		}
		returned, outcome = d, vo
	} else {
		d, vos, err := notation.Verify(ctx, v, sc.repo, notation.VerifyOptions{ArtifactReference: sc.ref, MaxSignatureAttempts: 5, UserMetadata: wantedMetadata(in)})
		if err != nil {
			return o
		}
		if len(vos) != 1 {
			// never matches the model: success is reported with exactly one outcome
			o.Verified = true
			o.Payload = nil
			return o
		}
		returned, outcome = d, vos[0]
	}
	o.Verified = true
	if outcome.EnvelopeContent == nil {
		// never matches the model: success without a verified payload
		o.Payload = nil
		return o
	}
	// the verified payload is what the outcome reports
	o.Payload = payloadObs(outcome.EnvelopeContent.Payload.Content)
	o.Returned = descObsOf(returned)
	md, err := outcome.UserMetadata()
	if err != nil {
		md = map[string]string{"!UserMetadata failed": err.Error()}
	}
	kvs := sortedKV(md)
	o.UserMetadata = &kvs
	return o
}

// roundTrip signs and verifies immediately; short expiries are aligned to the clock so that the
// planned lag (0 s) is the real one.
func (w *world) roundTrip(in Input, content []byte) (Input, Obs) {
	short := in.DurationNs > 0 && in.DurationNs < int64(10*time.Second)
	for attempt := 0; ; attempt++ {
		if short {
			if ns := time.Now().Nanosecond(); ns > 250_000_000 {
				time.Sleep(time.Duration(1_000_000_000-ns) + 2*time.Millisecond)
			}
		}
		sc := w.sign(in, content)
		if !sc.obs.Signed {
			return sc.in, sc.obs
		}
		o := w.verify(sc)
		if !short || sc.expiry.IsZero() || time.Now().Before(sc.expiry) {
			return sc.in, o
		}
		if attempt >= 5 {
			panic("c07: cannot complete a round trip within a short expiry")
		}
	}
}

// ---- generator ----------------------------------------------------------------------------------------

func pick[T any](c *common.Ctx, xs []T) T  { return xs[c.Rand.Intn(len(xs))] }
func chance(c *common.Ctx, p float64) bool { return c.Rand.Float64() < p }

var annotationKeys = []string{"org.opencontainers.image.created", "vendor", "buildId", "commit", "k", "ünïcode-ключ", "a.b/c", "io.cncf.notary.x509chain.thumbprint#S256", "Z", "zz", " vendor", "k "}
var metadataKeys = []string{"buildId", "commit", "k", "ünïcode-ключ", "team", "Z", "zz", "io.cncf.notar", "IO.CNCF.NOTARY.upper", "0",
	" commit", "build ", "pipeline\t", "\tx", " ", "a b c", " io.cncf.notary.padded", "k "}

// keys with white space at either end (the caller's spelling is what is signed, required and read back)
var paddedKeys = []string{" commit", "build ", "pipeline\t", "\tx", " ", " io.cncf.notary.padded", "k ", " k", "\nline"}
var reservedKeys = []string{"io.cncf.notary", "io.cncf.notary.foo", "io.cncf.notaryx", "io.cncf.notary.x509chain.thumbprint#S256"}
var values = []string{"", "1", "v", "a b", "ü✓", "{\"json\":true}", "0123456789abcdef0123456789abcdef", "line1\nline2", " v", "v ", "\t"}
var ociMediaTypes = []string{ocispec.MediaTypeImageManifest, ocispec.MediaTypeImageIndex, "application/vnd.c07.custom.v1+json", "application/octet-stream"}
var blobMediaTypes = []string{"application/octet-stream", "text/plain; charset=utf-8", "application/vnd.example+json;version=1", "a/b",
	"application/vnd.c07.blob", "video/mp4; codecs=\"avc1.640028\""}
var badBlobMediaTypes = []string{"", "application/", "text/plain; charset", "a/b; x=1; x=2", "/nothing"}
var agents = []string{"", "c07-agent/1.0", "weird agent ✓ (x)"}
var legalDurations = []time.Duration{0, time.Second, 2 * time.Second, time.Minute, time.Hour, 24 * time.Hour, 8760 * time.Hour}
var illegalDurations = []time.Duration{1500 * time.Millisecond, time.Nanosecond, 999_999_999 * time.Nanosecond, time.Second + time.Nanosecond,
	24*time.Hour + time.Millisecond, -time.Second, -time.Nanosecond, -1500 * time.Millisecond}
var keyWeights = []struct {
	name string
	w    float64
}{{"ec256", 0.30}, {"ec384", 0.20}, {"ec521", 0.18}, {"rsa2048", 0.14}, {"rsa3072", 0.10}, {"rsa4096", 0.08}}

func genKV(c *common.Ctx, keys []string, n int) []KV {
	m := map[string]string{}
	for len(m) < n {
		m[pick(c, keys)] = pick(c, values)
	}
	return sortedKV(m)
}

func genKeySpec(c *common.Ctx) string {
	r := c.Rand.Float64()
	for _, k := range keyWeights {
		if r < k.w {
			return k.name
		}
		r -= k.w
	}
	return "ec256"
}

// genArtifact makes a content the memory store accepts for the media type, and its descriptor.
func (w *world) genArtifact(c *common.Ctx) (FullDesc, []byte) {
	mt := pick(c, ociMediaTypes)
	var content []byte
	switch mt {
	case ocispec.MediaTypeImageManifest:
		content = []byte(fmt.Sprintf(`{"schemaVersion":2,"mediaType":%q,"config":{"mediaType":"application/vnd.oci.empty.v1+json","digest":"sha256:44136fa355b3678a1146ad16f7e8649e94fb4fc21fe77e8310c060f61caaff8a","size":2},"layers":[],"annotations":{"n":"%d"}}`, mt, c.Rand.Int63()))
	case ocispec.MediaTypeImageIndex:
		content = []byte(fmt.Sprintf(`{"schemaVersion":2,"mediaType":%q,"manifests":[],"annotations":{"n":"%d"}}`, mt, c.Rand.Int63()))
	default:
		content = w.randBytes(c.Rand.Intn(200))
	}
	abs := digests(content)
	d := FullDesc{MediaType: mt, Digest: abs.SHA256, Size: abs.Size, Annotations: []KV{}, URLs: []string{}}
	if chance(c, 0.15) {
		d.Digest = abs.SHA512
	}
	if chance(c, 0.6) {
		d.Annotations = genKV(c, annotationKeys, 1+c.Rand.Intn(3))
	}
	if chance(c, 0.4) {
		d.URLs = []string{"https://example.test/blob"}
		if chance(c, 0.3) {
			d.URLs = append(d.URLs, "https://mirror.example.test/blob")
		}
	}
	d.Platform = chance(c, 0.35)
	if chance(c, 0.3) {
		d.Data = base64.StdEncoding.EncodeToString(content)
		if d.Data == "" {
			d.Data = base64.StdEncoding.EncodeToString([]byte("x"))
		}
	}
	if chance(c, 0.3) {
		d.ArtifactType = "application/vnd.c07.artifact"
	}
	return d, content
}

var blobSizes = []int{0, 1, 1 << 10, 1 << 20, 4 << 20}

// sizes around the boundaries of a 32 KiB copy buffer
var boundarySizes = []int{copyChunk - 1, copyChunk, copyChunk + 1, 2*copyChunk - 1, 2 * copyChunk, 2*copyChunk + 1, 3 * copyChunk, 4*copyChunk + 1, 4096, 4097}

func (w *world) genBlob(c *common.Ctx) *blobData {
	r := c.Rand.Float64()
	switch {
	case r < 0.12:
		return w.blob(0)
	case r < 0.24:
		return w.blob(1)
	case r < 0.44:
		return w.blob(1 << 10)
	case r < 0.52:
		return w.blob(1 << 20)
	case r < 0.57:
		return w.blob(4 << 20)
	case r < 0.77:
		return w.blob(pick(c, boundarySizes))
	}
	return w.blob(2 + c.Rand.Intn(5000))
}

func zeroDesc() FullDesc { return FullDesc{Annotations: []KV{}, URLs: []string{}} }

// genCase draws one abstract case and the content it is about.
func (w *world) genCase(c *common.Ctx) (Input, []byte) {
	in := Input{Desc: zeroDesc(), Metadata: []KV{}, VerifyMediaType: "same", VerifyMetadata: "nothing",
		SignReader: Reader{Direct: true, Steps: []ReadStep{}}, VerifyReader: Reader{Direct: true, Steps: []ReadStep{}}}
	in.Kind = pick(c, []string{"oci", "blob"})
	in.KeySpec = genKeySpec(c)
	in.Format = pick(c, []string{"jws", "cose"})
	in.Signer = pick(c, signerKinds)
	setKeyVia(&in, pick(c, []string{"rotated", "pluginConfig"}))
	in.InFlight = "alone"
	in.Identities, in.OtherSignature, in.Scheme, in.CertWindow = "plain", "none", "x509", "wide"
	if chance(c, 0.5) {
		in.Identities = pick(c, identityLists)
	}
	if chance(c, 0.35) {
		in.Scheme, in.CertWindow = "signingAuthority", pick(c, certWindows) // only an envelope plugin chooses the scheme
	}
	in.Policy = Policy{VerifyTimestamp: "unset"}
	if chance(c, 0.5) {
		in.Policy = genPolicy(c)
	}
	in.TimeZone = "UTC"
	if chance(c, 0.6) {
		in.TimeZone = pick(c, timeZones)
	}
	in.ExtAttrs = "none"
	if chance(c, 0.4) {
		in.ExtAttrs = pick(c, extKinds) // only an envelope plugin adds them; for the others the field must not matter
	}
	in.Tamper = "faithful"
	switch r := c.Rand.Float64(); {
	case in.Signer != "pluginEnvelope" && r < 0.8:
		// only an envelope plugin sees the payload; for the others the field must not matter
	case r < 0.35:
	case r < 0.5:
		in.Tamper = "reserialised"
	default:
		in.Tamper = pick(c, tampers[2:])
	}
	in.NowFracNs = c.Rand.Int63n(1_000_000_000)
	in.Agent = pick(c, agents)
	in.ExactIdentity = chance(c, 0.4)
	var content []byte
	if in.Kind == "oci" {
		in.Desc, content = w.genArtifact(c)
		if chance(c, 0.3) {
			in.OtherSignature = pick(c, otherSignatures)
		}
		in.ByTag = chance(c, 0.4)
	} else {
		bd := w.genBlob(c)
		in.Blob, content = bd.abs, bd.content
		in.SignReader = genReader(c, len(content), pick(c, readerKinds))
		in.VerifyReader = genReader(c, len(content), pick(c, readerKinds))
		in.ContentMediaType = pick(c, blobMediaTypes)
		if chance(c, 0.08) {
			in.ContentMediaType = pick(c, badBlobMediaTypes)
		}
		in.TrailingNewline = in.Format == "jws" && chance(c, 0.2)
		if in.ContentMediaType != "" {
			_, _, err := mime.ParseMediaType(in.ContentMediaType)
			in.MediaTypeValid = err == nil
		} else {
			in.MediaTypeValid = true // never asked
		}
		switch r := c.Rand.Float64(); {
		case r < 0.2:
			in.VerifyMediaType = "unstated"
		case r < 0.3:
			in.VerifyMediaType = "other"
		}
	}
	// user metadata
	if chance(c, 0.65) {
		in.Metadata = genKV(c, metadataKeys, 1+c.Rand.Intn(3))
		if chance(c, 0.10) {
			in.Metadata = sortedKV(mergeMaps(kvMap(in.Metadata), map[string]string{pick(c, reservedKeys): pick(c, values)}))
		}
		if in.Kind == "oci" && len(in.Desc.Annotations) > 0 && chance(c, 0.12) {
			// collide with an annotation of the artifact (same or different value)
			a := pick(c, in.Desc.Annotations)
			v := a.V
			if chance(c, 0.5) {
				v = pick(c, values)
			}
			in.Metadata = sortedKV(mergeMaps(kvMap(in.Metadata), map[string]string{a.K: v}))
		}
	}
	switch r := c.Rand.Float64(); {
	case r < 0.35:
		in.VerifyMetadata = "all"
	case r < 0.47:
		in.VerifyMetadata = "wrong"
	}
	// expiry
	if chance(c, 0.12) {
		in.DurationNs = int64(pick(c, illegalDurations))
	} else {
		in.DurationNs = int64(pick(c, legalDurations))
		if chance(c, 0.3) {
			in.DurationNs = int64(pick(c, dstDurations))
		}
	}
	return in, content
}

// setKeyVia records how the key is selected: local signer objects are bound to their key.
func setKeyVia(in *Input, pluginVia string) {
	if in.Signer == "localKey" || in.Signer == "localFiles" {
		in.History.KeyVia = "fixed"
	} else {
		in.History.KeyVia = pluginVia
	}
}

func mergeMaps(a, b map[string]string) map[string]string {
	out := map[string]string{}
	for k, v := range a {
		out[k] = v
	}
	for k, v := range b {
		out[k] = v
	}
	return out
}

func count(c *common.Ctx, in Input, o Obs) {
	c.Count("kind=" + in.Kind)
	c.Count("key=" + in.KeySpec)
	c.Count("format=" + in.Format)
	c.Count("signer=" + in.Signer)
	c.Count(fmt.Sprintf("signed=%v", o.Signed))
	c.Count(fmt.Sprintf("verified=%v", o.Verified))
	if in.Kind == "blob" {
		sz := "other"
		for _, s := range blobSizes {
			if int64(s) == in.Blob.Size {
				sz = fmt.Sprint(s)
			}
		}
		c.Count("blobSize=" + sz)
		c.Count("verifyMediaType=" + in.VerifyMediaType)
		c.Count("signReader=" + in.SignReader.label)
		c.Count("verifyReader=" + in.VerifyReader.label)
		for _, b := range boundarySizes {
			if int64(b) == in.Blob.Size {
				c.Count("blobSize=chunkBoundary")
			}
		}
	} else {
		c.Count(fmt.Sprintf("descExtras=%v", len(in.Desc.URLs) > 0 || in.Desc.Platform || in.Desc.Data != "" || in.Desc.ArtifactType != ""))
	}
	c.Count(fmt.Sprintf("metadataKeys=%d", len(in.Metadata)))
	c.Count("verifyMetadata=" + in.VerifyMetadata)
	switch {
	case in.DurationNs == 0:
		c.Count("duration=none")
	case in.DurationNs < 0:
		c.Count("duration=negative")
	case in.DurationNs%int64(time.Second) != 0:
		c.Count("duration=subsecond")
	default:
		c.Count("duration=whole")
	}
	if in.LagSec > 0 {
		c.Count("verifiedAfterExpiry")
	}
	if in.Signer == "pluginEnvelope" {
		c.Count("envelopePluginTamper=" + in.Tamper)
	}
	c.Count("timeZone=" + in.TimeZone)
	c.Count("inFlight=" + in.InFlight)
	if in.ExactIdentity {
		c.Count("identities=" + in.Identities)
	}
	if in.Kind == "oci" {
		c.Count("otherSignature=" + in.OtherSignature)
	}
	if in.Signer == "pluginEnvelope" {
		c.Count("envelopePluginScheme=" + in.Scheme + "/" + in.CertWindow)
	}
	c.Count(fmt.Sprintf("policy:tsa=%v,verifyTimestamp=%s", in.Policy.TSAStore, in.Policy.VerifyTimestamp))
	c.Count(fmt.Sprintf("policy:named=%v", in.Policy.Named))
	for _, kv := range in.Metadata {
		if kv.K != "" && (kv.K[0] == ' ' || kv.K[0] == '\t' || kv.K[len(kv.K)-1] == ' ' || kv.K[len(kv.K)-1] == '\t') {
			c.Count("metadataKeyWithOuterWhiteSpace")
			break
		}
	}
	if in.Signer == "pluginEnvelope" {
		c.Count("envelopePluginExtAttrs=" + in.ExtAttrs)
	}
	if in.EnvelopeLastByte != nil && o.Signed {
		c.Count(fmt.Sprintf("coseEnvelopeEndsIn=%#02x", *in.EnvelopeLastByte))
	}
	if in.TrailingNewline {
		c.Count("jwsEnvelopeWithTrailingNewline")
	}
	c.Count("keyVia=" + in.History.KeyVia)
	if in.History.PrevKeySpec != nil && in.History.KeyVia != "fixed" {
		c.Count(fmt.Sprintf("sharedPluginSigner:keySpecChanged=%v", *in.History.PrevKeySpec != in.KeySpec))
		c.Count(fmt.Sprintf("sharedPluginSigner:%s->%s", *in.History.PrevKind, in.Kind))
		c.Count(fmt.Sprintf("sharedPluginSigner:formatChanged=%v", *in.History.PrevFormat != in.Format))
	}
}

// Run generates the cases of C07.
func Run(c *common.Ctx) error {
	w := newWorld(c)
	random := 230
	delayed := 6
	if c.Thorough() {
		random, delayed = 4900, 40
	}
	emit := func(in Input, o Obs) {
		count(c, in, o)
		c.Emit(in, o)
	}

	// (1) delayed verification: sign now with a short expiry, verify after it has passed
	var pending []*signedCase
	for n := 0; n < delayed; n++ {
		in, content := w.genCase(c)
		in.Metadata = genKV(c, metadataKeys[:7], c.Rand.Intn(3))
		if in.Kind == "blob" {
			in.ContentMediaType, in.MediaTypeValid = pick(c, blobMediaTypes), true
		} else {
			in.Metadata = []KV{}
		}
		in.VerifyMediaType, in.VerifyMetadata = "same", pick(c, []string{"nothing", "all"})
		in.Tamper = pick(c, []string{"faithful", "reserialised"})
		in.ExtAttrs = pick(c, []string{"none", "nonCritical"})
		secs := int64(1 + c.Rand.Intn(2))
		in.DurationNs = secs * int64(time.Second)
		in.LagSec = secs + int64(c.Rand.Intn(2))
		sc := w.sign(in, content)
		if !sc.obs.Signed {
			// a legal case was refused: that is an observation, not a harness failure
			emit(sc.in, sc.obs)
			continue
		}
		pending = append(pending, sc)
	}

	// (2) the full matrix key spec x format x signer x kind with plain legal arguments
	for _, ks := range specNames {
		for _, f := range []string{"jws", "cose"} {
			for _, s := range signerKinds {
				for _, kind := range []string{"oci", "blob"} {
					in, content := w.genCase(c)
					for in.Kind != kind {
						in, content = w.genCase(c)
					}
					in.KeySpec, in.Format, in.Signer = ks, f, s
					in.Metadata = genKV(c, metadataKeys[:7], 1+c.Rand.Intn(2))
					if kind == "oci" {
						// keep the metadata clear of the artifact's annotations
						in.Desc.Annotations = genKV(c, []string{"org.opencontainers.image.created", "vendor", "a.b/c"}, c.Rand.Intn(3))
					} else {
						in.ContentMediaType, in.MediaTypeValid = pick(c, blobMediaTypes), true
					}
					in.VerifyMediaType, in.VerifyMetadata = pick(c, []string{"same", "unstated"}), pick(c, []string{"nothing", "all"})
					in.DurationNs = int64(pick(c, legalDurations))
					setKeyVia(&in, map[string]string{"jws": "rotated", "cose": "pluginConfig"}[f])
					in.Tamper = pick(c, []string{"faithful", "reserialised", "addAnnotation"})
					in.ExtAttrs = pick(c, []string{"none", "nonCritical", "severalNonCritical"})
					in.TrailingNewline = kind == "blob" && f == "jws" && chance(c, 0.5)
					emit(w.roundTrip(in, content))
				}
			}
		}
	}

	// (2b) twins: two consecutive round trips on the SAME signer object that differ only in the
	// content (same shape: media type, size, metadata keys) - anything remembered from the first
	// call that is not re-derived from the second call's content shows here
	for _, s := range signerKinds {
		for _, kind := range []string{"oci", "blob"} {
			in, _ := w.genCase(c)
			for in.Kind != kind {
				in, _ = w.genCase(c)
			}
			in.Signer = s
			setKeyVia(&in, pick(c, []string{"rotated", "pluginConfig"}))
			in.Tamper, in.TrailingNewline, in.ExtAttrs = "faithful", false, "none"
			in.Metadata = genKV(c, metadataKeys[:3], c.Rand.Intn(2))
			in.VerifyMediaType, in.VerifyMetadata = "same", "all"
			in.DurationNs = int64(pick(c, legalDurations))
			size := pick(c, []int{64, 1000, copyChunk + 1})
			for twin := 0; twin < 2; twin++ {
				content := w.randBytes(size)
				abs := digests(content)
				if kind == "oci" {
					in.Desc = FullDesc{MediaType: "application/vnd.c07.custom.v1+json", Digest: abs.SHA256, Size: abs.Size, Annotations: []KV{}, URLs: []string{}}
				} else {
					in.Blob = abs
					in.ContentMediaType, in.MediaTypeValid = "application/octet-stream", true
					in.SignReader = genReader(c, size, pick(c, readerKinds))
					in.VerifyReader = genReader(c, size, pick(c, readerKinds))
				}
				emit(w.roundTrip(in, content))
			}
		}
	}

	// (2c) envelope-generator plugins that are not faithful: every way of re-making the payload x
	// {oci, blob} x {jws, cose}, on descriptors that carry user metadata (and, for oci, annotations)
	for _, t := range tampers {
		for _, kind := range []string{"oci", "blob"} {
			for _, f := range []string{"jws", "cose"} {
				in, content := w.genCase(c)
				for in.Kind != kind {
					in, content = w.genCase(c)
				}
				in.Signer, in.Format, in.Tamper = "pluginEnvelope", f, t
				in.ExtAttrs = pick(c, []string{"none", "nonCritical"})
				setKeyVia(&in, pick(c, []string{"rotated", "pluginConfig"}))
				in.Metadata = genKV(c, metadataKeys[:7], 1+c.Rand.Intn(3))
				if kind == "oci" {
					in.Desc.Annotations = genKV(c, []string{"org.opencontainers.image.created", "vendor", "a.b/c"}, c.Rand.Intn(3))
				} else {
					in.ContentMediaType, in.MediaTypeValid = pick(c, blobMediaTypes), true
				}
				in.TrailingNewline = false
				in.VerifyMediaType, in.VerifyMetadata = "same", pick(c, []string{"nothing", "all"})
				in.DurationNs = int64(pick(c, legalDurations))
				emit(w.roundTrip(in, content))
			}
		}
	}

	// (2d) envelopes whose last byte is a white-space byte: the signing API is asked again and again
	// (same signer object, same arguments; signatures are randomised) until the COSE envelope ends
	// in 0x20 / 0x09 / 0x0a / 0x0d / 0x0b / 0x0c; plus JWS envelopes followed by a line break
	wsSigners := []struct{ signer, key string }{{"localKey", "ec256"}, {"pluginSignature", "ec384"}, {"pluginEnvelope", "ec256"}, {"localFiles", "ec521"}}
	rounds := 1
	if c.Thorough() {
		rounds = 4
	}
	for round := 0; round < rounds; round++ {
		for n, b := range []int{0x20, 0x09, 0x0a, 0x0d, 0x0b, 0x0c} {
			in, content := w.genCase(c)
			for in.Kind != "blob" || in.Blob.Size > 70000 {
				in, content = w.genCase(c)
			}
			ws := wsSigners[(n+round)%len(wsSigners)]
			in.Signer, in.KeySpec, in.Format = ws.signer, ws.key, "cose"
			setKeyVia(&in, pick(c, []string{"rotated", "pluginConfig"}))
			in.Tamper, in.TrailingNewline = pick(c, []string{"faithful", "reserialised"}), false
			in.ExtAttrs = pick(c, []string{"none", "nonCritical"})
			in.Metadata = genKV(c, metadataKeys[:7], c.Rand.Intn(3))
			in.ContentMediaType, in.MediaTypeValid = pick(c, blobMediaTypes), true
			in.SignReader = genReader(c, len(content), "direct") // signed thousands of times
			in.VerifyMediaType, in.VerifyMetadata = pick(c, []string{"same", "unstated"}), pick(c, []string{"nothing", "all"})
			in.DurationNs = int64(pick(c, []time.Duration{0, time.Hour, 24 * time.Hour}))
			last := b
			in.EnvelopeLastByte = &last
			emit(w.roundTrip(in, content))
		}
		for _, s := range signerKinds {
			in, content := w.genCase(c)
			for in.Kind != "blob" {
				in, content = w.genCase(c)
			}
			in.Signer, in.Format, in.TrailingNewline = s, "jws", true
			setKeyVia(&in, pick(c, []string{"rotated", "pluginConfig"}))
			in.Tamper = pick(c, []string{"faithful", "reserialised"})
			in.ExtAttrs = pick(c, []string{"none", "severalNonCritical"})
			in.Metadata = genKV(c, metadataKeys[:7], c.Rand.Intn(3))
			in.ContentMediaType, in.MediaTypeValid = pick(c, blobMediaTypes), true
			in.VerifyMediaType, in.VerifyMetadata = "same", "all"
			in.DurationNs = int64(pick(c, legalDurations))
			emit(w.roundTrip(in, content))
		}
	}

	// (2e) time zones: signing runs with time.Local set to zones with daylight saving (one of them with a 30-minute
	// shift) and UTC, validities from an hour to 250 days so that some reach across a change of the UTC offset
	for zn, z := range timeZones {
		for dn, d := range dstDurations {
			in, content := w.genCase(c)
			in.Signer = []string{"localKey", "localFiles", "pluginSignature", "pluginEnvelope"}[(zn+dn)%4]
			setKeyVia(&in, pick(c, []string{"rotated", "pluginConfig"}))
			in.Tamper, in.ExtAttrs, in.TrailingNewline = "faithful", "none", false
			in.Metadata = []KV{}
			if in.Kind == "blob" {
				in.ContentMediaType, in.MediaTypeValid = pick(c, blobMediaTypes), true
			}
			in.VerifyMediaType, in.VerifyMetadata = "same", "nothing"
			in.TimeZone, in.DurationNs = z, int64(d)
			emit(w.roundTrip(in, content))
		}
	}

	// (2f) envelope plugins that add extended signed attributes of their own (no verification plugin named):
	// non-critical ones must not stand in the way; a critical one nobody processes fails verification
	for _, x := range extKinds {
		for _, kind := range []string{"oci", "blob"} {
			for _, f := range []string{"jws", "cose"} {
				in, content := w.genCase(c)
				for in.Kind != kind {
					in, content = w.genCase(c)
				}
				in.Signer, in.Format, in.ExtAttrs = "pluginEnvelope", f, x
				setKeyVia(&in, pick(c, []string{"rotated", "pluginConfig"}))
				in.Tamper, in.TrailingNewline = pick(c, []string{"faithful", "reserialised"}), false
				in.Metadata = genKV(c, metadataKeys[:7], c.Rand.Intn(3))
				if kind == "oci" {
					in.Desc.Annotations = genKV(c, []string{"org.opencontainers.image.created", "vendor", "a.b/c"}, c.Rand.Intn(3))
				} else {
					in.ContentMediaType, in.MediaTypeValid = pick(c, blobMediaTypes), true
				}
				in.VerifyMediaType, in.VerifyMetadata = "same", pick(c, []string{"nothing", "all"})
				in.DurationNs = int64(pick(c, legalDurations))
				emit(w.roundTrip(in, content))
			}
		}
	}

	// (2g) policy shapes: with / without a tsa store x verifyTimestamp unset / always / afterCertExpiry x
	// wildcard or exact scope (oci), global or named statement (blob); no signature carries a timestamp
	for _, tsa := range []bool{false, true} {
		for _, vt := range verifyTimestamps {
			for _, named := range []bool{false, true} {
				for kn, kind := range []string{"oci", "blob"} {
					in, content := w.genCase(c)
					for in.Kind != kind {
						in, content = w.genCase(c)
					}
					in.Format = []string{"jws", "cose"}[(kn+len(vt))%2]
					in.Tamper, in.ExtAttrs, in.TrailingNewline = "faithful", "none", false
					in.Metadata = genKV(c, metadataKeys[:7], c.Rand.Intn(2))
					if kind == "oci" {
						in.Desc.Annotations = []KV{}
					} else {
						in.ContentMediaType, in.MediaTypeValid = pick(c, blobMediaTypes), true
					}
					in.VerifyMediaType, in.VerifyMetadata = "same", "all"
					in.DurationNs = int64(pick(c, legalDurations))
					in.Policy = Policy{TSAStore: tsa, VerifyTimestamp: vt, Named: named}
					emit(w.roundTrip(in, content))
				}
			}
		}
	}

	// (2h) user-metadata keys (and artifact annotation keys) with white space at either end
	for _, kind := range []string{"oci", "blob"} {
		for _, f := range []string{"jws", "cose"} {
			for _, vm := range []string{"all", "nothing"} {
				in, content := w.genCase(c)
				for in.Kind != kind {
					in, content = w.genCase(c)
				}
				in.Format, in.Tamper, in.ExtAttrs, in.TrailingNewline = f, "faithful", "none", false
				in.Policy = Policy{VerifyTimestamp: "unset"}
				in.Metadata = genKV(c, paddedKeys, 1+c.Rand.Intn(3))
				if kind == "oci" {
					// annotations whose keys differ from metadata keys only by the padding
					in.Desc.Annotations = genKV(c, []string{"k", "commit", "build", "vendor "}, c.Rand.Intn(3))
				} else {
					in.ContentMediaType, in.MediaTypeValid = pick(c, blobMediaTypes), true
				}
				in.VerifyMediaType, in.VerifyMetadata = "same", vm
				in.DurationNs = int64(pick(c, legalDurations))
				emit(w.roundTrip(in, content))
			}
		}
	}

	// (2i) two blob calls in flight, interleaving pinned: the first call reads its blob into the consumer's buffer, is
	// suspended inside Read, the second call runs to completion, the first resumes. sign||sign, verify||verify,
	// verify||sign; blobs of equal size from plain io.Readers (no WriteTo)
	w.inFlight = true
	time.Local = time.UTC
	blobCase := func(size int, f string) (Input, []byte) {
		in, _ := w.genCase(c)
		for in.Kind != "blob" {
			in, _ = w.genCase(c)
		}
		content := w.randBytes(size)
		in.Blob = digests(content)
		in.Signer, in.Format = pick(c, []string{"localKey", "localFiles"}), f
		setKeyVia(&in, "rotated")
		in.Tamper, in.ExtAttrs, in.TrailingNewline, in.TimeZone = "faithful", "none", false, "UTC"
		in.Policy = Policy{VerifyTimestamp: "unset"}
		in.Metadata = genKV(c, metadataKeys[:7], c.Rand.Intn(2))
		in.ContentMediaType, in.MediaTypeValid = "application/octet-stream", true
		in.VerifyMediaType, in.VerifyMetadata = "same", "all"
		in.DurationNs = int64(pick(c, []time.Duration{0, time.Hour, 24 * time.Hour}))
		in.SignReader = genReader(c, size, pick(c, []string{"chunks", "dataEOF", "shortReads"}))
		in.VerifyReader = genReader(c, size, pick(c, []string{"chunks", "dataEOF", "shortReads"}))
		return in, content
	}
	for pn, pair := range []string{"sign||sign", "verify||verify", "verify||sign"} {
		for sn, size := range []int{100, copyChunk, copyChunk + 5000} {
			f := []string{"jws", "cose"}[(pn+sn)%2]
			a, ca := blobCase(size, f)
			b, cb := blobCase(size, f)
			a.InFlight, b.InFlight = "pinnedFirst", "pinnedSecond"
			var sa, sb *signedCase
			var oa, ob Obs
			switch pair {
			case "sign||sign":
				pinned(func(wrap func(io.Reader) io.Reader) { a.wrapSign = wrap; sa = w.sign(a, ca) }, func() { sb = w.sign(b, cb) })
				sa.in.wrapSign = nil
				oa, ob = sa.obs, sb.obs
				if sa.obs.Signed {
					oa = w.verify(sa)
				}
				if sb.obs.Signed {
					ob = w.verify(sb)
				}
			case "verify||verify":
				sa, sb = w.sign(a, ca), w.sign(b, cb)
				oa, ob = sa.obs, sb.obs
				if sa.obs.Signed && sb.obs.Signed {
					pinned(func(wrap func(io.Reader) io.Reader) { sa.in.wrapVerify = wrap; oa = w.verify(sa) }, func() { ob = w.verify(sb) })
				}
			case "verify||sign":
				sa = w.sign(a, ca)
				oa = sa.obs
				if sa.obs.Signed {
					pinned(func(wrap func(io.Reader) io.Reader) { sa.in.wrapVerify = wrap; oa = w.verify(sa) }, func() { sb = w.sign(b, cb) })
				} else {
					sb = w.sign(b, cb)
				}
				ob = sb.obs
				if sb.obs.Signed {
					ob = w.verify(sb)
				}
			}
			c.Count("pinned:" + pair)
			emit(sa.in, oa)
			emit(sb.in, ob)
		}
	}

	// (2j) free-running: goroutines sign and verify different blobs (and artifacts) at the same time on the shared
	// signer and verifier objects, readers yield the processor around every Read
	workers, perWorker := 8, 3
	if c.Thorough() {
		workers, perWorker = 16, 12
	}
	type job struct {
		in      Input
		content []byte
		out     Input
		obs     Obs
	}
	jobs := make([][]*job, workers)
	for g := range jobs {
		for n := 0; n < perWorker; n++ {
			var j job
			if chance(c, 0.8) {
				j.in, j.content = blobCase(pick(c, []int{1, 1000, copyChunk - 1, copyChunk, copyChunk + 1, 3 * copyChunk}), pick(c, []string{"jws", "cose"}))
			} else {
				j.in, j.content = w.genCase(c)
				for j.in.Kind != "oci" {
					j.in, j.content = w.genCase(c)
				}
				j.in.Signer = pick(c, []string{"localKey", "localFiles"})
				setKeyVia(&j.in, "rotated")
				j.in.Tamper, j.in.ExtAttrs, j.in.TimeZone = "faithful", "none", "UTC"
				if j.in.DurationNs > 0 && j.in.DurationNs < int64(time.Minute) {
					j.in.DurationNs = int64(time.Hour)
				}
			}
			j.in.InFlight = "freeRunning"
			yield := func(r io.Reader) io.Reader { return yieldReader{r} }
			j.in.wrapSign, j.in.wrapVerify = yield, yield
			jobs[g] = append(jobs[g], &j)
		}
	}
	var wg sync.WaitGroup
	for g := range jobs {
		wg.Add(1)
		go func(list []*job) {
			defer wg.Done()
			for _, j := range list {
				sc := w.sign(j.in, j.content)
				j.out, j.obs = sc.in, sc.obs
				if sc.obs.Signed {
					j.obs = w.verify(sc)
				}
			}
		}(jobs[g])
	}
	wg.Wait()
	w.inFlight = false
	for _, list := range jobs {
		for _, j := range list {
			emit(j.out, j.obs)
		}
	}

	// (2k) exact trusted identities with plugin-defined identities before / after / between the subject entries
	for _, l := range identityLists {
		for _, kind := range []string{"oci", "blob"} {
			for _, f := range []string{"jws", "cose"} {
				in, content := w.genCase(c)
				for in.Kind != kind {
					in, content = w.genCase(c)
				}
				in.Format, in.ExactIdentity, in.Identities = f, true, l
				in.Tamper, in.ExtAttrs, in.TrailingNewline, in.Scheme, in.CertWindow = "faithful", "none", false, "x509", "wide"
				in.Policy = Policy{VerifyTimestamp: "unset"}
				in.Metadata = genKV(c, metadataKeys[:7], c.Rand.Intn(2))
				if kind == "oci" {
					in.Desc.Annotations = []KV{}
				} else {
					in.ContentMediaType, in.MediaTypeValid = pick(c, blobMediaTypes), true
				}
				in.VerifyMediaType, in.VerifyMetadata = "same", "all"
				in.DurationNs = int64(pick(c, legalDurations))
				emit(w.roundTrip(in, content))
			}
		}
	}

	// (2l) two signatures on one artifact through the registry entry points: a stranger's and the trusted signer's,
	// in either order, in the same or in different envelope formats; notation.Verify must find the trusted one
	for rep := 0; rep < 3; rep++ {
		for on, x := range otherSignatures {
			for fn, f := range []string{"jws", "cose"} {
				in, content := w.genCase(c)
				for in.Kind != "oci" {
					in, content = w.genCase(c)
				}
				in.Format, in.OtherSignature = f, x
				in.Signer = signerKinds[(rep+on+fn)%len(signerKinds)]
				setKeyVia(&in, pick(c, []string{"rotated", "pluginConfig"}))
				in.Tamper, in.ExtAttrs, in.Scheme, in.CertWindow = "faithful", "none", "x509", "wide"
				in.Policy = Policy{VerifyTimestamp: "unset"}
				in.Metadata = genKV(c, metadataKeys[:7], c.Rand.Intn(3))
				in.Desc.Annotations = []KV{}
				in.VerifyMetadata = pick(c, []string{"nothing", "all"})
				in.DurationNs = int64(pick(c, legalDurations))
				emit(w.roundTrip(in, content))
			}
		}
	}

	// (2m) signing-authority envelope plugins that mint the signing certificate at signing time: its notBefore and / or
	// notAfter IS the (truncated) authentic signing time
	for _, cw := range certWindows {
		for _, kind := range []string{"oci", "blob"} {
			for _, f := range []string{"jws", "cose"} {
				in, content := w.genCase(c)
				for in.Kind != kind {
					in, content = w.genCase(c)
				}
				in.Signer, in.Format, in.Scheme, in.CertWindow = "pluginEnvelope", f, "signingAuthority", cw
				setKeyVia(&in, pick(c, []string{"rotated", "pluginConfig"}))
				in.Tamper, in.ExtAttrs, in.TrailingNewline = "faithful", pick(c, []string{"none", "nonCritical"}), false
				in.Metadata = genKV(c, metadataKeys[:7], c.Rand.Intn(3))
				if kind == "oci" {
					in.Desc.Annotations = []KV{}
				} else {
					in.ContentMediaType, in.MediaTypeValid = pick(c, blobMediaTypes), true
				}
				in.VerifyMediaType, in.VerifyMetadata = "same", pick(c, []string{"nothing", "all"})
				in.DurationNs = int64(pick(c, []time.Duration{0, time.Hour, 24 * time.Hour}))
				emit(w.roundTrip(in, content))
			}
		}
	}

	// (3) random cases
	for n := 0; n < random; n++ {
		in, content := w.genCase(c)
		emit(w.roundTrip(in, content))
	}

	// (4) complete the delayed cases
	for _, sc := range pending {
		if wait := time.Until(sc.signTime.Add(time.Duration(sc.in.LagSec)*time.Second + 20*time.Millisecond)); wait > 0 {
			time.Sleep(wait)
		}
		emit(sc.in, w.verify(sc))
	}

	c.Note("real notation.SignBlob/SignOCI (GenericSigner from key, from files, PluginSigner over honest in-process raw-signature and envelope plugins) " +
		"fed to real notation.VerifyBlob/Verify (verifier.NewVerifierWithOptions, in-memory trust store, strict policy, revocation skipped, wildcard or exact identity); " +
		"OCI cases go through registry.NewRepository over an oras memory store whose Resolve returns the generated descriptor with urls/platform/data/artifactType; " +
		"full matrix 6 key specs x 2 formats x 4 signers x {oci, blob} plus random cases (legal and illegal metadata / durations / media types, " +
		"blob sizes 0 B..4 MiB, verification stating the same / no / another media type and none / all / unsigned metadata) plus verification after a short expiry; " +
		"lagSec is the planned class of the verification delay (0 = before the expiry, ensured by clock alignment and re-tried otherwise). " +
		"Identity lists: exact subjects with plugin-defined identities before / after / between them. Other signature: a stranger (trusted by no policy) signs the same artifact through SignOCI before or after the signer under test, in the same or the other envelope format; notation.Verify runs over both. " +
		"Signing authority: the envelope plugin signs under notary.x509.signingAuthority with a certificate minted at signing time whose notBefore / notAfter / both equal the truncated signing time. " +
		"Policy shapes: the applicable statement has / has no tsa store, verifyTimestamp unset / always / afterCertExpiry, wildcard or exact scope (oci), global or named statement picked by TrustPolicyName (blob); one verifier object per shape, reused. " +
		"Metadata keys and values with white space at either end. " +
		"In flight: pairs of blob calls (sign||sign, verify||verify, verify||sign) with the interleaving pinned by a reader that, inside its first Read, lets the other call run to completion (GOMAXPROCS(1)); " +
		"and goroutines signing and verifying at the same time with readers that yield around every Read. " +
		"Time zones: signing runs with time.Local set to UTC, America/New_York, Europe/Berlin, Australia/Lord_Howe (host or embedded tzdata), validities 1 h .. 250 d so that some reach across a daylight-saving change; " +
		"the observed expiry is the difference of the two instants stored in the envelope. " +
		"Extended attributes: the envelope plugin adds none / one non-critical / several non-critical / a critical / both kinds of extended signed attributes, x {oci, blob} x {jws, cose}. " +
		"Envelope plugins: the in-process envelope-generator plugin signs the payload faithfully, re-serialised (reverse member order, other white space), or unfaithfully (annotation dropped / appended / changed, " +
		"media type or size changed, unknown member added) - each way x {oci, blob} x {jws, cose} on descriptors with user metadata, plus random cases. " +
		"Envelope bytes: SignBlob is repeated on the same signer until the COSE envelope ends in each of 0x20 0x09 0x0a 0x0d 0x0b 0x0c; JWS envelopes are also verified with a line break appended. " +
		"Readers: every blob is handed to SignBlob and, independently, to VerifyBlob through a reader with scripted behaviour (the in-memory reader itself, full 32 KiB chunks, one byte at a time, " +
		"the last bytes together with io.EOF, short reads of odd sizes, zero-length reads with a nil error at the start / between / before the end, mixtures), blob sizes include 32 KiB and 64 KiB +/- 1 and multiples. " +
		"History: signer and verifier objects are SHARED by the whole run - one GenericSigner per key and constructor, ONE PluginSigner per plugin kind whose key (and key spec) " +
		"behind the same key id changes between calls (rotation, or the per-call PluginConfig selecting a key version), SignBlob / SignOCI and JWS / COSE interleaved on the same object, " +
		"ONE verifier per identity style (wildcard; the six exact subjects); input.history records position and previous call of the signer object.")
	return nil
}

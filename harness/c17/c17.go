// Package c17 - correspondence harness for C17 (stub: not built yet).
package c17

import (
	"errors"

	"github.com/notaryproject/notation-go/xverif/common"
)

// Run generates the cases of C17.
func Run(c *common.Ctx) error { return errors.New("C17: harness not built yet") }

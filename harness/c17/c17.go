// Package c17 drives the real plugin.CLIPlugin against generated shell-script plugins
// (exit status x stdout x stderr x timing x the five protocol commands) and the real
// internal/io.LimitedWriter against scripted underlying writers.
package c17

import (
	"context"
	"crypto/sha256"
	"encoding/hex"
	"encoding/json"
	"errors"
	"fmt"
	"os"
	"path/filepath"
	"reflect"
	"runtime"
	"strings"
	"sync"
	"sync/atomic"
	"time"

	nio "github.com/notaryproject/notation-go/internal/io"
	nlog "github.com/notaryproject/notation-go/log"
	"github.com/notaryproject/notation-go/plugin"
	"github.com/notaryproject/notation-go/plugin/proto"
	"github.com/notaryproject/notation-go/xverif/common"
	fw "github.com/notaryproject/notation-plugin-framework-go/plugin"
)

// ---- the abstract case (JSON = Lean's `Input` / `Obs`) -------------------------------------

type WStep struct {
	Len    int  `json:"len"`
	Accept int  `json:"accept"`
	Fail   bool `json:"fail"`
}

type Meta struct {
	Name             string   `json:"name"`
	Description      string   `json:"description"`
	Version          string   `json:"version"`
	URL              string   `json:"url"`
	Capabilities     []string `json:"capabilities"`
	ContractVersions []string `json:"contractVersions"`
}

// CallFields describes one plugin call: what the plugin does and the caller's context.
type CallFields struct {
	Command     string `json:"command"`
	PluginName  string `json:"pluginName"`
	Executable  bool   `json:"executable"`
	ExitCode    int    `json:"exitCode"`
	Stdout      string `json:"stdout"`
	StdoutSize  int    `json:"stdoutSize"`
	Metadata    Meta   `json:"metadata"`
	Stderr      string `json:"stderr"`
	StderrSize  int    `json:"stderrSize"`
	ErrCode     string `json:"errCode"`
	ErrMessage  bool   `json:"errMessage"`
	ErrMetadata bool   `json:"errMetadata"`
	// the padding of stdout / stderr is white space AFTER the complete JSON value (instead of inside a
	// string); for stdout optionally followed by one last byte that is not JSON; the plugin ignores SIGPIPE
	StdoutBlank   bool  `json:"stdoutBlank"`
	StdoutGarbage bool  `json:"stdoutGarbage"`
	StderrBlank   bool  `json:"stderrBlank"`
	IgnoresPipe   bool  `json:"ignoresPipe"`
	ExitAt        *int  `json:"exitAt"`
	PipesAt       *int  `json:"pipesAt"`
	CtxEnd        *int  `json:"ctxEnd"`
	Cancel        bool  `json:"cancel"`
	Probes        []int `json:"probes"`
}

// Call is a call inside a schedule of overlapping calls.
type Call struct {
	CallFields
	StartAt int `json:"startAt"` // ms after the start of the scenario
	Exe     int `json:"exe"`     // calls with the same number run the same executable
}

type Input struct {
	Kind string `json:"kind"`
	CallFields
	Limit int64   `json:"limit"`
	Steps []WStep `json:"steps"`
	Calls []Call  `json:"calls"`
}

type WOut struct {
	N   int    `json:"n"`
	Err string `json:"err"`
}

type CallObs struct {
	Result    string `json:"result"`
	Code      string `json:"code"`
	WithinCap bool   `json:"withinCap"`
	InTime    bool   `json:"inTime"`
	DoneBy    []bool `json:"doneBy"`
	Own       bool   `json:"own"`
}

type Obs struct {
	CallObs
	Multi     []CallObs `json:"multi"`
	Wouts     []WOut    `json:"wouts"`
	Passed    int       `json:"passed"`
	Remaining int64     `json:"remaining"`
}

func obsOf(co CallObs) Obs {
	return Obs{CallObs: co, Multi: []CallObs{}, Wouts: []WOut{}}
}

// constants of the property (the Lean side has the same ones in Model/C17.lean)
const (
	specCap     = 64 * 1024 * 1024
	specDelayMs = 5000
	marginMs    = 3000
	// emitters at least this large also have the Go heap watched while the call runs: its
	// high-water mark must stay under heapBound (cap + buffer growth), far below the emitter's size
	heapProbeSize = 500000000
	heapBound     = 6 * specCap
)

var commands = []string{"getMetadata", "describeKey", "generateSignature", "generateEnvelope", "verifySignature"}

var wireCommand = map[string]string{
	"getMetadata": string(fw.CommandGetMetadata), "describeKey": string(fw.CommandDescribeKey),
	"generateSignature": string(fw.CommandGenerateSignature), "generateEnvelope": string(fw.CommandGenerateEnvelope),
	"verifySignature": string(fw.CommandVerifySignature),
}

func ip(v int) *int { return &v }

func goodMeta(name string) Meta {
	return Meta{Name: name, Description: "a test plugin", Version: "1.2.3", URL: "https://example.com/p",
		Capabilities: []string{"SIGNATURE_GENERATOR.RAW"}, ContractVersions: []string{fw.ContractVersion}}
}

func newCall(command string) Input {
	return Input{Kind: "call", CallFields: CallFields{Command: command, PluginName: "foo", Executable: true, Stdout: "reply",
		Metadata: goodMeta("foo"), Stderr: "empty", ExitAt: ip(0), PipesAt: ip(0), CtxEnd: ip(30000),
		Probes: []int{}}, Steps: []WStep{}, Calls: []Call{}}
}

func newMulti(calls []Call) Input {
	in := newCall("getMetadata")
	in.Kind, in.Calls = "multi", calls
	return in
}

func newWriter(limit int64, steps []WStep) Input {
	in := newCall("getMetadata")
	in.Kind, in.Limit, in.Steps = "writer", limit, steps
	if in.Steps == nil {
		in.Steps = []WStep{}
	}
	return in
}

// ---- concretisation: abstract case -> script -------------------------------------------------

type job struct {
	in     CallFields
	script string // path of the plugin executable
	lag    time.Duration
	// what the call's own process prints (for the `own` observation)
	outPre, outSuf string
	outPad         int
	errPre, errSuf string
	errPad         int
	out            CallObs
}

func padChar(blank bool) string {
	if blank {
		return " "
	}
	return "a"
}

func (j *job) ownStdout() []byte {
	return []byte(j.outPre + strings.Repeat(padChar(j.in.StdoutBlank), j.outPad) + j.outSuf)
}
func (j *job) ownStderr() []byte {
	return []byte(j.errPre + strings.Repeat(padChar(j.in.StderrBlank), j.errPad) + j.errSuf)
}

type gen struct {
	c     *common.Ctx
	dir   string
	blobs map[string]string
	n     int
	mark  string // distinguishes the output of one call from that of every other call
}

func (g *gen) pick(xs ...string) string { return xs[g.c.Rand.Intn(len(xs))] }

func (g *gen) blob(content string) string {
	h := sha256.Sum256([]byte(content))
	k := hex.EncodeToString(h[:8])
	if p, ok := g.blobs[k]; ok {
		return p
	}
	p := filepath.Join(g.dir, "blobs", k)
	if err := os.WriteFile(p, []byte(content), 0o644); err != nil {
		panic(err)
	}
	g.blobs[k] = p
	return p
}

func jsonObj(kv ...any) string {
	var sb strings.Builder
	sb.WriteByte('{')
	for i := 0; i+1 < len(kv); i += 2 {
		if i > 0 {
			sb.WriteByte(',')
		}
		k, _ := json.Marshal(kv[i])
		v, _ := json.Marshal(kv[i+1])
		sb.Write(k)
		sb.WriteByte(':')
		sb.Write(v)
	}
	sb.WriteByte('}')
	return sb.String()
}

// metaJSON renders the metadata reply; an empty field is either left out, printed empty or null.
// A present description carries the call's mark.
func (g *gen) metaJSON(m Meta) string {
	var kv []any
	str := func(key, v string) {
		if v != "" {
			kv = append(kv, key, v)
			return
		}
		switch g.c.Rand.Intn(3) {
		case 0:
			kv = append(kv, key, "")
		case 1:
			kv = append(kv, key, nil)
		}
	}
	list := func(key string, v []string) {
		if len(v) != 0 {
			kv = append(kv, key, v)
			return
		}
		switch g.c.Rand.Intn(3) {
		case 0:
			kv = append(kv, key, []string{})
		case 1:
			kv = append(kv, key, nil)
		}
	}
	str("name", m.Name)
	if m.Description != "" {
		str("description", m.Description+" #"+g.mark)
	} else {
		str("description", "")
	}
	str("version", m.Version)
	str("url", m.URL)
	list("supportedContractVersions", m.ContractVersions)
	list("capabilities", m.Capabilities)
	return jsonObj(kv...)
}

// reply returns the valid reply of a command as (prefix, suffix) around a string that may be padded.
func (g *gen) reply(in CallFields) (string, string) {
	switch in.Command {
	case "getMetadata":
		if in.StdoutSize == 0 {
			return g.metaJSON(in.Metadata), ""
		}
		m := in.Metadata
		rest := jsonObj("name", m.Name, "version", m.Version, "url", m.URL,
			"supportedContractVersions", m.ContractVersions, "capabilities", m.Capabilities)
		return `{"description":"` + m.Description + " #" + g.mark, `",` + rest[1:]
	case "describeKey":
		return `{"keyId":"k` + g.mark, `","keySpec":"RSA-2048"}`
	case "generateSignature":
		return `{"keyId":"k` + g.mark, `","signature":"c2ln","signingAlgorithm":"RSASSA-PSS-SHA-256","certificateChain":["Y2VydA=="]}`
	case "generateEnvelope":
		return `{"signatureEnvelope":"ZW52","annotations":{"a":"` + g.mark + `"},"signatureEnvelopeType":"application/jose+json`, `"}`
	default:
		return `{"verificationResults":{"SIGNATURE_VERIFIER.TRUSTED_IDENTITY":{"success":true,"reason":"ok` + g.mark, `"}},"processedAttributes":["x"]}`
	}
}

func (g *gen) stdoutText(in CallFields) string {
	switch in.Stdout {
	case "emptyObject":
		if in.Command != "getMetadata" && g.c.Rand.Intn(2) == 0 {
			return g.metaJSON(goodMeta("foo")) // a reply of another command: no key in common
		}
		return g.pick(`{}`, `{"unrelated":1}`, "{ }\n", `{"Unknown":{"name":"foo"}}`)
	case "jsonNull":
		return g.pick("null", "null\n", " null ")
	case "wrongType":
		specific := map[string]string{
			"getMetadata":       `{"name":5,"description":"d","version":"1","url":"u","supportedContractVersions":["1.0"],"capabilities":["c"]}`,
			"describeKey":       `{"keyId":5,"keySpec":"RSA-2048"}`,
			"generateSignature": `{"keyId":"k","signature":"***","signingAlgorithm":"x","certificateChain":[]}`,
			"generateEnvelope":  `{"signatureEnvelope":"ZW52","signatureEnvelopeType":"t","annotations":[1]}`,
			"verifySignature":   `{"verificationResults":[],"processedAttributes":[]}`,
		}
		return g.pick(`[]`, `"text"`, `42`, `true`, specific[in.Command], specific[in.Command])
	case "notJson":
		p, s := g.reply(CallFields{Command: in.Command, Metadata: goodMeta(in.PluginName)})
		return g.pick("not json", `{"name":`, p+s+" trailing", `{'single':1}`, p+s+p+s, "\n", "\x00",
			p+s+"\nplugin: done", p+s+"}", p+s+"\n"+p[:len(p)/2])
	case "empty":
		return ""
	}
	p, s := g.reply(in)
	return p + s
}

// errorObject renders the error object as (prefix, suffix) around a string that may be padded:
// the error message, or - without a message - a value of the error metadata.
func (g *gen) errorObject(in CallFields) (string, string) {
	if in.StderrSize > 0 && (in.ErrMessage || in.ErrMetadata) {
		var kv []any
		if in.ErrCode != "" {
			kv = append(kv, "errorCode", in.ErrCode)
		}
		if in.ErrMessage && in.ErrMetadata {
			kv = append(kv, "errorMetadata", map[string]string{"k": "v" + g.mark})
		}
		head := jsonObj(kv...)
		head = head[:len(head)-1]
		if len(kv) > 0 {
			head += ","
		}
		if in.ErrMessage {
			return head + `"errorMessage":"boom ` + g.mark + " ", `"}`
		}
		return head + `"errorMetadata":{"k":"v` + g.mark + " ", `"}}`
	}
	var kv []any
	if in.ErrCode != "" {
		kv = append(kv, "errorCode", in.ErrCode)
	} else if g.c.Rand.Intn(2) == 0 {
		kv = append(kv, "errorCode", "")
	}
	if in.ErrMessage {
		kv = append(kv, "errorMessage", g.pick("boom", "key not found", "{\"nested\":1}")+" "+g.mark)
	} else if g.c.Rand.Intn(3) == 0 {
		kv = append(kv, "errorMessage", "")
	}
	if in.ErrMetadata {
		if g.c.Rand.Intn(2) == 0 {
			kv = append(kv, "errorMetadata", map[string]string{"k": "v" + g.mark})
		} else {
			kv = append(kv, "errorMetadata", map[string]string{})
		}
	} else if g.c.Rand.Intn(3) == 0 {
		kv = append(kv, "errorMetadata", nil)
	}
	if g.c.Rand.Intn(4) == 0 {
		kv = append(kv, "somethingElse", 1)
	}
	if !(in.ErrCode != "" || in.ErrMessage || in.ErrMetadata) && g.c.Rand.Intn(4) == 0 {
		return "null", ""
	}
	s := jsonObj(kv...)
	if g.c.Rand.Intn(2) == 0 {
		s += "\n"
	}
	return s, ""
}

func (g *gen) stderrText(in CallFields) string {
	switch in.Stderr {
	case "errorObject":
		p, s := g.errorObject(in)
		return p + s
	case "wrongType":
		return g.pick(`[]`, `{"errorCode":5}`, `"str"`, `{"errorCode":"ERROR","errorMetadata":{"k":1}}`, `7`)
	case "notJson":
		return g.pick("panic: boom\n", "\n", " ", `{"errorCode":"ERROR"`, "Error: key not found", `{"errorCode":"ERROR"} trailing`)
	}
	return ""
}

func secs(ms int) string { return fmt.Sprintf("%d.%03d", ms/1000, ms%1000) }

// emitter of prefix + pad bytes + suffix
// (the group's own complaints - "write error: Broken pipe" of a process that ignores SIGPIPE - must not end up on
// the plugin's stderr: for stdout they are discarded; for stderr they go to the same, closed, pipe)
func padded(prefix, suffix string, pad int, toStderr, blank bool) string {
	ch, redirect := "a", " 2>/dev/null"
	if blank {
		ch = " "
	}
	if toStderr {
		redirect = " >&2"
	}
	return fmt.Sprintf("{ printf '%%s' '%s'; head -c %d /dev/zero | tr '\\000' '%s'; printf '%%s' '%s'; }%s\n",
		prefix, pad, ch, suffix, redirect)
}

// body concretises one abstract call into the shell commands of its plugin process and a job
// that knows what this process prints (nothing is written or executed yet).
func (g *gen) body(in CallFields) (string, *job) {
	g.n++
	g.mark = fmt.Sprint(g.n)
	j := &job{in: in}
	var sb strings.Builder
	if in.IgnoresPipe {
		sb.WriteString("trap '' PIPE\n") // inherited by the children: they see EPIPE instead of dying
	}
	// stderr first: a reader that stops (cap) must not keep the script from printing the rest
	if in.Stderr == "errorObject" && in.StderrBlank {
		// the complete error object, then white space up to the size
		small := in
		small.StderrSize = 0
		j.errPre = strings.TrimRight(g.stderrText(small), "\n")
		j.errPad = max(in.StderrSize-len(j.errPre), 0)
		sb.WriteString(padded(j.errPre, "", j.errPad, true, true))
	} else if in.Stderr == "errorObject" && (in.ErrMessage || in.ErrMetadata) && in.StderrSize > 0 {
		j.errPre, j.errSuf = g.errorObject(in)
		j.errPad = max(in.StderrSize-len(j.errPre)-len(j.errSuf), 0)
		sb.WriteString(padded(j.errPre, j.errSuf, j.errPad, true, false))
	} else if t := g.stderrText(in); t != "" {
		j.errPre = t
		fmt.Fprintf(&sb, "cat '%s' >&2\n", g.blob(t))
	}
	if in.Stdout == "reply" && in.StdoutBlank {
		// the complete reply, then white space up to the size, then (perhaps) one byte that is not JSON
		small := in
		small.StdoutSize = 0
		pre, suf := g.reply(small)
		j.outPre = pre + suf
		if in.StdoutGarbage {
			j.outSuf = "x"
		}
		j.outPad = max(in.StdoutSize-len(j.outPre)-len(j.outSuf), 0)
		sb.WriteString(padded(j.outPre, j.outSuf, j.outPad, false, true))
	} else if in.Stdout == "reply" && in.StdoutSize > 0 {
		j.outPre, j.outSuf = g.reply(in)
		j.outPad = max(in.StdoutSize-len(j.outPre)-len(j.outSuf), 0)
		sb.WriteString(padded(j.outPre, j.outSuf, j.outPad, false, false))
	} else if t := g.stdoutText(in); t != "" {
		j.outPre = t
		fmt.Fprintf(&sb, "cat '%s'\n", g.blob(t))
	}
	e, p := *in.ExitAt, *in.PipesAt
	if p > e {
		// a descendant that inherits stdout and stderr and outlives the plugin process
		fmt.Fprintf(&sb, "sleep %s &\n", secs(p))
	}
	switch {
	case in.CtxEnd != nil && *in.CtxEnd < e:
		// will be killed: the sleeping process must be the plugin process itself
		fmt.Fprintf(&sb, "exec sleep %s\n", secs(e))
	case e > 0:
		fmt.Fprintf(&sb, "sleep %s\n", secs(e))
	}
	fmt.Fprintf(&sb, "exit %d\n", in.ExitCode)
	return sb.String(), j
}

func (g *gen) writeScript(tag, pluginName, text string, executable bool) string {
	dir := filepath.Join(g.dir, tag)
	if err := os.MkdirAll(dir, 0o755); err != nil {
		panic(err)
	}
	path := filepath.Join(dir, "notation-"+strings.Map(func(r rune) rune {
		if r == '/' || r == 0 {
			return '_'
		}
		return r
	}, pluginName))
	mode := os.FileMode(0o755)
	if !executable {
		mode = 0o644
	}
	if err := os.WriteFile(path, []byte(text), mode); err != nil {
		panic(err)
	}
	return path
}

// add concretises one abstract call case into a plugin script (nothing is executed yet).
func (g *gen) add(in Input) *job {
	b, j := g.body(in.CallFields)
	text := fmt.Sprintf("#!/bin/sh\n[ \"$1\" = \"%s\" ] || exit 97\n%s", wireCommand[in.Command], b)
	j.script = g.writeScript(fmt.Sprintf("p%05d", g.n), in.PluginName, text, in.Executable)
	j.lag = time.Millisecond
	return j
}

// a schedule of overlapping calls
type multiJob struct {
	in   Input
	jobs []*job
}

// addMulti concretises a schedule: one script per executable, which dispatches on the protocol
// command to the behaviour of the call that uses this command on this executable (calls that
// share an executable must therefore use different commands).
func (g *gen) addMulti(calls []Call, lag time.Duration) *multiJob {
	mj := &multiJob{in: newMulti(calls)}
	bodies := map[int]*strings.Builder{}
	used := map[string]bool{}
	var order []int
	for _, c := range calls {
		key := fmt.Sprint(c.Exe, "/", c.Command)
		if used[key] {
			panic("two calls of a schedule use the same command on the same executable")
		}
		used[key] = true
		b, j := g.body(c.CallFields)
		j.lag = lag
		mj.jobs = append(mj.jobs, j)
		sb, ok := bodies[c.Exe]
		if !ok {
			sb = &strings.Builder{}
			sb.WriteString("#!/bin/sh\ncase \"$1\" in\n")
			bodies[c.Exe] = sb
			order = append(order, c.Exe)
		}
		fmt.Fprintf(sb, "%s)\n%s;;\n", wireCommand[c.Command], b)
	}
	tag := fmt.Sprintf("m%05d", g.n)
	paths := map[int]string{}
	for _, e := range order {
		name, exec := "foo", true
		for _, c := range calls {
			if c.Exe == e {
				name, exec = c.PluginName, c.Executable
			}
		}
		paths[e] = g.writeScript(fmt.Sprintf("%s-%d", tag, e), name, bodies[e].String()+"*) exit 97;;\nesac\n", exec)
	}
	for k, c := range calls {
		mj.jobs[k].script = paths[c.Exe]
	}
	return mj
}

func (m *multiJob) run() {
	var wg sync.WaitGroup
	start := time.Now()
	for k, j := range m.jobs {
		wg.Add(1)
		go func(j *job, at int) {
			defer wg.Done()
			time.Sleep(time.Until(start.Add(time.Duration(at) * time.Millisecond)))
			j.run()
		}(j, m.in.Calls[k].StartAt)
	}
	wg.Wait()
}

func (m *multiJob) obs() Obs {
	o := obsOf(CallObs{Result: "ok", WithinCap: true, InTime: true, DoneBy: []bool{}, Own: true})
	for _, j := range m.jobs {
		o.Multi = append(o.Multi, j.out)
	}
	return o
}

// ---- execution on the real code ----------------------------------------------------------------

func classify(err error) (string, string) {
	if err == nil {
		return "ok", ""
	}
	var re proto.RequestError
	if errors.As(err, &re) {
		return "pluginError", string(re.Code)
	}
	var ee *plugin.PluginExecutableFileError
	if errors.As(err, &ee) {
		return "executableFileError", ""
	}
	var me *plugin.PluginMalformedError
	if errors.As(err, &me) {
		return "malformedPluginError", ""
	}
	return "other", ""
}

// size of what came back
func returnedSize(resp any, err error) int {
	if err != nil {
		var re proto.RequestError
		if errors.As(err, &re) {
			n := 0
			if re.Err != nil {
				n = len(re.Err.Error())
			}
			for k, v := range re.Metadata {
				n += len(k) + len(v)
			}
			return n
		}
		return 0
	}
	n := 0
	switch r := resp.(type) {
	case *fw.GetMetadataResponse:
		if r != nil {
			n = len(r.Name) + len(r.Description) + len(r.Version) + len(r.URL)
		}
	case *fw.DescribeKeyResponse:
		n = len(r.KeyID) + len(r.KeySpec)
	case *fw.GenerateSignatureResponse:
		n = len(r.KeyID) + len(r.Signature) + len(r.SigningAlgorithm)
	case *fw.GenerateEnvelopeResponse:
		n = len(r.SignatureEnvelope) + len(r.SignatureEnvelopeType)
	case *fw.VerifySignatureResponse:
		for _, v := range r.VerificationResults {
			if v != nil {
				n += len(v.Reason)
			}
		}
	}
	return n
}

// laggard is a caller-supplied logger (log.WithLogger) that is slow on the lines `run` logs
// between the end of the plugin process and the decoding of what it printed.
type laggard struct {
	nlog.Logger
	lag time.Duration
}

func (l laggard) wait(format string) {
	if strings.Contains(format, "response") || strings.Contains(format, "execution status") {
		time.Sleep(l.lag)
	}
}
func (l laggard) Debugf(format string, args ...interface{}) { l.wait(format) }
func (l laggard) Errorf(format string, args ...interface{}) { l.wait(format) }

func newResp(command string) any {
	switch command {
	case "getMetadata":
		return &fw.GetMetadataResponse{}
	case "describeKey":
		return &fw.DescribeKeyResponse{}
	case "generateSignature":
		return &fw.GenerateSignatureResponse{}
	case "generateEnvelope":
		return &fw.GenerateEnvelopeResponse{}
	}
	return &fw.VerifySignatureResponse{}
}

// own reports whether what came back is, field by field, what this call's own process printed.
func (j *job) own(resp any, err error) bool {
	if err == nil {
		exp := newResp(j.in.Command)
		if json.Unmarshal(j.ownStdout(), exp) != nil {
			return false
		}
		return reflect.DeepEqual(resp, exp)
	}
	var re proto.RequestError
	if errors.As(err, &re) {
		// decoded here with a plain structure, not with the code under test
		var exp struct {
			Code     string            `json:"errorCode"`
			Message  string            `json:"errorMessage"`
			Metadata map[string]string `json:"errorMetadata"`
		}
		if json.Unmarshal(j.ownStderr(), &exp) != nil {
			return false
		}
		msgOK := (re.Err == nil && exp.Message == "") || (re.Err != nil && re.Err.Error() == exp.Message)
		return string(re.Code) == exp.Code && msgOK && reflect.DeepEqual(re.Metadata, exp.Metadata)
	}
	return true
}

func (j *job) run() {
	in := j.in
	o := CallObs{DoneBy: []bool{}, Own: true}
	p, err := plugin.NewCLIPlugin(context.Background(), in.PluginName, j.script)
	if err != nil {
		o.Result = "other"
		j.out = o
		return
	}
	start := time.Now()
	ctx := context.Background()
	if j.lag > 0 {
		ctx = nlog.WithLogger(ctx, laggard{nlog.Discard, j.lag})
	}
	if in.CtxEnd != nil {
		d := time.Duration(*in.CtxEnd) * time.Millisecond
		var cancel context.CancelFunc
		if in.Cancel {
			ctx, cancel = context.WithCancel(ctx)
			t := time.AfterFunc(d, cancel)
			defer t.Stop()
		} else {
			ctx, cancel = context.WithTimeout(ctx, d)
		}
		defer cancel()
	}
	heapOK := func() bool { return true }
	if in.StdoutSize >= heapProbeSize || in.StderrSize >= heapProbeSize {
		heapOK = watchHeap()
	}
	var resp any
	defer func() {
		// a crash inside the library (seen when two calls share a buffer): not a contained call
		if r := recover(); r != nil {
			j.out = CallObs{Result: "other", DoneBy: make([]bool, len(in.Probes)), Own: false}
		}
	}()
	switch in.Command {
	case "getMetadata":
		resp, err = p.GetMetadata(ctx, &fw.GetMetadataRequest{})
	case "describeKey":
		resp, err = p.DescribeKey(ctx, &fw.DescribeKeyRequest{KeyID: "k"})
	case "generateSignature":
		resp, err = p.GenerateSignature(ctx, &fw.GenerateSignatureRequest{KeyID: "k", KeySpec: fw.KeySpecRSA2048, Hash: fw.HashAlgorithmSHA256, Payload: []byte("payload")})
	case "generateEnvelope":
		resp, err = p.GenerateEnvelope(ctx, &fw.GenerateEnvelopeRequest{KeyID: "k", PayloadType: "application/vnd.cncf.notary.payload.v1+json", SignatureEnvelopeType: "application/jose+json", Payload: []byte("payload")})
	default:
		resp, err = p.VerifySignature(ctx, &fw.VerifySignatureRequest{})
	}
	elapsed := time.Since(start)
	o.Result, o.Code = classify(err)
	o.WithinCap = heapOK() && returnedSize(resp, err) <= specCap
	o.Own = j.own(resp, err)
	o.InTime = true
	if in.CtxEnd != nil {
		o.InTime = elapsed <= time.Duration(*in.CtxEnd+specDelayMs+marginMs)*time.Millisecond
	}
	for _, pr := range in.Probes {
		o.DoneBy = append(o.DoneBy, elapsed <= time.Duration(pr)*time.Millisecond)
	}
	j.out = o
}

// watchHeap samples the heap until the returned function is called; that function reports
// whether the high-water mark stayed within heapBound of the starting level.
func watchHeap() func() bool {
	runtime.GC()
	var ms runtime.MemStats
	runtime.ReadMemStats(&ms)
	base := ms.HeapAlloc
	var peak atomic.Uint64
	stop, done := make(chan struct{}), make(chan struct{})
	go func() {
		defer close(done)
		var m runtime.MemStats
		for {
			runtime.ReadMemStats(&m)
			if m.HeapAlloc > peak.Load() {
				peak.Store(m.HeapAlloc)
			}
			select {
			case <-stop:
				return
			case <-time.After(5 * time.Millisecond):
			}
		}
	}()
	return func() bool {
		close(stop)
		<-done
		return peak.Load() <= base+heapBound
	}
}

type task interface{ run() }

func tasks[T task](xs []T) []task {
	out := make([]task, len(xs))
	for i, x := range xs {
		out[i] = x
	}
	return out
}

func runAll(jobs []task, workers int) {
	if len(jobs) == 0 {
		return
	}
	var wg sync.WaitGroup
	ch := make(chan task)
	for w := 0; w < workers; w++ {
		wg.Add(1)
		go func() {
			defer wg.Done()
			for j := range ch {
				j.run()
			}
		}()
	}
	for _, j := range jobs {
		ch <- j
	}
	close(ch)
	wg.Wait()
}

// ---- LimitedWriter against a scripted underlying writer -----------------------------------------

var errUnderlying = errors.New("underlying writer failed")

type scripted struct {
	cur    WStep
	passed int
}

func (s *scripted) Write(p []byte) (int, error) {
	n := len(p)
	if s.cur.Accept < n {
		n = s.cur.Accept
	}
	s.passed += n
	if s.cur.Fail {
		return n, errUnderlying
	}
	return n, nil
}

func runWriter(in Input) Obs {
	u := &scripted{}
	lw := nio.LimitWriter(u, in.Limit)
	o := obsOf(CallObs{Result: "ok", WithinCap: true, InTime: true, DoneBy: []bool{}, Own: true})
	buf := make([]byte, 0)
	for _, st := range in.Steps {
		if cap(buf) < st.Len {
			buf = make([]byte, st.Len)
		}
		u.cur = st
		n, err := lw.Write(buf[:st.Len])
		cls := "ok"
		switch {
		case err == nil:
		case errors.Is(err, nio.ErrLimitExceeded):
			cls = "limitExceeded"
		case err == errUnderlying:
			cls = "underlying"
		default:
			cls = "other"
		}
		o.Wouts = append(o.Wouts, WOut{N: n, Err: cls})
	}
	o.Passed = u.passed
	o.Remaining = lw.N
	return o
}

// ---- generators -----------------------------------------------------------------------------------

func errorCodes() []string {
	return []string{string(proto.ErrorCodeValidation), string(proto.ErrorCodeUnsupportedContractVersion),
		string(proto.ErrorCodeAccessDenied), string(proto.ErrorCodeTimeout), string(proto.ErrorCodeThrottled),
		string(proto.ErrorCodeGeneric)}
}

type stderrVariant struct {
	kind       string
	code       string
	msg, mdata bool
}

func stderrVariants() []stderrVariant {
	v := []stderrVariant{{kind: "empty"}}
	for _, c := range errorCodes() {
		v = append(v, stderrVariant{"errorObject", c, true, false})
	}
	v = append(v,
		stderrVariant{"errorObject", string(proto.ErrorCodeGeneric), false, false}, // code only
		stderrVariant{"errorObject", string(proto.ErrorCodeGeneric), true, true},   // everything
		stderrVariant{"errorObject", "NOT_A_KNOWN_CODE", true, false},              // codes are not validated
		stderrVariant{"errorObject", "", true, false},                              // message only
		stderrVariant{"errorObject", "", false, true},                              // metadata only
		stderrVariant{"errorObject", "", false, false},                             // incomplete
		stderrVariant{"errorObject", "", false, false},                             // incomplete (another rendering)
		stderrVariant{kind: "wrongType"},
		stderrVariant{kind: "notJson"},
		stderrVariant{kind: "notJson"},
	)
	return v
}

func (sv stderrVariant) apply(in *Input) { sv.apply2(&in.CallFields) }

func (sv stderrVariant) apply2(in *CallFields) {
	in.Stderr, in.ErrCode, in.ErrMessage, in.ErrMetadata = sv.kind, sv.code, sv.msg, sv.mdata
}

// metadata variants: the valid one, each mandatory field removed, wrong names, version lists
func metaVariants() []Meta {
	out := []Meta{goodMeta("foo")}
	for k := 0; k < 6; k++ {
		m := goodMeta("foo")
		switch k {
		case 0:
			m.Name = ""
		case 1:
			m.Description = ""
		case 2:
			m.Version = ""
		case 3:
			m.URL = ""
		case 4:
			m.Capabilities = []string{}
		case 5:
			m.ContractVersions = []string{}
		}
		out = append(out, m)
	}
	for _, n := range []string{"bar", "Foo", "foo ", "fo", "foo.exe", "notation-foo"} {
		out = append(out, goodMeta(n))
	}
	for _, vs := range [][]string{{"2.0"}, {"1"}, {"1.0 "}, {"1.00"}, {"0.9", "1.1"}, {""}, {"2.0", fw.ContractVersion}, {fw.ContractVersion, fw.ContractVersion}} {
		m := goodMeta("foo")
		m.ContractVersions = vs
		out = append(out, m)
	}
	m := goodMeta("foo")
	m.Capabilities = []string{""}
	out = append(out, m)
	return out
}

func callInput(cf CallFields) Input {
	return Input{Kind: "call", CallFields: cf, Steps: []WStep{}, Calls: []Call{}}
}

func (g *gen) count(in Input, o CallObs) {
	c := g.c
	c.Count("command=" + in.Command)
	c.Count("result=" + o.Result)
	c.Count("stdout=" + in.Stdout)
	c.Count("stderr=" + in.Stderr)
	c.Count(fmt.Sprintf("exit=%d", in.ExitCode))
	if o.Result == "pluginError" {
		c.Count("code=" + o.Code)
	}
	if in.StdoutSize > specCap || in.StderrSize > specCap {
		c.Count("over-cap")
	}
}

// Run generates the cases of C17.
func Run(c *common.Ctx) error {
	g := &gen{c: c, dir: c.WorkDir, blobs: map[string]string{}}
	if err := os.MkdirAll(filepath.Join(g.dir, "blobs"), 0o755); err != nil {
		return err
	}
	svs := stderrVariants()
	outKinds := []string{"reply", "emptyObject", "jsonNull", "wrongType", "notJson", "empty"}

	// ---- A: immediate cases: exit x stdout x stderr x command --------------------------------
	var imm []*job
	for _, cmd := range commands {
		for _, exit := range []int{0, 1, 2} {
			for _, sv := range svs {
				for _, ok := range outKinds {
					in := newCall(cmd)
					in.ExitCode, in.Stdout = exit, ok
					sv.apply(&in)
					imm = append(imm, g.add(in))
				}
				if cmd == "getMetadata" {
					for _, m := range metaVariants()[1:] {
						// the full cross with stderr only for exit 0 and a failing exit with few stderr kinds
						if exit == 2 || (exit == 1 && sv.kind == "errorObject" && sv.code != string(proto.ErrorCodeGeneric)) {
							continue
						}
						in := newCall(cmd)
						in.ExitCode, in.Metadata = exit, m
						sv.apply(&in)
						imm = append(imm, g.add(in))
					}
				}
			}
		}
	}
	// every subset of the mandatory fields x name x version, successful exit
	for mask := 0; mask < 64; mask++ {
		for _, name := range []string{"foo", "bar"} {
			for _, vs := range [][]string{{fw.ContractVersion}, {"2.0"}} {
				m := goodMeta(name)
				m.ContractVersions = vs
				if mask&1 != 0 {
					m.Name = ""
				}
				if mask&2 != 0 {
					m.Description = ""
				}
				if mask&4 != 0 {
					m.Version = ""
				}
				if mask&8 != 0 {
					m.URL = ""
				}
				if mask&16 != 0 {
					m.Capabilities = []string{}
				}
				if mask&32 != 0 {
					m.ContractVersions = []string{}
				}
				in := newCall("getMetadata")
				in.Metadata = m
				imm = append(imm, g.add(in))
			}
		}
	}
	// a plugin file that cannot be started; a plugin called under another name
	for _, cmd := range commands {
		for _, sv := range svs[:3] {
			in := newCall(cmd)
			in.Executable = false
			sv.apply(&in)
			imm = append(imm, g.add(in))
		}
		for _, name := range []string{"bar", "Foo", "foo bar", "f"} {
			in := newCall(cmd)
			in.PluginName = name
			imm = append(imm, g.add(in))
			in.Metadata = goodMeta(name)
			imm = append(imm, g.add(in))
		}
	}

	// ---- B: timing cases ------------------------------------------------------------------------
	type timing struct {
		name          string
		exitAt, pipes int
		ctxEnd        *int
		probes        []int
	}
	const held = 12000 // a descendant that holds the pipes "for ever" (longer than any bound)
	timings := []timing{
		{"slow-within-deadline", 400, 0, ip(3000), []int{200, 2900}},
		{"slow-killed-at-deadline", 11000, 0, ip(1000), []int{700, 3500}},
		{"descendant-holds-pipes", 0, held, ip(2000), []int{4500, 6500}},
		{"descendant-holds-pipes-briefly", 0, 1500, ip(10000), []int{1000, 4000}},
		{"descendant-holds-pipes-past-deadline", 0, 3000, ip(1000), []int{2500, 5500}},
		{"killed-and-descendant-holds-pipes", 11500, held, ip(1000), []int{5500, 8500}},
		{"no-context-descendant-briefly", 0, 1500, nil, []int{1000, 4000}},
		{"no-context-descendant-holds-pipes", 0, held, nil, []int{4500, 7500}},
	}
	var timed []*job
	// fixed combinations: stderr variant, exit status, deadline or cancellation
	fixed := []struct {
		sv     stderrVariant
		exit   int
		cancel bool
	}{
		{svs[0], 0, false},          // a well-behaved reply
		{svs[6], 1, false},          // structured error, deadline
		{svs[3], 2, true},           // structured error, cancellation
		{svs[len(svs)-1], 2, false}, // not JSON
		{svs[12], 0, true},          // incomplete error object
		{svs[0], 0, true},
	}
	k := 0
	for _, t := range timings {
		combos := len(fixed)
		if c.Thorough() {
			combos = 16
		}
		for v := 0; v < combos; v++ {
			in := newCall(commands[k%len(commands)])
			k++
			in.ExitAt, in.PipesAt, in.CtxEnd, in.Probes = ip(t.exitAt), ip(t.pipes), t.ctxEnd, t.probes
			if v < len(fixed) {
				in.ExitCode = fixed[v].exit
				fixed[v].sv.apply(&in)
				in.Cancel = t.ctxEnd != nil && fixed[v].cancel
			} else {
				in.ExitCode = c.Rand.Intn(3)
				svs[c.Rand.Intn(len(svs))].apply(&in)
				in.Stdout = outKinds[c.Rand.Intn(len(outKinds))]
				in.Cancel = t.ctxEnd != nil && c.Rand.Intn(2) == 0
			}
			if in.CtxEnd != nil && *in.CtxEnd < *in.ExitAt {
				in.ExitCode = 0 // the process that is killed is an exec'ed sleep: its own status would be 0
			}
			timed = append(timed, g.add(in))
			c.Count("timing=" + t.name)
		}
	}

	// ---- C: outputs around and beyond the cap ---------------------------------------------------
	var big []*job
	type bigCase struct {
		cmd        string
		out, err   int
		exit       int
		withStderr bool
	}
	bigs := []bigCase{
		{"describeKey", 70000000, 0, 0, false},
		{"getMetadata", 0, 70000000, 1, true},
	}
	if c.Thorough() {
		bigs = nil
		for i, cmd := range commands {
			bigs = append(bigs,
				bigCase{cmd, 70000000, 0, 0, false},
				bigCase{cmd, 70000000, 0, i % 3, true},
				bigCase{cmd, 0, 70000000, 1 + i%2, true},
				bigCase{cmd, 0, 70000000, 0, true},
				bigCase{cmd, specCap + 1, 0, 0, false},
				bigCase{cmd, specCap, 0, 0, false},
				bigCase{cmd, 0, specCap + 1, 1, true},
				bigCase{cmd, 0, specCap, 1, true},
				bigCase{cmd, 60000000, 0, 0, false},
			)
		}
		bigs = append(bigs, bigCase{"generateSignature", 70000000, 70000000, 0, true},
			bigCase{"getMetadata", 300000000, 0, 0, false}, bigCase{"describeKey", 0, 300000000, 1, true},
			bigCase{"generateEnvelope", 536870912, 0, 0, false}, bigCase{"verifySignature", 0, 536870912, 1, true})
	}
	if !c.Thorough() {
		// the cap itself, from both sides, on both streams
		bigs = append(bigs, bigCase{"describeKey", specCap, 0, 0, false}, bigCase{"getMetadata", specCap + 1, 0, 0, false},
			bigCase{"generateSignature", 0, specCap, 1, true}, bigCase{"verifySignature", 0, specCap + 1, 2, true})
	} else {
		for i, cmd := range commands {
			bigs = append(bigs, bigCase{cmd, specCap - 1, 0, 0, false}, bigCase{cmd, 0, specCap - 1, 1 + i%2, true},
				bigCase{cmd, 16<<20 + i, 0, 0, false}, bigCase{cmd, 0, 32<<20 + 1 + i, 1, true})
		}
	}
	for _, b := range bigs {
		in := newCall(b.cmd)
		in.StdoutSize, in.StderrSize, in.ExitCode = b.out, b.err, b.exit
		if b.withStderr {
			stderrVariant{"errorObject", string(proto.ErrorCodeGeneric), true, false}.apply(&in)
		}
		big = append(big, g.add(in))
	}

	// ---- C'': output that exceeds the cap only by white space after a COMPLETE JSON value (then perhaps garbage),
	// from a plugin that ignores SIGPIPE and so survives the host closing the pipe and exits with its status:
	// cutting such output off silently at the cap would turn it into an acceptable reply
	type blankCase struct {
		cmd               string
		out, err, exit    int
		garbage, ignoring bool
	}
	blanks := []blankCase{
		{"describeKey", specCap + 1, 0, 0, true, true},
		{"getMetadata", 70000000, 0, 0, true, true},
		{"generateSignature", specCap, 0, 0, false, true}, // exactly the cap, nothing else: a valid reply
		{"verifySignature", 0, specCap + 1, 0, false, true},
		{"generateEnvelope", 0, 70000000, 1, false, true},
	}
	if c.Thorough() {
		blanks = nil
		for i, cmd := range commands {
			for _, size := range []int{specCap, specCap + 1, 70000000} {
				for _, garbage := range []bool{false, true} {
					blanks = append(blanks, blankCase{cmd, size, 0, 0, garbage, true})
				}
				blanks = append(blanks, blankCase{cmd, 0, size, 0, false, true}, blankCase{cmd, 0, size, 1 + i%2, false, true})
			}
			blanks = append(blanks, blankCase{cmd, specCap + 1, 0, 0, true, false}, blankCase{cmd, specCap + 1, 0, 1, true, true},
				blankCase{cmd, 0, specCap + 1, 1, false, false}, blankCase{cmd, specCap - 1, 0, 0, i%2 == 0, true},
				blankCase{cmd, specCap + 1, specCap + 1, 0, true, true})
		}
	}
	for _, b := range blanks {
		in := newCall(b.cmd)
		in.StdoutSize, in.StderrSize, in.ExitCode = b.out, b.err, b.exit
		in.StdoutBlank, in.StdoutGarbage, in.IgnoresPipe = b.out > 0, b.garbage, b.ignoring
		if b.err > 0 {
			in.StderrBlank = true
			stderrVariant{"errorObject", string(proto.ErrorCodeGeneric), true, false}.apply(&in)
		}
		big = append(big, g.add(in))
		c.Count("blank-padded-over-or-at-cap")
	}

	// ---- C': the size dimension below the cap: replies and structured errors of 64 KiB .. some MiB ----
	var mid []*job
	sizes := []int{4096, 65535, 65536, 65537, 100000, 1<<20 - 1, 1<<20 + 1, 4<<20 + 3}
	if c.Thorough() {
		sizes = append(sizes, 32768, 131073, 262144, 2<<20, 8<<20+1)
	}
	codes := errorCodes()
	for si, size := range sizes {
		for ci, cmd := range commands {
			// a large valid reply
			in := newCall(cmd)
			in.StdoutSize = size
			mid = append(mid, g.add(in))
			// a failing plugin with a large valid structured error, every code
			in = newCall(cmd)
			in.ExitCode, in.StderrSize = 1+(si+ci)%2, size
			stderrVariant{"errorObject", codes[(si+ci)%len(codes)], true, ci%2 == 0}.apply(&in)
			mid = append(mid, g.add(in))
		}
		for ci, code := range codes {
			in := newCall(commands[(si+ci)%len(commands)])
			in.ExitCode, in.StderrSize = 1, size
			stderrVariant{"errorObject", code, true, false}.apply(&in)
			mid = append(mid, g.add(in))
		}
		// the bulk in the error metadata instead of the message; without a code
		in := newCall(commands[si%len(commands)])
		in.ExitCode, in.StderrSize = 2, size
		stderrVariant{"errorObject", string(proto.ErrorCodeAccessDenied), false, true}.apply(&in)
		mid = append(mid, g.add(in))
		in = newCall(commands[(si+1)%len(commands)])
		in.ExitCode, in.StderrSize = 1, size
		stderrVariant{"errorObject", "", true, false}.apply(&in)
		mid = append(mid, g.add(in))
		// white space after the complete value (a valid document) - and one more byte that is not
		for ci, cmd := range commands {
			in = newCall(cmd)
			in.StdoutSize, in.StdoutBlank, in.StdoutGarbage, in.IgnoresPipe = size, true, (si+ci)%2 == 0, ci%2 == 0
			mid = append(mid, g.add(in))
		}
		in = newCall(commands[(si+3)%len(commands)])
		in.ExitCode, in.StderrSize, in.StderrBlank, in.IgnoresPipe = 1, size, true, si%2 == 0
		stderrVariant{"errorObject", codes[si%len(codes)], true, false}.apply(&in)
		mid = append(mid, g.add(in))
		// both streams large: success ignores stderr, failure ignores stdout
		for _, exit := range []int{0, 1} {
			in = newCall(commands[(si+2)%len(commands)])
			in.ExitCode, in.StdoutSize, in.StderrSize = exit, size, size+1
			stderrVariant{"errorObject", string(proto.ErrorCodeThrottled), true, false}.apply(&in)
			mid = append(mid, g.add(in))
		}
	}

	// ---- E: schedules of overlapping calls (same / different executables, mixed deadlines) -----------
	mk := func(cmd string, exe, startAt int, mods ...func(*Call)) Call {
		cl := Call{CallFields: newCall(cmd).CallFields, StartAt: startAt, Exe: exe}
		for _, m := range mods {
			m(&cl)
		}
		return cl
	}
	// a call that keeps its plugin process running far beyond every bound of the other calls
	// (a call with a 1 s deadline issued 0.25 s later must be back by 0.25 + 1 + 5 + 3 s)
	hang := func(cl *Call) { cl.ExitAt, cl.CtxEnd, cl.Probes = ip(10500), nil, []int{10000, 13000} }
	hangKilled := func(cl *Call) { cl.ExitAt, cl.CtxEnd, cl.Probes = ip(15000), ip(10300), []int{10000, 13000} }
	holder := func(cl *Call) { cl.PipesAt, cl.CtxEnd, cl.Probes = ip(held), nil, []int{4500, 7500} }
	short := func(cl *Call) { cl.CtxEnd, cl.Probes = ip(1000), []int{3500} }
	shortCancel := func(cl *Call) { cl.CtxEnd, cl.Cancel, cl.Probes = ip(1200), true, []int{3500} }
	shortSlow := func(cl *Call) { cl.ExitAt, cl.CtxEnd, cl.Probes = ip(14000), ip(400), []int{200, 3000} }
	shortHolder := func(cl *Call) { cl.PipesAt, cl.CtxEnd, cl.Probes = ip(held), ip(1000), []int{4500, 7500} }
	fails := func(code string, exit int) func(*Call) {
		return func(cl *Call) {
			cl.ExitCode = exit
			stderrVariant{"errorObject", code, true, false}.apply2(&cl.CallFields)
		}
	}
	wrongName := func(cl *Call) { cl.Metadata = goodMeta("bar") }
	var slowMulti, fastMulti []*multiJob
	const lag = 40 * time.Millisecond
	slowSchedules := [][]Call{
		// queued behind a hanging call to the same executable
		{mk("describeKey", 0, 0, hang), mk("getMetadata", 0, 200, short)},
		{mk("generateSignature", 0, 0, hangKilled), mk("describeKey", 0, 200, shortCancel, fails(string(proto.ErrorCodeTimeout), 1))},
		// ... to another executable
		{mk("describeKey", 0, 0, hang), mk("describeKey", 1, 200, short)},
		// two hanging calls, the third one is short
		{mk("describeKey", 0, 0, hang), mk("generateEnvelope", 0, 50, hang), mk("verifySignature", 0, 250, short)},
		{mk("describeKey", 0, 0, hang), mk("describeKey", 1, 50, hangKilled), mk("describeKey", 2, 250, shortCancel)},
		// the short call is itself too slow / leaves a descendant behind
		{mk("generateEnvelope", 0, 0, hang), mk("generateSignature", 0, 150, shortSlow)},
		{mk("generateEnvelope", 0, 0, hang), mk("generateSignature", 0, 150, shortHolder, fails(string(proto.ErrorCodeGeneric), 2))},
		// the first call exits at once but its descendant holds the pipes
		{mk("verifySignature", 0, 0, holder), mk("getMetadata", 0, 200, short), mk("describeKey", 1, 300, short, wrongName)},
		// the short one comes first
		{mk("getMetadata", 0, 0, short), mk("describeKey", 0, 100, hang), mk("getMetadata", 1, 150, shortCancel, wrongName)},
	}
	if c.Thorough() {
		behaviours := []func(*Call){hang, hangKilled, holder, short, shortCancel, shortSlow, shortHolder}
		for r := 0; r < 24; r++ {
			n := 2 + c.Rand.Intn(2)
			perm := c.Rand.Perm(len(commands))
			var cs []Call
			for k := 0; k < n; k++ {
				mods := []func(*Call){behaviours[c.Rand.Intn(len(behaviours))]}
				if k == 0 {
					mods[0] = behaviours[c.Rand.Intn(3)]
				}
				if c.Rand.Intn(3) == 0 {
					mods = append(mods, fails(codes[c.Rand.Intn(len(codes))], 1+c.Rand.Intn(2)))
				}
				cs = append(cs, mk(commands[perm[k]], c.Rand.Intn(2), k*100+c.Rand.Intn(100), mods...))
			}
			slowSchedules = append(slowSchedules, cs)
		}
	}
	for _, cs := range slowSchedules {
		for k := range cs {
			if cs[k].CtxEnd != nil && *cs[k].CtxEnd < *cs[k].ExitAt {
				cs[k].ExitCode = 0
			}
		}
		slowMulti = append(slowMulti, g.addMulti(cs, lag))
	}
	// quick calls that overlap closely, with different replies and errors (nothing may leak between them)
	nfast := 40
	if c.Thorough() {
		nfast = 400
	}
	fastMods := []func(*Call){
		func(*Call) {}, func(*Call) {}, wrongName,
		fails(string(proto.ErrorCodeAccessDenied), 1), fails(string(proto.ErrorCodeValidation), 2), fails("", 1),
		func(cl *Call) { cl.ExitCode = 1 },
		func(cl *Call) { cl.ExitCode, cl.Stderr = 2, "notJson" },
		func(cl *Call) { cl.Stdout = "emptyObject" },
		func(cl *Call) { cl.Stdout = "notJson" },
		func(cl *Call) { cl.StdoutSize = 20000 },
		func(cl *Call) { cl.ExitCode, cl.StderrSize = 1, 20000; fails(string(proto.ErrorCodeThrottled), 1)(cl) },
	}
	for r := 0; r < nfast; r++ {
		n := 2 + c.Rand.Intn(2)
		perm := c.Rand.Perm(len(commands))
		sameExe := c.Rand.Intn(2) == 0
		var cs []Call
		for k := 0; k < n; k++ {
			exe := k
			if sameExe {
				exe = 0
			}
			cmd := commands[perm[k]]
			if r%4 == 0 {
				cmd = "getMetadata" // several metadata calls at once (then on different executables)
				exe = k
			}
			cs = append(cs, mk(cmd, exe, k*(5+c.Rand.Intn(15)), fastMods[c.Rand.Intn(len(fastMods))]))
		}
		fastMulti = append(fastMulti, g.addMulti(cs, lag))
	}

	// ---- execute: everything that sleeps first and alone, then the rest on a pool, big ones one by one ---
	runAll(append(tasks(timed), tasks(slowMulti)...), 64)
	runAll(tasks(fastMulti), 4)
	runAll(append(tasks(imm), tasks(mid)...), 8)
	runAll(tasks(big), 1)
	for _, js := range [][]*job{imm, timed, mid, big} {
		for _, j := range js {
			c.Emit(callInput(j.in), obsOf(j.out))
			g.count(callInput(j.in), j.out)
			c.Count("kind=call")
		}
	}
	for _, ms := range [][]*multiJob{slowMulti, fastMulti} {
		for _, m := range ms {
			c.Emit(m.in, m.obs())
			c.Count("kind=multi")
			c.Count(fmt.Sprintf("multi-calls=%d", len(m.jobs)))
			for _, j := range m.jobs {
				c.Count("multi-result=" + j.out.Result)
			}
		}
	}

	// ---- D: LimitedWriter -----------------------------------------------------------------------
	lens := []int{0, 1, 2, 3, 5}
	accepts := []int{0, 2, 1 << 30}
	var steps1 []WStep
	for _, l := range lens {
		for _, a := range accepts {
			for _, f := range []bool{false, true} {
				steps1 = append(steps1, WStep{l, a, f})
			}
		}
	}
	for limit := int64(-1); limit <= 5; limit++ {
		in := newWriter(limit, nil)
		c.Emit(in, runWriter(in))
		for _, s1 := range steps1 {
			in := newWriter(limit, []WStep{s1})
			c.Emit(in, runWriter(in))
			for _, s2 := range steps1 {
				in := newWriter(limit, []WStep{s1, s2})
				c.Emit(in, runWriter(in))
				c.Count("kind=writer")
			}
		}
	}
	nrand := 4000
	if c.Thorough() {
		nrand = 40000
	}
	for r := 0; r < nrand; r++ {
		limit := int64(c.Rand.Intn(400) - 5)
		maxLen := 150
		switch c.Rand.Intn(10) {
		case 0:
			limit = int64(c.Rand.Intn(1 << 20))
			maxLen = 1 << 19
		case 1:
			limit = int64(c.Rand.Intn(8))
			maxLen = 8
		}
		n := c.Rand.Intn(14)
		steps := make([]WStep, n)
		for s := range steps {
			l := c.Rand.Intn(maxLen + 1)
			st := WStep{Len: l, Accept: 1 << 30}
			switch c.Rand.Intn(6) {
			case 0:
				st.Accept = c.Rand.Intn(l + 1) // short write
			case 1:
				st.Fail = true
				st.Accept = c.Rand.Intn(l + 1)
			}
			steps[s] = st
		}
		in := newWriter(limit, steps)
		o := runWriter(in)
		c.Emit(in, o)
		c.Count("kind=writer")
		if o.Remaining <= 0 && limit > 0 {
			c.Count("writer=exhausted")
		}
	}

	c.Note("real CLIPlugin against generated #!/bin/sh plugins: %d immediate cases (5 commands x exit 0/1/2 x %d stdout kinds x %d stderr variants, %d metadata variants, all 64 subsets of the mandatory fields, non-executable file, other plugin names), %d timing cases in parallel (deadline / cancellation, killed child, descendants holding the pipes), %d cases in the size dimension (valid replies and valid structured errors of %d sizes from 4 KiB to some MiB, every error code, bulk in message or metadata), %d cases at and beyond the 64 MiB cap; %d schedules of 2-3 overlapping calls on the same / different executables (%d with a hanging call and a short-deadline call, %d closely overlapping quick calls); every call under a slow caller-supplied logger and with its output compared to what its own process printed; internal/io.LimitedWriter against scripted underlying writers: all sequences of <=2 writes over a small grid plus %d random sequences",
		len(imm), len(outKinds), len(svs), len(metaVariants()), len(timed), len(mid), len(sizes), len(big),
		len(slowMulti)+len(fastMulti), len(slowMulti), len(fastMulti), nrand)
	return nil
}

// Package c17 drives the real plugin.CLIPlugin against generated shell-script plugins
// (exit status x stdout x stderr x timing x the five protocol commands) and the real
// internal/io.LimitedWriter against scripted underlying writers.
package c17

import (
	"context"
	"crypto/sha256"
	"encoding/hex"
	"encoding/json"
	"errors"
	"fmt"
	"os"
	"path/filepath"
	"runtime"
	"strings"
	"sync"
	"sync/atomic"
	"time"

	nio "github.com/notaryproject/notation-go/internal/io"
	"github.com/notaryproject/notation-go/plugin"
	"github.com/notaryproject/notation-go/plugin/proto"
	"github.com/notaryproject/notation-go/xverif/common"
	fw "github.com/notaryproject/notation-plugin-framework-go/plugin"
)

// ---- the abstract case (JSON = Lean's `Input` / `Obs`) -------------------------------------

type WStep struct {
	Len    int  `json:"len"`
	Accept int  `json:"accept"`
	Fail   bool `json:"fail"`
}

type Meta struct {
	Name             string   `json:"name"`
	Description      string   `json:"description"`
	Version          string   `json:"version"`
	URL              string   `json:"url"`
	Capabilities     []string `json:"capabilities"`
	ContractVersions []string `json:"contractVersions"`
}

type Input struct {
	Kind        string  `json:"kind"`
	Command     string  `json:"command"`
	PluginName  string  `json:"pluginName"`
	Executable  bool    `json:"executable"`
	ExitCode    int     `json:"exitCode"`
	Stdout      string  `json:"stdout"`
	StdoutSize  int     `json:"stdoutSize"`
	Metadata    Meta    `json:"metadata"`
	Stderr      string  `json:"stderr"`
	StderrSize  int     `json:"stderrSize"`
	ErrCode     string  `json:"errCode"`
	ErrMessage  bool    `json:"errMessage"`
	ErrMetadata bool    `json:"errMetadata"`
	ExitAt      *int    `json:"exitAt"`
	PipesAt     *int    `json:"pipesAt"`
	CtxEnd      *int    `json:"ctxEnd"`
	Cancel      bool    `json:"cancel"`
	Probes      []int   `json:"probes"`
	Limit       int64   `json:"limit"`
	Steps       []WStep `json:"steps"`
}

type WOut struct {
	N   int    `json:"n"`
	Err string `json:"err"`
}

type Obs struct {
	Result    string `json:"result"`
	Code      string `json:"code"`
	WithinCap bool   `json:"withinCap"`
	InTime    bool   `json:"inTime"`
	DoneBy    []bool `json:"doneBy"`
	Wouts     []WOut `json:"wouts"`
	Passed    int    `json:"passed"`
	Remaining int64  `json:"remaining"`
}

// constants of the property (the Lean side has the same ones in Model/C17.lean)
const (
	specCap     = 64 * 1024 * 1024
	specDelayMs = 5000
	marginMs    = 3000
	// emitters at least this large also have the Go heap watched while the call runs: its
	// high-water mark must stay under heapBound (cap + buffer growth), far below the emitter's size
	heapProbeSize = 500000000
	heapBound     = 6 * specCap
)

var commands = []string{"getMetadata", "describeKey", "generateSignature", "generateEnvelope", "verifySignature"}

var wireCommand = map[string]string{
	"getMetadata": string(fw.CommandGetMetadata), "describeKey": string(fw.CommandDescribeKey),
	"generateSignature": string(fw.CommandGenerateSignature), "generateEnvelope": string(fw.CommandGenerateEnvelope),
	"verifySignature": string(fw.CommandVerifySignature),
}

func ip(v int) *int { return &v }

func goodMeta(name string) Meta {
	return Meta{Name: name, Description: "a test plugin", Version: "1.2.3", URL: "https://example.com/p",
		Capabilities: []string{"SIGNATURE_GENERATOR.RAW"}, ContractVersions: []string{fw.ContractVersion}}
}

func newCall(command string) Input {
	return Input{Kind: "call", Command: command, PluginName: "foo", Executable: true, Stdout: "reply",
		Metadata: goodMeta("foo"), Stderr: "empty", ExitAt: ip(0), PipesAt: ip(0), CtxEnd: ip(30000),
		Probes: []int{}, Steps: []WStep{}}
}

func newWriter(limit int64, steps []WStep) Input {
	in := newCall("getMetadata")
	in.Kind, in.Limit, in.Steps = "writer", limit, steps
	if in.Steps == nil {
		in.Steps = []WStep{}
	}
	return in
}

// ---- concretisation: abstract case -> script -------------------------------------------------

type job struct {
	in     Input
	script string // path of the plugin executable
	out    Obs
}

type gen struct {
	c     *common.Ctx
	dir   string
	blobs map[string]string
	n     int
}

func (g *gen) pick(xs ...string) string { return xs[g.c.Rand.Intn(len(xs))] }

func (g *gen) blob(content string) string {
	h := sha256.Sum256([]byte(content))
	k := hex.EncodeToString(h[:8])
	if p, ok := g.blobs[k]; ok {
		return p
	}
	p := filepath.Join(g.dir, "blobs", k)
	if err := os.WriteFile(p, []byte(content), 0o644); err != nil {
		panic(err)
	}
	g.blobs[k] = p
	return p
}

func jsonObj(kv ...any) string {
	var sb strings.Builder
	sb.WriteByte('{')
	for i := 0; i+1 < len(kv); i += 2 {
		if i > 0 {
			sb.WriteByte(',')
		}
		k, _ := json.Marshal(kv[i])
		v, _ := json.Marshal(kv[i+1])
		sb.Write(k)
		sb.WriteByte(':')
		sb.Write(v)
	}
	sb.WriteByte('}')
	return sb.String()
}

// metaJSON renders the metadata reply; an empty field is either left out, printed empty or null.
func (g *gen) metaJSON(m Meta) string {
	var kv []any
	str := func(key, v string) {
		if v != "" {
			kv = append(kv, key, v)
			return
		}
		switch g.c.Rand.Intn(3) {
		case 0:
			kv = append(kv, key, "")
		case 1:
			kv = append(kv, key, nil)
		}
	}
	list := func(key string, v []string) {
		if len(v) != 0 {
			kv = append(kv, key, v)
			return
		}
		switch g.c.Rand.Intn(3) {
		case 0:
			kv = append(kv, key, []string{})
		case 1:
			kv = append(kv, key, nil)
		}
	}
	str("name", m.Name)
	str("description", m.Description)
	str("version", m.Version)
	str("url", m.URL)
	list("supportedContractVersions", m.ContractVersions)
	list("capabilities", m.Capabilities)
	return jsonObj(kv...)
}

// reply returns the valid reply of a command as (prefix, suffix) around a string that may be padded.
func (g *gen) reply(in Input) (string, string) {
	switch in.Command {
	case "getMetadata":
		if in.StdoutSize == 0 {
			return g.metaJSON(in.Metadata), ""
		}
		m := in.Metadata
		rest := jsonObj("name", m.Name, "version", m.Version, "url", m.URL,
			"supportedContractVersions", m.ContractVersions, "capabilities", m.Capabilities)
		return `{"description":"` + m.Description, `",` + rest[1:]
	case "describeKey":
		return `{"keyId":"k`, `","keySpec":"RSA-2048"}`
	case "generateSignature":
		return `{"keyId":"k`, `","signature":"c2ln","signingAlgorithm":"RSASSA-PSS-SHA-256","certificateChain":["Y2VydA=="]}`
	case "generateEnvelope":
		return `{"signatureEnvelope":"ZW52","annotations":{"a":"b"},"signatureEnvelopeType":"application/jose+json`, `"}`
	default:
		return `{"verificationResults":{"SIGNATURE_VERIFIER.TRUSTED_IDENTITY":{"success":true,"reason":"ok`, `"}},"processedAttributes":["x"]}`
	}
}

func (g *gen) stdoutText(in Input) string {
	switch in.Stdout {
	case "emptyObject":
		if in.Command != "getMetadata" && g.c.Rand.Intn(2) == 0 {
			return g.metaJSON(goodMeta("foo")) // a reply of another command: no key in common
		}
		return g.pick(`{}`, `{"unrelated":1}`, "{ }\n", `{"Unknown":{"name":"foo"}}`)
	case "jsonNull":
		return g.pick("null", "null\n", " null ")
	case "wrongType":
		specific := map[string]string{
			"getMetadata":       `{"name":5,"description":"d","version":"1","url":"u","supportedContractVersions":["1.0"],"capabilities":["c"]}`,
			"describeKey":       `{"keyId":5,"keySpec":"RSA-2048"}`,
			"generateSignature": `{"keyId":"k","signature":"***","signingAlgorithm":"x","certificateChain":[]}`,
			"generateEnvelope":  `{"signatureEnvelope":"ZW52","signatureEnvelopeType":"t","annotations":[1]}`,
			"verifySignature":   `{"verificationResults":[],"processedAttributes":[]}`,
		}
		return g.pick(`[]`, `"text"`, `42`, `true`, specific[in.Command], specific[in.Command])
	case "notJson":
		p, s := g.reply(Input{Command: in.Command, Metadata: goodMeta("foo")})
		return g.pick("not json", `{"name":`, p+s+" trailing", `{'single':1}`, p+s+p+s, "\n", "\x00")
	case "empty":
		return ""
	}
	p, s := g.reply(in)
	return p + s
}

func (g *gen) errorObject(in Input) (string, string) {
	if in.StderrSize > 0 {
		// errorMessage last so that it can be padded
		var kv []any
		if in.ErrCode != "" {
			kv = append(kv, "errorCode", in.ErrCode)
		}
		if in.ErrMetadata {
			kv = append(kv, "errorMetadata", map[string]string{"k": "v"})
		}
		head := jsonObj(kv...)
		if len(kv) == 0 {
			return `{"errorMessage":"boom`, `"}`
		}
		return head[:len(head)-1] + `,"errorMessage":"boom`, `"}`
	}
	var kv []any
	if in.ErrCode != "" {
		kv = append(kv, "errorCode", in.ErrCode)
	} else if g.c.Rand.Intn(2) == 0 {
		kv = append(kv, "errorCode", "")
	}
	if in.ErrMessage {
		kv = append(kv, "errorMessage", g.pick("boom", "key not found", "{\"nested\":1}"))
	} else if g.c.Rand.Intn(3) == 0 {
		kv = append(kv, "errorMessage", "")
	}
	if in.ErrMetadata {
		if g.c.Rand.Intn(2) == 0 {
			kv = append(kv, "errorMetadata", map[string]string{"k": "v"})
		} else {
			kv = append(kv, "errorMetadata", map[string]string{})
		}
	} else if g.c.Rand.Intn(3) == 0 {
		kv = append(kv, "errorMetadata", nil)
	}
	if g.c.Rand.Intn(4) == 0 {
		kv = append(kv, "somethingElse", 1)
	}
	if !(in.ErrCode != "" || in.ErrMessage || in.ErrMetadata) && g.c.Rand.Intn(4) == 0 {
		return "null", ""
	}
	s := jsonObj(kv...)
	if g.c.Rand.Intn(2) == 0 {
		s += "\n"
	}
	return s, ""
}

func (g *gen) stderrText(in Input) string {
	switch in.Stderr {
	case "errorObject":
		p, s := g.errorObject(in)
		return p + s
	case "wrongType":
		return g.pick(`[]`, `{"errorCode":5}`, `"str"`, `{"errorCode":"ERROR","errorMetadata":{"k":1}}`, `7`)
	case "notJson":
		return g.pick("panic: boom\n", "\n", " ", `{"errorCode":"ERROR"`, "Error: key not found", `{"errorCode":"ERROR"} trailing`)
	}
	return ""
}

func secs(ms int) string { return fmt.Sprintf("%d.%03d", ms/1000, ms%1000) }

// emitter of `size` bytes: prefix + padding + suffix
func padded(prefix, suffix string, size int, redirect string) string {
	pad := size - len(prefix) - len(suffix)
	if pad < 0 {
		pad = 0
	}
	return fmt.Sprintf("printf '%%s' '%s'%s\nhead -c %d /dev/zero | tr '\\000' 'a'%s\nprintf '%%s' '%s'%s\n",
		prefix, redirect, pad, redirect, suffix, redirect)
}

// add concretises one abstract call case into a plugin script (nothing is executed yet).
func (g *gen) add(in Input) *job {
	g.n++
	dir := filepath.Join(g.dir, fmt.Sprintf("p%05d", g.n))
	if err := os.MkdirAll(dir, 0o755); err != nil {
		panic(err)
	}
	var sb strings.Builder
	sb.WriteString("#!/bin/sh\n")
	fmt.Fprintf(&sb, "[ \"$1\" = \"%s\" ] || exit 97\n", wireCommand[in.Command])
	// stderr first: a reader that stops (cap) must not keep the script from printing the rest
	if in.Stderr == "errorObject" && in.ErrMessage && in.StderrSize > 0 {
		p, s := g.errorObject(in)
		sb.WriteString(padded(p, s, in.StderrSize, " >&2"))
	} else if t := g.stderrText(in); t != "" {
		fmt.Fprintf(&sb, "cat '%s' >&2\n", g.blob(t))
	}
	if in.Stdout == "reply" && in.StdoutSize > 0 {
		p, s := g.reply(in)
		sb.WriteString(padded(p, s, in.StdoutSize, ""))
	} else if t := g.stdoutText(in); t != "" {
		fmt.Fprintf(&sb, "cat '%s'\n", g.blob(t))
	}
	e, p := *in.ExitAt, *in.PipesAt
	if p > e {
		// a descendant that inherits stdout and stderr and outlives the plugin process
		fmt.Fprintf(&sb, "sleep %s &\n", secs(p))
	}
	switch {
	case in.CtxEnd != nil && *in.CtxEnd < e:
		// will be killed: the sleeping process must be the plugin process itself
		fmt.Fprintf(&sb, "exec sleep %s\n", secs(e))
	case e > 0:
		fmt.Fprintf(&sb, "sleep %s\n", secs(e))
	}
	fmt.Fprintf(&sb, "exit %d\n", in.ExitCode)
	path := filepath.Join(dir, "notation-"+strings.Map(func(r rune) rune {
		if r == '/' || r == 0 {
			return '_'
		}
		return r
	}, in.PluginName))
	mode := os.FileMode(0o755)
	if !in.Executable {
		mode = 0o644
	}
	if err := os.WriteFile(path, []byte(sb.String()), mode); err != nil {
		panic(err)
	}
	return &job{in: in, script: path}
}

// ---- execution on the real code ----------------------------------------------------------------

func classify(err error) (string, string) {
	if err == nil {
		return "ok", ""
	}
	var re proto.RequestError
	if errors.As(err, &re) {
		return "pluginError", string(re.Code)
	}
	var ee *plugin.PluginExecutableFileError
	if errors.As(err, &ee) {
		return "executableFileError", ""
	}
	var me *plugin.PluginMalformedError
	if errors.As(err, &me) {
		return "malformedPluginError", ""
	}
	return "other", ""
}

// size of what came back
func returnedSize(resp any, err error) int {
	if err != nil {
		var re proto.RequestError
		if errors.As(err, &re) && re.Err != nil {
			return len(re.Err.Error())
		}
		return 0
	}
	n := 0
	switch r := resp.(type) {
	case *fw.GetMetadataResponse:
		if r != nil {
			n = len(r.Name) + len(r.Description) + len(r.Version) + len(r.URL)
		}
	case *fw.DescribeKeyResponse:
		n = len(r.KeyID) + len(r.KeySpec)
	case *fw.GenerateSignatureResponse:
		n = len(r.KeyID) + len(r.Signature) + len(r.SigningAlgorithm)
	case *fw.GenerateEnvelopeResponse:
		n = len(r.SignatureEnvelope) + len(r.SignatureEnvelopeType)
	case *fw.VerifySignatureResponse:
		for _, v := range r.VerificationResults {
			if v != nil {
				n += len(v.Reason)
			}
		}
	}
	return n
}

func (j *job) run() {
	in := j.in
	o := Obs{DoneBy: []bool{}, Wouts: []WOut{}}
	p, err := plugin.NewCLIPlugin(context.Background(), in.PluginName, j.script)
	if err != nil {
		o.Result = "other"
		j.out = o
		return
	}
	start := time.Now()
	ctx := context.Background()
	if in.CtxEnd != nil {
		d := time.Duration(*in.CtxEnd) * time.Millisecond
		var cancel context.CancelFunc
		if in.Cancel {
			ctx, cancel = context.WithCancel(ctx)
			t := time.AfterFunc(d, cancel)
			defer t.Stop()
		} else {
			ctx, cancel = context.WithTimeout(ctx, d)
		}
		defer cancel()
	}
	heapOK := func() bool { return true }
	if in.StdoutSize >= heapProbeSize || in.StderrSize >= heapProbeSize {
		heapOK = watchHeap()
	}
	var resp any
	switch in.Command {
	case "getMetadata":
		resp, err = p.GetMetadata(ctx, &fw.GetMetadataRequest{})
	case "describeKey":
		resp, err = p.DescribeKey(ctx, &fw.DescribeKeyRequest{KeyID: "k"})
	case "generateSignature":
		resp, err = p.GenerateSignature(ctx, &fw.GenerateSignatureRequest{KeyID: "k", KeySpec: fw.KeySpecRSA2048, Hash: fw.HashAlgorithmSHA256, Payload: []byte("payload")})
	case "generateEnvelope":
		resp, err = p.GenerateEnvelope(ctx, &fw.GenerateEnvelopeRequest{KeyID: "k", PayloadType: "application/vnd.cncf.notary.payload.v1+json", SignatureEnvelopeType: "application/jose+json", Payload: []byte("payload")})
	default:
		resp, err = p.VerifySignature(ctx, &fw.VerifySignatureRequest{})
	}
	elapsed := time.Since(start)
	o.Result, o.Code = classify(err)
	o.WithinCap = heapOK() && returnedSize(resp, err) <= specCap
	o.InTime = true
	if in.CtxEnd != nil {
		o.InTime = elapsed <= time.Duration(*in.CtxEnd+specDelayMs+marginMs)*time.Millisecond
	}
	for _, pr := range in.Probes {
		o.DoneBy = append(o.DoneBy, elapsed <= time.Duration(pr)*time.Millisecond)
	}
	j.out = o
}

// watchHeap samples the heap until the returned function is called; that function reports
// whether the high-water mark stayed within heapBound of the starting level.
func watchHeap() func() bool {
	runtime.GC()
	var ms runtime.MemStats
	runtime.ReadMemStats(&ms)
	base := ms.HeapAlloc
	var peak atomic.Uint64
	stop, done := make(chan struct{}), make(chan struct{})
	go func() {
		defer close(done)
		var m runtime.MemStats
		for {
			runtime.ReadMemStats(&m)
			if m.HeapAlloc > peak.Load() {
				peak.Store(m.HeapAlloc)
			}
			select {
			case <-stop:
				return
			case <-time.After(5 * time.Millisecond):
			}
		}
	}()
	return func() bool {
		close(stop)
		<-done
		return peak.Load() <= base+heapBound
	}
}

func runAll(jobs []*job, workers int) {
	var wg sync.WaitGroup
	ch := make(chan *job)
	for w := 0; w < workers; w++ {
		wg.Add(1)
		go func() {
			defer wg.Done()
			for j := range ch {
				j.run()
			}
		}()
	}
	for _, j := range jobs {
		ch <- j
	}
	close(ch)
	wg.Wait()
}

// ---- LimitedWriter against a scripted underlying writer -----------------------------------------

var errUnderlying = errors.New("underlying writer failed")

type scripted struct {
	cur    WStep
	passed int
}

func (s *scripted) Write(p []byte) (int, error) {
	n := len(p)
	if s.cur.Accept < n {
		n = s.cur.Accept
	}
	s.passed += n
	if s.cur.Fail {
		return n, errUnderlying
	}
	return n, nil
}

func runWriter(in Input) Obs {
	u := &scripted{}
	lw := nio.LimitWriter(u, in.Limit)
	o := Obs{Result: "ok", WithinCap: true, InTime: true, DoneBy: []bool{}, Wouts: []WOut{}}
	buf := make([]byte, 0)
	for _, st := range in.Steps {
		if cap(buf) < st.Len {
			buf = make([]byte, st.Len)
		}
		u.cur = st
		n, err := lw.Write(buf[:st.Len])
		cls := "ok"
		switch {
		case err == nil:
		case errors.Is(err, nio.ErrLimitExceeded):
			cls = "limitExceeded"
		case err == errUnderlying:
			cls = "underlying"
		default:
			cls = "other"
		}
		o.Wouts = append(o.Wouts, WOut{N: n, Err: cls})
	}
	o.Passed = u.passed
	o.Remaining = lw.N
	return o
}

// ---- generators -----------------------------------------------------------------------------------

func errorCodes() []string {
	return []string{string(proto.ErrorCodeValidation), string(proto.ErrorCodeUnsupportedContractVersion),
		string(proto.ErrorCodeAccessDenied), string(proto.ErrorCodeTimeout), string(proto.ErrorCodeThrottled),
		string(proto.ErrorCodeGeneric)}
}

type stderrVariant struct {
	kind       string
	code       string
	msg, mdata bool
}

func stderrVariants() []stderrVariant {
	v := []stderrVariant{{kind: "empty"}}
	for _, c := range errorCodes() {
		v = append(v, stderrVariant{"errorObject", c, true, false})
	}
	v = append(v,
		stderrVariant{"errorObject", string(proto.ErrorCodeGeneric), false, false}, // code only
		stderrVariant{"errorObject", string(proto.ErrorCodeGeneric), true, true},   // everything
		stderrVariant{"errorObject", "NOT_A_KNOWN_CODE", true, false},              // codes are not validated
		stderrVariant{"errorObject", "", true, false},                              // message only
		stderrVariant{"errorObject", "", false, true},                              // metadata only
		stderrVariant{"errorObject", "", false, false},                             // incomplete
		stderrVariant{"errorObject", "", false, false},                             // incomplete (another rendering)
		stderrVariant{kind: "wrongType"},
		stderrVariant{kind: "notJson"},
		stderrVariant{kind: "notJson"},
	)
	return v
}

func (sv stderrVariant) apply(in *Input) {
	in.Stderr, in.ErrCode, in.ErrMessage, in.ErrMetadata = sv.kind, sv.code, sv.msg, sv.mdata
}

// metadata variants: the valid one, each mandatory field removed, wrong names, version lists
func metaVariants() []Meta {
	out := []Meta{goodMeta("foo")}
	for k := 0; k < 6; k++ {
		m := goodMeta("foo")
		switch k {
		case 0:
			m.Name = ""
		case 1:
			m.Description = ""
		case 2:
			m.Version = ""
		case 3:
			m.URL = ""
		case 4:
			m.Capabilities = []string{}
		case 5:
			m.ContractVersions = []string{}
		}
		out = append(out, m)
	}
	for _, n := range []string{"bar", "Foo", "foo ", "fo", "foo.exe", "notation-foo"} {
		out = append(out, goodMeta(n))
	}
	for _, vs := range [][]string{{"2.0"}, {"1"}, {"1.0 "}, {"1.00"}, {"0.9", "1.1"}, {""}, {"2.0", fw.ContractVersion}, {fw.ContractVersion, fw.ContractVersion}} {
		m := goodMeta("foo")
		m.ContractVersions = vs
		out = append(out, m)
	}
	m := goodMeta("foo")
	m.Capabilities = []string{""}
	out = append(out, m)
	return out
}

func (g *gen) count(in Input, o Obs) {
	c := g.c
	c.Count("kind=" + in.Kind)
	if in.Kind != "call" {
		return
	}
	c.Count("command=" + in.Command)
	c.Count("result=" + o.Result)
	c.Count("stdout=" + in.Stdout)
	c.Count("stderr=" + in.Stderr)
	c.Count(fmt.Sprintf("exit=%d", in.ExitCode))
	if o.Result == "pluginError" {
		c.Count("code=" + o.Code)
	}
	if in.StdoutSize > specCap || in.StderrSize > specCap {
		c.Count("over-cap")
	}
}

// Run generates the cases of C17.
func Run(c *common.Ctx) error {
	g := &gen{c: c, dir: c.WorkDir, blobs: map[string]string{}}
	if err := os.MkdirAll(filepath.Join(g.dir, "blobs"), 0o755); err != nil {
		return err
	}
	svs := stderrVariants()
	outKinds := []string{"reply", "emptyObject", "jsonNull", "wrongType", "notJson", "empty"}

	// ---- A: immediate cases: exit x stdout x stderr x command --------------------------------
	var imm []*job
	for _, cmd := range commands {
		for _, exit := range []int{0, 1, 2} {
			for _, sv := range svs {
				for _, ok := range outKinds {
					in := newCall(cmd)
					in.ExitCode, in.Stdout = exit, ok
					sv.apply(&in)
					imm = append(imm, g.add(in))
				}
				if cmd == "getMetadata" {
					for _, m := range metaVariants()[1:] {
						// the full cross with stderr only for exit 0 and a failing exit with few stderr kinds
						if exit == 2 || (exit == 1 && sv.kind == "errorObject" && sv.code != string(proto.ErrorCodeGeneric)) {
							continue
						}
						in := newCall(cmd)
						in.ExitCode, in.Metadata = exit, m
						sv.apply(&in)
						imm = append(imm, g.add(in))
					}
				}
			}
		}
	}
	// every subset of the mandatory fields x name x version, successful exit
	for mask := 0; mask < 64; mask++ {
		for _, name := range []string{"foo", "bar"} {
			for _, vs := range [][]string{{fw.ContractVersion}, {"2.0"}} {
				m := goodMeta(name)
				m.ContractVersions = vs
				if mask&1 != 0 {
					m.Name = ""
				}
				if mask&2 != 0 {
					m.Description = ""
				}
				if mask&4 != 0 {
					m.Version = ""
				}
				if mask&8 != 0 {
					m.URL = ""
				}
				if mask&16 != 0 {
					m.Capabilities = []string{}
				}
				if mask&32 != 0 {
					m.ContractVersions = []string{}
				}
				in := newCall("getMetadata")
				in.Metadata = m
				imm = append(imm, g.add(in))
			}
		}
	}
	// a plugin file that cannot be started; a plugin called under another name
	for _, cmd := range commands {
		for _, sv := range svs[:3] {
			in := newCall(cmd)
			in.Executable = false
			sv.apply(&in)
			imm = append(imm, g.add(in))
		}
		for _, name := range []string{"bar", "Foo", "foo bar", "f"} {
			in := newCall(cmd)
			in.PluginName = name
			imm = append(imm, g.add(in))
			in.Metadata = goodMeta(name)
			imm = append(imm, g.add(in))
		}
	}

	// ---- B: timing cases ------------------------------------------------------------------------
	type timing struct {
		name          string
		exitAt, pipes int
		ctxEnd        *int
		probes        []int
	}
	const held = 12000 // a descendant that holds the pipes "for ever" (longer than any bound)
	timings := []timing{
		{"slow-within-deadline", 400, 0, ip(3000), []int{200, 2900}},
		{"slow-killed-at-deadline", 11000, 0, ip(1000), []int{700, 3500}},
		{"descendant-holds-pipes", 0, held, ip(2000), []int{4500, 6500}},
		{"descendant-holds-pipes-briefly", 0, 1500, ip(10000), []int{1000, 4000}},
		{"descendant-holds-pipes-past-deadline", 0, 3000, ip(1000), []int{2500, 5500}},
		{"killed-and-descendant-holds-pipes", 11500, held, ip(1000), []int{5500, 8500}},
		{"no-context-descendant-briefly", 0, 1500, nil, []int{1000, 4000}},
		{"no-context-descendant-holds-pipes", 0, held, nil, []int{4500, 7500}},
	}
	var timed []*job
	// fixed combinations: stderr variant, exit status, deadline or cancellation
	fixed := []struct {
		sv     stderrVariant
		exit   int
		cancel bool
	}{
		{svs[0], 0, false},          // a well-behaved reply
		{svs[6], 1, false},          // structured error, deadline
		{svs[3], 2, true},           // structured error, cancellation
		{svs[len(svs)-1], 2, false}, // not JSON
		{svs[12], 0, true},          // incomplete error object
		{svs[0], 0, true},
	}
	k := 0
	for _, t := range timings {
		combos := len(fixed)
		if c.Thorough() {
			combos = 16
		}
		for v := 0; v < combos; v++ {
			in := newCall(commands[k%len(commands)])
			k++
			in.ExitAt, in.PipesAt, in.CtxEnd, in.Probes = ip(t.exitAt), ip(t.pipes), t.ctxEnd, t.probes
			if v < len(fixed) {
				in.ExitCode = fixed[v].exit
				fixed[v].sv.apply(&in)
				in.Cancel = t.ctxEnd != nil && fixed[v].cancel
			} else {
				in.ExitCode = c.Rand.Intn(3)
				svs[c.Rand.Intn(len(svs))].apply(&in)
				in.Stdout = outKinds[c.Rand.Intn(len(outKinds))]
				in.Cancel = t.ctxEnd != nil && c.Rand.Intn(2) == 0
			}
			if in.CtxEnd != nil && *in.CtxEnd < *in.ExitAt {
				in.ExitCode = 0 // the process that is killed is an exec'ed sleep: its own status would be 0
			}
			timed = append(timed, g.add(in))
			c.Count("timing=" + t.name)
		}
	}

	// ---- C: outputs around and beyond the cap ---------------------------------------------------
	var big []*job
	type bigCase struct {
		cmd        string
		out, err   int
		exit       int
		withStderr bool
	}
	bigs := []bigCase{
		{"describeKey", 70000000, 0, 0, false},
		{"getMetadata", 0, 70000000, 1, true},
	}
	if c.Thorough() {
		bigs = nil
		for i, cmd := range commands {
			bigs = append(bigs,
				bigCase{cmd, 70000000, 0, 0, false},
				bigCase{cmd, 70000000, 0, i % 3, true},
				bigCase{cmd, 0, 70000000, 1 + i%2, true},
				bigCase{cmd, 0, 70000000, 0, true},
				bigCase{cmd, specCap + 1, 0, 0, false},
				bigCase{cmd, specCap, 0, 0, false},
				bigCase{cmd, 0, specCap + 1, 1, true},
				bigCase{cmd, 0, specCap, 1, true},
				bigCase{cmd, 60000000, 0, 0, false},
			)
		}
		bigs = append(bigs, bigCase{"generateSignature", 70000000, 70000000, 0, true},
			bigCase{"getMetadata", 300000000, 0, 0, false}, bigCase{"describeKey", 0, 300000000, 1, true},
			bigCase{"generateEnvelope", 536870912, 0, 0, false}, bigCase{"verifySignature", 0, 536870912, 1, true})
	}
	for _, b := range bigs {
		in := newCall(b.cmd)
		in.StdoutSize, in.StderrSize, in.ExitCode = b.out, b.err, b.exit
		if b.withStderr {
			stderrVariant{"errorObject", string(proto.ErrorCodeGeneric), true, false}.apply(&in)
		}
		big = append(big, g.add(in))
	}

	// ---- execute: timing cases alone (they sleep), then the rest on a pool, big ones one by one ---
	runAll(timed, min(len(timed), 48))
	runAll(imm, 8)
	runAll(big, 1)
	for _, js := range [][]*job{imm, timed, big} {
		for _, j := range js {
			c.Emit(j.in, j.out)
			g.count(j.in, j.out)
		}
	}

	// ---- D: LimitedWriter -----------------------------------------------------------------------
	lens := []int{0, 1, 2, 3, 5}
	accepts := []int{0, 2, 1 << 30}
	var steps1 []WStep
	for _, l := range lens {
		for _, a := range accepts {
			for _, f := range []bool{false, true} {
				steps1 = append(steps1, WStep{l, a, f})
			}
		}
	}
	for limit := int64(-1); limit <= 5; limit++ {
		in := newWriter(limit, nil)
		c.Emit(in, runWriter(in))
		for _, s1 := range steps1 {
			in := newWriter(limit, []WStep{s1})
			c.Emit(in, runWriter(in))
			for _, s2 := range steps1 {
				in := newWriter(limit, []WStep{s1, s2})
				c.Emit(in, runWriter(in))
				c.Count("kind=writer")
			}
		}
	}
	nrand := 4000
	if c.Thorough() {
		nrand = 40000
	}
	for r := 0; r < nrand; r++ {
		limit := int64(c.Rand.Intn(400) - 5)
		maxLen := 150
		switch c.Rand.Intn(10) {
		case 0:
			limit = int64(c.Rand.Intn(1 << 20))
			maxLen = 1 << 19
		case 1:
			limit = int64(c.Rand.Intn(8))
			maxLen = 8
		}
		n := c.Rand.Intn(14)
		steps := make([]WStep, n)
		for s := range steps {
			l := c.Rand.Intn(maxLen + 1)
			st := WStep{Len: l, Accept: 1 << 30}
			switch c.Rand.Intn(6) {
			case 0:
				st.Accept = c.Rand.Intn(l + 1) // short write
			case 1:
				st.Fail = true
				st.Accept = c.Rand.Intn(l + 1)
			}
			steps[s] = st
		}
		in := newWriter(limit, steps)
		o := runWriter(in)
		c.Emit(in, o)
		c.Count("kind=writer")
		if o.Remaining <= 0 && limit > 0 {
			c.Count("writer=exhausted")
		}
	}

	c.Note("real CLIPlugin against generated #!/bin/sh plugins: %d immediate cases (5 commands x exit 0/1/2 x %d stdout kinds x %d stderr variants, %d metadata variants, all 64 subsets of the mandatory fields, non-executable file, other plugin names), %d timing cases in parallel (deadline / cancellation, killed child, descendants holding the pipes), %d cases around the 64 MiB cap; internal/io.LimitedWriter against scripted underlying writers: all sequences of <=2 writes over a small grid plus %d random sequences",
		len(imm), len(outKinds), len(svs), len(metaVariants()), len(timed), len(big), nrand)
	return nil
}

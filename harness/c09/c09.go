// Package c09 - correspondence harness for C09 (stub: not built yet).
package c09

import (
	"errors"

	"github.com/notaryproject/notation-go/xverif/common"
)

// Run generates the cases of C09.
func Run(c *common.Ctx) error { return errors.New("C09: harness not built yet") }

// Package c09 - correspondence harness for C09 (only well-formed trust policy documents are
// accepted).
//
// Documents of both kinds are produced from a grammar of valid documents, edited by zero, one
// or two rule-violating operators (one operator per rule of the property, plus a few benign
// edits), or assembled at random from pools of good and bad fragments. Every document is run
// through the real code three ways - Validate() on the struct, Validate() after a JSON round
// trip, verifier.NewVerifierWithOptions - and, when accepted, every statement's
// GetVerificationLevel() is recorded. A second stream checks the Lean recognisers of the three
// regular expressions against Go's regexp (the expression texts are read from the tree under
// test) and validateRegistryScopeFormat as a whole through a one-statement document.
package c09

import (
	"context"
	"crypto/x509"
	"encoding/json"
	"fmt"
	"go/ast"
	"go/parser"
	"go/token"
	"os"
	"path/filepath"
	"regexp"
	"sort"
	"strconv"
	"strings"
	"unicode/utf8"

	ldapv3 "github.com/go-ldap/ldap/v3"
	"github.com/notaryproject/notation-go/internal/file"
	"github.com/notaryproject/notation-go/verifier"
	"github.com/notaryproject/notation-go/verifier/trustpolicy"
	"github.com/notaryproject/notation-go/verifier/truststore"
	"github.com/notaryproject/notation-go/xverif/common"
)

// ---- JSON shapes of Lean's Input / Obs ---------------------------------------------------

type KV struct {
	Key string `json:"key"`
	Val string `json:"val"`
}

type Attr struct {
	Typ string `json:"typ"`
	Val string `json:"val"`
}

type Identity struct {
	Raw string    `json:"raw"`
	DN  *[][]Attr `json:"dn"`
}

type Statement struct {
	Name            string     `json:"name"`
	Level           string     `json:"level"`
	Override        []KV       `json:"override"`
	VerifyTimestamp string     `json:"verifyTimestamp"`
	TrustStores     []string   `json:"trustStores"`
	Identities      []Identity `json:"identities"`
	Scopes          []string   `json:"scopes"`
	IsGlobal        bool       `json:"isGlobal"`
}

type Doc struct {
	Version    string      `json:"version"`
	Statements []Statement `json:"statements"`
}

type Input struct {
	Kind      string `json:"kind"`
	Doc       Doc    `json:"doc"`
	Other     *Doc   `json:"other"`
	Before    *Doc   `json:"before"`
	BeforeBad *Doc   `json:"beforeBad"`
	Rx        string `json:"rx"`
	Text      string `json:"text"`
}

type Obs struct {
	OkStruct         bool   `json:"okStruct"`
	OkRepeat         []bool `json:"okRepeat"`
	OkJson           bool   `json:"okJson"`
	OkVerifier       bool   `json:"okVerifier"`
	OkPair           bool   `json:"okPair"`
	OkNew            bool   `json:"okNew"`
	OkNewWithOptions bool   `json:"okNewWithOptions"`
	Levels           [][]KV `json:"levels"`
}

// ---- abstract documents before concretisation --------------------------------------------

// stmt is the generator's view of a statement: identities are plain strings.
type stmt struct {
	name     string
	level    string
	override map[string]string
	vts      string
	stores   []string
	ids      []string
	scopes   []string
	global   bool
}

type doc struct {
	kind    string // "oci" | "blob"
	version string
	stmts   []stmt
}

func (d doc) clone() doc {
	out := doc{kind: d.kind, version: d.version}
	for _, s := range d.stmts {
		c := s
		c.override = map[string]string{}
		for k, v := range s.override {
			c.override[k] = v
		}
		c.stores = append([]string{}, s.stores...)
		c.ids = append([]string{}, s.ids...)
		c.scopes = append([]string{}, s.scopes...)
		out.stmts = append(out.stmts, c)
	}
	return out
}

// dummy trust store for NewVerifierWithOptions
type noStore struct{}

func (noStore) GetCertificates(ctx context.Context, storeType truststore.Type, namedStore string) ([]*x509.Certificate, error) {
	return nil, nil
}

// ---- running the real code ------------------------------------------------------------------

func sigVer(s stmt) trustpolicy.SignatureVerification {
	sv := trustpolicy.SignatureVerification{VerificationLevel: s.level, VerifyTimestamp: trustpolicy.TimestampOption(s.vts)}
	if len(s.override) > 0 {
		sv.Override = map[trustpolicy.ValidationType]trustpolicy.ValidationAction{}
		for k, v := range s.override {
			sv.Override[trustpolicy.ValidationType(k)] = trustpolicy.ValidationAction(v)
		}
	}
	return sv
}

func levelObs(sv trustpolicy.SignatureVerification) []KV {
	lv, err := sv.GetVerificationLevel()
	out := []KV{}
	if err != nil || lv == nil {
		return out
	}
	for k, v := range lv.Enforcement {
		out = append(out, KV{string(k), string(v)})
	}
	sort.Slice(out, func(i, j int) bool { return out[i].Key < out[j].Key })
	return out
}

func buildOCI(d doc) *trustpolicy.OCIDocument {
	pd := &trustpolicy.OCIDocument{Version: d.version}
	for _, s := range d.stmts {
		pd.TrustPolicies = append(pd.TrustPolicies, trustpolicy.OCITrustPolicy{Name: s.name, SignatureVerification: sigVer(s),
			TrustStores: append([]string(nil), s.stores...), TrustedIdentities: append([]string(nil), s.ids...), RegistryScopes: append([]string(nil), s.scopes...)})
	}
	return pd
}

func buildBlob(d doc) *trustpolicy.BlobDocument {
	pd := &trustpolicy.BlobDocument{Version: d.version}
	for _, s := range d.stmts {
		pd.TrustPolicies = append(pd.TrustPolicies, trustpolicy.BlobTrustPolicy{Name: s.name, SignatureVerification: sigVer(s),
			TrustStores: append([]string(nil), s.stores...), TrustedIdentities: append([]string(nil), s.ids...), GlobalPolicy: s.global})
	}
	return pd
}

// fixed documents an object holds before it is overwritten with the document under test
func fixedDoc(kind string, valid bool) doc {
	d := doc{kind: kind, version: "1.0", stmts: []stmt{{name: "fixed", level: "strict", override: map[string]string{},
		stores: []string{"ca:fixed"}, ids: []string{"*"}, scopes: []string{"fixed.example/repo"}}}}
	if !valid {
		d.version = "2.0"
	}
	return d
}

// objOps is what the validate-edit-validate histories need of a document object of one kind.
type objOps struct {
	build     func(d doc) any    // a fresh object holding d
	validate  func(o any) bool   // o.Validate() == nil
	overwrite func(o any, d doc) // *o = *build(d): the whole struct is replaced
	edit      func(o any, d doc) // the exported fields are set one by one (unexported state stays)
	editSlice func(o any, d doc) // the statements are written into the slice the object already has
	clone     func(o any) any    // derived := *o
	verifier  func(o any) bool   // NewVerifierWithOptions accepts o
}

var ociOps = objOps{
	build:     func(d doc) any { return buildOCI(d) },
	validate:  func(o any) bool { return o.(*trustpolicy.OCIDocument).Validate() == nil },
	overwrite: func(o any, d doc) { *o.(*trustpolicy.OCIDocument) = *buildOCI(d) },
	edit: func(o any, d doc) {
		p, src := o.(*trustpolicy.OCIDocument), buildOCI(d)
		p.Version = src.Version
		p.TrustPolicies = src.TrustPolicies
	},
	editSlice: func(o any, d doc) {
		p, src := o.(*trustpolicy.OCIDocument), buildOCI(d)
		p.Version = src.Version
		p.TrustPolicies = append(p.TrustPolicies[:0], src.TrustPolicies...)
	},
	clone: func(o any) any { c := *o.(*trustpolicy.OCIDocument); return &c },
	verifier: func(o any) bool {
		_, err := verifier.NewVerifierWithOptions(noStore{}, verifier.VerifierOptions{OCITrustPolicy: o.(*trustpolicy.OCIDocument)})
		return err == nil
	},
}

var blobOps = objOps{
	build:     func(d doc) any { return buildBlob(d) },
	validate:  func(o any) bool { return o.(*trustpolicy.BlobDocument).Validate() == nil },
	overwrite: func(o any, d doc) { *o.(*trustpolicy.BlobDocument) = *buildBlob(d) },
	edit: func(o any, d doc) {
		p, src := o.(*trustpolicy.BlobDocument), buildBlob(d)
		p.Version = src.Version
		p.TrustPolicies = src.TrustPolicies
	},
	editSlice: func(o any, d doc) {
		p, src := o.(*trustpolicy.BlobDocument), buildBlob(d)
		p.Version = src.Version
		p.TrustPolicies = append(p.TrustPolicies[:0], src.TrustPolicies...)
	},
	clone: func(o any) any { c := *o.(*trustpolicy.BlobDocument); return &c },
	verifier: func(o any) bool {
		_, err := verifier.NewVerifierWithOptions(noStore{}, verifier.VerifierOptions{BlobTrustPolicy: o.(*trustpolicy.BlobDocument)})
		return err == nil
	},
}

// histories: every entry is the verdict on d at the end of a history of a document object
// (Lean: `historyCount` entries, all must equal the verdict on d alone). `first` is the object
// whose Validate() was already called once; `before` is a document of the same kind the other
// objects hold - and have validated or built a verifier from - before they are edited into d.
func histories(ops objOps, first any, d doc, before doc, bad doc) []bool {
	good := fixedDoc(d.kind, true)
	var out []bool
	// 0: Validate() a second time on the same object
	out = append(out, ops.validate(first))
	// 1, 2: an object that validated a well-formed / an ill-formed document, then replaced as a whole
	for _, b := range []doc{good, bad} {
		o := ops.build(b)
		ops.validate(o)
		ops.overwrite(o, d)
		out = append(out, ops.validate(o))
	}
	// 3, 4: ... then edited field by field (validate - edit - validate on ONE object)
	for _, b := range []doc{before, bad} {
		o := ops.build(b)
		ops.validate(o)
		ops.edit(o, d)
		out = append(out, ops.validate(o))
	}
	// 5: a struct copy of a validated object, edited, validated
	{
		base := ops.build(before)
		ops.validate(base)
		derived := ops.clone(base)
		ops.edit(derived, d)
		out = append(out, ops.validate(derived))
	}
	// 6: a verifier was built from the object; edited; handed to a second construction
	{
		base := ops.build(before)
		ops.verifier(base)
		ops.edit(base, d)
		out = append(out, ops.verifier(base))
	}
	// 7: ... a struct copy of it, edited, handed to a construction
	{
		base := ops.build(before)
		ops.verifier(base)
		derived := ops.clone(base)
		ops.edit(derived, d)
		out = append(out, ops.verifier(derived))
	}
	// 8: validated; the statements written into the slice the object already has
	{
		o := ops.build(before)
		ops.validate(o)
		ops.editSlice(o, d)
		out = append(out, ops.validate(o))
	}
	// 9: d - before - d on one object: validated in every state
	{
		o := ops.build(d)
		ops.validate(o)
		ops.edit(o, before)
		ops.validate(o)
		ops.edit(o, d)
		out = append(out, ops.validate(o))
	}
	return out
}

// observe runs every acceptance route for one document: Validate() on the struct (twice, and on
// objects that held and validated another document before), Validate() after a JSON round trip,
// verifier.NewVerifierWithOptions alone and together with `other` (a document of the other kind,
// may be nil), and the deprecated constructors.
func observe(d doc, other *doc, before doc, bad doc) Obs {
	o := Obs{Levels: [][]KV{}, OkRepeat: []bool{}}
	var svs []trustpolicy.SignatureVerification
	switch d.kind {
	case "oci":
		pd := buildOCI(d)
		o.OkStruct = pd.Validate() == nil
		o.OkRepeat = histories(ociOps, pd, d, before, bad)
		raw, err := json.Marshal(pd)
		if err != nil {
			panic(err)
		}
		var back trustpolicy.OCIDocument
		if err := json.Unmarshal(raw, &back); err != nil {
			panic(err)
		}
		o.OkJson = back.Validate() == nil
		var fresh trustpolicy.OCIDocument
		if err := json.Unmarshal(raw, &fresh); err != nil {
			panic(err)
		}
		_, err = verifier.NewVerifierWithOptions(noStore{}, verifier.VerifierOptions{OCITrustPolicy: &fresh})
		o.OkVerifier = err == nil
		var ob *trustpolicy.BlobDocument
		if other != nil {
			ob = buildBlob(*other)
		}
		// the document object is the one validated above (a pointer reused across constructions)
		_, err = verifier.NewVerifierWithOptions(noStore{}, verifier.VerifierOptions{OCITrustPolicy: pd, BlobTrustPolicy: ob})
		o.OkPair = err == nil
		_, err = verifier.New(pd, noStore{}, nil)
		o.OkNew = err == nil
		_, err = verifier.NewWithOptions(pd, noStore{}, nil, verifier.VerifierOptions{BlobTrustPolicy: ob})
		o.OkNewWithOptions = err == nil
		for _, p := range pd.TrustPolicies {
			svs = append(svs, p.SignatureVerification)
		}
	case "blob":
		pd := buildBlob(d)
		o.OkStruct = pd.Validate() == nil
		o.OkRepeat = histories(blobOps, pd, d, before, bad)
		raw, err := json.Marshal(pd)
		if err != nil {
			panic(err)
		}
		var back trustpolicy.BlobDocument
		if err := json.Unmarshal(raw, &back); err != nil {
			panic(err)
		}
		o.OkJson = back.Validate() == nil
		var fresh trustpolicy.BlobDocument
		if err := json.Unmarshal(raw, &fresh); err != nil {
			panic(err)
		}
		_, err = verifier.NewVerifierWithOptions(noStore{}, verifier.VerifierOptions{BlobTrustPolicy: &fresh})
		o.OkVerifier = err == nil
		var oo *trustpolicy.OCIDocument
		if other != nil {
			oo = buildOCI(*other)
		}
		_, err = verifier.NewVerifierWithOptions(noStore{}, verifier.VerifierOptions{OCITrustPolicy: oo, BlobTrustPolicy: pd})
		o.OkPair = err == nil
		_, err = verifier.NewWithOptions(nil, noStore{}, nil, verifier.VerifierOptions{BlobTrustPolicy: pd})
		o.OkNew = err == nil
		_, err = verifier.NewWithOptions(oo, noStore{}, nil, verifier.VerifierOptions{BlobTrustPolicy: pd})
		o.OkNewWithOptions = err == nil
		for _, p := range pd.TrustPolicies {
			svs = append(svs, p.SignatureVerification)
		}
	}
	if o.OkStruct {
		for _, sv := range svs {
			o.Levels = append(o.Levels, levelObs(sv))
		}
	}
	return o
}

// observeGuards: Validate() of nil documents and the constructors without any document.
func observeGuards(rx string) Obs {
	o := Obs{Levels: [][]KV{}, OkRepeat: []bool{}}
	switch rx {
	case "no-documents":
		var po *trustpolicy.OCIDocument
		var pb *trustpolicy.BlobDocument
		o.OkStruct = po.Validate() == nil // Validate() of a nil document
		o.OkJson = pb.Validate() == nil
		_, err := verifier.NewVerifierWithOptions(noStore{}, verifier.VerifierOptions{})
		o.OkVerifier = err == nil
		_, err = verifier.NewVerifierWithOptions(noStore{}, verifier.VerifierOptions{OCITrustPolicy: po, BlobTrustPolicy: pb})
		o.OkPair = err == nil
		_, err = verifier.New(nil, noStore{}, nil)
		o.OkNew = err == nil
		_, err = verifier.NewWithOptions(nil, noStore{}, nil, verifier.VerifierOptions{})
		o.OkNewWithOptions = err == nil
	}
	return o
}

// abstract builds the Lean input: identities carry go-ldap's answer for the text after the
// first ':'. ok=false when some text is not valid UTF-8 (cannot be sent as JSON faithfully).
func abstract(d doc) (Input, bool) {
	in := Input{Kind: d.kind, Doc: Doc{Version: d.version, Statements: []Statement{}}}
	valid := utf8.ValidString(d.version)
	for _, s := range d.stmts {
		st := Statement{Name: s.name, Level: s.level, Override: []KV{}, VerifyTimestamp: s.vts,
			TrustStores: append([]string{}, s.stores...), Identities: []Identity{}, Scopes: append([]string{}, s.scopes...), IsGlobal: s.global}
		if d.kind == "blob" {
			st.Scopes = []string{}
		} else {
			st.IsGlobal = false
		}
		valid = valid && utf8.ValidString(s.name) && utf8.ValidString(s.level) && utf8.ValidString(s.vts)
		for k, v := range s.override {
			st.Override = append(st.Override, KV{k, v})
			valid = valid && utf8.ValidString(k) && utf8.ValidString(v)
		}
		sort.Slice(st.Override, func(i, j int) bool { return st.Override[i].Key < st.Override[j].Key })
		for _, x := range append(append([]string{}, s.stores...), s.scopes...) {
			valid = valid && utf8.ValidString(x)
		}
		for _, id := range s.ids {
			valid = valid && utf8.ValidString(id)
			ident := Identity{Raw: id}
			if _, value, found := strings.Cut(id, ":"); found {
				if dn, err := ldapv3.ParseDN(value); err == nil && dn != nil {
					rdns := [][]Attr{}
					for _, r := range dn.RDNs {
						attrs := []Attr{}
						for _, a := range r.Attributes {
							attrs = append(attrs, Attr{a.Type, a.Value})
							valid = valid && utf8.ValidString(a.Type) && utf8.ValidString(a.Value)
						}
						rdns = append(rdns, attrs)
					}
					ident.DN = &rdns
				}
			}
			st.Identities = append(st.Identities, ident)
		}
		in.Doc.Statements = append(in.Doc.Statements, st)
	}
	return in, valid
}

// ---- grammar of valid documents -------------------------------------------------------------

type gen struct {
	c *common.Ctx
}

func (g *gen) n(k int) int { return g.c.Rand.Intn(k) }
func (g *gen) pick(xs ...string) string {
	return xs[g.n(len(xs))]
}
func (g *gen) chance(p float64) bool { return g.c.Rand.Float64() < p }

var levels = []string{"strict", "permissive", "audit", "skip"}
var storeTypes = []string{"ca", "signingAuthority", "tsa"}

func (g *gen) fileName() string {
	const al = "abcXYZ019_.-"
	for {
		k := 1 + g.n(6)
		var b strings.Builder
		for i := 0; i < k; i++ {
			b.WriteByte(al[g.n(len(al))])
		}
		if s := b.String(); s != "." && s != ".." {
			return s
		}
	}
}

func (g *gen) label(al string, inner string) string {
	k := 1 + g.n(4)
	var b strings.Builder
	for i := 0; i < k; i++ {
		if inner != "" && i > 0 && i < k-1 && g.chance(0.3) {
			b.WriteByte(inner[g.n(len(inner))])
		} else {
			b.WriteByte(al[g.n(len(al))])
		}
	}
	return b.String()
}

func (g *gen) domain() string {
	const al = "abzAZ09"
	var parts []string
	for i := 0; i <= g.n(3); i++ {
		parts = append(parts, g.label(al, "-"))
	}
	d := strings.Join(parts, ".")
	if g.chance(0.3) {
		d += ":" + strconv.Itoa(g.n(70000))
	}
	return d
}

func (g *gen) repoComponent() string {
	const al = "abz09"
	s := g.label(al, "")
	for i := 0; i < g.n(3); i++ {
		sep := g.pick(".", "_", "__", "-", "--", "---")
		s += sep + g.label(al, "")
	}
	return s
}

func (g *gen) repository() string {
	var parts []string
	for i := 0; i <= g.n(3); i++ {
		parts = append(parts, g.repoComponent())
	}
	return strings.Join(parts, "/")
}

func (g *gen) scope() string { return g.domain() + "/" + g.repository() }

// escape a DN attribute value so that it survives RFC 4514 parsing
func (g *gen) dnValue(v string) string {
	var b strings.Builder
	for i, r := range v {
		switch {
		case strings.ContainsRune(`,+"\<>;=`, r):
			b.WriteByte('\\')
			b.WriteRune(r)
		case r == '#' && i == 0:
			b.WriteString(`\#`)
		case r == ' ' && (i == 0 || i == len(v)-1):
			b.WriteString(`\ `)
		case r < 0x80 && g.chance(0.05):
			fmt.Fprintf(&b, `\%02x`, r)
		default:
			b.WriteRune(r)
		}
	}
	return b.String()
}

type rdn struct{ typ, val string }

func (g *gen) renderDN(rdns []rdn) string {
	var b strings.Builder
	for i, r := range rdns {
		if i > 0 {
			b.WriteString(g.pick(",", ",", ", ", ";", " , "))
		}
		b.WriteString(r.typ)
		b.WriteString(g.pick("=", "=", " = ", "= "))
		b.WriteString(g.dnValue(r.val))
	}
	return b.String()
}

var dnValues = []string{"US", "WA", "Seattle", "wabbit-networks.io", "Notation, Inc.", "a+b", "x=y", " padded ", "#1", "SecureBuilder", "Ünïcode", "O\"Neil", "a\\b", "DE", "1 Main St;Apt 2", "<x>"}

// a valid DN with a marker value that keeps DNs of one statement from overlapping
func (g *gen) validDN(marker string) []rdn {
	out := []rdn{{"C", g.pick("US", "DE", "FR")}, {g.pick("ST", "ST", "S"), g.pick("WA", "CA", "Bayern")}, {"O", marker}}
	for _, t := range []string{"OU", "CN", "L", "STREET"} {
		if g.chance(0.35) {
			out = append(out, rdn{t, dnValues[g.n(len(dnValues))]})
		}
	}
	g.c.Rand.Shuffle(len(out), func(i, j int) { out[i], out[j] = out[j], out[i] })
	return out
}

func (g *gen) x509(rdns []rdn) string { return "x509.subject:" + g.renderDN(rdns) }

var namePool = []string{"wabbit-networks-images", " ", "unsigned-image", "\t", "s1", "\u00a0", "s2", "  ", "s3", " \t\n", "p 4", "Ünï", "*", "a:b", "skip", "global", "\u2003"}

func (g *gen) validStatement(kind string, i int, usedScopes map[string]bool, wildcardFree *bool) stmt {
	s := stmt{name: namePool[i%len(namePool)], override: map[string]string{}}
	if g.chance(0.3) {
		s.name = fmt.Sprintf("stmt-%d-%d", i, g.n(1000))
	}
	s.level = g.pick("strict", "permissive", "audit", "strict", "skip")
	s.vts = g.pick("", "", "always", "afterCertExpiry")
	if s.level != "skip" {
		for _, t := range []string{"authenticity", "authenticTimestamp", "expiry", "revocation"} {
			if g.chance(0.2) {
				s.override[t] = g.pick("log", "enforce")
				if t == "revocation" && g.chance(0.4) {
					s.override[t] = "skip"
				}
			}
		}
		for k := 0; k <= g.n(3); k++ {
			s.stores = append(s.stores, g.pick(storeTypes...)+":"+g.fileName())
		}
		if g.chance(0.15) {
			s.stores = append(s.stores, s.stores[0]) // duplicates are well-formed
		}
		if g.chance(0.3) {
			s.ids = []string{"*"}
		} else {
			if g.chance(0.25) {
				// near-equal names: the same attributes, one value differing only in letter case, in a
				// trailing blank or in a non-ASCII letter's case - different values, no overlap
				base := []rdn{{"C", "US"}, {g.pick("ST", "S"), "WA"}, {"O", "Contoso"}, {"CN", "Signer"}}
				with := func(typ, val string, extra ...rdn) []rdn {
					out := []rdn{}
					for _, r := range base {
						if r.typ == typ || (typ == "ST" && r.typ == "S") {
							r.val = val
						}
						out = append(out, r)
					}
					return append(out, extra...)
				}
				variants := [][]rdn{
					with("O", "CONTOSO", rdn{"OU", "Build"}),
					with("ST", "wa"),
					with("CN", "signer"),
					with("O", "Contoso "),
					with("O", "contoso"),
					with("CN", "SIGNER", rdn{"L", "Seattle"}),
					with("CN", "Signér"),
					with("C", "us"),
				}
				g.c.Rand.Shuffle(len(variants), func(i, j int) { variants[i], variants[j] = variants[j], variants[i] })
				fam := [][]rdn{base}
				// keep variants that change different attributes: any two names then differ in a shared attribute
				seen := map[string]bool{}
				for _, v := range variants {
					key := ""
					for i, r := range base {
						if v[i].val != r.val {
							key = r.typ
						}
					}
					if !seen[key] && len(fam) < 2+g.n(2) {
						seen[key] = true
						fam = append(fam, v)
					}
				}
				g.c.Rand.Shuffle(len(fam), func(i, j int) { fam[i], fam[j] = fam[j], fam[i] })
				for _, rd := range fam {
					rd = append([]rdn{}, rd...)
					g.c.Rand.Shuffle(len(rd), func(i, j int) { rd[i], rd[j] = rd[j], rd[i] })
					s.ids = append(s.ids, g.x509(rd))
				}
			} else if g.chance(0.35) {
				// a family: the same C, ST, O and one further attribute of a different type each -
				// incomparable names, none a subset of another
				base := []rdn{{"C", g.pick("US", "DE")}, {g.pick("ST", "S"), "WA"}, {"O", "family"}}
				extra := []string{"OU", "CN", "L", "STREET"}
				g.c.Rand.Shuffle(len(extra), func(i, j int) { extra[i], extra[j] = extra[j], extra[i] })
				for k := 0; k <= 1+g.n(2); k++ {
					rd := append(append([]rdn{}, base...), rdn{extra[k], dnValues[g.n(len(dnValues))]})
					g.c.Rand.Shuffle(len(rd), func(i, j int) { rd[i], rd[j] = rd[j], rd[i] })
					s.ids = append(s.ids, g.x509(rd))
				}
			} else {
				for k := 0; k <= g.n(3); k++ {
					s.ids = append(s.ids, g.x509(g.validDN(fmt.Sprintf("org-%d", k))))
				}
			}
			if g.chance(0.2) {
				s.ids = append(s.ids, g.pick("other:whatever", "x509.subjectAlt:CN=a", "X509.subject:C=US", "email:a@b.c", ":", "k:"))
			}
		}
	}
	if kind == "oci" {
		if *wildcardFree && g.chance(0.3) {
			s.scopes = []string{"*"}
			*wildcardFree = false
		} else {
			for k := 0; k <= g.n(3); k++ {
				for {
					sc := g.scope()
					if !usedScopes[sc] {
						usedScopes[sc] = true
						s.scopes = append(s.scopes, sc)
						break
					}
				}
			}
		}
	}
	return s
}

func (g *gen) validDoc(kind string) doc {
	d := doc{kind: kind, version: "1.0"}
	used := map[string]bool{}
	wf := true
	n := 1 + g.n(4)
	for i := 0; i < n; i++ {
		d.stmts = append(d.stmts, g.validStatement(kind, i, used, &wf))
	}
	if kind == "blob" && g.chance(0.5) {
		var cand []int
		for i, s := range d.stmts {
			if s.level != "skip" {
				cand = append(cand, i)
			}
		}
		if len(cand) > 0 {
			d.stmts[cand[g.n(len(cand))]].global = true
		}
	}
	return d
}

// ---- one operator per rule ---------------------------------------------------------------------

type operator struct {
	name  string
	apply func(g *gen, d *doc) bool // false: not applicable to this document
}

func (g *gen) someStmt(d *doc, pred func(stmt) bool) *stmt {
	var cand []int
	for i, s := range d.stmts {
		if pred(s) {
			cand = append(cand, i)
		}
	}
	if len(cand) == 0 {
		return nil
	}
	return &d.stmts[cand[g.n(len(cand))]]
}

func nonSkip(s stmt) bool { return s.level != "skip" }
func isSkip(s stmt) bool  { return s.level == "skip" }
func anyStmt(stmt) bool   { return true }
func hasDN(s stmt) bool {
	for _, id := range s.ids {
		if strings.HasPrefix(id, "x509.subject:") {
			return true
		}
	}
	return false
}

// onDN replaces one x509 identity of a statement by a new one built by f.
func onDN(f func(g *gen) string) func(g *gen, d *doc) bool {
	return func(g *gen, d *doc) bool {
		s := g.someStmt(d, nonSkip)
		if s == nil {
			return false
		}
		id := f(g)
		if len(s.ids) == 0 || (len(s.ids) == 1 && s.ids[0] == "*") {
			s.ids = []string{id}
		} else {
			s.ids[g.n(len(s.ids))] = id
		}
		return true
	}
}

// hosts whose labels are legal but are joined by something other than a dot (or carry a port that is not one)
var badHosts = []string{"my_registry", "user@registry.example.com", "registry.example.com:port", "registry.example.com:80:90",
	"registry example.com", "registry,example.com", "a b", "a\tb", "registry/example", "registry-.com", "a_b.c", "reg;example.com",
	"registry\u00a0example.com", "a+b", "a~b", "reg.example.com:", "a:b:1", "registry..example.com", "a%b"}

var badScopes = []string{"my_registry/app", "user@registry.example.com/app", "registry.example.com:port/app", "registry.example.com:80:90/app",
	"registry example.com/app", "registry,example.com/app", "a b/app", "a_b.c/app", "reg;example.com/app", "a+b/app", "a:b:1/app",
	"", "registry.example.com", "/repo", "registry.example.com/", "registry.example.com/Repo", "registry.example.com/a*b", "*/repo",
	"reg*.example.com/repo", "**", "https://registry.example.com/repo", "registry.example.com/repo:v1", "registry.example.com/repo@sha256:abc",
	"registry.example.com/a//b", "registry.example.com/a/", "-reg.example.com/repo", "reg-.example.com/repo", "reg..example.com/repo", "reg.example.com:/repo",
	"reg.example.com:80a/repo", "reg_x.example.com/repo", "reg.example.com/a___b", "reg.example.com/a._b", "reg.example.com/-a", "reg.example.com/a-", "reg.example.com/a.", "reg.example.com/ä",
	"reg.example.com/repo\n", "reg.example.com /repo", "é/repo", "*a"}

var badStores = []string{"ca:ok:..", "ca:good:bad/name", "tsa:x:y:z", "ca::name", "signingAuthority:a:", "", "ca", "ca:", ":name", "CA:name", "x509:name", "ca:.", "ca:..", "ca:a/b", "ca:a:b", "ca:a b", "ca:é", "ca :name", " ca:name", "ca:name\n", "tsa:../x", "signingauthority:x", "ca:a\\b", "ca:*"}

var operators = []operator{
	{"version", func(g *gen, d *doc) bool {
		d.version = g.pick("", "2.0", "1.0 ", "1", "1.00", "v1.0", "1.0.0")
		return true
	}},
	{"no-statements", func(g *gen, d *doc) bool { d.stmts = nil; return true }},
	{"duplicate-name", func(g *gen, d *doc) bool {
		if len(d.stmts) < 2 {
			used := map[string]bool{}
			for _, s := range d.stmts {
				for _, sc := range s.scopes {
					used[sc] = true
				}
			}
			wf := false
			d.stmts = append(d.stmts, g.validStatement(d.kind, len(d.stmts), used, &wf))
		}
		i := g.n(len(d.stmts))
		j := (i + 1 + g.n(len(d.stmts)-1)) % len(d.stmts)
		d.stmts[i].name = d.stmts[j].name
		return true
	}},
	{"empty-name", func(g *gen, d *doc) bool { g.someStmt(d, anyStmt).name = ""; return true }},
	{"unknown-level", func(g *gen, d *doc) bool {
		g.someStmt(d, anyStmt).level = g.pick("", "Strict", "custom", "strict ", "SKIP", "none", "enforce")
		return true
	}},
	{"override-on-skip", func(g *gen, d *doc) bool {
		s := g.someStmt(d, isSkip)
		if s == nil {
			s = g.someStmt(d, anyStmt)
			s.level, s.stores, s.ids = "skip", nil, nil
			s.global = false
		}
		s.override[g.pick("expiry", "revocation", "authenticity")] = g.pick("log", "skip", "enforce")
		return true
	}},
	{"override-integrity", func(g *gen, d *doc) bool {
		s := g.someStmt(d, nonSkip)
		if s == nil {
			return false
		}
		s.override["integrity"] = g.pick("enforce", "log", "skip")
		return true
	}},
	{"override-skip-not-revocation", func(g *gen, d *doc) bool {
		s := g.someStmt(d, nonSkip)
		if s == nil {
			return false
		}
		s.override[g.pick("authenticity", "authenticTimestamp", "expiry")] = "skip"
		return true
	}},
	{"override-unknown", func(g *gen, d *doc) bool {
		s := g.someStmt(d, nonSkip)
		if s == nil {
			return false
		}
		if g.chance(0.5) {
			s.override[g.pick("", "Integrity", "Expiry", "timestamp", "revocation ")] = g.pick("log", "enforce")
		} else {
			s.override[g.pick("expiry", "revocation", "authenticity")] = g.pick("", "Log", "warn", "skip ", "enforced")
		}
		return true
	}},
	{"verify-timestamp", func(g *gen, d *doc) bool {
		g.someStmt(d, anyStmt).vts = g.pick("never", "Always", "always ", "aftercertexpiry", "true")
		return true
	}},
	{"missing-stores-or-identities", func(g *gen, d *doc) bool {
		s := g.someStmt(d, nonSkip)
		if s == nil {
			return false
		}
		switch g.n(3) {
		case 0:
			s.stores = nil
		case 1:
			s.ids = nil
		default:
			s.stores, s.ids = nil, nil
		}
		return true
	}},
	{"skip-with-stores-or-identities", func(g *gen, d *doc) bool {
		s := g.someStmt(d, isSkip)
		if s == nil {
			s = g.someStmt(d, anyStmt)
			s.level, s.override = "skip", map[string]string{}
			s.global = false
			if g.chance(0.5) {
				s.stores = nil
			} else {
				s.ids = nil
			}
			return true
		}
		if g.chance(0.5) {
			s.stores = []string{"ca:x"}
		} else {
			s.ids = []string{g.pick("*", "x509.subject:C=US,ST=WA,O=x")}
		}
		return true
	}},
	{"skip-keeps-everything", func(g *gen, d *doc) bool {
		// a complete non-skip statement whose level is switched to skip
		s := g.someStmt(d, nonSkip)
		if s == nil {
			return false
		}
		s.level = "skip"
		s.global = false
		if len(s.override) == 0 && g.chance(0.5) {
			s.override[g.pick("revocation", "expiry", "authenticity")] = g.pick("log", "enforce")
		}
		return true
	}},
	{"bad-trust-store", func(g *gen, d *doc) bool {
		s := g.someStmt(d, nonSkip)
		if s == nil {
			return false
		}
		bad := badStores[g.n(len(badStores))]
		if len(s.stores) == 0 || g.chance(0.4) {
			s.stores = append(s.stores, bad)
		} else {
			s.stores[g.n(len(s.stores))] = bad
		}
		return true
	}},
	{"wildcard-identity-not-alone", func(g *gen, d *doc) bool {
		s := g.someStmt(d, nonSkip)
		if s == nil {
			return false
		}
		if len(s.ids) == 0 || (len(s.ids) == 1 && s.ids[0] == "*") {
			s.ids = []string{"*", g.pick("*", "x509.subject:C=US,ST=WA,O=x", "other:x")}
		} else {
			k := g.n(len(s.ids) + 1)
			s.ids = append(s.ids[:k], append([]string{"*"}, s.ids[k:]...)...)
		}
		return true
	}},
	{"malformed-identity", func(g *gen, d *doc) bool {
		s := g.someStmt(d, nonSkip)
		if s == nil {
			return false
		}
		bad := g.pick("", "x509.subject", "no separator", "x509.subject:", "**", " *", "C=US,ST=WA,O=x")
		if len(s.ids) == 1 && s.ids[0] == "*" {
			s.ids = []string{bad}
		} else if len(s.ids) == 0 || g.chance(0.5) {
			s.ids = append(s.ids, bad)
		} else {
			s.ids[g.n(len(s.ids))] = bad
		}
		return true
	}},
	{"dn-missing-mandatory", onDN(func(g *gen) string {
		rd := g.validDN("lonely")
		drop := g.pick("C", "ST", "O")
		var out []rdn
		for _, r := range rd {
			t := r.typ
			if t == "S" {
				t = "ST"
			}
			if t == drop {
				switch g.n(4) {
				case 0: // present but empty
					out = append(out, rdn{r.typ, ""})
				case 1: // lower case type is another attribute
					out = append(out, rdn{strings.ToLower(r.typ), r.val})
				}
				continue
			}
			out = append(out, r)
		}
		return g.x509(out)
	})},
	{"dn-duplicate-attribute", onDN(func(g *gen) string {
		rd := g.validDN("twice")
		k := g.n(len(rd))
		extra := rd[k]
		if g.chance(0.5) {
			extra.val = "other"
		}
		if extra.typ == "ST" && g.chance(0.5) {
			extra.typ = "S"
		} else if extra.typ == "S" && g.chance(0.5) {
			extra.typ = "ST"
		}
		rd = append(rd, extra)
		return g.x509(rd)
	})},
	{"dn-multi-valued", onDN(func(g *gen) string {
		rd := g.validDN("multi")
		s := g.renderDN(rd)
		return "x509.subject:" + s + g.pick("+CN=x", "+UID=7", " + L=here")
	})},
	{"dn-hash-value", onDN(func(g *gen) string {
		rd := g.validDN("hash")
		return g.x509(rd) + g.pick(",CN=#0c0568656c6c6f", ",CN=#zz", ",1.2.3=#0401ff")
	})},
	{"dn-unparsable", onDN(func(g *gen) string {
		return "x509.subject:" + g.pick("C=US,ST=WA,O", "=US", "C=US,,ST=WA,O=x", "C=US,ST=WA,O=x\\", "C=US,ST=WA,O=x\\zz", ",", "C=US;ST=WA;O=x;", " ", "CUS", "C=US,ST=WA,O=x,CN=\\4")
	})},
	{"dn-overlap", func(g *gen, d *doc) bool {
		s := g.someStmt(d, hasDN)
		if s == nil {
			s = g.someStmt(d, nonSkip)
			if s == nil {
				return false
			}
			s.ids = []string{g.x509(g.validDN("base"))}
		}
		var dns []string
		for _, id := range s.ids {
			if strings.HasPrefix(id, "x509.subject:") {
				dns = append(dns, id)
			}
		}
		base := dns[g.n(len(dns))]
		var add string
		switch g.n(4) {
		case 0: // the same identity again
			add = base
		case 1: // a superset
			add = base + ",UID=" + strconv.Itoa(g.n(100))
		case 2: // same attributes, different spelling
			add = strings.Replace(base, "x509.subject:", "x509.subject: ", 1)
		default: // same set in another order
			dn, err := ldapv3.ParseDN(strings.TrimPrefix(base, "x509.subject:"))
			if err != nil || len(dn.RDNs) == 0 {
				add = base
			} else {
				var rd []rdn
				for i := len(dn.RDNs) - 1; i >= 0; i-- {
					a := dn.RDNs[i].Attributes[0]
					rd = append(rd, rdn{a.Type, a.Value})
				}
				add = g.x509(rd)
			}
		}
		k := g.n(len(s.ids) + 1)
		s.ids = append(s.ids[:k], append([]string{add}, s.ids[k:]...)...)
		return true
	}},
	{"no-scopes", func(g *gen, d *doc) bool {
		if d.kind != "oci" {
			return false
		}
		g.someStmt(d, anyStmt).scopes = nil
		return true
	}},
	{"wildcard-scope-not-alone", func(g *gen, d *doc) bool {
		if d.kind != "oci" {
			return false
		}
		s := g.someStmt(d, anyStmt)
		if len(s.scopes) == 1 && s.scopes[0] == "*" {
			s.scopes = append(s.scopes, g.pick("*", "fresh.example.com/x"))
		} else {
			k := g.n(len(s.scopes) + 1)
			s.scopes = append(s.scopes[:k], append([]string{"*"}, s.scopes[k:]...)...)
		}
		return true
	}},
	{"invalid-scope", func(g *gen, d *doc) bool {
		if d.kind != "oci" {
			return false
		}
		s := g.someStmt(d, anyStmt)
		bad := badScopes[g.n(len(badScopes))]
		if len(s.scopes) == 0 || (len(s.scopes) == 1 && s.scopes[0] == "*") {
			s.scopes = []string{bad}
		} else if g.chance(0.5) {
			s.scopes[g.n(len(s.scopes))] = bad
		} else {
			s.scopes = append(s.scopes, bad)
		}
		return true
	}},
	{"duplicate-scope", func(g *gen, d *doc) bool {
		if d.kind != "oci" {
			return false
		}
		src := g.someStmt(d, func(s stmt) bool { return len(s.scopes) > 0 })
		if src == nil {
			return false
		}
		sc := src.scopes[g.n(len(src.scopes))]
		dst := g.someStmt(d, anyStmt) // may be the same statement
		if sc == "*" && len(dst.scopes) > 0 && dst != src {
			dst.scopes = []string{"*"} // two wildcard statements
		} else {
			dst.scopes = append(dst.scopes, sc)
		}
		return true
	}},
	{"two-wildcard-statements", func(g *gen, d *doc) bool {
		if d.kind != "oci" {
			return false
		}
		if len(d.stmts) < 2 {
			wf := false
			d.stmts = append(d.stmts, g.validStatement(d.kind, len(d.stmts), map[string]bool{"*": true}, &wf))
		}
		i := g.n(len(d.stmts))
		j := (i + 1 + g.n(len(d.stmts)-1)) % len(d.stmts)
		d.stmts[i].scopes, d.stmts[j].scopes = []string{"*"}, []string{"*"}
		return true
	}},
	{"two-global", func(g *gen, d *doc) bool {
		if d.kind != "blob" {
			return false
		}
		if len(d.stmts) < 2 {
			wf := false
			d.stmts = append(d.stmts, g.validStatement(d.kind, len(d.stmts), map[string]bool{}, &wf))
		}
		i := g.n(len(d.stmts))
		j := (i + 1 + g.n(len(d.stmts)-1)) % len(d.stmts)
		for _, k := range []int{i, j} {
			d.stmts[k].global = true
			if d.stmts[k].level == "skip" && g.chance(0.7) {
				d.stmts[k].level = "audit"
				d.stmts[k].stores = []string{"ca:g"}
				d.stmts[k].ids = []string{"*"}
			}
		}
		return true
	}},
	{"global-skip", func(g *gen, d *doc) bool {
		if d.kind != "blob" {
			return false
		}
		for i := range d.stmts {
			d.stmts[i].global = false
		}
		s := g.someStmt(d, isSkip)
		if s == nil {
			s = g.someStmt(d, anyStmt)
			s.level, s.stores, s.ids, s.override = "skip", nil, nil, map[string]string{}
		}
		s.global = true
		return true
	}},
	// benign edits: the document stays well-formed
	{"benign-duplicate-store", func(g *gen, d *doc) bool {
		s := g.someStmt(d, nonSkip)
		if s == nil || len(s.stores) == 0 {
			return false
		}
		s.stores = append(s.stores, s.stores[g.n(len(s.stores))])
		return true
	}},
	{"benign-foreign-identity", func(g *gen, d *doc) bool {
		s := g.someStmt(d, func(s stmt) bool { return nonSkip(s) && !(len(s.ids) == 1 && s.ids[0] == "*") && len(s.ids) > 0 })
		if s == nil {
			return false
		}
		s.ids = append(s.ids, g.pick("plugin.id:anything at all", "x509.subject2:C=US", "a:*"))
		return true
	}},
}

// applyOp applies an operator; operators other than the two document-level ones need a statement.
func applyOp(op operator, g *gen, d *doc) bool {
	if len(d.stmts) == 0 && op.name != "version" && op.name != "no-statements" {
		return false
	}
	return op.apply(g, d)
}

// ---- random assembly ---------------------------------------------------------------------------

func (g *gen) randomDoc(kind string) doc {
	d := doc{kind: kind, version: g.pick("1.0", "1.0", "1.0", "1.0", "", "1.1")}
	n := g.n(4)
	if g.chance(0.8) {
		n = 1 + g.n(3)
	}
	for i := 0; i < n; i++ {
		s := stmt{override: map[string]string{}}
		s.name = g.pick("a", "b", "c", "d", "e", "f", "", "a", " ", "\t", "\u00a0")
		s.level = g.pick("strict", "permissive", "audit", "skip", "skip", "", "Strict")
		if g.chance(0.8) {
			s.level = g.pick("strict", "permissive", "audit", "skip")
		}
		s.vts = g.pick("", "", "", "always", "afterCertExpiry", "sometimes")
		for k := 0; k < g.n(3); k++ {
			if g.chance(0.5) {
				s.override[g.pick("integrity", "authenticity", "authenticTimestamp", "expiry", "revocation", "revocation", "other")] = g.pick("enforce", "log", "log", "skip", "other")
			}
		}
		if g.chance(0.8) {
			s.override = map[string]string{}
			if g.chance(0.3) {
				s.override["revocation"] = g.pick("skip", "log")
			}
		}
		empty := s.level == "skip" && g.chance(0.85)
		if !empty {
			for k := 0; k < g.n(4); k++ {
				if g.chance(0.85) {
					s.stores = append(s.stores, g.pick(storeTypes...)+":"+g.fileName())
				} else {
					s.stores = append(s.stores, badStores[g.n(len(badStores))])
				}
			}
			for k := 0; k < g.n(4); k++ {
				switch g.n(10) {
				case 0:
					s.ids = append(s.ids, "*")
				case 1:
					s.ids = append(s.ids, g.pick("", "nosep", "x509.subject:", "foo:bar", "x509.subject:CN=only"))
				case 2:
					s.ids = append(s.ids, g.x509([]rdn{{"C", "US"}, {"ST", "WA"}, {"O", g.pick("x", "y")}}))
				case 3:
					s.ids = append(s.ids, g.x509([]rdn{{"C", "US"}, {"S", "WA"}, {"O", g.pick("x", "y")}, {"CN", g.pick("n", "m", "")}}))
				default:
					s.ids = append(s.ids, g.x509(g.validDN(g.pick("x", "y", "z", "w", "v"))))
				}
			}
			if g.chance(0.25) {
				s.ids = []string{"*"}
			}
		}
		if kind == "oci" {
			for k := 0; k < g.n(3)+g.n(2); k++ {
				switch g.n(12) {
				case 0:
					s.scopes = append(s.scopes, "*")
				case 1:
					s.scopes = append(s.scopes, badScopes[g.n(len(badScopes))])
				case 2:
					s.scopes = append(s.scopes, g.pick("r.io/a", "r.io/b", "r.io/c"))
				default:
					s.scopes = append(s.scopes, g.scope())
				}
			}
			if g.chance(0.1) {
				s.scopes = []string{"*"}
			}
		} else {
			s.global = g.chance(0.25)
		}
		d.stmts = append(d.stmts, s)
	}
	return d
}

// ---- regular expressions ---------------------------------------------------------------------

// The expressions the Lean matcher was written against: the fall-back oracle when the expressions
// cannot be read from the tree under test (the fact extractor reports that case as a broken fact).
const (
	pinnedDomainRegex     = `^(?:[a-zA-Z0-9]|[a-zA-Z0-9][a-zA-Z0-9-]*[a-zA-Z0-9])(?:(?:\.(?:[a-zA-Z0-9]|[a-zA-Z0-9][a-zA-Z0-9-]*[a-zA-Z0-9]))+)?(?::[0-9]+)?$`
	pinnedRepositoryRegex = `^[a-z0-9]+(?:(?:(?:[._]|__|[-]*)[a-z0-9]+)+)?(?:(?:/[a-z0-9]+(?:(?:(?:[._]|__|[-]*)[a-z0-9]+)+)?)+)?$`
)

type usedRegex struct{ recv, arg, text string }

func exprName(e ast.Expr) string {
	switch x := e.(type) {
	case *ast.Ident:
		return x.Name
	case *ast.SelectorExpr:
		return exprName(x.X) + "." + x.Sel.Name
	}
	return ""
}

func evalString(e ast.Expr, local, pkg map[string]ast.Expr, depth int) (string, error) {
	if depth > 20 {
		return "", fmt.Errorf("definitions nest too deeply")
	}
	switch x := e.(type) {
	case *ast.BasicLit:
		if x.Kind != token.STRING {
			return "", fmt.Errorf("literal %s is not a string", x.Value)
		}
		return strconv.Unquote(x.Value)
	case *ast.ParenExpr:
		return evalString(x.X, local, pkg, depth+1)
	case *ast.BinaryExpr:
		if x.Op != token.ADD {
			return "", fmt.Errorf("operator %s in a regular expression text", x.Op)
		}
		l, err := evalString(x.X, local, pkg, depth+1)
		if err != nil {
			return "", err
		}
		r, err := evalString(x.Y, local, pkg, depth+1)
		return l + r, err
	case *ast.Ident:
		if v, ok := local[x.Name]; ok {
			return evalString(v, local, pkg, depth+1)
		}
		if v, ok := pkg[x.Name]; ok {
			return evalString(v, nil, pkg, depth+1)
		}
		return "", fmt.Errorf("%s is not defined in this file", x.Name)
	}
	return "", fmt.Errorf("cannot evaluate the expression text")
}

// usedRegexes follows every <re>.MatchString(arg) of a function back to the text given to
// regexp.MustCompile: compiled in place, a local, or a package-level variable; the text may be a
// literal, a named constant / variable or a concatenation of those.
func usedRegexes(f *ast.File, fn string) ([]usedRegex, error) {
	pkg := map[string]ast.Expr{}
	var fd *ast.FuncDecl
	for _, d := range f.Decls {
		switch x := d.(type) {
		case *ast.GenDecl:
			for _, sp := range x.Specs {
				if vs, ok := sp.(*ast.ValueSpec); ok {
					for i, n := range vs.Names {
						if i < len(vs.Values) {
							pkg[n.Name] = vs.Values[i]
						}
					}
				}
			}
		case *ast.FuncDecl:
			if x.Name.Name == fn && x.Recv == nil {
				fd = x
			}
		}
	}
	if fd == nil {
		return nil, fmt.Errorf("function %s not found", fn)
	}
	local := map[string]ast.Expr{}
	ast.Inspect(fd.Body, func(n ast.Node) bool {
		switch x := n.(type) {
		case *ast.AssignStmt:
			if len(x.Lhs) == len(x.Rhs) {
				for i, l := range x.Lhs {
					if id, ok := l.(*ast.Ident); ok {
						local[id.Name] = x.Rhs[i]
					}
				}
			}
		case *ast.ValueSpec:
			for i, n := range x.Names {
				if i < len(x.Values) {
					local[n.Name] = x.Values[i]
				}
			}
		}
		return true
	})
	var used []usedRegex
	var firstErr error
	ast.Inspect(fd.Body, func(n ast.Node) bool {
		c, ok := n.(*ast.CallExpr)
		if !ok || len(c.Args) != 1 {
			return true
		}
		sel, ok := c.Fun.(*ast.SelectorExpr)
		if !ok || sel.Sel.Name != "MatchString" {
			return true
		}
		u := usedRegex{arg: exprName(c.Args[0])}
		var def ast.Expr = sel.X
		loc := local
		if id, ok := sel.X.(*ast.Ident); ok {
			u.recv = id.Name
			if v, ok := local[id.Name]; ok {
				def = v
			} else if v, ok := pkg[id.Name]; ok {
				def, loc = v, nil
			} else {
				firstErr = fmt.Errorf("%s is defined neither in %s nor at package level", id.Name, fn)
				return true
			}
		}
		mc, ok := def.(*ast.CallExpr)
		if !ok || len(mc.Args) != 1 || !strings.HasPrefix(exprName(mc.Fun), "regexp.MustCompile") {
			firstErr = fmt.Errorf("an expression matched in %s is not compiled by regexp.MustCompile", fn)
			return true
		}
		text, err := evalString(mc.Args[0], loc, pkg, 0)
		if err != nil {
			firstErr = err
			return true
		}
		u.text = text
		used = append(used, u)
		return true
	})
	return used, firstErr
}

// scopeRegexes reads the two expressions of validateRegistryScopeFormat from the tree under test,
// wherever they are defined. It never fails: when they cannot be found (problem != ""), Go's
// regexp on the pinned expression texts is the oracle of the regex cases instead.
func scopeRegexes(repo string) (domain, repository *regexp.Regexp, problem string) {
	fallback := func(why string) (*regexp.Regexp, *regexp.Regexp, string) {
		return regexp.MustCompile(pinnedDomainRegex), regexp.MustCompile(pinnedRepositoryRegex), why
	}
	fset := token.NewFileSet()
	f, err := parser.ParseFile(fset, filepath.Join(repo, "verifier/trustpolicy/oci.go"), nil, 0)
	if err != nil {
		return fallback(err.Error())
	}
	used, err := usedRegexes(f, "validateRegistryScopeFormat")
	if err != nil {
		return fallback(err.Error())
	}
	has := func(u usedRegex, sub string) bool {
		return strings.Contains(strings.ToLower(u.recv), sub) || strings.Contains(strings.ToLower(u.arg), sub)
	}
	di, ri := -1, -1
	for i, u := range used {
		switch {
		case di < 0 && (has(u, "domain") || has(u, "host") || has(u, "registry")):
			di = i
		case ri < 0 && has(u, "repo"):
			ri = i
		}
	}
	if (di < 0 || ri < 0) && len(used) == 2 {
		di, ri = 0, 1
	}
	if di < 0 || ri < 0 || di == ri {
		return fallback(fmt.Sprintf("validateRegistryScopeFormat matches %d regular expressions, cannot tell domain from repository", len(used)))
	}
	domain, err = regexp.Compile(used[di].text)
	if err != nil {
		return fallback(err.Error())
	}
	repository, err = regexp.Compile(used[ri].text)
	if err != nil {
		return fallback(err.Error())
	}
	return domain, repository, ""
}

func words(alphabet string, maxLen int, f func(string)) {
	var rec func(prefix string, left int)
	rec = func(prefix string, left int) {
		f(prefix)
		if left == 0 {
			return
		}
		for _, r := range alphabet {
			rec(prefix+string(r), left-1)
		}
	}
	rec("", maxLen)
}

func (g *gen) mutate(s string, alphabet string) string {
	r := []rune(s)
	a := []rune(alphabet)
	for k := 0; k <= g.n(2); k++ {
		switch g.n(4) {
		case 0:
			if len(r) > 0 {
				i := g.n(len(r))
				r = append(r[:i], r[i+1:]...)
			}
		case 1:
			i := g.n(len(r) + 1)
			r = append(r[:i], append([]rune{a[g.n(len(a))]}, r[i:]...)...)
		case 2:
			if len(r) > 0 {
				r[g.n(len(r))] = a[g.n(len(a))]
			}
		default:
			if len(r) > 1 {
				i := g.n(len(r) - 1)
				r[i], r[i+1] = r[i+1], r[i]
			}
		}
	}
	return string(r)
}

func scopeAccepted(text string) bool {
	pd := &trustpolicy.OCIDocument{Version: "1.0", TrustPolicies: []trustpolicy.OCITrustPolicy{{
		Name: "only", SignatureVerification: trustpolicy.SignatureVerification{VerificationLevel: "skip"}, RegistryScopes: []string{text}}}}
	return pd.Validate() == nil
}

func (g *gen) regexCases(domainRe, repoRe *regexp.Regexp) {
	c := g.c
	emit := func(rx, text string, ok bool) {
		if !utf8.ValidString(text) {
			return
		}
		c.Emit(Input{Kind: "regex", Doc: Doc{Statements: []Statement{}}, Rx: rx, Text: text},
			Obs{OkStruct: ok, OkRepeat: []bool{}, OkJson: ok, OkVerifier: ok, OkPair: ok, OkNew: ok, OkNewWithOptions: ok, Levels: [][]KV{}})
		if ok {
			c.Count("regex/" + rx + "/match")
		} else {
			c.Count("regex/" + rx + "/no-match")
		}
	}
	oracle := map[string]func(string) bool{
		"fileName":   file.IsValidFileName,
		"domain":     domainRe.MatchString,
		"repository": repoRe.MatchString,
		"scope":      scopeAccepted,
	}
	exhaustive := map[string][2]any{ // alphabet, (quick, thorough) length
		"fileName":   {"aZ0_.-/ :", [2]int{3, 4}},
		"domain":     {"aZ0-.:_", [2]int{4, 6}},
		"repository": {"a0._-/A", [2]int{5, 6}},
		"scope":      {"aA0.-_/:*", [2]int{3, 5}},
	}
	for _, rx := range []string{"fileName", "domain", "repository", "scope"} {
		al := exhaustive[rx][0].(string)
		lens := exhaustive[rx][1].([2]int)
		l := lens[0]
		if c.Thorough() {
			l = lens[1]
		}
		words(al, l, func(w string) { emit(rx, w, oracle[rx](w)) })
	}
	for _, h := range badHosts {
		emit("domain", h, oracle["domain"](h))
		emit("scope", h+"/app", oracle["scope"](h+"/app"))
		for _, good := range []string{"registry.example.com", "localhost:5000", "a-b.c"} {
			// a legal host with one separator replaced
			for _, sep := range []string{"_", "@", " ", ",", ":", ";", "/"} {
				m := strings.Replace(good, ".", sep, 1)
				emit("domain", m, oracle["domain"](m))
				emit("scope", m+"/app", oracle["scope"](m+"/app"))
			}
		}
	}
	n := 1500
	if c.Thorough() {
		n = 40000
	}
	const noise = "aZ0_.-/:* \n\\é+@#,;"
	for i := 0; i < n; i++ {
		var rx, base string
		switch g.n(4) {
		case 0:
			rx, base = "fileName", g.fileName()
		case 1:
			rx, base = "domain", g.domain()
		case 2:
			rx, base = "repository", g.repository()
		default:
			rx, base = "scope", g.scope()
		}
		emit(rx, base, oracle[rx](base))
		m := g.mutate(base, noise)
		emit(rx, m, oracle[rx](m))
	}
}

// ---- Run ------------------------------------------------------------------------------------------

// Run generates the cases of C09.
func Run(c *common.Ctx) error {
	g := &gen{c: c}
	repo := os.Getenv("VERIF_REPO")
	if repo == "" {
		repo = "/repo"
	}
	domainRe, repoRe, problem := scopeRegexes(repo)
	if problem != "" {
		c.Count("regex-reader/fallback-to-pinned-expressions")
		c.Note("the scope expressions could not be read from the tree (%s): Go's regexp on the pinned expression texts is the oracle of the regex cases", problem)
	}

	otherKind := map[string]string{"oci": "blob", "blob": "oci"}
	// a document of the other kind to hand to the constructors together with the one under test
	pickOther := func(kind string) *doc {
		ok := otherKind[kind]
		var d doc
		switch r := g.n(10); {
		case r < 4:
			return nil
		case r < 6:
			d = g.validDoc(ok)
		case r < 9:
			d = g.validDoc(ok)
			for try := 0; try < 4; try++ {
				if applyOp(operators[g.n(len(operators))], g, &d) {
					break
				}
			}
		default:
			d = g.randomDoc(ok)
		}
		return &d
	}
	// before: the document the objects of the histories hold before they are edited into d
	// (nil: the fixed well-formed document of that kind)
	emitHist := func(d doc, other *doc, before *doc, tag string) {
		in, valid := abstract(d)
		if other != nil {
			oin, ovalid := abstract(*other)
			in.Other = &oin.Doc
			valid = valid && ovalid
		}
		b := fixedDoc(d.kind, true)
		if before != nil {
			b = *before
			c.Count("history/edited-from-its-valid-original")
		} else {
			c.Count("history/edited-from-the-fixed-document")
		}
		bin, bvalid := abstract(b)
		in.Before = &bin.Doc
		valid = valid && bvalid
		// the document of the histories that start from a refusal: fixed, or a valid one after a random edit
		bad := fixedDoc(d.kind, false)
		if g.chance(0.5) {
			bad = g.validDoc(d.kind)
			for try := 0; try < 4; try++ {
				if applyOp(operators[g.n(len(operators))], g, &bad) {
					break
				}
			}
		}
		badin, badvalid := abstract(bad)
		in.BeforeBad = &badin.Doc
		valid = valid && badvalid
		if !valid {
			c.Count("skipped/not-utf8")
			return
		}
		o := observe(d, other, b, bad)
		c.Emit(in, o)
		verdict := "rejected"
		if o.OkStruct {
			verdict = "accepted"
		}
		c.Count(d.kind + "/" + verdict)
		c.Count("origin/" + tag + "/" + verdict)
		switch {
		case other == nil:
			c.Count("pair/alone")
		case o.OkPair:
			c.Count("pair/" + verdict + "+other/verifier-built")
		default:
			c.Count("pair/" + verdict + "+other/verifier-refused")
		}
	}
	emitPair := func(d doc, other *doc, tag string) { emitHist(d, other, nil, tag) }
	emitDoc := func(d doc, tag string) {
		if g.chance(0.3) {
			b := g.validDoc(d.kind) // the objects of the histories held some other well-formed document before
			emitHist(d, pickOther(d.kind), &b, tag)
			return
		}
		emitPair(d, pickOther(d.kind), tag)
	}
	emitEdited := func(d doc, original doc, tag string) { emitHist(d, pickOther(d.kind), &original, tag) }

	// the constructor guards, and every (valid | invalid) x (valid | invalid | absent) pair of fixed documents
	for _, kind := range []string{"oci", "blob"} {
		for _, v := range []bool{true, false} {
			emitPair(fixedDoc(kind, v), nil, "fixed-pair")
			for _, w := range []bool{true, false} {
				o := fixedDoc(otherKind[kind], w)
				emitPair(fixedDoc(kind, v), &o, "fixed-pair")
			}
		}
	}
	{
		in, _ := abstract(fixedDoc("oci", true))
		in.Kind, in.Rx = "ctor", "no-documents"
		in.Doc = Doc{Statements: []Statement{}}
		c.Emit(in, observeGuards("no-documents"))
		c.Count("ctor/no-documents")
	}

	// fixed witnesses: documents of the repaired defects and of the readings chosen for the property
	for _, kind := range []string{"oci", "blob"} {
		base := doc{kind: kind, version: "1.0", stmts: []stmt{{name: "n", level: "strict", override: map[string]string{}, stores: []string{"ca:s"}, ids: []string{"*"}, scopes: []string{"r.io/a"}}}}
		emitDoc(base, "witness")
		for _, nm := range []string{".", "..", "...", ".a", "a."} {
			d := base.clone()
			d.stmts[0].stores = []string{"ca:" + nm}
			emitDoc(d, "witness")
		}
		d := base.clone()
		d.stmts[0].level, d.stmts[0].stores, d.stmts[0].ids, d.stmts[0].global = "skip", nil, nil, true
		emitDoc(d, "witness") // global skip (blob)
		d = base.clone()
		d.stmts[0].scopes = []string{"r.io/a", "r.io/a"}
		emitDoc(d, "witness") // the same scope twice in one statement
		d = base.clone()
		d.stmts[0].stores = []string{"ca:s", "ca:s"}
		emitDoc(d, "witness") // duplicate stores are fine
		d = base.clone()
		d.stmts[0].ids = []string{"x509.subject:C=US,ST=WA,O=x", "x509.subject:C=US,ST=WA,O=x"}
		emitDoc(d, "witness") // identical identities overlap
		d = base.clone()
		d.stmts[0].ids = []string{"x509.subject:C=US,ST=WA,O=x,CN=", "x509.subject:C=US,ST=WA,O=x"}
		emitDoc(d, "witness") // empty-valued attribute (C04 repair)
		d = base.clone()
		d.stmts[0].ids = []string{"x509.subject:C=US,ST=WA,O=x,CN=,CN=foo"}
		emitDoc(d, "witness")
		d = base.clone()
		d.stmts[0].ids = []string{"x509.subject:C=US,ST=WA,O=Contoso", "x509.subject:C=US,ST=WA,O=CONTOSO,OU=Build"}
		emitDoc(d, "witness") // values that differ in letter case are different values: no overlap
		d = base.clone()
		d.stmts[0].ids = []string{"x509.subject:C=US,ST=WA,O=x,CN=Signer", "x509.subject:C=US,ST=wa,O=x,CN=Signer", "x509.subject:C=US,ST=WA,O=x,CN=signer"}
		emitDoc(d, "witness")
		for _, nm := range []string{" ", "\t", "\u00a0", " \n "} {
			d = base.clone()
			d.stmts[0].name = nm
			emitDoc(d, "witness") // a blank name is a name: the document is well-formed
		}
		for _, h := range badHosts {
			d = base.clone()
			d.stmts[0].scopes = []string{h + "/app"}
			emitDoc(d, "witness") // labels joined by something that is not a dot
		}
	}

	// every single operator on a few valid documents, every ordered pair at least once
	reps := 30
	pairReps := 4
	randomDocs := 7000
	if c.Thorough() {
		reps, pairReps, randomDocs = 200, 30, 70000
	}
	for _, kind := range []string{"oci", "blob"} {
		for i := 0; i < reps*25; i++ {
			emitDoc(g.validDoc(kind), "valid")
		}
		for _, op := range operators {
			for i := 0; i < reps*3; i++ {
				d := g.validDoc(kind)
				original := d.clone()
				if !applyOp(op, g, &d) {
					continue
				}
				emitEdited(d, original, "1:"+op.name)
			}
		}
		for _, op1 := range operators {
			for _, op2 := range operators {
				for i := 0; i < pairReps; i++ {
					d := g.validDoc(kind)
					original := d.clone()
					if !applyOp(op1, g, &d) || !applyOp(op2, g, &d) {
						continue
					}
					emitEdited(d, original, "2")
				}
			}
		}
		for i := 0; i < randomDocs; i++ {
			emitDoc(g.randomDoc(kind), "random")
		}
	}

	g.regexCases(domainRe, repoRe)

	c.Note("documents: grammar of valid OCI and blob documents; %d operators (one per rule + 2 benign) applied singly and in every ordered pair; random assembly from good/bad fragment pools; each document through struct Validate, JSON round trip + Validate, verifier.NewVerifierWithOptions alone; constructors also with a second document of the other kind (absent / valid / edited / random) and through the deprecated New / NewWithOptions; validate-edit-validate histories on one object, on struct copies and across verifier constructions (the edited documents start from their own valid original); nil documents; identities carry go-ldap's ParseDN answer. regex: exhaustive short words over small alphabets + grammar-directed and mutated strings against Go regexp compiled from the source text of the tree under test (file.IsValidFileName called directly; scope through a one-statement document).", len(operators))
	return nil
}

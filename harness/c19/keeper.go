package c19

// The history of results: everything the repository hands out during a sequence (envelope
// bytes, blob descriptors, the descriptor slices given to the ListSignatures callback and their
// annotation maps) is kept - the very objects, not copies - together with a snapshot taken at the
// moment it was returned. After later calls the kept objects are compared with their snapshots
// (a result must stay what it was) and their memory is checked for overlap with each other and
// with caller-owned input (the envelope slice and annotation map handed to PushSignature).

import (
	"crypto/sha256"
	"encoding/json"
	"reflect"
	"sort"
	"unsafe"

	ocispec "github.com/opencontainers/image-spec/specs-go/v1"
)

const (
	keepMaxOne   = 1 << 20  // envelopes up to this size are kept (larger ones only in the large-envelope scenario)
	keepMaxTotal = 96 << 20 // per sequence
	fingerprint  = 48
)

type keptBytes struct {
	b          []byte
	sum        [32]byte
	head, tail []byte
}

type keptList struct {
	ms   []ocispec.Descriptor
	snap string
}

type keeper struct {
	bytes    []keptBytes
	lists    []keptList
	inputs   [][]byte            // caller-owned envelope slices handed to PushSignature
	inMaps   []map[string]string // caller-owned annotation maps handed to PushSignature
	total    int
	allowBig bool
	broken   string // first thing found wrong
}

func snapDescs(ms []ocispec.Descriptor) string {
	b, _ := json.Marshal(ms)
	return string(b)
}

func (k *keeper) keepBytes(b []byte) {
	if k == nil || len(b) == 0 || (len(b) > keepMaxOne && !k.allowBig) || k.total+len(b) > keepMaxTotal {
		return
	}
	k.total += len(b)
	kb := keptBytes{b: b, sum: sha256.Sum256(b)}
	n := fingerprint
	if n > len(b) {
		n = len(b)
	}
	kb.head = append([]byte(nil), b[:n]...)
	kb.tail = append([]byte(nil), b[len(b)-n:]...)
	k.bytes = append(k.bytes, kb)
}

func (k *keeper) keepList(ms []ocispec.Descriptor) {
	if k == nil || len(ms) == 0 {
		return
	}
	k.lists = append(k.lists, keptList{ms: ms, snap: snapDescs(ms)})
}

func (k *keeper) fail(what string) bool {
	if k.broken == "" {
		k.broken = what
	}
	return false
}

// quick compares the two ends of every kept envelope with its snapshot (cheap: after every call).
func (k *keeper) quick() bool {
	ok := true
	for i := range k.bytes {
		kb := &k.bytes[i]
		n := len(kb.head)
		if string(kb.b[:n]) != string(kb.head) || string(kb.b[len(kb.b)-n:]) != string(kb.tail) {
			ok = k.fail("the bytes of an earlier FetchSignatureBlob result changed after a later call")
		}
	}
	return ok
}

// listsIntact compares every kept descriptor list with its snapshot.
func (k *keeper) listsIntact() bool {
	ok := true
	for i := range k.lists {
		if snapDescs(k.lists[i].ms) != k.lists[i].snap {
			ok = k.fail("descriptors returned earlier (ListSignatures callback / blob descriptor) changed after a later call")
		}
	}
	return ok
}

// full re-hashes every kept envelope and compares every kept descriptor list.
func (k *keeper) full() bool {
	ok := k.quick()
	if !k.listsIntact() {
		ok = false
	}
	for i := range k.bytes {
		if sha256.Sum256(k.bytes[i].b) != k.bytes[i].sum {
			ok = k.fail("the digest of an earlier FetchSignatureBlob result changed after a later call")
		}
	}
	return ok
}

type span struct {
	lo, hi uintptr
	input  bool
}

func overlaps(spans []span, allowInputPairs bool) bool {
	sort.Slice(spans, func(i, j int) bool { return spans[i].lo < spans[j].lo })
	var maxHi uintptr
	maxIsInput := false
	for i, s := range spans {
		if i > 0 && s.lo < maxHi && !(allowInputPairs && s.input && maxIsInput) {
			return true
		}
		if s.hi > maxHi {
			maxHi, maxIsInput = s.hi, s.input
		}
	}
	return false
}

// aliasFree checks that no two results share memory, and none shares memory with caller input.
func (k *keeper) aliasFree() bool {
	ok := true
	var spans []span
	for _, kb := range k.bytes {
		p := uintptr(unsafe.Pointer(unsafe.SliceData(kb.b)))
		spans = append(spans, span{p, p + uintptr(cap(kb.b)), false})
	}
	for _, in := range k.inputs {
		if cap(in) > 0 {
			p := uintptr(unsafe.Pointer(unsafe.SliceData(in)))
			spans = append(spans, span{p, p + uintptr(cap(in)), true})
		}
	}
	if overlaps(spans, true) {
		ok = k.fail("two FetchSignatureBlob results (or a result and the envelope slice handed to PushSignature) share memory")
	}
	spans = spans[:0]
	maps := map[uintptr]int{}
	for _, m := range k.inMaps {
		if m != nil {
			maps[reflect.ValueOf(m).Pointer()] = -1
		}
	}
	var d ocispec.Descriptor
	for li, kl := range k.lists {
		p := uintptr(unsafe.Pointer(unsafe.SliceData(kl.ms)))
		spans = append(spans, span{p, p + uintptr(cap(kl.ms))*unsafe.Sizeof(d), false})
		for _, m := range kl.ms {
			if m.Annotations == nil {
				continue
			}
			mp := reflect.ValueOf(m.Annotations).Pointer()
			if _, dup := maps[mp]; dup {
				ok = k.fail("an annotation map is shared between two returned descriptors, or with the map handed to PushSignature")
			}
			maps[mp] = li
		}
	}
	if overlaps(spans, false) {
		ok = k.fail("two descriptor slices handed to the ListSignatures callback share memory")
	}
	return ok
}

// scribble overwrites everything the caller owns: earlier results and its own inputs.
func (k *keeper) scribble() {
	for _, kb := range k.bytes {
		for i := range kb.b {
			kb.b[i] = 0xAA
		}
	}
	for _, in := range k.inputs {
		if len(in) <= keepMaxOne {
			for i := range in {
				in[i] = 0x55
			}
		}
	}
	for _, m := range k.inMaps {
		for key := range m {
			m[key] = "scribbled"
		}
		if m != nil {
			m["scribble"] = "x"
		}
	}
	for _, kl := range k.lists {
		for i := range kl.ms {
			if kl.ms[i].Annotations != nil {
				for key := range kl.ms[i].Annotations {
					kl.ms[i].Annotations[key] = "scribbled"
				}
				kl.ms[i].Annotations["scribble"] = "x"
			}
			kl.ms[i] = ocispec.Descriptor{MediaType: "scribbled"}
		}
	}
	k.bytes, k.lists = nil, nil
}

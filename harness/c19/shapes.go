package c19

// Envelope bytes of a given SHAPE: the repository must store and return an envelope byte for byte,
// whatever it looks like - compact or pretty-printed JSON, JSON with escapes a re-encoder would
// normalise, duplicate keys, a byte order mark, CBOR-like binary. Two envelopes may share their CORE
// (the JSON value) and differ only in insignificant white space: they are still two envelopes.

import (
	"bytes"
	"crypto/sha256"
	"encoding/json"
	"fmt"
	"strings"
)

type shapeSpec struct {
	shape string
	core  int // label the content is derived from (several blobs may share a core, in different shapes)
}

// curShapes: shapes of the blobs of the sequence being executed (blobs not listed have the plain shape)
var curShapes = map[int]shapeSpec{}

var jsonShapes = []string{"json-compact", "json-indented", "json-spaced", "json-trailing-newline", "json-crlf-indented", "json-leading-space",
	"json-tab-indented", "json-escapes", "json-duplicate-keys", "json-bom", "json-numbers", "json-array-top", "cbor-like-binary", "all-white-space-bytes"}

func shapedCompact(core int, pad int, variant string) string {
	agent := "notation-plugin/1.0"
	name := "Signer A"
	switch variant {
	case "escapes": // legal escapes a re-encoder would rewrite
		agent = `notation-plugin\/1.0 Aé<>& 😀`
		name = `Signer A "quoted\" \\ back`
	}
	h := sha256.Sum256([]byte(fmt.Sprint("core", core)))
	extra := ""
	switch variant {
	case "dup":
		extra = `,"pad":"first"`
	case "numbers":
		extra = `,"n":1.0,"e":1E2,"z":-0,"big":12345678901234567890`
	}
	return fmt.Sprintf(`{"payload":"core-%010d-%x","protected":"eyJhbGciOiJQUzI1NiJ9","header":{"x5c":["MIIB","MIIC"],"io.cncf.notary.signingAgent":"%s","name":"%s"},"signature":"%x"%s,"pad":"%s"}`,
		core, h[:8], agent, name, h[8:24], extra, strings.Repeat("p", pad))
}

// shapedRender renders the envelope of a core in a shape with `pad` filler characters inside a string value.
func shapedRender(core int, shape string, pad int) []byte {
	switch shape {
	case "json-compact":
		return []byte(shapedCompact(core, pad, ""))
	case "json-indented", "json-crlf-indented", "json-tab-indented":
		var b bytes.Buffer
		ind := "  "
		if shape == "json-tab-indented" {
			ind = "\t"
		}
		if err := json.Indent(&b, []byte(shapedCompact(core, pad, "")), "", ind); err != nil {
			panic(err)
		}
		s := b.String() + "\n"
		if shape == "json-crlf-indented" {
			s = strings.ReplaceAll(s, "\n", "\r\n")
		}
		return []byte(s)
	case "json-spaced":
		s := shapedCompact(core, pad, "")
		s = strings.ReplaceAll(s, `":`, `": `)
		s = strings.ReplaceAll(s, `,"`, `, "`)
		return []byte(s)
	case "json-trailing-newline":
		return []byte(shapedCompact(core, pad, "") + "\n")
	case "json-leading-space":
		return []byte(" \n\t" + shapedCompact(core, pad, "") + "  ")
	case "json-escapes":
		return []byte(shapedCompact(core, pad, "escapes"))
	case "json-duplicate-keys":
		return []byte(shapedCompact(core, pad, "dup"))
	case "json-bom":
		return []byte("\xef\xbb\xbf" + shapedCompact(core, pad, ""))
	case "json-numbers":
		return []byte(shapedCompact(core, pad, "numbers") + "\n")
	case "json-array-top":
		return []byte("[ " + shapedCompact(core, pad, "") + " , null , \"x\" ]\n")
	case "cbor-like-binary":
		h := sha256.Sum256([]byte(fmt.Sprint("cbor", core)))
		b := append([]byte{0xd2, 0x84, 0x43, 0xa1, 0x01, 0x26, 0xa0, 0x00, 0xff, ' ', '\n', '{', '}'}, h[:]...)
		b = append(b, []byte(fmt.Sprintf("%010d", core))...)
		return append(b, bytes.Repeat([]byte{0x00, ' '}, (pad+1)/2)[:pad]...)
	case "all-white-space-bytes":
		return append([]byte(fmt.Sprintf(" \t\r\n%010d\n", core)), bytes.Repeat([]byte(" \n"), (pad+1)/2)[:pad]...)
	}
	panic("unknown shape " + shape)
}

func shapedMin(core int, shape string) int64 { return int64(len(shapedRender(core, shape, 0))) }

// shapedContent is the envelope of exactly `size` bytes (size >= shapedMin).
func shapedContent(sp shapeSpec, size int64) []byte {
	min := shapedMin(sp.core, sp.shape)
	if size < min {
		panic(fmt.Sprintf("shape %s needs %d bytes, got %d", sp.shape, min, size))
	}
	b := shapedRender(sp.core, sp.shape, int(size-min))
	if int64(len(b)) != size {
		panic(fmt.Sprintf("shape %s rendered %d bytes, wanted %d", sp.shape, len(b), size))
	}
	return b
}

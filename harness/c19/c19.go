// Package c19 - correspondence harness for C19 (stub: not built yet).
package c19

import (
	"errors"

	"github.com/notaryproject/notation-go/xverif/common"
)

// Run generates the cases of C19.
func Run(c *common.Ctx) error { return errors.New("C19: harness not built yet") }

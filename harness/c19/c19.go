// Package c19 drives the real registry.Repository (PushSignature / ListSignatures /
// FetchSignatureBlob) over real OCI image layouts on disk: sequences of signature pushes for
// several subject artifacts, interleaved with foreign referrers and hand-built hostile
// manifests written directly with oras, listing every subject and fetching every listed
// signature after every step.
package c19

import (
	"context"
	"crypto/sha256"
	"encoding/json"
	"fmt"
	"io"
	"math/rand"
	"os"
	"path/filepath"
	"runtime"
	"sort"
	"strings"
	"time"

	"github.com/notaryproject/notation-go/registry"
	"github.com/notaryproject/notation-go/xverif/common"
	"github.com/opencontainers/go-digest"
	ocispec "github.com/opencontainers/image-spec/specs-go/v1"
	"oras.land/oras-go/v2"
	"oras.land/oras-go/v2/content/oci"
)

const (
	mtImage    = ocispec.MediaTypeImageManifest
	mtArtifact = "application/vnd.oci.artifact.manifest.v1+json"
	mtIndex    = ocispec.MediaTypeImageIndex
	mtJose     = "application/jose+json"
	mtCose     = "application/cose"
	notationT  = registry.ArtifactTypeNotation
	otherT     = "application/vnd.example.sbom.v1"
	capM       = 4 * 1024 * 1024  // mirrored from the model's facts; a wrong value shows as disagreement
	capB       = 32 * 1024 * 1024 //
	timeMark   = "<time>"
	unknownID  = 1 << 30
)

// ---- JSON shapes of the Lean structures ---------------------------------------------------

type Desc struct {
	Mt   string `json:"mt"`
	Dig  int    `json:"dig"`
	Size int64  `json:"size"`
}

type Layer struct {
	Mt   string `json:"mt"`
	Blob int    `json:"blob"`
	Size int64  `json:"size"`
}

type KV struct {
	K string `json:"k"`
	V string `json:"v"`
}

type Op struct {
	Kind    string  `json:"kind"`
	Id      int     `json:"id"`
	Subject *Desc   `json:"subject"`
	Mt      string  `json:"mt"`
	Blob    int     `json:"blob"`
	Bsize   int64   `json:"bsize"`
	Msize   int64   `json:"msize"`
	Atype   string  `json:"atype"`
	TopType string  `json:"topType"`
	Layers  []Layer `json:"layers"`
	Stray   []Layer `json:"stray"` // raw image / artifact manifest: the list member of the OTHER format ("blobs" / "layers")
	Annos   []KV    `json:"annos"`

	padTo   int64  // raw: pad the manifest to exactly this many bytes (0: natural size)
	flavour string // for the distribution histogram
}

type Input struct {
	Mode    string `json:"mode"`
	Ops     []Op   `json:"ops"`
	Queries []Desc `json:"queries"`
	Probes  []Desc `json:"probes"`
	// whether oras could re-open the layout from disk at the end (measured, see README: oras'
	// loader fails on a manifest whose subject descriptor states a wrong size for existing content)
	ReopenOk bool `json:"reopenOk"`
	// concurrency stage: pushes issued concurrently as the first notation pushes into a fresh layout
	Race        []Op `json:"race"`
	RaceSubject Desc `json:"raceSubject"`
	// context stage: 0 = context done before ListSignatures, k = cancelled after the k-th manifest fetch
	Cuts []int `json:"cuts"`

	racePinned, raceSharedRepo bool
}

type FetchObs struct {
	Ok           bool   `json:"ok"`
	Blob         int    `json:"blob"`
	Mt           string `json:"mt"`
	ManifestRead bool   `json:"manifestRead"`
	BlobRead     bool   `json:"blobRead"`
}

type SigObs struct {
	Id    int      `json:"id"`
	Annos []KV     `json:"annos"`
	Fetch FetchObs `json:"fetch"`
}

type ListObs struct {
	Ok      bool     `json:"ok"`
	Sigs    []SigObs `json:"sigs"`
	BigRead bool     `json:"bigRead"`
}

type StepObs struct {
	Ok     bool      `json:"ok"`
	DescOk bool      `json:"descOk"`
	Lists  []ListObs `json:"lists"`
}

type Obs struct {
	Steps      []StepObs  `json:"steps"`
	Probes     []FetchObs `json:"probes"`
	Reopened   []ListObs  `json:"reopened"`
	ReopenSame bool       `json:"reopenSame"`
	RaceOks    []bool     `json:"raceOks"`
	RaceList   ListObs    `json:"raceList"`
	Cancelled  []CtxObs   `json:"cancelled"`
	Retained   bool       `json:"retained"`
	Unaliased  bool       `json:"unaliased"`
}

// ---- the instrumented target ---------------------------------------------------------------

// logTarget is a plain oras.GraphTarget (neither registry.Repository nor ReferrerLister, exactly
// like *oci.Store) that records Fetch calls and optionally answers Predecessors by digest only.
type logTarget struct {
	oras.GraphTarget
	fetched    []digest.Digest
	digestOnly bool
	known      []ocispec.Descriptor // every subject descriptor of the sequence
}

func (t *logTarget) Fetch(ctx context.Context, d ocispec.Descriptor) (io.ReadCloser, error) {
	t.fetched = append(t.fetched, d.Digest)
	return t.GraphTarget.Fetch(ctx, d)
}

func (t *logTarget) Predecessors(ctx context.Context, d ocispec.Descriptor) ([]ocispec.Descriptor, error) {
	if !t.digestOnly {
		return t.GraphTarget.Predecessors(ctx, d)
	}
	// a digest-keyed referrers index: referrers of any descriptor with this digest
	seen := map[digest.Digest]bool{}
	var out []ocispec.Descriptor
	asked := false
	for _, k := range t.known {
		if k.Digest != d.Digest {
			continue
		}
		if k.MediaType == d.MediaType && k.Size == d.Size {
			asked = true
		}
		ps, err := t.GraphTarget.Predecessors(ctx, k)
		if err != nil {
			return nil, err
		}
		for _, p := range ps {
			if !seen[p.Digest] {
				seen[p.Digest] = true
				out = append(out, p)
			}
		}
	}
	if !asked {
		ps, err := t.GraphTarget.Predecessors(ctx, d)
		if err != nil {
			return nil, err
		}
		for _, p := range ps {
			if !seen[p.Digest] {
				seen[p.Digest] = true
				out = append(out, p)
			}
		}
	}
	return out, nil
}

// ---- concrete world --------------------------------------------------------------------------

var subjectBytes [3][]byte // the subject artifacts: real image manifests, same in every layout

func init() {
	for k := range subjectBytes {
		m := map[string]any{
			"schemaVersion": 2,
			"mediaType":     mtImage,
			"config":        map[string]any{"mediaType": "application/vnd.oci.image.config.v1+json", "digest": digest.FromString(fmt.Sprint("config", k)).String(), "size": 7 + k},
			"layers":        []any{map[string]any{"mediaType": "application/vnd.oci.image.layer.v1.tar", "digest": digest.FromString(fmt.Sprint("layer", k)).String(), "size": 100 + k}},
			"annotations":   map[string]string{"name": strings.Repeat("s", k+1)},
		}
		b, _ := json.Marshal(m)
		subjectBytes[k] = b
	}
}

func subjectDesc(k int) Desc { return Desc{Mt: mtImage, Dig: k, Size: int64(len(subjectBytes[k]))} }

type world struct {
	dir        string
	store      *oci.Store
	tgt        *logTarget
	repo       registry.Repository
	blobSize   map[int]int64 // real byte size of the bytes labelled id
	blobDigest map[int]digest.Digest
	blobByDig  map[digest.Digest]int
	manByDig   map[digest.Digest]int
	manDigest  map[int]digest.Digest
	manSize    map[digest.Digest]int64
	pushedOps  map[int]*Op
	lastDescOk bool    // the last PushSignature returned descriptors of what was pushed
	keep       *keeper // history of everything the repository returned (nil: not kept)
}

// blobContent is the envelope labelled id: distinct for distinct labels, any size >= 24.
func blobContent(id int, size int64) []byte {
	if sp, shaped := curShapes[id]; shaped {
		return shapedContent(sp, size)
	}
	b := make([]byte, size)
	head := fmt.Sprintf("sig-envelope-%010d|", id)
	n := copy(b, head)
	if n < len(b) {
		seed := []byte(fmt.Sprintf("%x", sha256.Sum256([]byte(head))))
		copy(b[n:], seed)
		for filled := n + len(seed); filled < len(b); filled *= 2 {
			copy(b[filled:], b[n:filled])
		}
	}
	return b
}

func (w *world) blob(id int) (digest.Digest, []byte) {
	size, ok := w.blobSize[id]
	if !ok {
		panic(fmt.Sprintf("blob %d has no size", id))
	}
	b := blobContent(id, size)
	if d, ok := w.blobDigest[id]; ok {
		return d, b
	}
	d := digest.FromBytes(b)
	w.blobDigest[id] = d
	w.blobByDig[d] = id
	return d, b
}

func (w *world) blobDig(id int) digest.Digest {
	if d, ok := w.blobDigest[id]; ok {
		return d
	}
	d, _ := w.blob(id)
	return d
}

func digOf(d int) digest.Digest {
	if d >= 0 && d < len(subjectBytes) {
		return digest.FromBytes(subjectBytes[d])
	}
	return digest.FromString(fmt.Sprint("foreign-subject-", d))
}

func concDesc(d Desc) ocispec.Descriptor {
	return ocispec.Descriptor{MediaType: d.Mt, Digest: digOf(d.Dig), Size: d.Size}
}

func newWorld(dir string, in *Input, nSubj int) (*world, error) {
	if err := os.MkdirAll(dir, 0o755); err != nil {
		return nil, err
	}
	store, err := oci.New(dir)
	if err != nil {
		return nil, err
	}
	w := &world{dir: dir, store: store, blobSize: map[int]int64{}, blobDigest: map[int]digest.Digest{}, blobByDig: map[digest.Digest]int{},
		manByDig: map[digest.Digest]int{}, manDigest: map[int]digest.Digest{}, manSize: map[digest.Digest]int64{}, pushedOps: map[int]*Op{}}
	ctx := context.Background()
	// the subject artifacts are real manifests of the layout
	for k := 0; k < nSubj; k++ {
		d := ocispec.Descriptor{MediaType: mtImage, Digest: digest.FromBytes(subjectBytes[k]), Size: int64(len(subjectBytes[k]))}
		if err := store.Push(ctx, d, strings.NewReader(string(subjectBytes[k]))); err != nil {
			return nil, err
		}
		if err := store.Tag(ctx, d, fmt.Sprintf("v%d", k)); err != nil {
			return nil, err
		}
	}
	w.tgt = &logTarget{GraphTarget: store, digestOnly: in.Mode == "digestOnly"}
	seen := map[Desc]bool{}
	add := func(k Desc) {
		c := concDesc(k)
		if !seen[k] {
			seen[k] = true
			w.tgt.known = append(w.tgt.known, c)
		}
	}
	for _, o := range in.Ops {
		if o.Subject != nil {
			add(*o.Subject)
		}
	}
	for _, q := range in.Queries {
		add(q)
	}
	w.repo = registry.NewRepository(w.tgt)
	return w, nil
}

// rawManifest renders the manifest of a raw operation; deterministic in the operation.
func (w *world) rawManifest(o *Op) ([]byte, error) {
	descJSON := func(mt string, dg digest.Digest, size int64) map[string]any {
		return map[string]any{"mediaType": mt, "digest": dg.String(), "size": size}
	}
	var layers []any
	for _, l := range o.Layers {
		layers = append(layers, descJSON(l.Mt, w.blobDig(l.Blob), l.Size))
	}
	m := map[string]any{"x-nonce": o.Id}
	switch o.Mt {
	case mtImage:
		m["schemaVersion"] = 2
		m["mediaType"] = mtImage
		m["config"] = descJSON(o.Atype, ocispec.DescriptorEmptyJSON.Digest, ocispec.DescriptorEmptyJSON.Size)
		if layers == nil {
			layers = []any{}
		}
		m["layers"] = layers
		if o.TopType != "" {
			m["artifactType"] = o.TopType
		}
		if len(o.Stray) > 0 { // a polyglot: the legacy format's list in an image manifest
			var st []any
			for _, l := range o.Stray {
				st = append(st, descJSON(l.Mt, w.blobDig(l.Blob), l.Size))
			}
			m["blobs"] = st
		}
	case mtArtifact:
		m["mediaType"] = mtArtifact
		m["artifactType"] = o.Atype
		if layers != nil {
			m["blobs"] = layers
		}
		if len(o.Stray) > 0 { // a polyglot: the image format's list in a legacy artifact manifest
			var st []any
			for _, l := range o.Stray {
				st = append(st, descJSON(l.Mt, w.blobDig(l.Blob), l.Size))
			}
			m["layers"] = st
		}
	default: // an image index (or anything else): no layers, no artifact type the code looks at
		m["schemaVersion"] = 2
		m["mediaType"] = o.Mt
		m["manifests"] = []any{}
		m["artifactType"] = o.Atype
	}
	if strings.HasPrefix(o.flavour, "hostile:polyglot") && o.Id%2 == 1 {
		// unknown extra members no decoder of either format knows
		m["signatures"] = []any{map[string]any{"protected": "e30", "signature": "AA"}}
		m["manifests"] = []any{descJSON(mtImage, digest.FromString("nothing"), 7)}
		m["x-layers"] = layers
	}
	if o.Subject != nil {
		c := concDesc(*o.Subject)
		m["subject"] = descJSON(c.MediaType, c.Digest, c.Size)
	}
	if len(o.Annos) > 0 {
		a := map[string]string{}
		for _, kv := range o.Annos {
			a[kv.K] = kv.V
		}
		m["annotations"] = a
	}
	b, err := json.Marshal(m)
	if err != nil {
		return nil, err
	}
	if o.padTo > 0 {
		const overhead = int64(len(`,"x-pad":""`))
		n := o.padTo - int64(len(b)) - overhead
		if n < 0 {
			return nil, fmt.Errorf("cannot pad manifest of %d bytes to %d", len(b), o.padTo)
		}
		m["x-pad"] = strings.Repeat("p", int(n))
		if b, err = json.Marshal(m); err != nil {
			return nil, err
		}
		if int64(len(b)) != o.padTo {
			return nil, fmt.Errorf("padding gave %d bytes, wanted %d", len(b), o.padTo)
		}
	}
	return b, nil
}

func (w *world) exec(o *Op) (bool, error) {
	ctx := context.Background()
	switch o.Kind {
	case "push":
		_, body := w.blob(o.Blob)
		var annos map[string]string
		if len(o.Annos) > 0 {
			annos = map[string]string{}
			for _, kv := range o.Annos {
				annos[kv.K] = kv.V
			}
		}
		if o.Subject == nil {
			return false, fmt.Errorf("push without subject")
		}
		before := cloneMap(annos)
		if w.keep != nil {
			w.keep.inputs = append(w.keep.inputs, body)
			w.keep.inMaps = append(w.keep.inMaps, annos)
		}
		blobDesc, manDesc, err := w.repo.PushSignature(ctx, o.Mt, body, concDesc(*o.Subject), annos)
		if !sameMap(before, annos) {
			return false, fmt.Errorf("PushSignature modified the caller's annotation map")
		}
		if err != nil {
			o.Msize = 0
			return false, nil
		}
		// what PushSignature hands back must describe what was pushed (an observable, not a harness failure)
		w.lastDescOk = blobDesc.Digest == w.blobDig(o.Blob) && blobDesc.MediaType == o.Mt && blobDesc.Size == o.Bsize &&
			manDesc.MediaType == mtImage
		for _, kv := range o.Annos {
			if manDesc.Annotations[kv.K] != kv.V {
				w.lastDescOk = false
			}
		}
		if _, dup := w.manByDig[manDesc.Digest]; dup {
			return false, fmt.Errorf("two operations produced the same manifest digest %s", manDesc.Digest)
		}
		o.Msize = manDesc.Size
		w.manByDig[manDesc.Digest] = o.Id
		w.manDigest[o.Id] = manDesc.Digest
		w.manSize[manDesc.Digest] = manDesc.Size
		w.pushedOps[o.Id] = o
		return true, nil
	case "raw":
		b, err := w.rawManifest(o)
		if err != nil {
			return false, err
		}
		d := ocispec.Descriptor{MediaType: o.Mt, Digest: digest.FromBytes(b), Size: int64(len(b))}
		if _, dup := w.manByDig[d.Digest]; dup {
			return false, fmt.Errorf("two operations produced the same manifest digest %s", d.Digest)
		}
		o.Msize = d.Size
		if err := w.store.Push(ctx, d, strings.NewReader(string(b))); err != nil {
			return false, fmt.Errorf("writing a raw manifest: %w", err)
		}
		w.manByDig[d.Digest] = o.Id
		w.manDigest[o.Id] = d.Digest
		w.manSize[d.Digest] = d.Size
		return true, nil
	case "blob":
		dg, body := w.blob(o.Blob)
		d := ocispec.Descriptor{MediaType: "application/octet-stream", Digest: dg, Size: int64(len(body))}
		if err := w.store.Push(ctx, d, strings.NewReader(string(body))); err != nil {
			return false, nil
		}
		return true, nil
	}
	return false, fmt.Errorf("unknown op kind %q", o.Kind)
}

func cloneMap(m map[string]string) map[string]string {
	if m == nil {
		return nil
	}
	c := map[string]string{}
	for k, v := range m {
		c[k] = v
	}
	return c
}

func sameMap(a, b map[string]string) bool {
	if len(a) != len(b) {
		return false
	}
	for k, v := range a {
		if w, ok := b[k]; !ok || w != v {
			return false
		}
	}
	return true
}

// fetchObs runs FetchSignatureBlob and canonicalises the result.
func (w *world) fetchObs(repo registry.Repository, tgt *logTarget, d ocispec.Descriptor) FetchObs {
	if tgt != nil {
		tgt.fetched = nil
	}
	body, bd, err := repo.FetchSignatureBlob(context.Background(), d)
	var fo FetchObs
	if tgt != nil {
		for _, f := range tgt.fetched {
			if f == d.Digest {
				fo.ManifestRead = true
			} else {
				fo.BlobRead = true
			}
		}
	}
	if err != nil {
		return fo
	}
	w.keep.keepBytes(body)
	w.keep.keepList([]ocispec.Descriptor{bd})
	fo.Ok = true
	fo.Mt = bd.MediaType
	id, known := w.blobByDig[digest.FromBytes(body)]
	if !known || bd.Digest != digest.FromBytes(body) || bd.Size != int64(len(body)) {
		id = unknownID
	}
	fo.Blob = id
	return fo
}

func (w *world) listObs(repo registry.Repository, tgt *logTarget, q Desc) ListObs {
	if tgt != nil {
		tgt.fetched = nil
	}
	var descs []ocispec.Descriptor
	err := repo.ListSignatures(context.Background(), concDesc(q), func(ms []ocispec.Descriptor) error {
		w.keep.keepList(ms) // the callback's own slice, not a copy
		descs = append(descs, ms...)
		return nil
	})
	lo := ListObs{Ok: err == nil, Sigs: []SigObs{}}
	if tgt != nil {
		for _, f := range tgt.fetched {
			if w.manSize[f] > capM {
				lo.BigRead = true
			}
		}
	}
	if err != nil {
		if len(descs) > 0 {
			lo.Sigs = append(lo.Sigs, SigObs{Id: unknownID, Annos: []KV{}})
		}
		return lo
	}
	for _, d := range descs {
		id, known := w.manByDig[d.Digest]
		if !known {
			id = unknownID
		}
		so := SigObs{Id: id, Annos: []KV{}}
		if d.ArtifactType != notationT {
			so.Id = unknownID + 1
		}
		for k, v := range d.Annotations {
			if o, pushed := w.pushedOps[id]; pushed && k == ocispec.AnnotationCreated {
				supplied := false
				for _, kv := range o.Annos {
					if kv.K == k {
						supplied = true
					}
				}
				if !supplied {
					if _, err := time.Parse(time.RFC3339, v); err == nil {
						v = timeMark
					}
				}
			}
			so.Annos = append(so.Annos, KV{k, v})
		}
		sort.Slice(so.Annos, func(i, j int) bool { return so.Annos[i].K < so.Annos[j].K })
		so.Fetch = w.fetchObs(repo, tgt, d)
		lo.Sigs = append(lo.Sigs, so)
	}
	sort.SliceStable(lo.Sigs, func(i, j int) bool { return lo.Sigs[i].Id < lo.Sigs[j].Id })
	return lo
}

// ---- generator -------------------------------------------------------------------------------

// artifact types that are NOT the notation type but resemble it
var lookAlikes = []string{
	"application/vnd.cncf.notary.Signature", "APPLICATION/VND.CNCF.NOTARY.SIGNATURE", "Application/vnd.cncf.notary.signature",
	"application/vnd.cncf.notary.signature ", " application/vnd.cncf.notary.signature", "application/vnd.cncf.notary.signature\t",
	"application/vnd.cncf.notary.signature; charset=utf-8", "application/vnd.cncf.notary.signature;v=1",
	"application/vnd.cncf.notary.signature+json", "application/vnd.cncf.notary.signature.v2", "application/vnd.cncf.notary.signatures",
	"x-application/vnd.cncf.notary.signature", "application/vnd.cncf.notary", "application/vnd.cncf.notary.signatur",
	"application/vnd.cncf.notary.signature/", "application/vnd-cncf-notary-signature", "",
}

func lookAlikeKind(at string) string {
	switch {
	case at == "":
		return "empty"
	case strings.EqualFold(at, notationT):
		return "letter-case"
	case strings.TrimSpace(at) == notationT:
		return "white-space"
	case strings.HasPrefix(at, notationT+";"):
		return "parameter"
	case strings.HasPrefix(at, notationT):
		return "suffix"
	case strings.HasSuffix(at, notationT):
		return "prefix"
	case strings.HasPrefix(notationT, at):
		return "truncated"
	}
	return "other"
}

var annoKeys = []string{"io.cncf.notary.x509chain.thumbprint#S256", "a.first", "org.example.build", "org.opencontainers.image.title", "zz.last", "org.opencontainers.image.created"}

type gen struct {
	r        *rand.Rand
	thorough bool
	nSubj    int
	nextBlob int
	sizes    map[int]int64
	ops      []Op
	big      int // operations involving very large contents so far
	shaped   []shapeSpec
}

func (g *gen) freshBlob(size int64) int {
	g.nextBlob++
	g.sizes[g.nextBlob] = size
	return g.nextBlob
}

func (g *gen) envSize() int64 {
	switch g.r.Intn(6) {
	case 0:
		return 24
	case 1:
		return int64(25 + g.r.Intn(40))
	case 2:
		return int64(300 + g.r.Intn(300))
	case 3:
		return 2048
	case 4:
		return int64(5000 + g.r.Intn(4000))
	default:
		return int64(60000 + g.r.Intn(20000))
	}
}

// legal envelope media types that are not in the canonical lower-case, parameter-free form
var oddMediaTypes = []string{
	`application/cose; cose-type="cose-sign1"`, "application/cose;cose-type=cose-sign1", "application/cose ; cose-type=cose-sign1",
	"application/COSE", "Application/Jose+JSON", "application/jose+json; charset=utf-8", "application/jose+json;charset=UTF-8",
	"application/vnd.example.Envelope.v1+json", "application/vnd.cncf.notary.signature", "application/x.notary-test; a=1; b=\"two words\"",
	"APPLICATION/VND.EXAMPLE.SIG", "application/octet-stream", "text/plain; charset=us-ascii",
}

// legal RFC 3339 values of the created annotation (all accepted by time.Parse(time.RFC3339, ..))
var createdForms = []string{
	"2023-04-05T06:07:08Z", "2001-01-01T00:00:00+02:00", "2023-03-14T16:10:02+08:00", "2023-03-14T08:10:02.5Z",
	"2023-03-14T01:10:02.123456789-07:00", "2023-03-14T08:10:02+00:00", "1999-12-31T23:59:59-00:00", "2024-02-29T12:00:00.000Z",
	"2023-03-14T08:10:02.10+05:30",
}

// annotation values of unusual but legal shape
var oddValues = []string{
	"", " leading and trailing ", "UPPER lower", "tab\there", "line\nbreak", `quote " backslash \\ slash /`, "ünïcödé 署名 ✓",
	"<html>&amp;</html>", "0", "null", "true", `{"json":"inside"}`, "  ", "a=b;c=d", "sha256:0000",
}

func (g *gen) envMt() string {
	switch g.r.Intn(5) {
	case 0, 1:
		return mtJose
	case 2:
		return mtCose
	}
	return oddMediaTypes[g.r.Intn(len(oddMediaTypes))]
}

func (g *gen) annos(allowCreated bool) []KV {
	out := []KV{}
	n := g.r.Intn(4)
	if g.r.Intn(3) == 0 {
		n = 0
	}
	for _, i := range g.r.Perm(len(annoKeys)) {
		if len(out) >= n {
			break
		}
		k := annoKeys[i]
		if k == ocispec.AnnotationCreated && !allowCreated {
			continue
		}
		v := fmt.Sprintf("v%d", g.r.Intn(50))
		if g.r.Intn(3) == 0 {
			v = oddValues[g.r.Intn(len(oddValues))]
		}
		if k == ocispec.AnnotationCreated {
			v = createdForms[g.r.Intn(len(createdForms))]
		}
		out = append(out, KV{k, v})
	}
	// a created annotation in one of its legal forms on every fourth annotation set
	if allowCreated && g.r.Intn(4) == 0 {
		has := false
		for _, kv := range out {
			if kv.K == ocispec.AnnotationCreated {
				has = true
			}
		}
		if !has {
			out = append(out, KV{ocispec.AnnotationCreated, createdForms[g.r.Intn(len(createdForms))]})
		}
	}
	sort.Slice(out, func(i, j int) bool { return out[i].K < out[j].K })
	return out
}

func (g *gen) subj() Desc { return subjectDesc(g.r.Intn(g.nSubj)) }

// variant returns a descriptor that differs from a subject in exactly one field.
func (g *gen) variant(s Desc) (Desc, string) {
	switch g.r.Intn(5) {
	case 0:
		s.Size++
		return s, "size+1"
	case 1:
		s.Size--
		return s, "size-1"
	case 2:
		s.Mt = mtIndex
		return s, "mediaType=index"
	case 3:
		s.Mt = mtArtifact
		return s, "mediaType=artifact"
	default:
		s.Dig = 100 + s.Dig
		return s, "digest"
	}
}

func (g *gen) push(subject Desc, flavour string) Op {
	if g.r.Intn(3) == 0 {
		return g.shapedPush(subject, flavour, jsonShapes[g.r.Intn(len(jsonShapes))], 0)
	}
	size := g.envSize()
	return Op{Kind: "push", Subject: &subject, Mt: g.envMt(), Blob: g.freshBlob(size), Bsize: size,
		Layers: []Layer{}, Annos: g.annos(true), flavour: flavour}
}

// shapedPush pushes an envelope of a given shape (JSON in its many spellings, binary). core = 0: a new
// core, or - one time in four - the core of an earlier shaped envelope of ANOTHER shape: the two then
// differ only in insignificant white space / spelling and are nevertheless two envelopes.
func (g *gen) shapedPush(subject Desc, flavour, shape string, core int) Op {
	if core == 0 && len(g.shaped) > 0 && g.r.Intn(4) == 0 {
		prev := g.shaped[g.r.Intn(len(g.shaped))]
		if prev.shape != shape && strings.HasPrefix(prev.shape, "json-") && strings.HasPrefix(shape, "json-") {
			core = prev.core
		}
	}
	if core != 0 {
		for _, sp := range g.shaped { // one envelope per (value, spelling): anything else would be the same bytes twice
			if sp.core == core && sp.shape == shape {
				core = 0
			}
		}
	}
	g.nextBlob++
	id := g.nextBlob
	if core == 0 {
		core = id
	}
	sp := shapeSpec{shape: shape, core: core}
	size := shapedMin(core, shape) + int64([]int{0, 1, 17, 300, 4000}[g.r.Intn(5)])
	g.sizes[id] = size
	curShapes[id] = sp
	g.shaped = append(g.shaped, sp)
	mt := mtJose
	switch g.r.Intn(6) {
	case 0:
		mt = mtCose
	case 1:
		mt = g.envMt()
	}
	fl := flavour
	if fl == "push" {
		fl = "push:shaped-envelope"
	}
	return Op{Kind: "push", Subject: &subject, Mt: mt, Blob: id, Bsize: size, Layers: []Layer{}, Annos: g.annos(true), flavour: fl}
}

func (g *gen) rawBase(mt string, subject *Desc, atype string) Op {
	return Op{Kind: "raw", Subject: subject, Mt: mt, Atype: atype, Layers: []Layer{}, Annos: g.annos(true)}
}

func (g *gen) manifestMt() string {
	if g.r.Intn(2) == 0 {
		return mtImage
	}
	return mtArtifact
}

// polyglotKinds: (entries in the own list, entries in the stray list of the other format)
var polyglotKinds = [][2]int{{0, 1}, {0, 2}, {1, 1}, {1, 2}, {2, 1}, {0, 1}}

// polyglot builds a notation-typed referrer of the exact subject that carries both formats' lists.
func (g *gen) polyglot(mt string, s Desc, kind int) []Op {
	k := polyglotKinds[kind]
	var ops []Op
	mk := func(n int) []Layer {
		out := []Layer{}
		for i := 0; i < n; i++ {
			l, b := g.storedLayer()
			ops = append(ops, b)
			out = append(out, l)
		}
		return out
	}
	o := g.rawBase(mt, &s, notationT)
	o.Layers = mk(k[0])
	o.Stray = mk(k[1])
	o.flavour = fmt.Sprintf("hostile:polyglot:own=%d,other-format=%d", k[0], k[1])
	return append(ops, o)
}

// storedLayer returns a layer naming fresh bytes plus the operation that stores them.
func (g *gen) storedLayer() (Layer, Op) {
	size := g.envSize()
	id := g.freshBlob(size)
	return Layer{Mt: g.envMt(), Blob: id, Size: size}, Op{Kind: "blob", Blob: id, Bsize: size, Layers: []Layer{}, Annos: []KV{}, flavour: "blob"}
}

// extra produces one foreign / hostile / legacy item (possibly preceded by a blob write).
func (g *gen) extra() []Op {
	s := g.subj()
	mt := g.manifestMt()
	choice := g.r.Intn(21)
	switch choice {
	case 0: // another artifact type on the exact subject
		l, b := g.storedLayer()
		o := g.rawBase(mt, &s, otherT)
		o.Layers = []Layer{l}
		if mt == mtImage {
			o.TopType = []string{"", notationT, otherT}[g.r.Intn(3)]
		}
		o.flavour = "foreign:other-artifact-type"
		return []Op{b, o}
	case 1: // a well-formed signature manifest written by hand (legacy artifact manifest or image manifest)
		l, b := g.storedLayer()
		o := g.rawBase(mt, &s, notationT)
		o.Layers = []Layer{l}
		if mt == mtImage {
			o.TopType = []string{"", notationT, otherT}[g.r.Intn(3)]
		}
		o.flavour = "signature:hand-written:" + map[string]string{mtImage: "image", mtArtifact: "legacy-artifact"}[mt]
		return []Op{b, o}
	case 2, 3: // subject differs in exactly one field
		v, how := g.variant(s)
		l, b := g.storedLayer()
		o := g.rawBase(mt, &v, notationT)
		o.Layers = []Layer{l}
		o.flavour = "foreign:subject-differs:" + how
		return []Op{b, o}
	case 4: // no layer at all
		o := g.rawBase(mt, &s, notationT)
		o.flavour = "hostile:0-layers"
		return []Op{o}
	case 5: // two layers
		l1, b1 := g.storedLayer()
		l2, b2 := g.storedLayer()
		o := g.rawBase(mt, &s, notationT)
		o.Layers = []Layer{l1, l2}
		o.flavour = "hostile:2-layers"
		return []Op{b1, b2, o}
	case 6: // a layer with a declared size over the cap (bytes present but small, or absent)
		l, b := g.storedLayer()
		l.Size = capB + 1 + int64(g.r.Intn(3))*1000000007
		o := g.rawBase(mt, &s, notationT)
		o.Layers = []Layer{l}
		o.flavour = "hostile:layer-over-cap"
		if g.r.Intn(2) == 0 {
			return []Op{o}
		}
		return []Op{b, o}
	case 7: // a layer with a declared size exactly at the cap whose bytes are not that long
		if g.r.Intn(3) != 0 { // every fetch of it allocates 32 MiB: keep it rarer
			return g.extra()
		}
		l, b := g.storedLayer()
		l.Size = capB
		o := g.rawBase(mt, &s, notationT)
		o.Layers = []Layer{l}
		o.flavour = "hostile:layer-at-cap-but-lying"
		return []Op{b, o}
	case 8: // dangling: the layer's bytes are not in the layout / the declared size is off by one
		l, b := g.storedLayer()
		o := g.rawBase(mt, &s, notationT)
		o.flavour = "hostile:dangling-layer"
		if g.r.Intn(2) == 0 {
			l.Size++
			o.flavour = "hostile:layer-size-lie"
			o.Layers = []Layer{l}
			return []Op{b, o}
		}
		o.Layers = []Layer{l}
		return []Op{o}
	case 9: // manifest over / at the manifest cap
		if g.big >= 2 {
			return g.extra()
		}
		g.big++
		l, b := g.storedLayer()
		at := []string{notationT, notationT, otherT}[g.r.Intn(3)]
		subj := s
		how := "exact-subject"
		if g.r.Intn(3) == 0 {
			subj, how = g.variant(s)
		}
		o := g.rawBase(mt, &subj, at)
		o.Layers = []Layer{l}
		o.padTo = capM + int64([]int{1, 1, 0, 977}[g.r.Intn(4)])
		o.flavour = fmt.Sprintf("hostile:manifest-size=cap+%d:%s", o.padTo-capM, how)
		return []Op{b, o}
	case 10: // an index naming the subject
		o := g.rawBase(mtIndex, &s, notationT)
		o.flavour = "foreign:index-with-subject"
		return []Op{o}
	case 11: // notation type but no subject
		l, b := g.storedLayer()
		o := g.rawBase(mt, nil, notationT)
		o.Layers = []Layer{l}
		o.flavour = "foreign:no-subject"
		return []Op{b, o}
	case 12: // the same envelope pushed again (same or another subject): refused by the store
		var prior []Op
		for _, p := range g.ops {
			if p.Kind == "push" {
				prior = append(prior, p)
			}
		}
		if len(prior) == 0 {
			return g.extra()
		}
		p := prior[g.r.Intn(len(prior))]
		o := Op{Kind: "push", Subject: &s, Mt: p.Mt, Blob: p.Blob, Bsize: p.Bsize, Layers: []Layer{}, Annos: g.annos(true), flavour: "push:same-envelope-again"}
		return []Op{o}
	case 13: // a signature pushed for a descriptor that differs from the subject in one field
		v, how := g.variant(s)
		return []Op{g.push(v, "push:subject-variant:"+how)}
	case 14: // top-level artifactType says notation, config media type does not
		l, b := g.storedLayer()
		o := g.rawBase(mtImage, &s, otherT)
		o.TopType = notationT
		o.Layers = []Layer{l}
		o.flavour = "foreign:top-level-artifactType-only"
		return []Op{b, o}
	case 15: // a foreign manifest that points at the envelope of a real signature
		var prior []Op
		for _, p := range g.ops {
			if p.Kind == "push" {
				prior = append(prior, p)
			}
		}
		if len(prior) == 0 {
			return g.extra()
		}
		p := prior[g.r.Intn(len(prior))]
		other := subjectDesc(g.r.Intn(g.nSubj))
		o := g.rawBase(mt, &other, []string{notationT, otherT}[g.r.Intn(2)])
		o.Layers = []Layer{{Mt: p.Mt, Blob: p.Blob, Size: p.Bsize}}
		o.flavour = "raw:reuses-envelope-of-a-signature"
		return []Op{o}
	case 18, 19: // a polyglot: members of the OTHER manifest format next to the own list
		return g.polyglot(mt, s, g.r.Intn(len(polyglotKinds)))
	case 16, 17: // an artifact type that only looks like the notation type, in either manifest format
		l, b := g.storedLayer()
		at := lookAlikes[g.r.Intn(len(lookAlikes))]
		o := g.rawBase(mt, &s, at)
		o.Layers = []Layer{l}
		if mt == mtImage && g.r.Intn(2) == 0 {
			o.TopType = notationT
		}
		o.flavour = "foreign:look-alike-type:" + lookAlikeKind(at)
		return []Op{b, o}
	default: // very large envelopes (thorough tier only): at the cap and one byte over
		if !g.thorough || g.big >= 1 || g.r.Intn(6) != 0 {
			return g.extra()
		}
		g.big += 2
		size := int64(capB) + int64(g.r.Intn(2))
		o := Op{Kind: "push", Subject: &s, Mt: g.envMt(), Blob: g.freshBlob(size), Bsize: size, Layers: []Layer{}, Annos: g.annos(true),
			flavour: fmt.Sprintf("push:envelope-size=cap+%d", size-capB)}
		return []Op{o}
	}
}

func (g *gen) sequence(maxPush, maxExtra int) []Op {
	nPush := 1 + g.r.Intn(maxPush)
	nExtra := g.r.Intn(maxExtra + 1)
	slots := make([]bool, 0, nPush+nExtra) // true: push
	for i := 0; i < nPush; i++ {
		slots = append(slots, true)
	}
	for i := 0; i < nExtra; i++ {
		slots = append(slots, false)
	}
	g.r.Shuffle(len(slots), func(i, j int) { slots[i], slots[j] = slots[j], slots[i] })
	for _, isPush := range slots {
		if isPush {
			g.ops = append(g.ops, g.push(g.subj(), "push"))
		} else {
			g.ops = append(g.ops, g.extra()...)
		}
	}
	for i := range g.ops {
		g.ops[i].Id = i
	}
	return g.ops
}

// ---- one case ------------------------------------------------------------------------------

func runCase(c *common.Ctx, n int, in *Input, nSubj int, sizes map[int]int64, probeRand *rand.Rand) (obs Obs, err error) {
	dir := filepath.Join(c.WorkDir, fmt.Sprintf("layout-%d", n))
	defer os.RemoveAll(dir)
	w, err := newWorld(dir, in, nSubj)
	if err != nil {
		return Obs{}, err
	}
	w.blobSize = sizes
	w.keep = &keeper{}
	for _, o := range in.Ops {
		if o.Bsize > keepMaxOne {
			w.keep.allowBig = true // the large-envelope scenario: keep those results too
		}
	}
	obs = Obs{Steps: []StepObs{}, Probes: []FetchObs{}, Reopened: []ListObs{}, RaceOks: []bool{}, RaceList: ListObs{Sigs: []SigObs{}}, Cancelled: []CtxObs{}, Retained: true, Unaliased: true}
	for k := range in.Ops {
		o := &in.Ops[k]
		w.lastDescOk = true
		ok, err := w.exec(o)
		if err != nil {
			return obs, fmt.Errorf("op %d (%s): %w", k, o.flavour, err)
		}
		so := StepObs{Ok: ok, DescOk: w.lastDescOk, Lists: []ListObs{}}
		for _, q := range in.Queries {
			so.Lists = append(so.Lists, w.listObs(w.repo, w.tgt, q))
		}
		obs.Steps = append(obs.Steps, so)
		// every result returned during earlier steps must still be what it was
		if !w.keep.quick() || (k%4 == 3 && !w.keep.listsIntact()) {
			obs.Retained = false
		}
	}
	// probes: FetchSignatureBlob with hand-made descriptors
	in.Probes = []Desc{}
	for k := range in.Ops {
		o := &in.Ops[k]
		if _, stored := w.manDigest[o.Id]; !stored {
			continue
		}
		mt := o.Mt
		if o.Kind == "push" {
			mt = mtImage
		}
		truth := Desc{Mt: mt, Dig: o.Id, Size: o.Msize}
		in.Probes = append(in.Probes, truth)
		switch probeRand.Intn(8) {
		case 0:
			v := truth
			v.Size = capM + 1
			in.Probes = append(in.Probes, v)
		case 1:
			v := truth
			v.Mt = map[string]string{mtImage: mtArtifact, mtArtifact: mtImage, mtIndex: mtImage}[mt]
			in.Probes = append(in.Probes, v)
		case 2:
			v := truth
			v.Mt = []string{mtIndex, "application/vnd.docker.distribution.manifest.v2+json", ""}[probeRand.Intn(3)]
			in.Probes = append(in.Probes, v)
		case 3:
			v := truth
			v.Size++
			in.Probes = append(in.Probes, v)
		case 4:
			v := truth
			v.Size = capM
			in.Probes = append(in.Probes, v)
		}
	}
	if probeRand.Intn(3) == 0 {
		in.Probes = append(in.Probes, Desc{Mt: mtImage, Dig: 9999, Size: 500})
	}
	for _, p := range in.Probes {
		dg, ok := w.manDigest[p.Dig]
		if !ok {
			dg = digest.FromString(fmt.Sprint("no-such-manifest-", p.Dig))
		}
		obs.Probes = append(obs.Probes, w.fetchObs(w.repo, w.tgt, ocispec.Descriptor{MediaType: p.Mt, Digest: dg, Size: p.Size}))
	}
	// listings under a done context
	obs.Cancelled = w.ctxStage(in)
	// concurrent first pushes into a fresh layout
	rdir := raceDir(c.WorkDir, n)
	defer os.RemoveAll(rdir)
	oks, rl, rerr := raceStage(rdir, in, sizes, in.racePinned, in.raceSharedRepo)
	if rerr != nil {
		return obs, fmt.Errorf("concurrency stage: %w", rerr)
	}
	obs.RaceOks, obs.RaceList = oks, rl
	// the history of results: several repositories, repeated rounds, everything kept and re-compared
	if !w.historyPhase(in, probeRand, dir) {
		obs.Retained = false
	}
	// the layout re-opened from disk
	defer func() {
		if !w.keep.full() {
			obs.Retained = false
		}
		if !w.keep.aliasFree() {
			obs.Unaliased = false
		}
		if !w.scribbleAndRelist(in, obs.Steps[len(obs.Steps)-1].Lists) {
			obs.Unaliased = false
		}
		if w.keep.broken != "" {
			c.Count("history-broken: " + w.keep.broken)
		}
	}()
	obs.ReopenSame = true
	store2, err := oci.New(dir)
	repo3, err3 := registry.NewOCIRepository(dir, registry.RepositoryOptions{})
	in.ReopenOk = err == nil
	if (err == nil) != (err3 == nil) {
		obs.ReopenSame = false
	}
	if err != nil || err3 != nil {
		return obs, nil
	}
	tgt2 := &logTarget{GraphTarget: store2}
	repo2 := registry.NewRepository(tgt2)
	for _, q := range in.Queries {
		lo := w.listObs(repo2, tgt2, q)
		obs.Reopened = append(obs.Reopened, lo)
		lo3 := w.listObs(repo3, nil, q)
		if lo3.Ok != lo.Ok || len(lo3.Sigs) != len(lo.Sigs) {
			obs.ReopenSame = false
			continue
		}
		for k := range lo.Sigs {
			a, b := lo.Sigs[k], lo3.Sigs[k]
			if a.Id != b.Id || fmt.Sprint(a.Annos) != fmt.Sprint(b.Annos) || a.Fetch.Ok != b.Fetch.Ok || a.Fetch.Blob != b.Fetch.Blob || a.Fetch.Mt != b.Fetch.Mt {
				obs.ReopenSame = false
			}
		}
	}
	return obs, nil
}

// historyPhase fetches everything that is listed again and again - through the sequence's
// repository, a second Repository over the same store and one over the layout re-opened from disk,
// in listing order, by descending size (a later result then fits into whatever held an earlier
// one) and shuffled - on a single P so that anything recycled per P is recycled, keeping every
// result and re-comparing all earlier ones after every call.
func (w *world) historyPhase(in *Input, r *rand.Rand, dir string) bool {
	prev := runtime.GOMAXPROCS(1)
	defer runtime.GOMAXPROCS(prev)
	ctx := context.Background()
	ok := w.keep.quick()
	repos := []registry.Repository{w.repo,
		registry.NewRepository(&logTarget{GraphTarget: w.store, digestOnly: w.tgt.digestOnly, known: w.tgt.known})}
	if r3, err := registry.NewOCIRepository(dir, registry.RepositoryOptions{}); err == nil {
		repos = append(repos, r3)
	}
	sizeOf := map[digest.Digest]int{}
	pass := 0
	for round := 0; round < 2; round++ {
		for _, repo := range repos {
			var descs []ocispec.Descriptor
			for _, q := range in.Queries {
				_ = repo.ListSignatures(ctx, concDesc(q), func(ms []ocispec.Descriptor) error {
					w.keep.keepList(ms)
					descs = append(descs, ms...)
					return nil
				})
			}
			switch pass % 3 {
			case 1:
				sort.SliceStable(descs, func(i, j int) bool { return sizeOf[descs[i].Digest] > sizeOf[descs[j].Digest] })
			case 2:
				r.Shuffle(len(descs), func(i, j int) { descs[i], descs[j] = descs[j], descs[i] })
			}
			pass++
			for _, d := range descs {
				body, bd, err := repo.FetchSignatureBlob(ctx, d)
				if err != nil {
					continue
				}
				sizeOf[d.Digest] = len(body)
				w.keep.keepBytes(body)
				w.keep.keepList([]ocispec.Descriptor{bd})
				if !w.keep.quick() {
					ok = false
				}
			}
			if !w.keep.listsIntact() {
				ok = false
			}
		}
	}
	if !w.keep.full() {
		ok = false
	}
	return ok
}

// scribbleAndRelist overwrites every earlier result and every caller-owned input, then lists and
// fetches everything once more: it must come out as in the last step.
func (w *world) scribbleAndRelist(in *Input, last []ListObs) bool {
	w.keep.scribble()
	for qi, q := range in.Queries {
		lo := w.listObs(w.repo, w.tgt, q)
		a, _ := json.Marshal(lo)
		b, _ := json.Marshal(last[qi])
		if string(a) != string(b) {
			w.keep.fail("after the caller overwrote earlier results and its own inputs the repository returns something else")
			return false
		}
	}
	return true
}

func count(c *common.Ctx, in *Input, obs *Obs) {
	c.Count("mode=" + in.Mode)
	c.Count(fmt.Sprintf("reopened=%v", in.ReopenOk))
	c.Count(fmt.Sprintf("race: %d concurrent first pushes, pinned=%v", len(in.Race), in.racePinned))
	for _, ok := range obs.RaceOks {
		c.Count(fmt.Sprintf("race push ok=%v", ok))
	}
	for k, co := range obs.Cancelled {
		how := "cancelled mid-listing"
		if in.Cuts[k%len(in.Cuts)] == 0 {
			how = "done before the call"
		}
		c.Count(fmt.Sprintf("listing under a context %s: err=%v", how, co.Err))
	}
	pushes := 0
	for _, o := range in.Ops {
		c.Count("op:" + o.flavour)
		if sp, shaped := curShapes[o.Blob]; shaped && o.Kind == "push" {
			c.Count("envelope shape: " + sp.shape)
			if sp.core != o.Blob {
				c.Count("envelope shares its JSON value with another envelope (differs in spelling only)")
			}
		}
		if o.Kind == "push" && o.Mt != mtJose && o.Mt != mtCose {
			c.Count("push with a non-canonical envelope media type")
		}
		for _, kv := range o.Annos {
			if o.Kind == "push" && kv.K == ocispec.AnnotationCreated && !strings.HasSuffix(kv.V, ":08Z") {
				c.Count("push with created in a non-UTC-seconds form")
			}
		}
		if o.Kind == "push" {
			pushes++
		}
	}
	c.Count(fmt.Sprintf("pushes=%02d", pushes))
	c.Count(fmt.Sprintf("queries=%d", len(in.Queries)))
	for _, s := range obs.Steps {
		for _, l := range s.Lists {
			if !l.Ok {
				c.Count("list=refused")
				continue
			}
			c.Count("list=ok")
			for _, sg := range l.Sigs {
				if sg.Fetch.Ok {
					c.Count("fetch=ok")
				} else {
					c.Count("fetch=refused")
				}
			}
		}
	}
	for _, p := range obs.Probes {
		if p.Ok {
			c.Count("probe=ok")
		} else if !p.ManifestRead {
			c.Count("probe=refused-before-read")
		} else {
			c.Count("probe=refused")
		}
	}
}

// Run generates the cases of C19.
func Run(c *common.Ctx) error {
	nSeq, maxPush, maxExtra := 260, 8, 7
	if c.Thorough() {
		nSeq, maxPush, maxExtra = 1500, 12, 10
	}
	for n := 0; n < nSeq; n++ {
		curShapes = map[int]shapeSpec{}
		g := &gen{r: c.Rand, thorough: c.Thorough(), nSubj: 1 + c.Rand.Intn(3), sizes: map[int]int64{}}
		if n%10 == 0 {
			g.nSubj = 3
		}
		mp, me := maxPush, maxExtra
		if n%7 == 0 { // the quantifier's upper end in both tiers
			mp = 12
		}
		mode := "exact"
		if c.Rand.Intn(5) < 2 {
			mode = "digestOnly"
		}
		var ops []Op
		if n < len(fixedScenarios) {
			g.nSubj = 3
			ops = fixedScenarios[n](g)
			for i := range ops {
				ops[i].Id = i
			}
			mode = []string{"exact", "digestOnly"}[n%2]
		} else {
			ops = g.sequence(mp, me)
		}
		in := &Input{Mode: mode, Ops: ops, Queries: []Desc{}, Probes: []Desc{}}
		for k := 0; k < g.nSubj; k++ {
			in.Queries = append(in.Queries, subjectDesc(k))
		}
		// sometimes also list a descriptor that differs from a subject in one field
		if c.Rand.Intn(3) == 0 {
			v, _ := g.variant(g.subj())
			in.Queries = append(in.Queries, v)
		}
		// and every variant a signature was pushed for
		for _, o := range ops {
			if o.Kind == "push" && strings.HasPrefix(o.flavour, "push:subject-variant") && c.Rand.Intn(2) == 0 {
				dup := false
				for _, q := range in.Queries {
					if q == *o.Subject {
						dup = true
					}
				}
				if !dup && len(in.Queries) < 5 {
					in.Queries = append(in.Queries, *o.Subject)
				}
			}
		}
		// concurrency stage: 2..6 first pushes into a fresh layout, envelopes distinct
		in.RaceSubject = subjectDesc(0)
		in.Race = []Op{}
		nRace := 2 + c.Rand.Intn(5)
		if n%3 == 0 {
			nRace = 2
		}
		for k := 0; k < nRace; k++ {
			o := g.push(in.RaceSubject, "race-push")
			o.Id = k
			in.Race = append(in.Race, o)
		}
		in.racePinned = c.Rand.Intn(8) != 0
		in.raceSharedRepo = c.Rand.Intn(2) == 0
		// context stage
		in.Cuts = []int{0, 1, 2, 3 + c.Rand.Intn(4)}
		for i := range in.Ops {
			if in.Ops[i].Stray == nil {
				in.Ops[i].Stray = []Layer{}
			}
		}
		for i := range in.Race {
			if in.Race[i].Stray == nil {
				in.Race[i].Stray = []Layer{}
			}
		}
		obs, err := runCase(c, n, in, g.nSubj, g.sizes, c.Rand)
		if err != nil {
			return fmt.Errorf("sequence %d: %w", n, err)
		}
		c.Emit(in, obs)
		count(c, in, &obs)
	}
	c.Note("%d operation sequences on real OCI layouts (oras oci.Store behind registry.NewRepository): up to %d PushSignature calls over 1..3 subject manifests "+
		"(jose/cose envelopes of 24 B..80 kB, distinct bytes; in the thorough tier also envelopes of exactly the blob cap and one byte more), interleaved with up to %d foreign / hostile / legacy items "+
		"written directly with oras (see the op:* histogram); after every operation every query descriptor is listed and every listed signature fetched; "+
		"at the end hand-made descriptors are fetched and the layout is re-opened from disk (oci.New and registry.NewOCIRepository). "+
		"mode=digestOnly wraps the store in a GraphTarget whose Predecessors is keyed by digest only.", nSeq, 12, maxExtra)
	return nil
}

func lookAlikeScenario(g *gen, mt string) []Op {
	s := subjectDesc(0)
	ops := []Op{g.push(s, "push")}
	for _, at := range lookAlikes {
		l, b := g.storedLayer()
		o := g.rawBase(mt, &s, at)
		o.Layers = []Layer{l}
		o.flavour = "foreign:look-alike-type:" + lookAlikeKind(at)
		ops = append(ops, b, o)
	}
	return append(ops, g.push(s, "push"))
}

// fixedScenarios make sure every run contains each hostile shape at least once.
var fixedScenarios = []func(g *gen) []Op{
	func(g *gen) []Op { // every polyglot shape in both manifest formats, beside regular signatures
		s := subjectDesc(0)
		ops := []Op{g.push(s, "push")}
		for _, mt := range []string{mtImage, mtArtifact} {
			for kind := range polyglotKinds[:5] {
				ops = append(ops, g.polyglot(mt, s, kind)...)
			}
		}
		return append(ops, g.push(s, "push"))
	},
	func(g *gen) []Op { // one JSON value in every spelling, as JWS: all are distinct envelopes and round-trip byte for byte
		var ops []Op
		first := 0
		for i, sh := range jsonShapes {
			o := g.shapedPush(subjectDesc(i%2), "push:shaped-envelope:same-core", sh, first)
			o.Mt = mtJose
			if first == 0 {
				first = curShapes[o.Blob].core
			}
			ops = append(ops, o)
		}
		return ops
	},
	func(g *gen) []Op { // the same under the COSE and a vendor media type, each with its own core
		var ops []Op
		for i, sh := range jsonShapes {
			o := g.shapedPush(subjectDesc(i%3), "push:shaped-envelope", sh, 0)
			o.Mt = []string{mtCose, "application/vnd.example.Envelope.v1+json", mtJose}[i%3]
			ops = append(ops, o)
		}
		return ops
	},
	func(g *gen) []Op { // every non-canonical envelope media type, pushed over two subjects
		var ops []Op
		for i, mt := range oddMediaTypes {
			o := g.push(subjectDesc(i%2), "push:media-type-not-canonical")
			o.Mt = mt
			ops = append(ops, o)
		}
		return ops
	},
	func(g *gen) []Op { // every form of the created annotation and every unusual annotation value
		var ops []Op
		for i, c := range createdForms {
			o := g.push(subjectDesc(i%3), "push:created-form")
			o.Annos = []KV{{"a.first", oddValues[i%len(oddValues)]}, {ocispec.AnnotationCreated, c}}
			ops = append(ops, o)
		}
		for i := len(createdForms); i < len(oddValues); i++ {
			o := g.push(subjectDesc(i%3), "push:odd-annotation-value")
			o.Annos = []KV{{"org.example.build", oddValues[i]}, {"zz.last", oddValues[(i+3)%len(oddValues)]}}
			ops = append(ops, o)
		}
		return ops
	},
	func(g *gen) []Op { // every look-alike artifact type, image manifest branch
		return lookAlikeScenario(g, mtImage)
	},
	func(g *gen) []Op { // every look-alike artifact type, legacy artifact manifest branch
		return lookAlikeScenario(g, mtArtifact)
	},
	func(g *gen) []Op { // two subjects, one signature each, plus one-field variants of subject 0
		s0, s1 := subjectDesc(0), subjectDesc(1)
		ops := []Op{g.push(s0, "push"), g.push(s1, "push")}
		for _, v := range []Desc{{s0.Mt, s0.Dig, s0.Size + 1}, {mtIndex, s0.Dig, s0.Size}, {s0.Mt, 100, s0.Size}} {
			v := v
			l, b := g.storedLayer()
			o := g.rawBase(mtImage, &v, notationT)
			o.Layers = []Layer{l}
			o.flavour = "foreign:subject-differs:fixed"
			ops = append(ops, b, o)
		}
		return append(ops, g.push(s0, "push"))
	},
	func(g *gen) []Op { // same as above for legacy artifact manifests
		s0 := subjectDesc(0)
		ops := []Op{g.push(s0, "push")}
		for _, v := range []Desc{{s0.Mt, s0.Dig, s0.Size + 1}, {mtArtifact, s0.Dig, s0.Size}, {s0.Mt, s0.Dig, s0.Size - 1}} {
			v := v
			l, b := g.storedLayer()
			o := g.rawBase(mtArtifact, &v, notationT)
			o.Layers = []Layer{l}
			o.flavour = "foreign:subject-differs:fixed"
			ops = append(ops, b, o)
		}
		l, b := g.storedLayer()
		o := g.rawBase(mtArtifact, &s0, notationT)
		o.Layers = []Layer{l}
		o.flavour = "signature:hand-written:legacy-artifact"
		return append(ops, b, o, g.push(subjectDesc(2), "push"))
	},
	func(g *gen) []Op { // 0 layers, 2 layers, layer over the cap, for both manifest formats
		s := subjectDesc(1)
		ops := []Op{g.push(s, "push")}
		for _, mt := range []string{mtImage, mtArtifact} {
			o0 := g.rawBase(mt, &s, notationT)
			o0.flavour = "hostile:0-layers"
			l1, b1 := g.storedLayer()
			l2, b2 := g.storedLayer()
			o2 := g.rawBase(mt, &s, notationT)
			o2.Layers = []Layer{l1, l2}
			o2.flavour = "hostile:2-layers"
			l3, b3 := g.storedLayer()
			l3.Size = capB + 1
			o3 := g.rawBase(mt, &s, notationT)
			o3.Layers = []Layer{l3}
			o3.flavour = "hostile:layer-over-cap"
			ops = append(ops, o0, b1, b2, o2, b3, o3)
		}
		return append(ops, g.push(s, "push"))
	},
	func(g *gen) []Op { // a manifest one byte over the cap for subject 0 only; subject 1 must stay listable
		s0, s1 := subjectDesc(0), subjectDesc(1)
		l, b := g.storedLayer()
		o := g.rawBase(mtImage, &s0, otherT)
		o.Layers = []Layer{l}
		o.padTo = capM + 1
		o.flavour = "hostile:manifest-size=cap+1:exact-subject"
		return []Op{g.push(s0, "push"), g.push(s1, "push"), b, o, g.push(s1, "push")}
	},
	func(g *gen) []Op { // a manifest exactly at the cap is accepted; one byte over whose subject only shares the digest
		s0 := subjectDesc(0)
		v := Desc{s0.Mt, s0.Dig, s0.Size + 1}
		l, b := g.storedLayer()
		o := g.rawBase(mtArtifact, &s0, notationT)
		o.Layers = []Layer{l}
		o.padTo = capM
		o.flavour = "hostile:manifest-size=cap+0:exact-subject"
		l2, b2 := g.storedLayer()
		o2 := g.rawBase(mtImage, &v, notationT)
		o2.Layers = []Layer{l2}
		o2.padTo = capM + 1
		o2.flavour = "hostile:manifest-size=cap+1:size+1"
		return []Op{g.push(s0, "push"), b, o, b2, o2}
	},
	func(g *gen) []Op { // envelopes of exactly the blob cap (round-trips) and one byte more (stored, listed, fetch refused)
		s0, s1 := subjectDesc(0), subjectDesc(1)
		mk := func(s Desc, size int64) Op {
			return Op{Kind: "push", Subject: &s, Mt: g.envMt(), Blob: g.freshBlob(size), Bsize: size, Layers: []Layer{}, Annos: g.annos(true),
				flavour: fmt.Sprintf("push:envelope-size=cap+%d", size-capB)}
		}
		return []Op{mk(s0, capB), mk(s1, capB+1)}
	},
	func(g *gen) []Op { // the same envelope twice; top-level artifactType only
		s0, s1 := subjectDesc(0), subjectDesc(1)
		p := g.push(s0, "push")
		again := p
		again.Subject = &s1
		again.flavour = "push:same-envelope-again"
		again2 := p
		again2.flavour = "push:same-envelope-again"
		l, b := g.storedLayer()
		o := g.rawBase(mtImage, &s0, otherT)
		o.TopType = notationT
		o.Layers = []Layer{l}
		o.flavour = "foreign:top-level-artifactType-only"
		return []Op{p, again, again2, b, o, g.push(s1, "push")}
	},
}

package c19

// Two further stages of a case:
//   - the concurrency stage: PushSignature calls issued concurrently as the very first notation
//     pushes into a fresh layout (the `{}` config blob is not there yet), behind a pass-through
//     wrapper that holds every caller between the store's real answer to Exists(config) and
//     its Push(config), so that all of them have seen "absent" before any of them pushes;
//   - the context stage: ListSignatures under a context that is done before the call or is
//     cancelled after the k-th manifest fetch.

import (
	"context"
	"fmt"
	"io"
	"path/filepath"
	"sort"
	"sync"
	"time"

	"github.com/notaryproject/notation-go/registry"
	"github.com/opencontainers/go-digest"
	ocispec "github.com/opencontainers/image-spec/specs-go/v1"
	"oras.land/oras-go/v2"
)

type CtxObs struct {
	Err bool  `json:"err"`
	Ids []int `json:"ids"`
}

// raceTarget passes everything through to the store; nothing is faked. With pin, a caller whose
// Exists(empty config) was truthfully answered "no" waits until all n callers got that answer;
// pushes of the empty config are serialised (the store's own existence test is not atomic with
// its rename).
type raceTarget struct {
	oras.GraphTarget
	pin     bool
	n       int
	mu      sync.Mutex
	arrived int
	release chan struct{}
	pushMu  sync.Mutex
}

func (t *raceTarget) Exists(ctx context.Context, d ocispec.Descriptor) (bool, error) {
	ok, err := t.GraphTarget.Exists(ctx, d)
	if t.pin && err == nil && !ok && d.Digest == ocispec.DescriptorEmptyJSON.Digest {
		t.mu.Lock()
		t.arrived++
		if t.arrived == t.n {
			close(t.release)
		}
		t.mu.Unlock()
		select {
		case <-t.release:
		case <-time.After(3 * time.Second):
		}
	}
	return ok, err
}

func (t *raceTarget) Push(ctx context.Context, d ocispec.Descriptor, r io.Reader) error {
	if d.Digest == ocispec.DescriptorEmptyJSON.Digest {
		t.pushMu.Lock()
		defer t.pushMu.Unlock()
	}
	return t.GraphTarget.Push(ctx, d, r)
}

// raceStage runs in.Race concurrently on a fresh layout and observes the outcome.
func raceStage(dir string, in *Input, sizes map[int]int64, pin, sharedRepo bool) ([]bool, ListObs, error) {
	sub := &Input{Mode: "exact", Ops: in.Race, Queries: []Desc{in.RaceSubject}}
	w, err := newWorld(dir, sub, 1)
	if err != nil {
		return nil, ListObs{}, err
	}
	w.blobSize = sizes
	rt := &raceTarget{GraphTarget: w.store, pin: pin, n: len(in.Race), release: make(chan struct{})}
	shared := registry.NewRepository(rt)
	type result struct {
		blob, man ocispec.Descriptor
		err       error
	}
	bodies := make([][]byte, len(in.Race))
	for k := range in.Race {
		_, bodies[k] = w.blob(in.Race[k].Blob)
	}
	results := make([]result, len(in.Race))
	var wg sync.WaitGroup
	start := make(chan struct{})
	for k := range in.Race {
		wg.Add(1)
		go func(k int) {
			defer wg.Done()
			o := &in.Race[k]
			repo := shared
			if !sharedRepo {
				repo = registry.NewRepository(rt)
			}
			var annos map[string]string
			if len(o.Annos) > 0 {
				annos = map[string]string{}
				for _, kv := range o.Annos {
					annos[kv.K] = kv.V
				}
			}
			<-start
			var r result
			r.blob, r.man, r.err = repo.PushSignature(context.Background(), o.Mt, bodies[k], concDesc(*o.Subject), annos)
			results[k] = r
		}(k)
	}
	close(start)
	wg.Wait()
	oks := make([]bool, len(in.Race))
	for k := range in.Race {
		o := &in.Race[k]
		r := results[k]
		if r.err != nil {
			o.Msize = 0
			continue
		}
		if _, dup := w.manByDig[r.man.Digest]; dup {
			return nil, ListObs{}, fmt.Errorf("two concurrent pushes produced the same manifest digest")
		}
		// a push that hands back a descriptor of something else than was pushed counts as not accepted
		oks[k] = r.blob.Digest == w.blobDig(o.Blob) && r.blob.Size == o.Bsize && r.blob.MediaType == o.Mt
		o.Msize = r.man.Size
		w.manByDig[r.man.Digest] = o.Id
		w.manDigest[o.Id] = r.man.Digest
		w.manSize[r.man.Digest] = r.man.Size
		w.pushedOps[o.Id] = o
	}
	// listed and fetched through an ordinary repository over the same store
	return oks, w.listObs(w.repo, w.tgt, in.RaceSubject), nil
}

// cancelTarget cancels the context after the k-th Fetch (of a manifest: listing fetches nothing else).
type cancelTarget struct {
	oras.GraphTarget
	after  int
	n      int
	cancel func()
}

func (t *cancelTarget) Fetch(ctx context.Context, d ocispec.Descriptor) (io.ReadCloser, error) {
	rc, err := t.GraphTarget.Fetch(ctx, d)
	t.n++
	if t.n == t.after {
		t.cancel()
	}
	return rc, err
}

// ctxStage lists every query once per cut under a context that is or becomes done.
func (w *world) ctxStage(in *Input) []CtxObs {
	out := []CtxObs{}
	for qi, q := range in.Queries {
		for ci, k := range in.Cuts {
			var ctx context.Context
			var cancel func()
			if k == 0 && (qi+ci)%2 == 1 {
				ctx, cancel = context.WithDeadline(context.Background(), time.Now().Add(-time.Hour))
			} else {
				ctx, cancel = context.WithCancel(context.Background())
			}
			if k == 0 {
				cancel()
			}
			tgt := &cancelTarget{GraphTarget: w.tgt, after: k, cancel: cancel}
			repo := registry.NewRepository(tgt)
			var got []digest.Digest
			err := repo.ListSignatures(ctx, concDesc(q), func(ms []ocispec.Descriptor) error {
				for _, m := range ms {
					got = append(got, m.Digest)
				}
				return nil
			})
			cancel()
			co := CtxObs{Err: err != nil, Ids: []int{}}
			if err == nil {
				for _, dg := range got {
					id, known := w.manByDig[dg]
					if !known {
						id = unknownID
					}
					co.Ids = append(co.Ids, id)
				}
				sort.Ints(co.Ids)
			}
			out = append(out, co)
		}
	}
	return out
}

func raceDir(work string, n int) string { return filepath.Join(work, fmt.Sprintf("race-%d", n)) }

// Package c10 drives the real notation.Verify with an instrumented repository and
// verifier over listings x pagings x limits x reference shapes x skip.
package c10

import (
	"context"
	"encoding/json"
	"errors"
	"fmt"
	"reflect"
	"strconv"
	"time"

	"github.com/notaryproject/notation-core-go/signature"

	"github.com/notaryproject/notation-go"
	"github.com/notaryproject/notation-go/verifier/trustpolicy"
	"github.com/notaryproject/notation-go/xverif/common"
	"github.com/opencontainers/go-digest"
	ocispec "github.com/opencontainers/image-spec/specs-go/v1"
)

type Input struct {
	Max   int        `json:"max"`
	Pages [][]string `json:"pages"`
	Ref   string     `json:"ref"`
	Skip  bool       `json:"skip"`
	// concretisation only (ignored by the model, theorem concretisation_irrelevant):
	RefVariant string `json:"refVariant"` // "", "sha512", "sha384", "tag@digest"
	Flavors    []int  `json:"flavors"`    // per listed signature: error value of a failing fetch / verification,
	// media type of the fetched envelope and age of the signature manifest (see flavored, mediaTypeOf, createdOf)
	SameAs []int `json:"sameAs"` // per listed signature: -1, or the EARLIER listing position whose manifest digest this
	// entry repeats (a listing may name one manifest twice; both entries count as attempts)
}

type Obs struct {
	Success  *int  `json:"success"`
	Skipped  bool  `json:"skipped"`
	Resolved bool  `json:"resolved"`
	Listed   bool  `json:"listed"`
	Fetched  []int `json:"fetched"`
	Verified []int `json:"verified"`
	DescOk   bool  `json:"descOk"`
}

// the resolved descriptor carries everything a registry may put on it: Verify must return it as resolved
var artifact = ocispec.Descriptor{MediaType: ocispec.MediaTypeImageManifest, Digest: digest.FromString("artifact"), Size: 8,
	Annotations:  map[string]string{"org.example.resolved": "yes"},
	ArtifactType: "application/vnd.example.thing",
	URLs:         []string{"https://mirror.example/artifact"},
	Platform:     &ocispec.Platform{Architecture: "amd64", OS: "linux"}}
var other = digest.FromString("another artifact")

// error values a failing fetch / verification may return; all of them are just failures
func flavored(k int, what string) error {
	switch k % 6 {
	case 1:
		return fmt.Errorf("%s: %w", what, context.DeadlineExceeded) // e.g. an OCSP/CRL http client timeout inside the verifier
	case 2:
		return fmt.Errorf("%s: %w", what, context.Canceled)
	case 3:
		return notation.ErrorVerificationInconclusive{Msg: what}
	case 4:
		return notation.ErrorSignatureRetrievalFailed{Msg: what}
	case 5:
		return notation.ErrorVerificationFailed{Msg: what}
	}
	return errors.New(what)
}

func (r *repo) flavor(i int) int {
	if i >= 0 && i < len(r.flavors) {
		return r.flavors[i]
	}
	return 0
}

type repo struct {
	pages    [][]string
	resolved bool
	listed   bool
	fetched  []int
	index    map[digest.Digest]int
	kind     map[digest.Digest]string
	flavors  []int
	sameAs   []int
	kinds    []string // by listing position
}

func (r *repo) Resolve(ctx context.Context, reference string) (ocispec.Descriptor, error) {
	r.resolved = true
	return artifact, nil
}

func (r *repo) ListSignatures(ctx context.Context, desc ocispec.Descriptor, fn func([]ocispec.Descriptor) error) error {
	r.listed = true
	i := 0
	for _, p := range r.pages {
		var ds []ocispec.Descriptor
		for _, k := range p {
			// the manifest digest (repeated when the listing names one manifest twice), the listing position
			// as the size (so that the harness knows which ENTRY is meant), and the creation time annotation
			// notation writes on every signature manifest
			src := i
			if i < len(r.sameAs) && r.sameAs[i] >= 0 && r.sameAs[i] < i {
				src = r.sameAs[i]
			}
			d := ocispec.Descriptor{MediaType: ocispec.MediaTypeImageManifest, Digest: digest.FromString(fmt.Sprint("sig", src)), Size: int64(i),
				Annotations: map[string]string{ocispec.AnnotationCreated: createdOf(r.flavor(i), i)}}
			r.kinds = append(r.kinds, k)
			ds = append(ds, d)
			i++
		}
		if err := fn(ds); err != nil {
			return err
		}
	}
	return nil
}

func (r *repo) kindAt(i int) string {
	if i >= 0 && i < len(r.kinds) {
		return r.kinds[i]
	}
	return "bad"
}

// media types a registry may report for a signature envelope: a future or parameterised one is just
// a signature that fails to verify, never a reason to stop
func mediaTypeOf(k int) string {
	switch k % 4 {
	case 1:
		return "application/cose"
	case 2:
		return "application/jose+json; charset=utf-8"
	case 3:
		return "application/vnd.example.future-envelope+cbor"
	}
	return "application/jose+json"
}

// creation times: listing order is NOT age order (oldest first when the flavours are all zero)
func createdOf(k, i int) string {
	return time.Date(2024, 1, 1, 0, 0, 0, 0, time.UTC).Add(time.Duration(i*7+(k*13)%5) * time.Hour).Format(time.RFC3339)
}

func (r *repo) FetchSignatureBlob(ctx context.Context, desc ocispec.Descriptor) ([]byte, ocispec.Descriptor, error) {
	i := int(desc.Size)
	r.fetched = append(r.fetched, i)
	if r.kindAt(i) == "unfetchable" {
		return nil, ocispec.Descriptor{}, flavored(r.flavor(i), "unfetchable")
	}
	return []byte(fmt.Sprint(i)), ocispec.Descriptor{MediaType: mediaTypeOf(r.flavor(i))}, nil
}

func (r *repo) PushSignature(ctx context.Context, mediaType string, blob []byte, subject ocispec.Descriptor, annotations map[string]string) (a, b ocispec.Descriptor, err error) {
	return
}

type verifier struct {
	r        *repo
	verified []int
}

func (v *verifier) Verify(ctx context.Context, desc ocispec.Descriptor, sig []byte, opts notation.VerifierVerifyOptions) (*notation.VerificationOutcome, error) {
	idx, _ := strconv.Atoi(string(sig))
	v.verified = append(v.verified, idx)
	// like the real verifier, the outcome carries the envelope content: a signed payload naming the
	// artifact by media type, digest and size, with annotations of its own (user metadata)
	payload, _ := json.Marshal(map[string]any{"targetArtifact": ocispec.Descriptor{MediaType: artifact.MediaType,
		Digest: artifact.Digest, Size: artifact.Size, Annotations: map[string]string{"buildId": "101"}}})
	out := &notation.VerificationOutcome{RawSignature: sig, EnvelopeContent: &signature.EnvelopeContent{
		Payload: signature.Payload{ContentType: "application/vnd.cncf.notary.payload.v1+json", Content: payload}}}
	if desc.Digest == artifact.Digest && v.r.kindAt(idx) == "good" {
		return out, nil
	}
	out.Error = flavored(v.r.flavor(idx), "bad signature")
	return out, out.Error
}

// skipVerifier additionally implements the (unexported) verifySkipper interface.
type skipVerifier struct {
	verifier
	skip bool
}

func (v *skipVerifier) SkipVerify(ctx context.Context, opts notation.VerifierVerifyOptions) (bool, *trustpolicy.VerificationLevel, error) {
	if v.skip {
		return true, trustpolicy.LevelSkip, nil
	}
	return false, trustpolicy.LevelStrict, nil
}

func refString(kind, variant string) string {
	switch kind {
	case "tag":
		return "reg.example/repo:v1"
	case "digestMatch":
		if variant == "tag@digest" {
			return "reg.example/repo:v1@" + artifact.Digest.String()
		}
		return "reg.example/repo@" + artifact.Digest.String()
	case "digestMismatch":
		// a digest the repository does not resolve to: another sha256, or the artifact's content
		// under another algorithm (still not the digest the repository answers with)
		switch variant {
		case "sha512":
			return "reg.example/repo@" + digest.SHA512.FromString("artifact").String()
		case "sha384":
			return "reg.example/repo@" + digest.SHA384.FromString("artifact").String()
		case "tag@digest":
			return "reg.example/repo:v1@" + other.String()
		}
		return "reg.example/repo@" + other.String()
	default:
		return "reg.example/repo"
	}
}

func runCase(in Input, withSkipper bool) Obs {
	r := &repo{pages: in.Pages, index: map[digest.Digest]int{}, kind: map[digest.Digest]string{}, flavors: in.Flavors, sameAs: in.SameAs}
	var v notation.Verifier
	var base *verifier
	if withSkipper {
		sv := &skipVerifier{verifier: verifier{r: r}, skip: in.Skip}
		v, base = sv, &sv.verifier
	} else {
		base = &verifier{r: r}
		v = base
	}
	desc, outcomes, err := notation.Verify(context.Background(), v, r, notation.VerifyOptions{
		ArtifactReference: refString(in.Ref, in.RefVariant), MaxSignatureAttempts: in.Max})
	o := Obs{Resolved: r.resolved, Listed: r.listed, Fetched: r.fetched, Verified: base.verified}
	if o.Fetched == nil {
		o.Fetched = []int{}
	}
	if o.Verified == nil {
		o.Verified = []int{}
	}
	if err == nil {
		if len(outcomes) == 1 && outcomes[0].RawSignature == nil && outcomes[0].VerificationLevel == trustpolicy.LevelSkip {
			o.Skipped = true
		} else if len(outcomes) >= 1 && outcomes[0].RawSignature != nil {
			// a success: report which signature's outcome came back
			idx, aerr := strconv.Atoi(string(outcomes[0].RawSignature))
			if aerr != nil || idx < 0 || idx >= len(r.kinds) {
				idx = -1
			}
			o.Success = &idx
			// the RESOLVED descriptor, field for field (annotations, platform, artifact type, URLs included)
			o.DescOk = len(outcomes) == 1 && reflect.DeepEqual(desc, artifact) && outcomes[0].Error == nil
		} else {
			// no error and nothing recognisable: report as a success of an impossible index
			idx := 1 << 30
			o.Success = &idx
		}
	}
	return o
}

func listings(n int) [][]string {
	if n == 0 {
		return [][]string{{}}
	}
	var out [][]string
	for _, l := range listings(n - 1) {
		for _, k := range []string{"good", "bad", "unfetchable"} {
			out = append(out, append(append([]string{}, l...), k))
		}
	}
	return out
}

// all ways to split l into consecutive non-empty pages, plus variants with an empty page
func pagings(l []string) [][][]string {
	if len(l) == 0 {
		return [][][]string{{}, {{}}}
	}
	var out [][][]string
	for cut := 1; cut <= len(l); cut++ {
		for _, rest := range pagings(l[cut:]) {
			out = append(out, append([][]string{l[:cut]}, rest...))
		}
	}
	return out
}

// Run enumerates the property's quantifier. Quick: listings up to 5 with all pagings;
// thorough: up to 6 (the quantifier's bound) - both exhaustive over their space.
func Run(c *common.Ctx) error {
	maxLen := 5
	if c.Thorough() {
		maxLen = 6
	}
	refs := []string{"tag", "digestMatch", "digestMismatch", "noRef"}
	variantsOf := map[string][]string{"tag": {""}, "noRef": {""}, "digestMatch": {"", "tag@digest"},
		"digestMismatch": {"", "sha512", "sha384", "tag@digest"}}
	counter := 0
	for n := 0; n <= maxLen; n++ {
		for _, l := range listings(n) {
			for _, pg := range pagings(l) {
				// an empty page in the middle as an extra shape for short listings
				variants := [][][]string{pg}
				if n >= 2 && n <= 3 && len(pg) >= 2 {
					withEmpty := append([][]string{pg[0], {}}, pg[1:]...)
					variants = append(variants, withEmpty)
				}
				for _, pages := range variants {
					for max := -1; max <= n+2 && max <= 7; max++ {
						for _, ref := range refs {
							// the full cross with references only on short listings; tag otherwise
							if ref != "tag" && n > 3 {
								continue
							}
							for _, skip := range []bool{false, true} {
								if skip && n > 2 {
									continue
								}
								for _, variant := range variantsOf[ref] {
									counter++
									// error flavours: all plain on even cases; on odd ones a rotation that puts every
									// flavour at every listing position over the run
									flavors := make([]int, n)
									if counter%2 == 1 {
										for k := range flavors {
											flavors[k] = (counter/2 + k) % 6
										}
									}
									// every third case: later entries repeat the manifest of an earlier entry of the same kind
									sameAs := make([]int, n)
									for k := range sameAs {
										sameAs[k] = -1
									}
									if counter%3 == 0 {
										for k := 1; k < n; k++ {
											for j := 0; j < k; j++ {
												if l[j] == l[k] && (counter/3+k+j)%2 == 0 {
													sameAs[k] = j
													break
												}
											}
										}
									}
									in := Input{Max: max, Pages: pages, Ref: ref, Skip: skip, RefVariant: variant, Flavors: flavors, SameAs: sameAs}
									if in.Pages == nil {
										in.Pages = [][]string{}
									}
									o := runCase(in, true)
									c.Count("refVariant=" + ref + "/" + variant)
									c.Emit(in, o)
									c.Count("ref=" + ref)
									c.Count(fmt.Sprintf("len=%d", n))
									if o.Success != nil {
										c.Count("outcome=success")
									} else if o.Skipped {
										c.Count("outcome=skipped")
									} else {
										c.Count("outcome=error")
									}
									if !skip && n <= 3 {
										// the same case through a verifier without SkipVerify
										o2 := runCase(in, false)
										c.Emit(in, o2)
										c.Count("verifier=no-skipper")
									}
								}
							}
						}
					}
				}
			}
		}
	}
	c.SetExhaustive(true)
	c.Note("listings of length 0..%d over {good,bad,unfetchable} x all pagings x limits -1..min(len+2,7); reference shapes crossed for len<=3, skip for len<=2", maxLen)
	return nil
}

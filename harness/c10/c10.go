// Package c10 drives the real notation.Verify with an instrumented repository and
// verifier over listings x pagings x limits x reference shapes x skip.
package c10

import (
	"context"
	"errors"
	"fmt"

	"github.com/notaryproject/notation-go"
	"github.com/notaryproject/notation-go/verifier/trustpolicy"
	"github.com/notaryproject/notation-go/xverif/common"
	"github.com/opencontainers/go-digest"
	ocispec "github.com/opencontainers/image-spec/specs-go/v1"
)

type Input struct {
	Max   int        `json:"max"`
	Pages [][]string `json:"pages"`
	Ref   string     `json:"ref"`
	Skip  bool       `json:"skip"`
}

type Obs struct {
	Success  *int  `json:"success"`
	Skipped  bool  `json:"skipped"`
	Resolved bool  `json:"resolved"`
	Listed   bool  `json:"listed"`
	Fetched  []int `json:"fetched"`
	Verified []int `json:"verified"`
	DescOk   bool  `json:"descOk"`
}

var artifact = ocispec.Descriptor{MediaType: ocispec.MediaTypeImageManifest, Digest: digest.FromString("artifact"), Size: 8}
var other = digest.FromString("another artifact")

type repo struct {
	pages    [][]string
	resolved bool
	listed   bool
	fetched  []int
	index    map[digest.Digest]int
	kind     map[digest.Digest]string
}

func (r *repo) Resolve(ctx context.Context, reference string) (ocispec.Descriptor, error) {
	r.resolved = true
	return artifact, nil
}

func (r *repo) ListSignatures(ctx context.Context, desc ocispec.Descriptor, fn func([]ocispec.Descriptor) error) error {
	r.listed = true
	i := 0
	for _, p := range r.pages {
		var ds []ocispec.Descriptor
		for _, k := range p {
			d := ocispec.Descriptor{MediaType: ocispec.MediaTypeImageManifest, Digest: digest.FromString(fmt.Sprint("sig", i)), Size: int64(i)}
			r.index[d.Digest] = i
			r.kind[d.Digest] = k
			ds = append(ds, d)
			i++
		}
		if err := fn(ds); err != nil {
			return err
		}
	}
	return nil
}

func (r *repo) FetchSignatureBlob(ctx context.Context, desc ocispec.Descriptor) ([]byte, ocispec.Descriptor, error) {
	r.fetched = append(r.fetched, r.index[desc.Digest])
	if r.kind[desc.Digest] == "unfetchable" {
		return nil, ocispec.Descriptor{}, errors.New("unfetchable")
	}
	return []byte(desc.Digest), ocispec.Descriptor{MediaType: "application/jose+json"}, nil
}

func (r *repo) PushSignature(ctx context.Context, mediaType string, blob []byte, subject ocispec.Descriptor, annotations map[string]string) (a, b ocispec.Descriptor, err error) {
	return
}

type verifier struct {
	r        *repo
	verified []int
}

func (v *verifier) Verify(ctx context.Context, desc ocispec.Descriptor, sig []byte, opts notation.VerifierVerifyOptions) (*notation.VerificationOutcome, error) {
	v.verified = append(v.verified, v.r.index[digest.Digest(sig)])
	out := &notation.VerificationOutcome{RawSignature: sig}
	if desc.Digest == artifact.Digest && v.r.kind[digest.Digest(sig)] == "good" {
		return out, nil
	}
	out.Error = errors.New("bad signature")
	return out, out.Error
}

// skipVerifier additionally implements the (unexported) verifySkipper interface.
type skipVerifier struct {
	verifier
	skip bool
}

func (v *skipVerifier) SkipVerify(ctx context.Context, opts notation.VerifierVerifyOptions) (bool, *trustpolicy.VerificationLevel, error) {
	if v.skip {
		return true, trustpolicy.LevelSkip, nil
	}
	return false, trustpolicy.LevelStrict, nil
}

func refString(kind string) string {
	switch kind {
	case "tag":
		return "reg.example/repo:v1"
	case "digestMatch":
		return "reg.example/repo@" + artifact.Digest.String()
	case "digestMismatch":
		return "reg.example/repo@" + other.String()
	default:
		return "reg.example/repo"
	}
}

func runCase(in Input, withSkipper bool) Obs {
	r := &repo{pages: in.Pages, index: map[digest.Digest]int{}, kind: map[digest.Digest]string{}}
	var v notation.Verifier
	var base *verifier
	if withSkipper {
		sv := &skipVerifier{verifier: verifier{r: r}, skip: in.Skip}
		v, base = sv, &sv.verifier
	} else {
		base = &verifier{r: r}
		v = base
	}
	desc, outcomes, err := notation.Verify(context.Background(), v, r, notation.VerifyOptions{
		ArtifactReference: refString(in.Ref), MaxSignatureAttempts: in.Max})
	o := Obs{Resolved: r.resolved, Listed: r.listed, Fetched: r.fetched, Verified: base.verified}
	if o.Fetched == nil {
		o.Fetched = []int{}
	}
	if o.Verified == nil {
		o.Verified = []int{}
	}
	if err == nil {
		if len(outcomes) == 1 && outcomes[0].RawSignature == nil && outcomes[0].VerificationLevel == trustpolicy.LevelSkip {
			o.Skipped = true
		} else if len(outcomes) >= 1 && outcomes[0].RawSignature != nil {
			// a success: report which signature's outcome came back
			idx, known := r.index[digest.Digest(outcomes[0].RawSignature)]
			if !known {
				idx = -1
			}
			o.Success = &idx
			o.DescOk = len(outcomes) == 1 && desc.Digest == artifact.Digest && desc.Size == artifact.Size &&
				desc.MediaType == artifact.MediaType && outcomes[0].Error == nil
		} else {
			// no error and nothing recognisable: report as a success of an impossible index
			idx := 1 << 30
			o.Success = &idx
		}
	}
	return o
}

func listings(n int) [][]string {
	if n == 0 {
		return [][]string{{}}
	}
	var out [][]string
	for _, l := range listings(n - 1) {
		for _, k := range []string{"good", "bad", "unfetchable"} {
			out = append(out, append(append([]string{}, l...), k))
		}
	}
	return out
}

// all ways to split l into consecutive non-empty pages, plus variants with an empty page
func pagings(l []string) [][][]string {
	if len(l) == 0 {
		return [][][]string{{}, {{}}}
	}
	var out [][][]string
	for cut := 1; cut <= len(l); cut++ {
		for _, rest := range pagings(l[cut:]) {
			out = append(out, append([][]string{l[:cut]}, rest...))
		}
	}
	return out
}

// Run enumerates the property's quantifier. Quick: listings up to 5 with all pagings;
// thorough: up to 6 (the quantifier's bound) - both exhaustive over their space.
func Run(c *common.Ctx) error {
	maxLen := 5
	if c.Thorough() {
		maxLen = 6
	}
	refs := []string{"tag", "digestMatch", "digestMismatch", "noRef"}
	for n := 0; n <= maxLen; n++ {
		for _, l := range listings(n) {
			for _, pg := range pagings(l) {
				// an empty page in the middle as an extra shape for short listings
				variants := [][][]string{pg}
				if n >= 2 && n <= 3 && len(pg) >= 2 {
					withEmpty := append([][]string{pg[0], {}}, pg[1:]...)
					variants = append(variants, withEmpty)
				}
				for _, pages := range variants {
					for max := -1; max <= n+2 && max <= 7; max++ {
						for _, ref := range refs {
							// the full cross with references only on short listings; tag otherwise
							if ref != "tag" && n > 3 {
								continue
							}
							for _, skip := range []bool{false, true} {
								if skip && n > 2 {
									continue
								}
								in := Input{Max: max, Pages: pages, Ref: ref, Skip: skip}
								if in.Pages == nil {
									in.Pages = [][]string{}
								}
								o := runCase(in, true)
								c.Emit(in, o)
								c.Count("ref=" + ref)
								c.Count(fmt.Sprintf("len=%d", n))
								if o.Success != nil {
									c.Count("outcome=success")
								} else if o.Skipped {
									c.Count("outcome=skipped")
								} else {
									c.Count("outcome=error")
								}
								if !skip && n <= 3 {
									// the same case through a verifier without SkipVerify
									o2 := runCase(in, false)
									c.Emit(in, o2)
									c.Count("verifier=no-skipper")
								}
							}
						}
					}
				}
			}
		}
	}
	c.SetExhaustive(true)
	c.Note("listings of length 0..%d over {good,bad,unfetchable} x all pagings x limits -1..min(len+2,7); reference shapes crossed for len<=3, skip for len<=2", maxLen)
	return nil
}

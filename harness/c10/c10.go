// Package c10 drives the real notation.Verify with an instrumented repository and
// verifier over listings x pagings x limits x reference shapes x skip x the way the repository
// answers the callback's request to stop (verbatim / with context added / swallowed / replaced) x
// the Verifier implementation (stubs without / with SkipVerify, and the library's real verifier
// over a trust policy document and genuine envelopes).
package c10

import (
	"context"
	"crypto/x509"
	"encoding/json"
	"errors"
	"fmt"
	"reflect"
	"strconv"
	"strings"
	"sync"
	"time"

	"github.com/notaryproject/notation-core-go/signature"

	"github.com/notaryproject/notation-go"
	realverifier "github.com/notaryproject/notation-go/verifier"
	"github.com/notaryproject/notation-go/verifier/trustpolicy"
	"github.com/notaryproject/notation-go/verifier/truststore"
	"github.com/notaryproject/notation-go/xverif/common"
	"github.com/opencontainers/go-digest"
	ocispec "github.com/opencontainers/image-spec/specs-go/v1"
)

type Input struct {
	Max   int        `json:"max"`
	Pages [][]string `json:"pages"`
	Ref   string     `json:"ref"`
	Skip  bool       `json:"skip"`
	// what the repository's ListSignatures does when the callback returns an error (its only way to stop the
	// listing): "forward" it (verbatim or with context, see Wrap), "swallow" it (return nil), or "replace" it by
	// an unrelated error of its own (the listing is reported as failed)
	ListErr string `json:"listErr"`
	// concretisation only (ignored by the model, theorem concretisation_irrelevant):
	RefVariant string `json:"refVariant"` // "", "sha512", "sha384", "tag@digest"
	Flavors    []int  `json:"flavors"`    // per listed signature: error value of a failing fetch / verification,
	// media type of the fetched envelope and age of the signature manifest (see flavored, mediaTypeOf, createdOf)
	SameAs []int `json:"sameAs"` // per listed signature: -1, or the EARLIER listing position whose manifest digest this
	// entry repeats (a listing may name one manifest twice; both entries count as attempts)
	Wrap int `json:"wrap"` // forward: which context the repository adds to the callback's error (wrapErr; 0 = none);
	// replace: which unrelated error it returns (replacement)
	Verifier string `json:"verifier"` // "stub" (Verify only), "skipper" (stub with SkipVerify), or the library's verifier built
	// by "realNew" / "realNewWithOptions" / "realNewVerifierWithOptions" and handed to notation.Verify AS IS
	Policy int `json:"policy"` // real verifier: shape of the trust policy document (policyDoc)
	// the caller's further options (userMetadataOf, pluginConfigOf): 0 = nil, 1 = empty non-nil map, 2.. = non-empty
	UserMetadata int `json:"userMetadata"`
	PluginConfig int `json:"pluginConfig"`
}

const userMetadataKinds, pluginConfigKinds = 4, 3

// user metadata the caller requires: pairs that every genuine envelope of this harness carries (signedMetadata), so
// that the requirement never turns a good signature into a bad one
var signedMetadata = map[string]string{"buildId": "101", "io.example.team": "release"}

func userMetadataOf(k int) map[string]string {
	switch k % userMetadataKinds {
	case 1:
		return map[string]string{}
	case 2:
		return map[string]string{"buildId": "101"}
	case 3:
		return map[string]string{"buildId": "101", "io.example.team": "release"}
	}
	return nil
}

func pluginConfigOf(k int) map[string]string {
	switch k % pluginConfigKinds {
	case 1:
		return map[string]string{}
	case 2:
		return map[string]string{"endpoint": "https://kms.example", "profile": "verify"}
	}
	return nil
}

type Obs struct {
	Success  *int  `json:"success"`
	Skipped  bool  `json:"skipped"`
	Resolved bool  `json:"resolved"`
	Listed   bool  `json:"listed"`
	Fetched  []int `json:"fetched"`
	Verified []int `json:"verified"`
	DescOk   bool  `json:"descOk"`
}

// the resolved descriptor carries everything a registry may put on it: Verify must return it as resolved
var artifact = ocispec.Descriptor{MediaType: ocispec.MediaTypeImageManifest, Digest: digest.FromString("artifact"), Size: 8,
	Annotations:  map[string]string{"org.example.resolved": "yes"},
	ArtifactType: "application/vnd.example.thing",
	URLs:         []string{"https://mirror.example/artifact"},
	Platform:     &ocispec.Platform{Architecture: "amd64", OS: "linux"}}
var other = digest.FromString("another artifact")

// error values a failing fetch / verification may return; all of them are just failures
func flavored(k int, what string) error {
	switch k % 6 {
	case 1:
		return fmt.Errorf("%s: %w", what, context.DeadlineExceeded) // e.g. an OCSP/CRL http client timeout inside the verifier
	case 2:
		return fmt.Errorf("%s: %w", what, context.Canceled)
	case 3:
		return notation.ErrorVerificationInconclusive{Msg: what}
	case 4:
		return notation.ErrorSignatureRetrievalFailed{Msg: what}
	case 5:
		return notation.ErrorVerificationFailed{Msg: what}
	}
	return errors.New(what)
}

func (r *repo) flavor(i int) int {
	if i >= 0 && i < len(r.flavors) {
		return r.flavors[i]
	}
	return 0
}

type repo struct {
	pages    [][]string
	resolved bool
	listed   bool
	fetched  []int
	flavors  []int
	sameAs   []int
	kinds    []string // by listing position
	listErr  string
	wrap     int
	real     *realWorld // non-nil: the blobs are genuine envelopes for the library's verifier
	last     int        // listing position of the latest fetch
}

func (r *repo) Resolve(ctx context.Context, reference string) (ocispec.Descriptor, error) {
	r.resolved = true
	return artifact, nil
}

func (r *repo) ListSignatures(ctx context.Context, desc ocispec.Descriptor, fn func([]ocispec.Descriptor) error) error {
	r.listed = true
	i := 0
	for _, p := range r.pages {
		var ds []ocispec.Descriptor
		for _, k := range p {
			// the manifest digest (repeated when the listing names one manifest twice), the listing position
			// as the size (so that the harness knows which ENTRY is meant), and the creation time annotation
			// notation writes on every signature manifest
			src := i
			if i < len(r.sameAs) && r.sameAs[i] >= 0 && r.sameAs[i] < i {
				src = r.sameAs[i]
			}
			d := ocispec.Descriptor{MediaType: ocispec.MediaTypeImageManifest, Digest: digest.FromString(fmt.Sprint("sig", src)), Size: int64(i),
				Annotations: map[string]string{ocispec.AnnotationCreated: createdOf(r.flavor(i), i)}}
			r.kinds = append(r.kinds, k)
			ds = append(ds, d)
			i++
		}
		if err := fn(ds); err != nil {
			// the callback asked to stop: no further page is requested; what the caller gets back is up to
			// the repository implementation
			switch r.listErr {
			case "swallow":
				return nil
			case "replace":
				return replacement(r.wrap, err)
			}
			return wrapErr(r.wrap, desc, err)
		}
	}
	return nil
}

// ---- what a repository may make of the callback's error ------------------------------------------------

// annotated adds context the Go 1.13 way: its own message, the cause behind Unwrap
type annotated struct {
	op    string
	cause error
}

func (e *annotated) Error() string { return "registry: " + e.op + " interrupted" }
func (e *annotated) Unwrap() error { return e.cause }

// multi is a clean-up error list the Go 1.20 way: Unwrap() []error
type multi struct{ errs []error }

func (e *multi) Error() string   { return fmt.Sprintf("%d errors while listing referrers", len(e.errs)) }
func (e *multi) Unwrap() []error { return e.errs }

// opaque has no Unwrap at all and answers errors.Is through an Is method
type opaque struct{ cause error }

func (e opaque) Error() string        { return "listing stopped by the caller" }
func (e opaque) Is(target error) bool { return errors.Is(e.cause, target) }

const wrapKinds = 8

// wrapErr: context a forwarding repository (a tracing / retrying decorator, a client that closes a response
// body) adds to the callback's error; errors.Is finds the callback's error in every one of them
func wrapErr(k int, desc ocispec.Descriptor, err error) error {
	cleanup := errors.New("closing the referrers response: connection reset by peer")
	switch k % wrapKinds {
	case 1:
		return fmt.Errorf("list signatures of %s: %w", desc.Digest, err)
	case 2:
		return errors.Join(err, cleanup)
	case 3:
		return errors.Join(cleanup, err)
	case 4:
		return &annotated{op: "ListSignatures", cause: err}
	case 5:
		return &multi{errs: []error{cleanup, err}}
	case 6:
		return fmt.Errorf("attempt 1 of 3: %w", &annotated{op: "Referrers", cause: fmt.Errorf("page callback: %w", err)})
	case 7:
		return opaque{cause: err}
	}
	return err
}

const replaceKinds = 4

// replacement: an error of the repository's own, returned INSTEAD of the callback's (does not wrap it)
func replacement(k int, err error) error {
	switch k % replaceKinds {
	case 1:
		return errors.New("done verification") // the text of notation's private sentinel, another value
	case 2:
		return notation.ErrorVerificationFailed{Msg: "listing aborted"} // the type of the limit error, another value
	case 3:
		return fmt.Errorf("listing stopped: %v", err) // mentions the callback's error by text only (%v, not %w)
	}
	return errors.New("registry: connection reset while closing the referrers listing")
}

func (r *repo) kindAt(i int) string {
	if i >= 0 && i < len(r.kinds) {
		return r.kinds[i]
	}
	return "bad"
}

// media types a registry may report for a signature envelope: a future or parameterised one is just
// a signature that fails to verify, never a reason to stop
func mediaTypeOf(k int) string {
	switch k % 4 {
	case 1:
		return "application/cose"
	case 2:
		return "application/jose+json; charset=utf-8"
	case 3:
		return "application/vnd.example.future-envelope+cbor"
	}
	return "application/jose+json"
}

// creation times: listing order is NOT age order (oldest first when the flavours are all zero)
func createdOf(k, i int) string {
	return time.Date(2024, 1, 1, 0, 0, 0, 0, time.UTC).Add(time.Duration(i*7+(k*13)%5) * time.Hour).Format(time.RFC3339)
}

func (r *repo) FetchSignatureBlob(ctx context.Context, desc ocispec.Descriptor) ([]byte, ocispec.Descriptor, error) {
	i := int(desc.Size)
	r.fetched = append(r.fetched, i)
	r.last = i
	if r.kindAt(i) == "unfetchable" {
		return nil, ocispec.Descriptor{}, flavored(r.flavor(i), "unfetchable")
	}
	if r.real != nil {
		blob, mt := r.real.envelope(r.kindAt(i), r.flavor(i), i)
		return blob, ocispec.Descriptor{MediaType: mt, Digest: digest.FromBytes(blob), Size: int64(len(blob))}, nil
	}
	return []byte(fmt.Sprint(i)), ocispec.Descriptor{MediaType: mediaTypeOf(r.flavor(i))}, nil
}

func (r *repo) PushSignature(ctx context.Context, mediaType string, blob []byte, subject ocispec.Descriptor, annotations map[string]string) (a, b ocispec.Descriptor, err error) {
	return
}

type verifier struct {
	r        *repo
	verified []int
}

func (v *verifier) Verify(ctx context.Context, desc ocispec.Descriptor, sig []byte, opts notation.VerifierVerifyOptions) (*notation.VerificationOutcome, error) {
	idx, _ := strconv.Atoi(string(sig))
	v.verified = append(v.verified, idx)
	// like the real verifier, the outcome carries the envelope content: a signed payload naming the
	// artifact by media type, digest and size, with annotations of its own (user metadata)
	payload, _ := json.Marshal(map[string]any{"targetArtifact": ocispec.Descriptor{MediaType: artifact.MediaType,
		Digest: artifact.Digest, Size: artifact.Size, Annotations: map[string]string{"buildId": "101"}}})
	out := &notation.VerificationOutcome{RawSignature: sig, EnvelopeContent: &signature.EnvelopeContent{
		Payload: signature.Payload{ContentType: "application/vnd.cncf.notary.payload.v1+json", Content: payload}}}
	if desc.Digest == artifact.Digest && v.r.kindAt(idx) == "good" {
		return out, nil
	}
	out.Error = flavored(v.r.flavor(idx), "bad signature")
	return out, out.Error
}

// skipVerifier additionally implements the (unexported) verifySkipper interface.
type skipVerifier struct {
	verifier
	skip bool
}

func (v *skipVerifier) SkipVerify(ctx context.Context, opts notation.VerifierVerifyOptions) (bool, *trustpolicy.VerificationLevel, error) {
	if v.skip {
		return true, trustpolicy.LevelSkip, nil
	}
	return false, trustpolicy.LevelStrict, nil
}

// ---- the library's own verifier ------------------------------------------------------------------------

const realPositions = 8

// realWorld: two signing chains (one trusted, one not) and, per listing position, genuine envelopes:
// "good" = signed by the trusted chain over the resolved artifact; "bad" = signed by the untrusted chain, or by
// the trusted chain over ANOTHER artifact (both pass the integrity check and reach the trust store, so that the
// instrumented trust store sees every evaluation). JWS and COSE.
type realWorld struct {
	trusted, untrusted *common.Chain
	blobs              map[string][]byte // "kind/format/position"
	index              map[string]int    // envelope bytes -> listing position
}

var (
	worldOnce sync.Once
	world     *realWorld
)

func getWorld() *realWorld {
	worldOnce.Do(func() {
		w := &realWorld{trusted: common.MakeChain(common.ChainOpts{Tag: "c10 trusted"}), untrusted: common.MakeChain(common.ChainOpts{Tag: "c10 untrusted"}),
			blobs: map[string][]byte{}, index: map[string]int{}}
		// what was signed: the artifact by media type, digest and size, with the signer's user metadata
		signedArtifact := ocispec.Descriptor{MediaType: artifact.MediaType, Digest: artifact.Digest, Size: artifact.Size, Annotations: signedMetadata}
		elsewhere := ocispec.Descriptor{MediaType: artifact.MediaType, Digest: other, Size: artifact.Size, Annotations: signedMetadata}
		for pos := 0; pos < realPositions; pos++ {
			for _, format := range []string{common.MediaJWS, common.MediaCOSE} {
				for kind, o := range map[string]common.EnvOpts{
					"good":      {Chain: w.trusted, Target: &signedArtifact},
					"untrusted": {Chain: w.untrusted, Target: &signedArtifact},
					"elsewhere": {Chain: w.trusted, Target: &elsewhere},
				} {
					o.Format = format
					o.SigningTime = time.Now().Add(-time.Duration(pos+1) * time.Minute).Truncate(time.Second)
					b := common.MustSign(o)
					if _, dup := w.index[string(b)]; dup {
						panic("c10: two identical envelopes")
					}
					w.blobs[fmt.Sprint(kind, "/", format, "/", pos)] = b
					w.index[string(b)] = pos
				}
			}
		}
		world = w
	})
	return world
}

func (w *realWorld) envelope(kind string, flavor, pos int) ([]byte, string) {
	format := common.MediaJWS
	if flavor%2 == 1 {
		format = common.MediaCOSE
	}
	k := "good"
	if kind != "good" {
		k = "untrusted"
		if (flavor/2)%2 == 1 {
			k = "elsewhere"
		}
	}
	return w.blobs[fmt.Sprint(k, "/", format, "/", pos%realPositions)], format
}

// logStore is the trust store of the real verifier: every verification that gets past the integrity check
// loads it exactly once, which is how the harness sees WHICH fetched envelope the real verifier evaluated
type logStore struct {
	roots     []*x509.Certificate
	r         *repo
	evaluated []int
}

func (s *logStore) GetCertificates(ctx context.Context, storeType truststore.Type, namedStore string) ([]*x509.Certificate, error) {
	if storeType != truststore.TypeCA || namedStore != "c10" {
		return nil, truststore.TrustStoreError{Msg: "no such store"}
	}
	s.evaluated = append(s.evaluated, s.r.last)
	return s.roots, nil
}

const policyShapes = 6

// policyDoc: a trust policy document in which the statement applicable to reg.example/repo has level skip
// (skip = true) or strict; the other statement, where there is one, has the opposite level, so that picking the
// wrong statement shows
func policyDoc(shape int, skip bool) *trustpolicy.OCIDocument {
	stmt := func(name string, skipLevel bool, scopes ...string) trustpolicy.OCITrustPolicy {
		if skipLevel {
			return trustpolicy.OCITrustPolicy{Name: name, RegistryScopes: scopes,
				SignatureVerification: trustpolicy.SignatureVerification{VerificationLevel: "skip"}}
		}
		return trustpolicy.OCITrustPolicy{Name: name, RegistryScopes: scopes,
			SignatureVerification: trustpolicy.SignatureVerification{VerificationLevel: "strict",
				Override: map[trustpolicy.ValidationType]trustpolicy.ValidationAction{trustpolicy.TypeRevocation: trustpolicy.ActionSkip}},
			TrustStores: []string{"ca:c10"}, TrustedIdentities: []string{"*"}}
	}
	var ps []trustpolicy.OCITrustPolicy
	switch shape % policyShapes {
	case 0:
		ps = []trustpolicy.OCITrustPolicy{stmt("applicable", skip, "*")}
	case 1:
		ps = []trustpolicy.OCITrustPolicy{stmt("applicable", skip, "reg.example/repo"), stmt("everything-else", !skip, "*")}
	case 2:
		ps = []trustpolicy.OCITrustPolicy{stmt("everything-else", !skip, "*"), stmt("applicable", skip, "reg.example/repo")}
	case 3:
		ps = []trustpolicy.OCITrustPolicy{stmt("another-repository", !skip, "reg.example/other"), stmt("applicable", skip, "*")}
	case 4:
		ps = []trustpolicy.OCITrustPolicy{stmt("other-repositories", !skip, "reg.example/other", "reg.example/more"),
			stmt("applicable", skip, "reg.example/aaa", "reg.example/repo", "reg.example/zzz")}
	case 5:
		ps = []trustpolicy.OCITrustPolicy{stmt("applicable", skip, "*"), stmt("another-repository", !skip, "reg.example/other")}
	}
	return &trustpolicy.OCIDocument{Version: "1.0", TrustPolicies: ps}
}

// newReal builds the library's verifier through one of its public constructors. The value is handed to
// notation.Verify exactly as the constructor returned it: no wrapper, no adapter - whether it offers the
// optional skip interface is for notation.Verify to find out.
func newReal(ctor string, store truststore.X509TrustStore, doc *trustpolicy.OCIDocument) notation.Verifier {
	var v notation.Verifier
	var err error
	switch ctor {
	case "realNew":
		v, err = realverifier.New(doc, store, nil)
	case "realNewWithOptions":
		v, err = realverifier.NewWithOptions(doc, store, nil, realverifier.VerifierOptions{})
	case "realNewVerifierWithOptions":
		v, err = realverifier.NewVerifierWithOptions(store, realverifier.VerifierOptions{OCITrustPolicy: doc})
	default:
		panic("c10: unknown verifier " + ctor)
	}
	if err != nil {
		panic(fmt.Sprintf("c10: %s: %v", ctor, err))
	}
	return v
}

func refString(kind, variant string) string {
	switch kind {
	case "tag":
		return "reg.example/repo:v1"
	case "digestMatch":
		if variant == "tag@digest" {
			return "reg.example/repo:v1@" + artifact.Digest.String()
		}
		return "reg.example/repo@" + artifact.Digest.String()
	case "digestMismatch":
		// a digest the repository does not resolve to: another sha256, or the artifact's content
		// under another algorithm (still not the digest the repository answers with)
		switch variant {
		case "sha512":
			return "reg.example/repo@" + digest.SHA512.FromString("artifact").String()
		case "sha384":
			return "reg.example/repo@" + digest.SHA384.FromString("artifact").String()
		case "tag@digest":
			return "reg.example/repo:v1@" + other.String()
		}
		return "reg.example/repo@" + other.String()
	default:
		return "reg.example/repo"
	}
}

func runCase(in Input) Obs {
	r := &repo{pages: in.Pages, flavors: in.Flavors, sameAs: in.SameAs, listErr: in.ListErr, wrap: in.Wrap, last: -1}
	var v notation.Verifier
	verifiedLog := func() []int { return nil }
	switch {
	case in.Verifier == "skipper":
		sv := &skipVerifier{verifier: verifier{r: r}, skip: in.Skip}
		v, verifiedLog = sv, func() []int { return sv.verified }
	case in.Verifier == "stub":
		if in.Skip {
			panic("c10: a verifier without SkipVerify cannot express a skip level")
		}
		base := &verifier{r: r}
		v, verifiedLog = base, func() []int { return base.verified }
	case strings.HasPrefix(in.Verifier, "real"):
		r.real = getWorld()
		store := &logStore{roots: []*x509.Certificate{r.real.trusted.Root().Cert}, r: r}
		v, verifiedLog = newReal(in.Verifier, store, policyDoc(in.Policy, in.Skip)), func() []int { return store.evaluated }
	default:
		panic("c10: unknown verifier " + in.Verifier)
	}
	desc, outcomes, err := notation.Verify(context.Background(), v, r, notation.VerifyOptions{
		ArtifactReference: refString(in.Ref, in.RefVariant), MaxSignatureAttempts: in.Max,
		UserMetadata: userMetadataOf(in.UserMetadata), PluginConfig: pluginConfigOf(in.PluginConfig)})
	o := Obs{Resolved: r.resolved, Listed: r.listed, Fetched: r.fetched, Verified: verifiedLog()}
	if o.Fetched == nil {
		o.Fetched = []int{}
	}
	if o.Verified == nil {
		o.Verified = []int{}
	}
	if err == nil {
		if len(outcomes) == 1 && outcomes[0] != nil && outcomes[0].RawSignature == nil && outcomes[0].VerificationLevel != nil &&
			outcomes[0].VerificationLevel.Name == trustpolicy.LevelSkip.Name {
			o.Skipped = true
		} else if len(outcomes) >= 1 && outcomes[0] != nil && outcomes[0].RawSignature != nil {
			// a success: report which signature's outcome came back
			idx := -1
			if r.real != nil {
				if k, ok := r.real.index[string(outcomes[0].RawSignature)]; ok {
					idx = k
				}
			} else if k, aerr := strconv.Atoi(string(outcomes[0].RawSignature)); aerr == nil {
				idx = k
			}
			if idx < 0 || idx >= len(r.kinds) {
				idx = -1
			}
			o.Success = &idx
			// the RESOLVED descriptor, field for field (annotations, platform, artifact type, URLs included)
			o.DescOk = len(outcomes) == 1 && reflect.DeepEqual(desc, artifact) && outcomes[0].Error == nil
		} else {
			// no error and nothing recognisable: report as a success of an impossible index
			idx := 1 << 30
			o.Success = &idx
		}
	}
	return o
}

func listings(n int) [][]string {
	if n == 0 {
		return [][]string{{}}
	}
	var out [][]string
	for _, l := range listings(n - 1) {
		for _, k := range []string{"good", "bad", "unfetchable"} {
			out = append(out, append(append([]string{}, l...), k))
		}
	}
	return out
}

// all ways to split l into consecutive non-empty pages, plus variants with an empty page
func pagings(l []string) [][][]string {
	if len(l) == 0 {
		return [][][]string{{}, {{}}}
	}
	var out [][][]string
	for cut := 1; cut <= len(l); cut++ {
		for _, rest := range pagings(l[cut:]) {
			out = append(out, append([][]string{l[:cut]}, rest...))
		}
	}
	return out
}

// how the repository answers a stop request: the four behaviours (verbatim, with context, swallowed, replaced)
type stopMode struct {
	listErr string
	wrap    int
}

func stopModes(counter int, all bool) []stopMode {
	ms := []stopMode{{"forward", 0}, {"forward", 1 + counter%(wrapKinds-1)}, {"swallow", 0}, {"replace", counter % replaceKinds}}
	if all {
		return ms
	}
	return ms[counter%4 : counter%4+1]
}

var realCtors = []string{"realNew", "realNewWithOptions", "realNewVerifierWithOptions"}

// Run enumerates the property's quantifier. Quick: listings up to 5 with all pagings;
// thorough: up to 6 (the quantifier's bound) - both exhaustive over their space.
func Run(c *common.Ctx) error {
	maxLen, shortLen := 5, 3
	if c.Thorough() {
		maxLen, shortLen = 6, 4
	}
	refs := []string{"tag", "digestMatch", "digestMismatch", "noRef"}
	variantsOf := map[string][]string{"tag": {""}, "noRef": {""}, "digestMatch": {"", "tag@digest"},
		"digestMismatch": {"", "sha512", "sha384", "tag@digest"}}
	emit := func(in Input) {
		if in.Pages == nil {
			in.Pages = [][]string{}
		}
		o := runCase(in)
		c.Emit(in, o)
		c.Count("verifier=" + in.Verifier)
		c.Count("listErr=" + in.ListErr)
		if in.ListErr == "forward" {
			c.Count(fmt.Sprintf("forward/wrap=%d", in.Wrap%wrapKinds))
		}
		if strings.HasPrefix(in.Verifier, "real") {
			c.Count(fmt.Sprintf("real/skip=%v/policy=%d", in.Skip, in.Policy%policyShapes))
		}
		c.Count(fmt.Sprintf("skip=%v/userMetadata=%d/pluginConfig=%d", in.Skip, in.UserMetadata, in.PluginConfig))
		if o.Success != nil {
			c.Count("outcome=success")
		} else if o.Skipped {
			c.Count("outcome=skipped")
		} else {
			c.Count("outcome=error")
		}
	}
	// the seed shifts every rotation below (error flavours, repeated manifests, added context, constructor, policy shape)
	counter := c.Rand.Intn(5040)
	for n := 0; n <= maxLen; n++ {
		for _, l := range listings(n) {
			for _, pg := range pagings(l) {
				// an empty page in the middle as an extra shape for short listings
				variants := [][][]string{pg}
				if n >= 2 && n <= 3 && len(pg) >= 2 {
					withEmpty := append([][]string{pg[0], {}}, pg[1:]...)
					variants = append(variants, withEmpty)
				}
				for _, pages := range variants {
					maxes := []int{}
					for max := -1; max <= n+2 && max <= 7; max++ {
						maxes = append(maxes, max)
					}
					if n <= 2 {
						maxes = append(maxes, 100) // the CLI's default
					}
					for _, max := range maxes {
						for _, ref := range refs {
							// the full cross with references only on short listings; tag otherwise
							if ref != "tag" && n > shortLen {
								continue
							}
							for _, skip := range []bool{false, true} {
								if skip && n > 2 {
									continue
								}
								for _, variant := range variantsOf[ref] {
									counter++
									// error flavours: all plain on even cases; on odd ones a rotation that puts every
									// flavour at every listing position over the run
									flavors := make([]int, n)
									if counter%2 == 1 {
										for k := range flavors {
											flavors[k] = (counter/2 + k) % 6
										}
									}
									// every third case: later entries repeat the manifest of an earlier entry of the same kind
									sameAs := make([]int, n)
									for k := range sameAs {
										sameAs[k] = -1
									}
									if counter%3 == 0 {
										for k := 1; k < n; k++ {
											for j := 0; j < k; j++ {
												if l[j] == l[k] && (counter/3+k+j)%2 == 0 {
													sameAs[k] = j
													break
												}
											}
										}
									}
									// the repository's answer to a stop request: all four behaviours on short listings, a
									// rotation on long ones
									for k, m := range stopModes(counter, n <= shortLen) {
										// the caller's further options: a rotation; under a skip level the full cross (once per case)
										in := Input{Max: max, Pages: pages, Ref: ref, Skip: skip, RefVariant: variant, Flavors: flavors, SameAs: sameAs,
											ListErr: m.listErr, Wrap: m.wrap, Verifier: "skipper",
											UserMetadata: (counter + k) % userMetadataKinds, PluginConfig: (counter/userMetadataKinds + k) % pluginConfigKinds}
										emit(in)
										if skip && k == 0 {
											for um := 0; um < userMetadataKinds; um++ {
												for pc := 0; pc < pluginConfigKinds; pc++ {
													if um != in.UserMetadata || pc != in.PluginConfig {
														in2 := in
														in2.UserMetadata, in2.PluginConfig = um, pc
														emit(in2)
													}
												}
											}
										}
										c.Count("refVariant=" + ref + "/" + variant)
										c.Count("ref=" + ref)
										c.Count(fmt.Sprintf("len=%d", n))
										if !skip && n <= shortLen {
											// the same case through a verifier without SkipVerify
											in.Verifier = "stub"
											emit(in)
										}
									}
									// the library's own verifier: it selects the applicable statement from the reference, which
									// it only accepts in the form repository@digest
									if n <= shortLen && (ref == "digestMatch" || ref == "digestMismatch") && variant != "tag@digest" {
										for k, m := range stopModes(counter, true) {
											if skip && k != counter%4 {
												continue // under skip nothing is listed: one stop behaviour per case is enough
											}
											in := Input{Max: max, Pages: pages, Ref: ref, Skip: skip, RefVariant: variant, Flavors: flavors, SameAs: sameAs,
												ListErr: m.listErr, Wrap: m.wrap, Verifier: realCtors[(counter+k)%len(realCtors)], Policy: (counter/3 + k) % policyShapes,
												UserMetadata: (counter/2 + k) % userMetadataKinds, PluginConfig: (counter/5 + k) % pluginConfigKinds}
											emit(in)
											if skip {
												for um := 0; um < userMetadataKinds; um++ {
													for pc := 0; pc < pluginConfigKinds; pc++ {
														if um != in.UserMetadata || pc != in.PluginConfig {
															in2 := in
															in2.UserMetadata, in2.PluginConfig = um, pc
															emit(in2)
														}
													}
												}
											}
										}
									}
								}
							}
						}
					}
				}
			}
		}
	}
	c.SetExhaustive(true)
	c.Note("listings of length 0..%[1]d over {good,bad,unfetchable} x all pagings x limits -1..min(len+2,7) and 100 for len<=2; the caller's further options UserMetadata (nil / empty map / 1 / 2 pairs that the envelopes carry) x PluginConfig (nil / empty / non-empty): fully crossed under a skip level (stub skipper and real verifier), rotating otherwise; reference shapes crossed for len<=%[2]d, skip for len<=2; "+
		"repository's answer to the callback's stop request: verbatim / with context added (%[3]d kinds: fmt %%w, errors.Join either side, Unwrap() error, Unwrap() []error, two layers, Is method) / swallowed / replaced by an unrelated error (%[4]d kinds) - all four for len<=%[2]d, rotating for longer listings; "+
		"verifiers: stub with SkipVerify, stub without (non-skip, len<=%[2]d), and for repository@digest references with len<=%[2]d the library's verifier (New / NewWithOptions / NewVerifierWithOptions, handed over unwrapped) over %[5]d policy document shapes (level skip or strict on the applicable statement, the opposite level on the other) and genuine JWS / COSE envelopes (good = trusted chain over the artifact; bad = untrusted chain, or trusted chain over another artifact), evaluations observed through an instrumented trust store",
		maxLen, shortLen, wrapKinds-1, replaceKinds, policyShapes)
	return nil
}

// Package c03 drives the real verifier.Verify over worlds of named trust stores of the three
// store types (names from a pool of three, so the same name exists under several types),
// trust policy documents of one to three statements with different registry scopes, both
// signing schemes and both envelope formats - against an instrumented in-memory trust store
// and against the real x509TrustStore over a generated directory tree - and observes the
// authenticity result, the (type, name) sequence of GetCertificates calls and whether the
// signature was accepted.
package c03

import (
	"context"
	"crypto/x509"
	"errors"
	"fmt"
	"math/rand"
	"os"
	"path/filepath"
	"sort"
	"strings"
	"time"

	"github.com/notaryproject/notation-go"
	"github.com/notaryproject/notation-go/dir"
	"github.com/notaryproject/notation-go/verifier"
	"github.com/notaryproject/notation-go/verifier/trustpolicy"
	"github.com/notaryproject/notation-go/verifier/truststore"
	"github.com/notaryproject/notation-go/xverif/common"
	"github.com/opencontainers/go-digest"
	ocispec "github.com/opencontainers/image-spec/specs-go/v1"
)

// ---- JSON shapes of the Lean structures -------------------------------------------------

type Store struct {
	Ty    string `json:"ty"`
	Name  string `json:"name"`
	Ok    bool   `json:"ok"`
	Certs []int  `json:"certs"`
}

type Stmt struct {
	Scopes      []string `json:"scopes"`
	TrustStores []string `json:"trustStores"`
	Level       string   `json:"level"`
}

type Input struct {
	Scheme     string  `json:"scheme"`
	Chain      []int   `json:"chain"`
	Statements []Stmt  `json:"statements"`
	Repo       string  `json:"repo"`
	World      []Store `json:"world"`
	Backend    string  `json:"backend"`
	Format     string  `json:"format"`
}

type Call struct {
	Ty   string `json:"ty"`
	Name string `json:"name"`
}

type Obs struct {
	Result   string `json:"result"`
	Calls    []Call `json:"calls"`
	Accepted bool   `json:"accepted"`
}

// ---- the concrete PKI ---------------------------------------------------------------------

// certificate identifiers of the model
const (
	leafA  = 0 // chain A: leaf -> intermediate -> root
	interA = 1
	rootA  = 2
	leafB  = 3 // chain B: leaf -> root
	rootB  = 4
	selfC  = 5 // chain C: a self-signed signing certificate
	rootU  = 6 // unrelated root CA
	selfV  = 7 // unrelated self-signed signing certificate
	nCerts = 8
)

var chainIDs = map[string][]int{"A": {leafA, interA, rootA}, "B": {leafB, rootB}, "C": {selfC}}
var chainNames = []string{"A", "B", "C"}

type pki struct {
	certs  [nCerts]*x509.Certificate
	chains map[string]*common.Chain
	envs   map[string][]byte
}

var target = ocispec.Descriptor{MediaType: "application/vnd.oci.image.manifest.v1+json", Digest: digest.FromString("c03 artifact"), Size: 12}

func newPKI() *pki {
	nb := time.Now().Add(-48 * time.Hour)
	p := &pki{chains: map[string]*common.Chain{}, envs: map[string][]byte{}}
	p.chains["A"] = common.MakeChain(common.ChainOpts{Tag: "c03-A", Intermediate: true, RootNB: nb, InterNB: nb, LeafNB: nb})
	p.chains["B"] = common.MakeChain(common.ChainOpts{Tag: "c03-B", RootNB: nb, LeafNB: nb})
	p.chains["C"] = common.MakeChain(common.ChainOpts{Tag: "c03-C", SelfSignedLeaf: true, LeafNB: nb})
	for name, ids := range chainIDs {
		ch := p.chains[name]
		if len(ch.Certs) != len(ids) {
			panic("c03: chain length")
		}
		for k, id := range ids {
			p.certs[id] = ch.Certs[k].Cert
		}
	}
	p.certs[rootU] = common.MakeCert(common.CertOpts{Subject: common.Name("root c03-U"), CA: true, PathLen: 1, NotBefore: nb}).Cert
	p.certs[selfV] = common.MakeCert(common.CertOpts{Subject: common.Name("leaf c03-V"), EKU: []x509.ExtKeyUsage{x509.ExtKeyUsageCodeSigning}, NotBefore: nb}).Cert
	return p
}

func (p *pki) env(chain, scheme, format string) []byte {
	k := chain + "/" + scheme + "/" + format
	if b, ok := p.envs[k]; ok {
		return b
	}
	sch, media := common.SchemeX509, common.MediaJWS
	if scheme == "signingAuthority" {
		sch = common.SchemeAuthority
	}
	if format == "cose" {
		media = common.MediaCOSE
	}
	b := common.MustSign(common.EnvOpts{Format: media, Chain: p.chains[chain], Target: &target, Scheme: sch,
		SigningTime: time.Now().Add(-time.Hour).Truncate(time.Second)})
	p.envs[k] = b
	return b
}

// what the real x509TrustStore accepts: CA or self-signed certificates; root CAs only under tsa
var caOrSelfSigned = map[int]bool{interA: true, rootA: true, rootB: true, selfC: true, rootU: true, selfV: true}
var rootCA = map[int]bool{rootA: true, rootB: true, rootU: true}

// ---- abstract cases ------------------------------------------------------------------------

var storeTypes = []string{"ca", "signingAuthority", "tsa"}
var storeNames = []string{"alpha", "beta", "gamma"}

// place is what the generator put under one (type, name).
type place struct {
	ty, name string
	kind     string // "certs" | "empty" | "broken"
	certs    []int
	fault    int // variant of "broken" in the directory back end
}

type acase struct {
	scheme, chain, format, backend string
	stmts                          []Stmt
	repo                           string
	places                         []place
	malformed                      bool // some trustStores value could not be written in a validated policy
	verifyTimestamp                []string
	mode                           string
}

func wantType(scheme string) string {
	if scheme == "signingAuthority" {
		return "signingAuthority"
	}
	return "ca"
}

var scopePool = []string{"reg.example/a", "reg.example/b", "reg.example/c"}
var malformedValues = []string{"alpha", "ca", "", ":alpha", "ca:", "signingAuthority:", "ca:alpha:beta", "signingAuthority:beta:ca", "CA:alpha",
	"x509:alpha", "ca: alpha", " ca:alpha", "ca;alpha", "tsa", "ca:..", "signingauthority:gamma", "ca:alpha ", "::"}

func pick(r *rand.Rand, xs []string) string { return xs[r.Intn(len(xs))] }

// genList draws a trustStores list: values type:name over the pool (plus the name "delta" that
// is never placed), with duplicates, several types; `bias` is the probability of the wanted type.
func genList(r *rand.Rand, want string, bias float64, malformed bool) []string {
	n := 1 + r.Intn(4)
	if r.Intn(4) == 0 {
		n += r.Intn(5)
	}
	out := make([]string, 0, n)
	for k := 0; k < n; k++ {
		if len(out) > 0 && r.Intn(5) == 0 {
			out = append(out, out[r.Intn(len(out))]) // a duplicate
			continue
		}
		ty := pick(r, storeTypes)
		if r.Float64() < bias {
			ty = want
		}
		name := pick(r, storeNames)
		if r.Intn(25) == 0 {
			name = "delta"
		}
		out = append(out, ty+":"+name)
	}
	if malformed {
		m := 1 + r.Intn(2)
		for k := 0; k < m; k++ {
			v := pick(r, malformedValues)
			pos := r.Intn(len(out) + 1)
			out = append(out[:pos], append([]string{v}, out[pos:]...)...)
		}
	}
	return out
}

func listedNames(list []string, ty string) map[string]bool {
	m := map[string]bool{}
	for _, e := range list {
		t, n, ok := strings.Cut(e, ":")
		if ok && t == ty {
			m[n] = true
		}
	}
	return m
}

func genCase(r *rand.Rand) acase {
	a := acase{}
	a.scheme = pick(r, []string{"x509", "signingAuthority"})
	a.chain = pick(r, chainNames)
	a.format = pick(r, []string{"jws", "cose"})
	a.backend = pick(r, []string{"mem", "dir"})
	a.malformed = r.Intn(8) == 0
	want := wantType(a.scheme)
	chain := chainIDs[a.chain]

	// statements and scopes
	nst := 1 + r.Intn(3)
	scopes := append([]string{}, scopePool...)
	r.Shuffle(len(scopes), func(i, j int) { scopes[i], scopes[j] = scopes[j], scopes[i] })
	wildAt := -1
	if r.Intn(2) == 0 {
		wildAt = r.Intn(nst)
	}
	for k := 0; k < nst; k++ {
		st := Stmt{Level: pick(r, []string{"strict", "permissive", "audit"})}
		if k == wildAt {
			st.Scopes = []string{"*"}
		} else {
			st.Scopes = []string{scopes[0]}
			scopes = scopes[1:]
			if len(scopes) > nst-k && r.Intn(4) == 0 {
				st.Scopes = append(st.Scopes, scopes[0])
				scopes = scopes[1:]
			}
		}
		a.stmts = append(a.stmts, st)
		a.verifyTimestamp = append(a.verifyTimestamp, "")
	}
	// the repository: mostly one that some statement names
	switch x := r.Intn(10); {
	case x < 7:
		st := a.stmts[r.Intn(nst)]
		a.repo = st.Scopes[r.Intn(len(st.Scopes))]
		if a.repo == "*" {
			a.repo = pick(r, scopePool)
		}
	case x < 9:
		a.repo = pick(r, scopePool)
	default:
		a.repo = "reg.example/none"
	}
	// which statement applies (generator's own view, used only to steer the distribution)
	app := -1
	for k, st := range a.stmts {
		for _, s := range st.Scopes {
			if s == a.repo {
				app = k
			}
		}
	}
	if app < 0 {
		app = wildAt
	}

	a.mode = pick(r, []string{"random", "random", "adversarial", "adversarial", "good", "good", "good-broken"})
	for k := range a.stmts {
		bias := 0.5
		if k != app {
			bias = 0.7 // the other statements tend to list stores that would confer trust
		}
		a.stmts[k].TrustStores = genList(r, want, bias, a.malformed && (k == app || r.Intn(2) == 0))
		if k == app && strings.HasPrefix(a.mode, "good") && len(listedNames(a.stmts[k].TrustStores, want)) == 0 {
			// the good modes want at least one listed store of the required type
			ts := a.stmts[k].TrustStores
			pos := r.Intn(len(ts) + 1)
			a.stmts[k].TrustStores = append(ts[:pos:pos], append([]string{want + ":" + pick(r, storeNames)}, ts[pos:]...)...)
		}
	}
	var appList []string
	if app >= 0 {
		appList = a.stmts[app].TrustStores
	}
	listed := listedNames(appList, want)

	// placements
	randCerts := func(pool []int, max int) []int {
		n := 1 + r.Intn(max)
		var out []int
		for k := 0; k < n; k++ {
			out = append(out, pool[r.Intn(len(pool))])
		}
		return out
	}
	unrelated := []int{}
	inChain := map[int]bool{}
	for _, c := range chain {
		inChain[c] = true
	}
	for c := 0; c < nCerts; c++ {
		if !inChain[c] {
			unrelated = append(unrelated, c)
		}
	}
	// in the directory back end a store holding a non-CA, non-self-signed certificate does not
	// load: keep such placements to a minority there
	usable := func(pool []int) []int {
		if a.backend != "dir" || r.Intn(5) == 0 {
			return pool
		}
		var out []int
		for _, c := range pool {
			if caOrSelfSigned[c] {
				out = append(out, c)
			}
		}
		if len(out) == 0 {
			return pool
		}
		return out
	}
	for _, ty := range storeTypes {
		for _, name := range storeNames {
			p := place{ty: ty, name: name, kind: "certs", fault: r.Intn(3)}
			counts := ty == want && listed[name] // a certificate here is allowed to confer trust
			switch a.mode {
			case "random":
				switch x := r.Intn(20); {
				case x < 4:
					continue // the store does not exist
				case x < 6:
					p.kind = "broken"
				case x < 7:
					p.kind = "empty"
				}
				if r.Intn(2) == 0 {
					p.certs = randCerts(usable(chain), 2)
				} else {
					p.certs = randCerts(usable(unrelated), 2)
				}
				if r.Intn(4) == 0 {
					p.certs = append(p.certs, randCerts(usable(append(append([]int{}, chain...), unrelated...)), 2)...)
				}
			case "adversarial":
				// chain certificates everywhere they must not count, unrelated ones where they would
				if counts {
					p.certs = randCerts(usable(unrelated), 2)
					if r.Intn(12) == 0 {
						p.kind = "empty"
					}
				} else {
					p.certs = randCerts(usable(chain), 2)
					if r.Intn(6) == 0 {
						continue
					}
				}
			default: // "good", "good-broken": listed stores load; some of them hold a chain certificate
				if counts {
					if r.Intn(3) != 0 {
						p.certs = randCerts(usable(chain), 2)
					} else {
						p.certs = randCerts(usable(unrelated), 2)
					}
				} else {
					switch x := r.Intn(10); {
					case x < 2:
						continue
					case x < 4:
						p.kind = "broken"
					}
					p.certs = randCerts(usable(append(append([]int{}, chain...), unrelated...)), 2)
				}
			}
			a.places = append(a.places, p)
		}
	}
	if a.mode == "good-broken" && len(listed) > 0 {
		// break (or remove) exactly one listed store of the required type
		var names []string
		for n := range listed {
			names = append(names, n)
		}
		sort.Strings(names)
		victim := names[r.Intn(len(names))]
		for k := range a.places {
			if a.places[k].ty == want && a.places[k].name == victim {
				if r.Intn(3) == 0 {
					a.places = append(a.places[:k], a.places[k+1:]...)
				} else {
					a.places[k].kind = "broken"
				}
				break
			}
		}
	}
	// a tsa store in the list switches timestamp verification on (notary.x509): under the strict
	// level the missing countersignature would be fatal, so those statements verify timestamps
	// only after certificate expiry (the certificates are valid, hence no timestamp verification)
	for k, st := range a.stmts {
		hasTSA := false
		for _, e := range st.TrustStores {
			if strings.HasPrefix(e, "tsa:") {
				hasTSA = true
			}
		}
		if hasTSA && (st.Level == "strict" || r.Intn(3) == 0) {
			a.verifyTimestamp[k] = string(trustpolicy.OptionAfterCertExpiry)
		}
	}
	return a
}

// ---- concretisation -----------------------------------------------------------------------

// loggingStore records the calls that reach a real trust store.
type loggingStore struct {
	inner truststore.X509TrustStore
	calls []Call
}

func (l *loggingStore) GetCertificates(ctx context.Context, storeType truststore.Type, namedStore string) ([]*x509.Certificate, error) {
	l.calls = append(l.calls, Call{string(storeType), namedStore})
	return l.inner.GetCertificates(ctx, storeType, namedStore)
}

func nonNil(xs []int) []int {
	if xs == nil {
		return []int{}
	}
	return xs
}

// memWorld builds the instrumented store and the world the model is told about.
func memWorld(p *pki, a acase) (*common.MemStore, []Store) {
	ms := common.NewMemStore()
	var w []Store
	for _, pl := range a.places {
		k := pl.ty + ":" + pl.name
		switch pl.kind {
		case "broken":
			ms.Errs[k] = errors.New("scripted load failure")
			w = append(w, Store{pl.ty, pl.name, false, nonNil(pl.certs)})
		case "empty":
			ms.Empty[k] = true
			w = append(w, Store{pl.ty, pl.name, true, []int{}})
		default:
			var cs []*x509.Certificate
			for _, id := range pl.certs {
				cs = append(cs, p.certs[id])
			}
			ms.Certs[k] = cs
			w = append(w, Store{pl.ty, pl.name, true, nonNil(pl.certs)})
		}
	}
	return ms, w
}

// dirWorld writes <root>/truststore/x509/<type>/<name>/*.pem and computes, from what it wrote,
// what the real store answers: a store loads iff it is a directory holding at least one
// certificate file and only certificates the store accepts (CA or self-signed; root CA under tsa).
func dirWorld(p *pki, a acase, root string) []Store {
	var w []Store
	for _, pl := range a.places {
		d := filepath.Join(root, "truststore", "x509", pl.ty, pl.name)
		must(os.MkdirAll(d, 0o755))
		st := Store{pl.ty, pl.name, true, []int{}}
		write := func() {
			// one file per certificate, or all in one bundle; file names sort in placement order
			if len(pl.certs) > 1 && pl.fault == 0 {
				var cs []*x509.Certificate
				for _, id := range pl.certs {
					cs = append(cs, p.certs[id])
				}
				must(os.WriteFile(filepath.Join(d, "bundle.pem"), common.PEM(cs...), 0o644))
			} else {
				for k, id := range pl.certs {
					var data []byte
					if (k+pl.fault)%2 == 0 {
						data = common.PEM(p.certs[id])
					} else {
						data = p.certs[id].Raw // DER
					}
					must(os.WriteFile(filepath.Join(d, fmt.Sprintf("%02d-cert%d.crt", k, id)), data, 0o644))
				}
			}
			st.Certs = nonNil(pl.certs)
			for _, id := range pl.certs {
				if !caOrSelfSigned[id] || (pl.ty == "tsa" && !rootCA[id]) {
					st.Ok = false
				}
			}
		}
		switch pl.kind {
		case "empty":
			st.Ok = false // "no x509 certificates were found"
		case "broken":
			st.Ok = false
			switch pl.fault {
			case 0: // the store is a regular file, not a directory
				must(os.Remove(d))
				must(os.WriteFile(d, []byte("not a directory"), 0o644))
				st.Certs = nonNil(pl.certs)
			case 1: // a file that is not a certificate, next to good ones
				write()
				must(os.WriteFile(filepath.Join(d, "zz-garbage.pem"), []byte("this is not a certificate"), 0o644))
			default: // a sub-directory inside the store
				write()
				must(os.MkdirAll(filepath.Join(d, "nested"), 0o755))
			}
			st.Ok = false
		default:
			write()
		}
		w = append(w, st)
	}
	return w
}

func must(err error) {
	if err != nil {
		panic(err)
	}
}

func runCase(c *common.Ctx, p *pki, a acase, seq int) (Input, Obs) {
	in := Input{Scheme: a.scheme, Chain: chainIDs[a.chain], Repo: a.repo, Backend: a.backend, Format: a.format, World: []Store{}}
	var store truststore.X509TrustStore
	var ms *common.MemStore
	var ls *loggingStore
	var root string
	if a.backend == "mem" {
		var w []Store
		ms, w = memWorld(p, a)
		in.World = append(in.World, w...)
		store = ms
	} else {
		root = filepath.Join(c.WorkDir, fmt.Sprintf("w%d", seq))
		must(os.MkdirAll(root, 0o755))
		in.World = append(in.World, dirWorld(p, a, root)...)
		ls = &loggingStore{inner: truststore.NewX509TrustStore(dir.NewSysFS(root))}
		store = ls
	}
	// the policy document; values a validated policy cannot carry are written after the
	// verifier has validated the document (the verifier keeps the caller's document)
	doc := &trustpolicy.OCIDocument{Version: "1.0"}
	skipRevocation := map[trustpolicy.ValidationType]trustpolicy.ValidationAction{trustpolicy.TypeRevocation: trustpolicy.ActionSkip}
	for k, st := range a.stmts {
		in.Statements = append(in.Statements, st)
		ts := st.TrustStores
		if a.malformed {
			ts = []string{"ca:placeholder"}
		}
		doc.TrustPolicies = append(doc.TrustPolicies, trustpolicy.OCITrustPolicy{
			Name: fmt.Sprintf("s%d", k), RegistryScopes: st.Scopes,
			SignatureVerification: trustpolicy.SignatureVerification{VerificationLevel: st.Level, Override: skipRevocation, VerifyTimestamp: trustpolicy.TimestampOption(a.verifyTimestamp[k])},
			TrustStores:           append([]string{}, ts...),
			TrustedIdentities:     []string{"*"},
		})
	}
	v, err := verifier.NewVerifierWithOptions(store, verifier.VerifierOptions{OCITrustPolicy: doc})
	if err != nil {
		panic(fmt.Sprintf("c03: the generated policy document is refused: %v", err))
	}
	if a.malformed {
		for k, st := range a.stmts {
			doc.TrustPolicies[k].TrustStores = append([]string{}, st.TrustStores...)
		}
	}
	media := common.MediaJWS
	if a.format == "cose" {
		media = common.MediaCOSE
	}
	outcome, verr := v.Verify(context.Background(), target, p.env(a.chain, a.scheme, a.format), notation.VerifierVerifyOptions{
		ArtifactReference: a.repo + "@" + target.Digest.String(), SignatureMediaType: media})
	o := Obs{Accepted: verr == nil, Calls: []Call{}}
	if ms != nil {
		for _, sc := range ms.Calls {
			o.Calls = append(o.Calls, Call{sc.Type, sc.Name})
		}
	} else {
		o.Calls = append(o.Calls, ls.calls...)
		must(os.RemoveAll(root))
	}
	var noPolicy notation.ErrorNoApplicableTrustPolicy
	switch {
	case outcome == nil && errors.As(verr, &noPolicy):
		o.Result = "noPolicy"
	case outcome == nil:
		panic(fmt.Sprintf("c03: Verify returned no outcome: %v", verr))
	default:
		found := 0
		for _, r := range outcome.VerificationResults {
			switch r.Type {
			case trustpolicy.TypeAuthenticity:
				found++
				if r.Error == nil {
					o.Result = "pass"
				} else {
					o.Result = "fail"
				}
			case trustpolicy.TypeIntegrity:
				if r.Error != nil {
					panic(fmt.Sprintf("c03: integrity failed: %v", r.Error))
				}
			}
		}
		if found != 1 {
			panic(fmt.Sprintf("c03: %d authenticity results (err=%v)", found, verr))
		}
	}
	return in, o
}

// Run generates the cases of C03.
func Run(c *common.Ctx) error {
	p := newPKI()
	n := 4000
	if c.Thorough() {
		n = 30000
	}
	for k := 0; k < n; k++ {
		a := genCase(c.Rand)
		in, o := runCase(c, p, a, k)
		c.Emit(in, o)
		c.Count("result=" + o.Result)
		c.Count("backend=" + a.backend)
		c.Count("scheme=" + a.scheme)
		c.Count("format=" + a.format)
		c.Count("chain=" + a.chain)
		c.Count("mode=" + a.mode)
		c.Count("mode=" + a.mode + "/result=" + o.Result)
		c.Count(fmt.Sprintf("statements=%d", len(a.stmts)))
		c.Count(fmt.Sprintf("calls=%d", len(o.Calls)))
		if a.malformed {
			c.Count("malformed-values")
		}
		if o.Accepted {
			c.Count("accepted")
		}
		if o.Result == "fail" && o.Accepted {
			c.Count("fail-but-logged(audit)")
		}
	}
	c.Note("random worlds: 3 store types x names {alpha,beta,gamma} (same name under several types), each store absent / loadable / empty / failing, holding certificates of the signer's chain (root, intermediate, leaf, self-signed leaf) or unrelated ones; 1-3 statements with disjoint scopes and optional wildcard statement, trustStores lists of 1-9 values with duplicates, all three types, never-placed name delta; modes random / adversarial (chain certificates only where they must not count) / good / good with one listed store broken; one case in eight writes values a validated policy cannot carry (missing separator, empty name, two separators, unknown type) into the document after construction; both schemes, JWS and COSE, levels strict/permissive/audit, revocation skipped, trustedIdentities *; back ends: instrumented MemStore and the real x509TrustStore over a directory tree (load result of a directory store computed by the harness from what it wrote)")
	return nil
}

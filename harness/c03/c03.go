// Package c03 drives the real verifier.Verify over worlds of named trust stores of the three
// store types (names from a pool of three, so the same name exists under several types),
// trust policy documents of one to three statements with different registry scopes, both
// signing schemes and both envelope formats - against an instrumented in-memory trust store
// and against the real x509TrustStore over a generated directory tree - and observes the
// authenticity result, the (type, name) sequence of GetCertificates calls and whether the
// signature was accepted.
//
// History dimension: every scenario keeps ONE verifier instance (and one trust store object)
// alive over several verifications - zero to two "prelude" verifications chosen to poison any
// too-coarse memory (the other scheme under the same statement, another chain, another
// statement, the statement of the same name in the other document kind via VerifyBlob / Verify,
// the same store names under a world - everything trusted, or nothing loadable - that is swapped
// afterwards), then the verification under
// test, then the same verification once more. Every one of these calls is emitted as a case;
// the model predicts each of them statelessly (Input.history is "must not matter" data).
//
// Handed-out copies: between the verifications of a history, a "caller" asks the verifier's own
// documents for a statement through the exported accessors that are documented to return a deep
// copy (OCIDocument.GetApplicableTrustPolicy, BlobDocument.GetApplicableTrustPolicy,
// BlobDocument.GetGlobalTrustPolicy) and WRITES into what it got: elements of TrustStores /
// RegistryScopes / TrustedIdentities in place, append to the re-sliced [:0], append, re-assignment,
// sorting, entries of the Override map, level, name, global flag - preferring a store of the
// required type that holds the chain and that the statement does not list. The model is told
// (Input.copyEdits) and ignores it: the verifier's documents still read what they read.
package c03

import (
	"context"
	"crypto"
	"crypto/x509"
	"errors"
	"fmt"
	"math/rand"
	"os"
	"path/filepath"
	"regexp"
	"runtime"
	"sort"
	"strings"
	"sync"
	"time"

	"github.com/notaryproject/notation-core-go/signature"
	"github.com/notaryproject/notation-go"
	"github.com/notaryproject/notation-go/dir"
	"github.com/notaryproject/notation-go/verifier"
	"github.com/notaryproject/notation-go/verifier/trustpolicy"
	"github.com/notaryproject/notation-go/verifier/truststore"
	"github.com/notaryproject/notation-go/xverif/common"
	pluginfw "github.com/notaryproject/notation-plugin-framework-go/plugin"
	"github.com/opencontainers/go-digest"
	ocispec "github.com/opencontainers/image-spec/specs-go/v1"
)

// ---- JSON shapes of the Lean structures -------------------------------------------------

type Store struct {
	Ty    string `json:"ty"`
	Name  string `json:"name"`
	Ok    bool   `json:"ok"`
	Certs []int  `json:"certs"`
}

type Stmt struct {
	Scopes      []string `json:"scopes"`
	TrustStores []string `json:"trustStores"`
	Level       string   `json:"level"`
	AuthLog     bool     `json:"authLog"`
}

type Input struct {
	Scheme     string     `json:"scheme"`
	Chain      []int      `json:"chain"`
	Statements []Stmt     `json:"statements"`
	Repo       string     `json:"repo"`
	World      []Store    `json:"world"`
	RefOk      bool       `json:"refOk"`
	SameKey    [][]int    `json:"sameKey"`
	IdentityOk bool       `json:"identityOk"`
	Plugin     string     `json:"plugin"`
	Backend    string     `json:"backend"`
	Format     string     `json:"format"`
	Kind       string     `json:"kind"`
	CopyEdits  []CopyEdit `json:"copyEdits"`
	History    []string   `json:"history"`
}

// CopyEdit is what a caller wrote into a statement that a policy document of the verifier handed
// out as a deep copy (Lean: structure CopyEdit). "Must not matter" data.
type CopyEdit struct {
	Doc    string   `json:"doc"`
	Via    string   `json:"via"`
	Stmt   int      `json:"stmt"`
	Field  string   `json:"field"`
	How    string   `json:"how"`
	Values []string `json:"values"`
}

type Call struct {
	Ty   string `json:"ty"`
	Name string `json:"name"`
}

type Obs struct {
	Result   string `json:"result"`
	Calls    []Call `json:"calls"`
	Accepted bool   `json:"accepted"`
}

// ---- the concrete PKI ---------------------------------------------------------------------

// certificate identifiers of the model
const (
	leafA  = 0 // chain A: leaf -> intermediate -> root
	interA = 1
	rootA  = 2
	leafB  = 3 // chain B: leaf -> root
	rootB  = 4
	selfC  = 5 // chain C: a self-signed signing certificate
	rootU  = 6 // unrelated root CA
	selfV  = 7 // unrelated self-signed signing certificate
	// look-alikes: NOT in any chain, but carrying the public key (and name) of a chain certificate
	rootA2  = 8  // root A issued again: same name and key, other serial number and validity
	rootAx  = 9  // cross-certificate: root A's name and key, issued by the unrelated root U
	rootB2  = 10 // root B issued again
	interA2 = 11 // intermediate A issued again by root A (same key, other serial)
	leafA2  = 12 // another certificate for the leaf A key, issued by intermediate A
	selfC2  = 13 // the self-signed signing certificate C issued again (same key)
	nCerts  = 14
)

// sameKeyGroups is what the model is told (and must ignore) about shared keys.
var sameKeyGroups = [][]int{{rootA, rootA2, rootAx}, {rootB, rootB2}, {interA, interA2}, {leafA, leafA2}, {selfC, selfC2}}

// lookAlikes of a chain: the certificates that share a key with one of its certificates.
var lookAlikes = map[string][]int{"A": {rootA2, rootAx, interA2, leafA2}, "B": {rootB2}, "C": {selfC2}}

var chainIDs = map[string][]int{"A": {leafA, interA, rootA}, "B": {leafB, rootB}, "C": {selfC}}
var chainNames = []string{"A", "B", "C"}

type pki struct {
	certs  [nCerts]*x509.Certificate
	chains map[string]*common.Chain
	envs   map[string][]byte
}

var target = ocispec.Descriptor{MediaType: "application/vnd.oci.image.manifest.v1+json", Digest: digest.FromString("c03 artifact"), Size: 12}

func newPKI() *pki {
	nb := time.Now().Add(-48 * time.Hour)
	p := &pki{chains: map[string]*common.Chain{}, envs: map[string][]byte{}}
	p.chains["A"] = common.MakeChain(common.ChainOpts{Tag: "c03-A", Intermediate: true, RootNB: nb, InterNB: nb, LeafNB: nb})
	p.chains["B"] = common.MakeChain(common.ChainOpts{Tag: "c03-B", RootNB: nb, LeafNB: nb})
	p.chains["C"] = common.MakeChain(common.ChainOpts{Tag: "c03-C", SelfSignedLeaf: true, LeafNB: nb})
	for name, ids := range chainIDs {
		ch := p.chains[name]
		if len(ch.Certs) != len(ids) {
			panic("c03: chain length")
		}
		for k, id := range ids {
			p.certs[id] = ch.Certs[k].Cert
		}
	}
	rootUCert := common.MakeCert(common.CertOpts{Subject: common.Name("root c03-U"), CA: true, PathLen: 2, NotBefore: nb})
	p.certs[rootU] = rootUCert.Cert
	p.certs[selfV] = common.MakeCert(common.CertOpts{Subject: common.Name("leaf c03-V"), EKU: []x509.ExtKeyUsage{x509.ExtKeyUsageCodeSigning}, NotBefore: nb}).Cert
	// the look-alikes: same subject and key as a chain certificate, another certificate
	nb2 := time.Now().Add(-24 * time.Hour)
	A, B, C := p.chains["A"], p.chains["B"], p.chains["C"]
	code := []x509.ExtKeyUsage{x509.ExtKeyUsageCodeSigning}
	p.certs[rootA2] = common.MakeCert(common.CertOpts{Subject: A.Root().Cert.Subject, CA: true, PathLen: 1, Key: A.Root().Key, NotBefore: nb2}).Cert
	p.certs[rootAx] = common.MakeCert(common.CertOpts{Subject: A.Root().Cert.Subject, CA: true, PathLen: 1, Key: A.Root().Key, Parent: rootUCert, NotBefore: nb2}).Cert
	p.certs[rootB2] = common.MakeCert(common.CertOpts{Subject: B.Root().Cert.Subject, CA: true, PathLen: 0, Key: B.Root().Key, NotBefore: nb2}).Cert
	p.certs[interA2] = common.MakeCert(common.CertOpts{Subject: A.Certs[1].Cert.Subject, CA: true, PathLen: 0, Key: A.Certs[1].Key, Parent: A.Root(), NotBefore: nb2}).Cert
	p.certs[leafA2] = common.MakeCert(common.CertOpts{Subject: A.Leaf().Cert.Subject, EKU: code, Key: A.Leaf().Key, Parent: A.Certs[1], NotBefore: nb2}).Cert
	p.certs[selfC2] = common.MakeCert(common.CertOpts{Subject: C.Leaf().Cert.Subject, EKU: code, Key: C.Leaf().Key, NotBefore: nb2}).Cert
	for _, g := range sameKeyGroups {
		for _, id := range g[1:] {
			if p.certs[id].Equal(p.certs[g[0]]) || !p.certs[id].PublicKey.(interface{ Equal(crypto.PublicKey) bool }).Equal(p.certs[g[0]].PublicKey) {
				panic("c03: look-alike certificates must share the key and differ as certificates")
			}
		}
	}
	return p
}

const pluginName = "c03-plugin"

func (p *pki) env(chain, scheme, format string, plugin bool) []byte {
	k := fmt.Sprint(chain, "/", scheme, "/", format, "/", plugin)
	if b, ok := p.envs[k]; ok {
		return b
	}
	sch, media := common.SchemeX509, common.MediaJWS
	if scheme == "signingAuthority" {
		sch = common.SchemeAuthority
	}
	if format == "cose" {
		media = common.MediaCOSE
	}
	var attrs []signature.Attribute
	if plugin {
		attrs = append(attrs, signature.Attribute{Key: verifier.HeaderVerificationPlugin, Critical: true, Value: pluginName})
	}
	b := common.MustSign(common.EnvOpts{Format: media, Chain: p.chains[chain], Target: &target, Scheme: sch, ExtAttrs: attrs,
		SigningTime: time.Now().Add(-time.Hour).Truncate(time.Second)})
	p.envs[k] = b
	return b
}

// what the real x509TrustStore accepts: CA or self-signed certificates; root CAs only under tsa
var caOrSelfSigned = map[int]bool{interA: true, rootA: true, rootB: true, selfC: true, rootU: true, selfV: true,
	rootA2: true, rootAx: true, rootB2: true, interA2: true, selfC2: true}
var rootCA = map[int]bool{rootA: true, rootB: true, rootU: true, rootA2: true, rootB2: true}

// ---- abstract cases ------------------------------------------------------------------------

var storeTypes = []string{"ca", "signingAuthority", "tsa"}

// storeNames is the pool of store names of the current scenario (set by genCase): plain names,
// or names that differ in letter case only - different stores (different directories on this
// case-sensitive file system, different keys of the in-memory store).
var storeNames = storeNameSets[0]
var storeNameSets = [][]string{
	{"alpha", "beta", "gamma"}, {"alpha", "beta", "gamma"},
	{"acme-rockets", "Acme-Rockets", "ACME-ROCKETS"},
	{"alpha", "Alpha", "beta"},
	// one name extends another (staged / versioned stores): different stores all the same
	{"acme", "acme-staging", "acme.old"}, {"acme", "acme-staging", "acme.old"},
	{"alpha", "alpha2", "alph"},
}

// place is what the generator put under one (type, name).
type place struct {
	ty, name string
	kind     string // "certs" | "empty" | "broken" | "symlink" | "linkfile" (the last two: directory back end)
	certs    []int
	fault    int    // variant of "broken" in the directory back end
	link     string // symlink: "store" | "storeAbs" | "outside" | "dangling" | "file"
	target   int    // symlink to a store: index of the place it points to
}

type acase struct {
	scheme, chain, format, backend string
	stmts                          []Stmt // OCI statements s0, s1, ...
	blobStmts                      []Stmt // blob statements of the SAME names; Scopes = [name] (encoding)
	repo                           string // OCI: artifact path; blob test: the policy name
	testKind                       string // "oci" | "blob": the document kind of the verification under test
	app                            int    // generator's view of the statement the test uses (-1: none)
	places                         []place
	poison                         []place // the world the "worldSwap" prelude runs under: everything loads and holds the chain
	broken                         []place // the world of the "worldSwapBroken" prelude: no store loads
	malformed                      bool    // some trustStores value could not be written in a validated policy
	verifyTimestamp                []string
	blobVerifyTimestamp            []string
	mode                           string
	prelude                        []string
	plugin                         string   // plugin variant of the verification under test
	globalAt                       int      // index of the global blob statement (-1: none)
	names                          []string // statement names (the same in the OCI and the blob document)
	naming                         string
}

// nameFamilies: statement names that are different strings (so: valid together in one document)
// but equal under letter-case folding, Unicode simple folding (Kelvin sign, long s), or up to
// surrounding white space. A lookup that matches names more loosely than `==` confuses them.
var nameFamilies = map[string][]string{
	"plain":  {"s0", "s1", "s2"},
	"case":   {"Payments", "payments", "PAYMENTS"},
	"kelvin": {"Kilo", "\u212Ailo", "kilo"},
	"longs":  {"s0", "\u017F0", "S0"},
	"space":  {"prod", "prod ", " prod"},
	"mixed":  {"Prod", "prod ", "PROD"},
}
var namingModes = []string{"plain", "plain", "case", "case", "kelvin", "longs", "space", "mixed"}

func (a *acase) name(k int) string {
	if k < 0 || k >= len(a.names) {
		return "no-such-statement"
	}
	return a.names[k]
}

// call is one verification of a history.
type call struct {
	kind, scheme, chain, repo, world string
	plugin                           string // "none" | "identity-success" | "identity-failure" | "identity+revocation-success" | "identity+revocation-failure" | "revocation-only"
	phase                            string // "prelude:<kind>" | "test" | "repeat"
	refForm                          string // "" (path@digest) | "tag@digest" | "tag" | "digest-only"
	editField, editHow               string // edit steps of the systematic sweep: the field and the way it is written ("" = drawn)
}

func (c call) String() string {
	return c.kind + "/" + c.scheme + "/chain" + c.chain + "/" + c.repo + c.refForm + "/world=" + c.world + "/plugin=" + c.plugin
}

func wantType(scheme string) string {
	if scheme == "signingAuthority" {
		return "signingAuthority"
	}
	return "ca"
}

// scopePool is the pool of registry scopes (= artifact paths) of the current scenario (set by
// genCase): plain ones, or spellings that some registry client would treat as "the same"
// registry - Docker Hub aliases, default ports, localhost forms, letter case of the host,
// punycode hosts. For the verifier they are different scopes: a statement matches only the exact
// spelling of the artifact path, everything else falls to the wildcard statement or to none.
var scopePool = scopePools[0]
var scopePools = [][]string{
	{"reg.example/a", "reg.example/b", "reg.example/c"}, {"reg.example/a", "reg.example/b", "reg.example/c"},
	{"docker.io/acme/app", "index.docker.io/acme/app", "registry-1.docker.io/acme/app"},
	{"docker.io/library/alpine", "docker.io/alpine", "registry-1.docker.io/library/alpine"},
	{"localhost:5000/app", "localhost/app", "127.0.0.1:5000/app"},
	{"reg.example/a", "reg.example:443/a", "reg.example:5000/a"},
	{"REG.example/a", "reg.example/a", "Reg.Example/a"},
	{"xn--bcher-kva.example/app", "xn--bcher-kva.example:443/app", "buecher.example/app"},
	// enclosing paths: a scope that is a /-boundary prefix of another repository is NOT its scope
	{"reg.example/ns", "reg.example/ns/app", "reg.example/ns/app/sub"},
	{"reg.example/ns", "reg.example/ns/app", "reg.example/ns/app/sub"},
	{"registry.acme-rockets.io/software", "registry.acme-rockets.io/software/net-monitor", "registry.acme-rockets.io/software/net-monitor/v2"},
	// ... nor is a scope that is a plain string prefix / suffix of it
	{"reg.example/app", "reg.example/app-staging", "reg.example/app/v2"},
	{"reg.example/team/app", "reg.example/app", "reg.example/team"},
}

// offPoolRepo: an artifact path no statement of the scenario can be scoped to - elsewhere, or
// nested below / extending / enclosing one of the pool's paths.
func offPoolRepo(r *rand.Rand) string {
	base := pick(r, scopePool)
	switch r.Intn(5) {
	case 0:
		return base + "/deeper"
	case 1:
		return base + "/deeper/still"
	case 2:
		return base + "-x"
	case 3:
		if i := strings.LastIndex(base, "/"); strings.Count(base, "/") > 1 {
			return base[:i] // the enclosing path of a nested repository
		}
	}
	return noneRepo
}

const noneRepo = "ghcr.io/none/none"

// scopeFormat: the harness's own copy of the registry scope format (distribution specification:
// domain[:port]/repository) - what makes a reference's path acceptable at all.
var domainRx = regexp.MustCompile(`^(?:[a-zA-Z0-9]|[a-zA-Z0-9][a-zA-Z0-9-]*[a-zA-Z0-9])(?:(?:\.(?:[a-zA-Z0-9]|[a-zA-Z0-9][a-zA-Z0-9-]*[a-zA-Z0-9]))+)?(?::[0-9]+)?$`)
var repositoryRx = regexp.MustCompile(`^[a-z0-9]+(?:(?:(?:[._]|__|[-]*)[a-z0-9]+)+)?(?:(?:/[a-z0-9]+(?:(?:(?:[._]|__|[-]*)[a-z0-9]+)+)?)+)?$`)

func scopeFormat(path string) bool {
	d, rp, ok := strings.Cut(path, "/")
	return ok && domainRx.MatchString(d) && repositoryRx.MatchString(rp)
}

// reference renders the artifact reference of a call and what the model is told about it.
func reference(repo, form string) (ref, path string, ok bool) {
	switch form {
	case "tag@digest":
		path, ref = repo+":v1", repo+":v1@"+target.Digest.String()
	case "tag":
		path, ref = repo+":v1", repo+":v1" // no digest at all
		return ref, path, false
	case "digest-only":
		path, ref = "", "@"+target.Digest.String()
	default:
		path, ref = repo, repo+"@"+target.Digest.String()
	}
	return ref, path, scopeFormat(path)
}

var malformedValues = []string{"alpha", "ca", "", ":alpha", "ca:", "signingAuthority:", "ca:alpha:beta", "signingAuthority:beta:ca", "CA:alpha",
	"x509:alpha", "ca: alpha", " ca:alpha", "ca;alpha", "tsa", "ca:..", "signingauthority:gamma", "ca:alpha ", "::"}

func pick(r *rand.Rand, xs []string) string { return xs[r.Intn(len(xs))] }

// pathValue draws a trustStores value of the wanted type whose NAME part is a path that the
// file system would resolve to an existing store directory (of another type, of tsa, or an
// unlisted store of the same type), or some other spelling that is not a plain file name.
func pathValue(r *rand.Rand, want string) string {
	n1, n2, ty := pick(r, storeNames), pick(r, storeNames), pick(r, storeTypes)
	forms := []string{
		"../" + ty + "/" + n1, "../" + want + "/" + n1, "./" + n1, n1 + "/", n1 + "/.", n1 + "/../" + n2, "../../x509/" + ty + "/" + n1,
		"../../../truststore/x509/" + ty + "/" + n1, n1 + "/../../" + ty + "/" + n2, "/" + n1, "//" + n1, n1 + "\\..\\" + n2, "..\\" + ty + "\\" + n1,
		"%2e%2e/" + ty + "/" + n1, "..%2f" + ty + "%2f" + n1, n1 + "/nested", ".", "..", "...", n1 + "\u0430", "\u2025/" + ty + "/" + n1, n1 + " ", n1 + "\t",
	}
	return want + ":" + pick(r, forms)
}

// genList draws a trustStores list: values type:name over the pool (plus the name "delta" that
// is never placed), with duplicates, several types; `bias` is the probability of the wanted type.
func genList(r *rand.Rand, want string, bias float64, malformed bool) []string {
	n := 1 + r.Intn(4)
	if r.Intn(4) == 0 {
		n += r.Intn(5)
	}
	out := make([]string, 0, n)
	for k := 0; k < n; k++ {
		if len(out) > 0 && r.Intn(5) == 0 {
			out = append(out, out[r.Intn(len(out))]) // a duplicate
			continue
		}
		ty := pick(r, storeTypes)
		if r.Float64() < bias {
			ty = want
		}
		name := pick(r, storeNames)
		if r.Intn(25) == 0 {
			name = "delta"
		}
		out = append(out, ty+":"+name)
	}
	if malformed {
		m := 1 + r.Intn(2)
		for k := 0; k < m; k++ {
			v := pick(r, malformedValues)
			if r.Intn(2) == 0 {
				v = pathValue(r, want)
			}
			pos := r.Intn(len(out) + 1)
			out = append(out[:pos], append([]string{v}, out[pos:]...)...)
		}
	}
	return out
}

func listedNames(list []string, ty string) map[string]bool {
	m := map[string]bool{}
	for _, e := range list {
		t, n, ok := strings.Cut(e, ":")
		if ok && t == ty {
			m[n] = true
		}
	}
	return m
}

func genCase(r *rand.Rand) acase {
	a := acase{}
	a.scheme = pick(r, []string{"x509", "signingAuthority"})
	a.chain = pick(r, chainNames)
	a.format = pick(r, []string{"jws", "cose"})
	a.backend = pick(r, []string{"mem", "dir"})
	a.malformed = r.Intn(6) == 0
	want := wantType(a.scheme)
	chain := chainIDs[a.chain]

	// statements and scopes
	storeNames = storeNameSets[r.Intn(len(storeNameSets))]
	scopePool = scopePools[r.Intn(len(scopePools))]
	nst := 1 + r.Intn(3)
	a.globalAt = -1
	if r.Intn(3) != 0 {
		a.globalAt = r.Intn(nst)
	}
	a.naming = pick(r, namingModes)
	a.names = append([]string{}, nameFamilies[a.naming]...)
	r.Shuffle(len(a.names), func(i, j int) { a.names[i], a.names[j] = a.names[j], a.names[i] })
	scopes := append([]string{}, scopePool...)
	r.Shuffle(len(scopes), func(i, j int) { scopes[i], scopes[j] = scopes[j], scopes[i] })
	wildAt := -1
	if r.Intn(2) == 0 {
		wildAt = r.Intn(nst)
	}
	for k := 0; k < nst; k++ {
		st := Stmt{Level: pick(r, []string{"strict", "permissive", "audit"}), AuthLog: r.Intn(4) == 0}
		if k == wildAt {
			st.Scopes = []string{"*"}
		} else {
			st.Scopes = []string{scopes[0]}
			scopes = scopes[1:]
			if len(scopes) > nst-k && r.Intn(4) == 0 {
				st.Scopes = append(st.Scopes, scopes[0])
				scopes = scopes[1:]
			}
		}
		a.stmts = append(a.stmts, st)
		a.verifyTimestamp = append(a.verifyTimestamp, "")
	}
	// the repository: mostly one that some statement names
	switch x := r.Intn(10); {
	case x < 7:
		st := a.stmts[r.Intn(nst)]
		a.repo = st.Scopes[r.Intn(len(st.Scopes))]
		if a.repo == "*" {
			a.repo = pick(r, scopePool)
		}
	case x < 9:
		a.repo = pick(r, scopePool)
	default:
		a.repo = offPoolRepo(r)
	}
	// which statement applies (generator's own view, used only to steer the distribution)
	app := -1
	for k, st := range a.stmts {
		for _, s := range st.Scopes {
			if s == a.repo {
				app = k
			}
		}
	}
	if app < 0 {
		app = wildAt
	}

	a.app = app
	a.testKind = "oci"
	ociRepo := a.repo
	bapp := -1
	if r.Intn(5) == 0 {
		// the verification under test is a VerifyBlob against the blob statement of some name
		a.testKind = "blob"
		bapp = r.Intn(nst)
		if nst > 1 && r.Intn(2) == 0 {
			bapp = 1 + r.Intn(nst-1) // not the first: a looser match would find an earlier one
		}
		a.repo = a.name(bapp)
		switch x := r.Intn(20); {
		case x < 4:
			bapp, a.repo = -1, a.name(-1) // no such statement: must NOT fall back to the global statement
			if nst < len(a.names) && x < 2 {
				a.repo = a.names[len(a.names)-1] // ... one whose name is loosely equal to an existing one's
			}
		case x < 7:
			bapp, a.repo = a.globalAt, "" // no name: the global statement, if there is one
		case x < 8:
			bapp, a.repo = -1, " " // a blank name is neither a statement's name nor "no name"
		}
		a.app, app = bapp, -1
	}

	a.mode = pick(r, []string{"random", "random", "adversarial", "adversarial", "good", "good", "good-broken"})
	steer := func(list []string, isApp bool) []string {
		if isApp && strings.HasPrefix(a.mode, "good") && len(listedNames(list, want)) == 0 {
			// the good modes want at least one listed store of the required type
			pos := r.Intn(len(list) + 1)
			return append(list[:pos:pos], append([]string{want + ":" + pick(r, storeNames)}, list[pos:]...)...)
		}
		return list
	}
	for k := range a.stmts {
		bias := 0.5
		if k != app {
			bias = 0.7 // the other statements tend to list stores that would confer trust
		}
		a.stmts[k].TrustStores = steer(genList(r, want, bias, a.malformed && (k == app || r.Intn(2) == 0)), k == app)
	}
	// the blob document: statements of the same names with other lists
	for k := range a.stmts {
		name := a.name(k)
		st := Stmt{Scopes: []string{name}, Level: pick(r, []string{"strict", "permissive", "audit"}), AuthLog: r.Intn(4) == 0}
		if k == a.globalAt {
			// encoding of "global": the statement also answers to the empty name
			st.Scopes = append(st.Scopes, "")
		}
		switch {
		case k == bapp:
			st.TrustStores = steer(genList(r, want, 0.5, a.malformed), true)
		case r.Intn(2) == 0:
			// a list made to load well and to hold whatever is around: poison for a memory keyed too coarsely
			n := 2 + r.Intn(3)
			for j := 0; j < n; j++ {
				st.TrustStores = append(st.TrustStores, pick(r, []string{"ca", "signingAuthority"})+":"+pick(r, storeNames))
			}
		default:
			st.TrustStores = genList(r, want, 0.7, a.malformed && r.Intn(2) == 0)
		}
		a.blobStmts = append(a.blobStmts, st)
		a.blobVerifyTimestamp = append(a.blobVerifyTimestamp, "")
	}
	var appList []string
	if a.testKind == "oci" && app >= 0 {
		appList = a.stmts[app].TrustStores
	}
	if a.testKind == "blob" && bapp >= 0 {
		appList = a.blobStmts[bapp].TrustStores
	}
	listed := listedNames(appList, want)

	// placements
	randCerts := func(pool []int, max int) []int {
		n := 1 + r.Intn(max)
		var out []int
		for k := 0; k < n; k++ {
			out = append(out, pool[r.Intn(len(pool))])
		}
		return out
	}
	unrelated := []int{}
	inChain := map[int]bool{}
	for _, c := range chain {
		inChain[c] = true
	}
	for c := 0; c < nCerts; c++ {
		if !inChain[c] {
			unrelated = append(unrelated, c)
		}
	}
	// "unrelated" means: not a certificate of the chain. The ones that carry a key of the chain
	// (re-issued root, cross-certificate, ...) are the interesting ones: they weigh more
	for k := 0; k < 3; k++ {
		unrelated = append(unrelated, lookAlikes[a.chain]...)
	}
	// in the directory back end a store holding a non-CA, non-self-signed certificate does not
	// load: keep such placements to a minority there
	usable := func(pool []int) []int {
		if a.backend != "dir" || r.Intn(5) == 0 {
			return pool
		}
		var out []int
		for _, c := range pool {
			if caOrSelfSigned[c] {
				out = append(out, c)
			}
		}
		if len(out) == 0 {
			return pool
		}
		return out
	}
	for _, ty := range storeTypes {
		for _, name := range storeNames {
			p := place{ty: ty, name: name, kind: "certs", fault: r.Intn(3)}
			counts := ty == want && listed[name] // a certificate here is allowed to confer trust
			switch a.mode {
			case "random":
				switch x := r.Intn(20); {
				case x < 4:
					continue // the store does not exist
				case x < 6:
					p.kind = "broken"
				case x < 7:
					p.kind = "empty"
				}
				if r.Intn(2) == 0 {
					p.certs = randCerts(usable(chain), 2)
				} else {
					p.certs = randCerts(usable(unrelated), 2)
				}
				if r.Intn(4) == 0 {
					p.certs = append(p.certs, randCerts(usable(append(append([]int{}, chain...), unrelated...)), 2)...)
				}
			case "adversarial":
				// chain certificates everywhere they must not count, unrelated ones where they would
				if counts {
					p.certs = randCerts(usable(unrelated), 2)
					if r.Intn(12) == 0 {
						p.kind = "empty"
					}
				} else {
					p.certs = randCerts(usable(chain), 2)
					if r.Intn(6) == 0 {
						continue
					}
				}
			default: // "good", "good-broken": listed stores load; some of them hold a chain certificate
				if counts {
					if r.Intn(3) != 0 {
						p.certs = randCerts(usable(chain), 2)
					} else {
						p.certs = randCerts(usable(unrelated), 2)
					}
				} else {
					switch x := r.Intn(10); {
					case x < 2:
						continue
					case x < 4:
						p.kind = "broken"
					}
					p.certs = randCerts(usable(append(append([]int{}, chain...), unrelated...)), 2)
				}
			}
			a.places = append(a.places, p)
		}
	}
	if a.mode == "good-broken" && len(listed) > 0 {
		// break (or remove) exactly one listed store of the required type
		var names []string
		for n := range listed {
			names = append(names, n)
		}
		sort.Strings(names)
		victim := names[r.Intn(len(names))]
		for k := range a.places {
			if a.places[k].ty == want && a.places[k].name == victim {
				if r.Intn(3) == 0 {
					a.places = append(a.places[:k], a.places[k+1:]...)
				} else {
					a.places[k].kind = "broken"
				}
				break
			}
		}
	}
	// the directory back end: some stores are symbolic links to another store directory (of
	// another type, of tsa, an unlisted one, a directory outside the tree, nothing, a file) or
	// hold a symbolic link to a certificate file; the real store refuses to load such a store.
	// In the adversarial mode the link stands where a listed store of the required type is
	// expected and points at a store holding the chain.
	if a.backend == "dir" && !caOrSelfSigned[chain[0]] {
		// a bundle file in which a CA certificate precedes the chain's (issued) leaf: the store must
		// not load - every certificate of a file is checked, not only the first
		for k := range a.places {
			pl := &a.places[k]
			if pl.kind == "certs" && pl.ty == want && listed[pl.name] && r.Intn(6) == 0 {
				pl.certs, pl.fault = []int{rootU, chain[0]}, 0
				if r.Intn(3) == 0 {
					pl.certs = []int{chain[len(chain)-1], rootU, chain[0]}
				}
			}
		}
	}
	if a.backend == "dir" {
		var holders []int // places that hold certificates as plain directories
		for k, pl := range a.places {
			if pl.kind == "certs" {
				holders = append(holders, k)
			}
		}
		for k := range a.places {
			pl := &a.places[k]
			counts := pl.ty == want && listed[pl.name]
			convert := r.Intn(15) == 0
			if a.mode == "adversarial" && counts {
				convert = r.Intn(3) == 0
			}
			if a.mode == "good-broken" && pl.kind == "broken" && counts {
				convert = r.Intn(2) == 0
			}
			// a sibling store whose name extends this one's (acme-staging for acme) is where a link
			// "inside the store" by a careless prefix test would lead: favour link files there
			extended := false
			for _, h := range holders {
				q := a.places[h]
				if h != k && q.ty == pl.ty && q.name != pl.name && strings.HasPrefix(q.name, pl.name) {
					extended = true
				}
			}
			if extended && counts && a.mode != "good" {
				convert = convert || r.Intn(2) == 0
			}
			if !convert {
				continue
			}
			if r.Intn(4) == 0 || (extended && r.Intn(2) == 0) {
				pl.kind = "linkfile"
				if r.Intn(2) == 0 {
					pl.certs = nil // nothing but the link
				}
				// where the linked certificate file lives: in a sibling store (preferably one whose name
				// EXTENDS this store's name: acme -> acme-staging), in any other store, in this very
				// store, outside the tree; relative or absolute
				pl.link = pick(r, []string{"store", "store", "store", "storeAbs", "storeAbs", "self", "outside"})
				if strings.HasPrefix(pl.link, "store") {
					var ext, cands []int
					for _, h := range holders {
						if h == k || len(a.places[h].certs) == 0 {
							continue
						}
						cands = append(cands, h)
						if a.places[h].ty == pl.ty && strings.HasPrefix(a.places[h].name, pl.name) {
							ext = append(ext, h)
						}
					}
					switch {
					case len(ext) > 0 && r.Intn(4) != 0:
						pl.target = ext[r.Intn(len(ext))]
					case len(cands) > 0:
						pl.target = cands[r.Intn(len(cands))]
					default:
						pl.link = "outside"
					}
				}
				if pl.link == "self" && len(pl.certs) == 0 {
					pl.link = "outside"
				}
				continue
			}
			pl.kind = "symlink"
			pl.link = pick(r, []string{"store", "store", "store", "storeAbs", "storeAbs", "outside", "outside", "dangling", "file"})
			if strings.HasPrefix(pl.link, "store") {
				var cands []int
				for _, h := range holders {
					if h != k {
						cands = append(cands, h)
					}
				}
				if len(cands) == 0 {
					pl.link = "outside"
				} else {
					pl.target = cands[r.Intn(len(cands))]
				}
			}
		}
	}
	a.plugin = pick(r, []string{"none", "none", "none", "identity-success", "identity-success", "identity-failure", "identity+revocation-success", "identity+revocation-failure", "revocation-only"})

	// a tsa store in the list switches timestamp verification on (notary.x509): under the strict
	// level the missing countersignature would be fatal, so those statements verify timestamps
	// only after certificate expiry (the certificates are valid, hence no timestamp verification)
	tsaFix := func(stmts []Stmt, vt []string) {
		for k, st := range stmts {
			hasTSA := false
			for _, e := range st.TrustStores {
				if strings.HasPrefix(e, "tsa:") {
					hasTSA = true
				}
				if !strings.Contains(e, ":") && st.Level == "strict" && st.AuthLog {
					// a value without separator also fails the authenticTimestamp validation
					// (isTSATrustStoreInPolicy), which strict enforces: with authenticity only
					// logged that would decide acceptance instead of authenticity
					stmts[k].Level = "permissive"
				}
			}
			if hasTSA && (st.Level == "strict" || r.Intn(3) == 0) {
				vt[k] = string(trustpolicy.OptionAfterCertExpiry)
			}
		}
	}
	tsaFix(a.stmts, a.verifyTimestamp)
	tsaFix(a.blobStmts, a.blobVerifyTimestamp)

	// the poison world: every store of every type (delta included) loads and holds the chain
	for _, ty := range storeTypes {
		for _, name := range append(append([]string{}, storeNames...), "delta") {
			var cs []int
			for _, id := range chain {
				if a.backend == "mem" || (caOrSelfSigned[id] && (ty != "tsa" || rootCA[id])) {
					cs = append(cs, id)
				}
			}
			if len(cs) == 0 {
				cs = []int{chain[len(chain)-1]}
			}
			a.poison = append(a.poison, place{ty: ty, name: name, kind: "certs", certs: cs, fault: 1})
			a.broken = append(a.broken, place{ty: ty, name: name, kind: "broken", certs: cs, fault: r.Intn(3)})
		}
	}

	// the prelude: what the same verifier verifies before the case under test
	kinds := []string{"otherScheme", "otherChain", "otherStatement", "otherDoc", "otherDocOtherScheme", "worldSwap", "worldSwap", "worldSwapBroken", "otherPlugin", "otherRefForm"}
	np := 0
	switch x := r.Intn(20); {
	case x < 5:
	case x < 14:
		np = 1
	default:
		np = 2
	}
	for k := 0; k < np; k++ {
		a.prelude = append(a.prelude, pick(r, kinds))
	}
	_ = ociRepo
	return a
}

func otherOf(r *rand.Rand, xs []string, not string) string {
	for {
		if x := pick(r, xs); x != not {
			return x
		}
	}
}

// history lists the verifications of a scenario, in order: prelude, test, repeat.
func history(r *rand.Rand, a acase) []call {
	test := call{kind: a.testKind, scheme: a.scheme, chain: a.chain, repo: a.repo, world: "base", plugin: a.plugin, phase: "test"}
	if a.testKind == "oci" {
		switch x := r.Intn(40); {
		case x < 3:
			test.refForm = "tag@digest"
		case x < 4:
			test.refForm = "tag"
		case x < 5:
			test.refForm = "digest-only"
		}
	}
	plugins := []string{"none", "identity-success", "identity-failure", "identity+revocation-success", "identity+revocation-failure", "revocation-only"}
	otherScheme := otherOf(r, []string{"x509", "signingAuthority"}, a.scheme)
	name := a.name
	var out []call
	for _, k := range a.prelude {
		c := test
		c.phase = "prelude:" + k
		switch k {
		case "otherScheme":
			c.scheme = otherScheme
		case "otherChain":
			c.chain = otherOf(r, chainNames, a.chain)
		case "otherStatement":
			if a.testKind == "oci" {
				c.repo = otherOf(r, append(append([]string{}, scopePool...), noneRepo, offPoolRepo(r)), a.repo)
			} else {
				c.repo = otherOf(r, append(append([]string{}, a.names...), a.name(-1), "", " "), a.repo)
			}
		case "otherDoc", "otherDocOtherScheme":
			if k == "otherDocOtherScheme" {
				c.scheme = otherScheme
			}
			if a.testKind == "oci" {
				// the blob statement with the name of the applicable OCI statement
				c.kind = "blob"
				c.repo = name(r.Intn(len(a.stmts)))
				if a.app >= 0 {
					c.repo = name(a.app)
				}
			} else {
				// an artifact in the scope of the OCI statement with the name of the blob statement
				c.kind = "oci"
				k := r.Intn(len(a.stmts))
				if a.app >= 0 {
					k = a.app
				}
				c.repo = a.stmts[k].Scopes[0]
				if c.repo == "*" {
					c.repo = noneRepo
				}
			}
		case "otherRefForm":
			if c.kind == "oci" {
				c.refForm = otherOf(r, []string{"", "tag@digest", "tag"}, test.refForm)
			}
		case "otherPlugin":
			c.plugin = otherOf(r, plugins, a.plugin)
		case "worldSwap":
			c.world = "poison"
			if r.Intn(3) == 0 {
				c.plugin = "identity-success"
			}
		case "worldSwapBroken":
			c.world = "broken"
		}
		out = append(out, c)
	}
	rep := test
	rep.phase = "repeat"
	out = append(out, test, rep)
	// edit steps: a caller writes into a statement the verifier's document handed out as a deep
	// copy - anywhere before the last verification, mostly right before the test or the repeat
	// (more often where the verification passes: an identity or scope that leaked shows only there)
	if r.Intn(4) < 2 || ((strings.HasPrefix(a.mode, "good") || a.testKind == "blob") && r.Intn(2) == 0) {
		for n := 1 + r.Intn(2); n > 0; n-- {
			pos := len(out) - 1 // between test and repeat
			switch x := r.Intn(4); {
			case x == 0:
				pos = r.Intn(len(out))
			case x == 1:
				pos = len(out) - 2 // right before the test
			}
			for pos > 0 && out[pos-1].phase == "edit" {
				pos-- // (keeps the "repeat" right behind its edits)
			}
			out = append(out[:pos:pos], append([]call{{phase: "edit"}}, out[pos:]...)...)
		}
	}
	return out
}

// ---- concretisation -----------------------------------------------------------------------

// loggingStore records the calls that reach a real trust store.
type loggingStore struct {
	inner truststore.X509TrustStore
	calls []Call
}

func (l *loggingStore) GetCertificates(ctx context.Context, storeType truststore.Type, namedStore string) ([]*x509.Certificate, error) {
	l.calls = append(l.calls, Call{string(storeType), namedStore})
	return l.inner.GetCertificates(ctx, storeType, namedStore)
}

func nonNil(xs []int) []int {
	if xs == nil {
		return []int{}
	}
	return xs
}

// memWorld builds the instrumented store and the world the model is told about.
func memWorld(p *pki, places []place) (*common.MemStore, []Store) {
	ms := common.NewMemStore()
	w := []Store{}
	for _, pl := range places {
		k := pl.ty + ":" + pl.name
		switch pl.kind {
		case "broken", "symlink", "linkfile":
			ms.Errs[k] = errors.New("scripted load failure")
			w = append(w, Store{pl.ty, pl.name, false, nonNil(pl.certs)})
		case "empty":
			ms.Empty[k] = true
			w = append(w, Store{pl.ty, pl.name, true, []int{}})
		default:
			var cs []*x509.Certificate
			for _, id := range pl.certs {
				cs = append(cs, p.certs[id])
			}
			ms.Certs[k] = cs
			w = append(w, Store{pl.ty, pl.name, true, nonNil(pl.certs)})
		}
	}
	return ms, w
}

// dirWorld writes <tsroot>/x509/<type>/<name>/* (tsroot becomes <root>/truststore when the
// world is activated) and computes, from what it wrote,
// what the real store answers: a store loads iff it is a directory holding at least one
// certificate file and only certificates the store accepts (CA or self-signed; root CA under tsa).
func dirWorld(p *pki, places []place, tsroot, liveRoot string, chain []int) []Store {
	w := []Store{}
	must(os.MkdirAll(tsroot, 0o755))
	// a directory outside the trust store tree, holding the chain's certificates
	outside := tsroot + "-outside"
	outsideFile := filepath.Join(outside, "certs", "chain.pem")
	mkOutside := func() {
		var cs []*x509.Certificate
		for _, id := range chain {
			if caOrSelfSigned[id] {
				cs = append(cs, p.certs[id])
			}
		}
		must(os.MkdirAll(filepath.Join(outside, "certs"), 0o755))
		must(os.WriteFile(outsideFile, common.PEM(cs...), 0o644))
	}
	for _, pl := range places {
		d := filepath.Join(tsroot, "x509", pl.ty, pl.name)
		if pl.kind == "symlink" {
			// the store is a symbolic link: the real store must refuse to load it
			must(os.MkdirAll(filepath.Dir(d), 0o755))
			var to string
			switch pl.link {
			case "store":
				to = filepath.Join("..", places[pl.target].ty, places[pl.target].name)
			case "storeAbs":
				to = filepath.Join(liveRoot, "x509", places[pl.target].ty, places[pl.target].name)
			case "outside":
				mkOutside()
				to = filepath.Join(outside, "certs")
			case "file":
				mkOutside()
				to = outsideFile
			default:
				to = filepath.Join("..", pl.ty, "no-such-store")
			}
			must(os.Symlink(to, d))
			w = append(w, Store{pl.ty, pl.name, false, []int{}})
			continue
		}
		must(os.MkdirAll(d, 0o755))
		st := Store{pl.ty, pl.name, true, []int{}}
		write := func() {
			// one file per certificate, or all in one bundle; file names sort in placement order
			if len(pl.certs) > 1 && pl.fault == 0 {
				var cs []*x509.Certificate
				for _, id := range pl.certs {
					cs = append(cs, p.certs[id])
				}
				must(os.WriteFile(filepath.Join(d, "bundle.pem"), common.PEM(cs...), 0o644))
			} else {
				for k, id := range pl.certs {
					var data []byte
					if (k+pl.fault)%2 == 0 {
						data = common.PEM(p.certs[id])
					} else {
						data = p.certs[id].Raw // DER
					}
					must(os.WriteFile(filepath.Join(d, fmt.Sprintf("%02d-cert%d.crt", k, id)), data, 0o644))
				}
			}
			st.Certs = nonNil(pl.certs)
			for _, id := range pl.certs {
				if !caOrSelfSigned[id] || (pl.ty == "tsa" && !rootCA[id]) {
					st.Ok = false
				}
			}
		}
		switch pl.kind {
		case "linkfile":
			// good certificates (or none) and a symbolic link to a certificate file: does not load
			write()
			firstFile := func(q place) string {
				if len(q.certs) == 0 {
					return "50-link.pem" // the target store became a link-only store itself: a link to a link
				}
				if len(q.certs) > 1 && q.fault == 0 {
					return "bundle.pem"
				}
				return fmt.Sprintf("%02d-cert%d.crt", 0, q.certs[0])
			}
			var to string
			switch pl.link {
			case "store":
				q := places[pl.target]
				to = filepath.Join("..", "..", q.ty, q.name, firstFile(q))
			case "storeAbs":
				q := places[pl.target]
				to = filepath.Join(liveRoot, "x509", q.ty, q.name, firstFile(q))
			case "self":
				to = firstFile(pl)
			default:
				mkOutside()
				to = outsideFile
			}
			must(os.Symlink(to, filepath.Join(d, "50-link.pem")))
			st.Ok = false
		case "empty":
			st.Ok = false // "no x509 certificates were found"
		case "broken":
			st.Ok = false
			switch pl.fault {
			case 0: // the store is a regular file, not a directory
				must(os.Remove(d))
				must(os.WriteFile(d, []byte("not a directory"), 0o644))
				st.Certs = nonNil(pl.certs)
			case 1: // a file that is not a certificate, next to good ones
				write()
				must(os.WriteFile(filepath.Join(d, "zz-garbage.pem"), []byte("this is not a certificate"), 0o644))
			default: // a sub-directory inside the store
				write()
				must(os.MkdirAll(filepath.Join(d, "nested"), 0o755))
			}
			st.Ok = false
		default:
			write()
		}
		w = append(w, st)
	}
	return w
}

func must(err error) {
	if err != nil {
		panic(err)
	}
}

// scenario is one verifier instance with its trust store object and both policy documents.
type scenario struct {
	a acase
	p *pki
	v interface {
		notation.Verifier
		notation.BlobVerifier
	}
	ms        *common.MemStore            // mem back end: the ONE store object; its contents are swapped
	memW      map[string]*common.MemStore // contents per world
	ls        *loggingStore               // dir back end: the real store behind the call log
	root      string
	active    string             // dir back end: the world currently at <root>/truststore
	worlds    map[string][]Store // what the model is told about each world
	history   []string
	plugin    *common.ScriptedPlugin   // the one installed verification plugin; scripted per call
	validated bool                     // the documents passed Validate as generated
	doc       *trustpolicy.OCIDocument // the verifier's documents (the verifier keeps these pointers)
	bdoc      *trustpolicy.BlobDocument
	edits     []CopyEdit // what callers wrote so far into statements the documents handed out
}

func newScenario(c *common.Ctx, p *pki, a acase, seq int, extra map[string][]place) *scenario {
	sc := &scenario{a: a, p: p, worlds: map[string][]Store{}, memW: map[string]*common.MemStore{}}
	var store truststore.X509TrustStore
	placesOf := map[string][]place{"base": a.places}
	for w, pl := range extra {
		placesOf[w] = pl
	}
	if a.backend == "mem" {
		sc.ms = common.NewMemStore()
		for w, pl := range placesOf {
			sc.memW[w], sc.worlds[w] = memWorld(p, pl)
		}
		store = sc.ms
	} else {
		sc.root = filepath.Join(c.WorkDir, fmt.Sprintf("w%d", seq))
		must(os.MkdirAll(sc.root, 0o755))
		for w, pl := range placesOf {
			sc.worlds[w] = dirWorld(p, pl, filepath.Join(sc.root, "ts-"+w), filepath.Join(sc.root, "truststore"), chainIDs[a.chain])
		}
		sc.ls = &loggingStore{inner: truststore.NewX509TrustStore(dir.NewSysFS(sc.root))}
		store = sc.ls
	}
	// the policy documents; values a validated policy cannot carry are written after the
	// verifier has validated the documents (the verifier keeps the caller's documents)
	// The documents are first handed over as generated: values that are not `type:name` with a
	// plain file name must be refused by Validate. When they are, the same values are written into
	// the documents after a construction with placeholders (second line of defence: the loop
	// and the store itself). Either way the verification below runs over the generated lists.
	override := func(st Stmt) map[trustpolicy.ValidationType]trustpolicy.ValidationAction {
		m := map[trustpolicy.ValidationType]trustpolicy.ValidationAction{trustpolicy.TypeRevocation: trustpolicy.ActionSkip}
		if st.AuthLog {
			m[trustpolicy.TypeAuthenticity] = trustpolicy.ActionLog
		}
		return m
	}
	build := func(placeholder bool) (*trustpolicy.OCIDocument, *trustpolicy.BlobDocument) {
		lists := func(ts []string) []string {
			if placeholder {
				return []string{"ca:placeholder"}
			}
			return append([]string{}, ts...)
		}
		doc := &trustpolicy.OCIDocument{Version: "1.0"}
		bdoc := &trustpolicy.BlobDocument{Version: "1.0"}
		for k, st := range a.stmts {
			doc.TrustPolicies = append(doc.TrustPolicies, trustpolicy.OCITrustPolicy{
				Name: a.name(k), RegistryScopes: append([]string{}, st.Scopes...), // the document's own slices: nothing is shared with what the model is told
				SignatureVerification: trustpolicy.SignatureVerification{VerificationLevel: st.Level, Override: override(st), VerifyTimestamp: trustpolicy.TimestampOption(a.verifyTimestamp[k])},
				TrustStores:           lists(st.TrustStores),
				TrustedIdentities:     []string{"*"},
			})
		}
		for k, st := range a.blobStmts {
			bdoc.TrustPolicies = append(bdoc.TrustPolicies, trustpolicy.BlobTrustPolicy{
				Name:                  st.Scopes[0],
				GlobalPolicy:          k == a.globalAt,
				SignatureVerification: trustpolicy.SignatureVerification{VerificationLevel: st.Level, Override: override(st), VerifyTimestamp: trustpolicy.TimestampOption(a.blobVerifyTimestamp[k])},
				TrustStores:           lists(st.TrustStores),
				TrustedIdentities:     []string{"*"},
			})
		}
		return doc, bdoc
	}
	sc.plugin = &common.ScriptedPlugin{}
	mgr := &common.ScriptedManager{Plugins: map[string]pluginfw.Plugin{pluginName: sc.plugin}}
	doc, bdoc := build(false)
	v, err := verifier.NewVerifierWithOptions(store, verifier.VerifierOptions{OCITrustPolicy: doc, BlobTrustPolicy: bdoc, PluginManager: mgr})
	sc.validated = err == nil
	if err != nil {
		if !a.malformed {
			panic(fmt.Sprintf("c03: the generated policy documents are refused: %v", err))
		}
		doc, bdoc = build(true)
		v, err = verifier.NewVerifierWithOptions(store, verifier.VerifierOptions{OCITrustPolicy: doc, BlobTrustPolicy: bdoc, PluginManager: mgr})
		if err != nil {
			panic(fmt.Sprintf("c03: the placeholder policy documents are refused: %v", err))
		}
		for k, st := range a.stmts {
			doc.TrustPolicies[k].TrustStores = append([]string{}, st.TrustStores...)
		}
		for k, st := range a.blobStmts {
			bdoc.TrustPolicies[k].TrustStores = append([]string{}, st.TrustStores...)
		}
	}
	sc.v = v
	sc.doc, sc.bdoc = doc, bdoc
	return sc
}

// copyView is a statement handed out by one of the documents, as its caller sees it.
type copyView struct {
	doc, via, arg string
	stmt          int
	name          *string
	stores        *[]string
	identities    *[]string
	scopes        *[]string // OCI only
	sv            *trustpolicy.SignatureVerification
	global        *bool // blob only
}

// handOut asks one of the verifier's documents for a statement, the way any component of the
// process may: through the exported accessors documented to return a deep copy.
func (sc *scenario) handOut(r *rand.Rand, test call, forced bool) *copyView {
	a := sc.a
	kind := test.kind
	if r.Intn(5) == 0 {
		kind = map[string]string{"oci": "blob", "blob": "oci"}[kind]
	}
	same := kind == test.kind && r.Intn(5) != 0
	if forced {
		kind, same = test.kind, true
	}
	if kind == "oci" {
		repo := pick(r, append(append([]string{}, scopePool...), noneRepo))
		if same {
			repo = test.repo
		}
		ref, _, _ := reference(repo, "")
		p, err := sc.doc.GetApplicableTrustPolicy(ref)
		if err != nil || p == nil {
			return nil
		}
		v := &copyView{doc: "oci", via: "GetApplicableTrustPolicy", arg: repo, stmt: -1, name: &p.Name, stores: &p.TrustStores,
			identities: &p.TrustedIdentities, scopes: &p.RegistryScopes, sv: &p.SignatureVerification}
		for k := range a.stmts {
			if a.name(k) == p.Name {
				v.stmt = k
			}
		}
		return v
	}
	name := pick(r, append(append([]string{}, a.names[:len(a.stmts)]...), ""))
	if same {
		name = test.repo
	}
	var p *trustpolicy.BlobTrustPolicy
	var err error
	via := "GetApplicableTrustPolicy"
	if name == "" {
		via = "GetGlobalTrustPolicy"
		p, err = sc.bdoc.GetGlobalTrustPolicy()
	} else {
		p, err = sc.bdoc.GetApplicableTrustPolicy(name)
	}
	if err != nil || p == nil {
		return nil
	}
	v := &copyView{doc: "blob", via: via, arg: name, stmt: -1, name: &p.Name, stores: &p.TrustStores,
		identities: &p.TrustedIdentities, sv: &p.SignatureVerification, global: &p.GlobalPolicy}
	for k := range a.blobStmts {
		if a.name(k) == p.Name {
			v.stmt = k
		}
	}
	return v
}

// editSlice writes into a []string field of a handed-out statement.
func editSlice(r *rand.Rand, f *[]string, how string, val func() string) string {
	if len(*f) == 0 && (how == "element" || how == "sort") {
		how = "append"
	}
	switch how {
	case "element":
		if r.Intn(3) == 0 {
			(*f)[r.Intn(len(*f))] = val()
		} else {
			v := val()
			for k := range *f {
				(*f)[k] = v
				if r.Intn(3) == 0 {
					v = val()
				}
			}
		}
	case "reslice":
		*f = append((*f)[:0], val())
	case "append":
		*f = append(*f, val())
	case "assign":
		*f = []string{val()}
	case "sort":
		sort.Sort(sort.Reverse(sort.StringSlice(*f)))
	}
	return how
}

// edit is one edit step of a history: a caller obtains a statement from a document of the
// verifier and writes into ITS copy. Nothing is verified, nothing is emitted; the following
// verifications are told about it (Input.copyEdits) and must not care.
func (sc *scenario) edit(r *rand.Rand, test, step call) []string {
	v := sc.handOut(r, test, step.editField != "")
	if v == nil {
		sc.history = append(sc.history, "edit/no statement handed out")
		return []string{"edit step: no statement handed out"}
	}
	keys := []string{"edit step: " + v.doc + "." + v.via}
	want := wantType(test.scheme)
	// the value a leak would hurt most with: a store of the required type that loads, holds a
	// certificate of the chain and is NOT listed by the statement
	listed := listedNames(*v.stores, want)
	var hostile []string
	for _, st := range sc.worlds["base"] {
		if st.Ty != want || !st.Ok || listed[st.Name] {
			continue
		}
		for _, c := range st.Certs {
			for _, d := range chainIDs[test.chain] {
				if c == d {
					hostile = append(hostile, want+":"+st.Name)
				}
			}
		}
	}
	storeVal := func() string {
		if len(hostile) > 0 && r.Intn(5) != 0 {
			return pick(r, hostile)
		}
		return pick(r, storeTypes) + ":" + pick(r, append(append([]string{}, storeNames...), "delta"))
	}
	hows := []string{"element", "element", "element", "reslice", "append", "assign", "sort"}
	fields := []string{"trustStores", "trustStores", "trustStores", "trustStores", "trustedIdentities", "override", "override", "level", "name"}
	if v.scopes != nil {
		fields = append(fields, "registryScopes", "registryScopes")
	} else {
		fields = append(fields, "globalPolicy")
	}
	desc := ""
	done := map[string]bool{}
	for n := 1 + r.Intn(4); n > 0; n-- {
		field := pick(r, fields)
		if step.editField != "" {
			field, hows, n = step.editField, []string{step.editHow}, 1
		}
		if done[field] {
			continue
		}
		done[field] = true
		e := CopyEdit{Doc: v.doc, Via: v.via, Stmt: v.stmt, Field: field}
		if v.stmt < 0 {
			e.Stmt = 0
		}
		switch field {
		case "trustStores":
			e.How = editSlice(r, v.stores, pick(r, hows), storeVal)
			e.Values = append([]string{}, *v.stores...)
		case "registryScopes":
			e.How = editSlice(r, v.scopes, pick(r, hows[:min(6, len(hows))]), func() string {
				return pick(r, append(append([]string{}, scopePool...), noneRepo, "*"))
			})
			e.Values = append([]string{}, *v.scopes...)
		case "trustedIdentities":
			e.How = editSlice(r, v.identities, pick(r, hows[:min(6, len(hows))]), func() string { return "x509.subject: C=US, ST=WA, O=nobody, CN=nobody" })
			e.Values = append([]string{}, *v.identities...)
		case "override":
			if _, ok := v.sv.Override[trustpolicy.TypeAuthenticity]; ok && (r.Intn(2) == 0 || step.editHow == "mapDelete") {
				e.How = "mapDelete"
				delete(v.sv.Override, trustpolicy.TypeAuthenticity)
			} else {
				e.How = "mapSet"
				if v.sv.Override == nil {
					v.sv.Override = map[trustpolicy.ValidationType]trustpolicy.ValidationAction{}
				}
				if v.sv.Override[trustpolicy.TypeAuthenticity] == trustpolicy.ActionLog {
					v.sv.Override[trustpolicy.TypeAuthenticity] = trustpolicy.ActionEnforce
				} else {
					v.sv.Override[trustpolicy.TypeAuthenticity] = trustpolicy.ActionLog
				}
			}
			e.Values = []string{}
			for k, a := range v.sv.Override {
				e.Values = append(e.Values, string(k)+"="+string(a))
			}
			sort.Strings(e.Values)
		case "level":
			e.How = "assign"
			v.sv.VerificationLevel = otherOf(r, []string{"strict", "permissive", "audit"}, v.sv.VerificationLevel)
			e.Values = []string{v.sv.VerificationLevel}
		case "name":
			e.How = "assign"
			*v.name = otherOf(r, append(append([]string{}, sc.a.names...), "renamed"), *v.name)
			e.Values = []string{*v.name}
		case "globalPolicy":
			e.How = "assign"
			*v.global = !*v.global
			e.Values = []string{fmt.Sprint(*v.global)}
		}
		sc.edits = append(sc.edits, e)
		desc += "/" + field + ":" + e.How
		keys = append(keys, "edit: "+field+":"+e.How)
	}
	sc.history = append(sc.history, "edit/"+v.doc+"."+v.via+"("+v.arg+")"+desc)
	return keys
}

// activate makes `world` the contents of the one trust store object.
func (sc *scenario) activate(world string) {
	if sc.ms != nil {
		src := sc.memW[world]
		sc.ms.Certs, sc.ms.Errs, sc.ms.Empty = src.Certs, src.Errs, src.Empty
		return
	}
	if sc.active == world {
		return
	}
	live := filepath.Join(sc.root, "truststore")
	if sc.active != "" {
		must(os.Rename(live, filepath.Join(sc.root, "ts-"+sc.active)))
	}
	must(os.Rename(filepath.Join(sc.root, "ts-"+world), live))
	sc.active = world
}

func (sc *scenario) close() {
	if sc.root != "" {
		must(os.RemoveAll(sc.root))
	}
}

// verify performs one verification of the history on the scenario's verifier.
func (sc *scenario) verify(cl call) (Input, Obs) {
	a := sc.a
	in := Input{Scheme: cl.scheme, Chain: chainIDs[cl.chain], Repo: cl.repo, RefOk: true, SameKey: sameKeyGroups, Backend: a.backend, Format: a.format,
		Kind: cl.kind, World: sc.worlds[cl.world], History: append([]string{}, sc.history...), CopyEdits: append([]CopyEdit{}, sc.edits...),
		Plugin: cl.plugin, IdentityOk: !strings.HasSuffix(cl.plugin, "-failure")}
	artifactRef := ""
	if cl.kind == "oci" {
		artifactRef, in.Repo, in.RefOk = reference(cl.repo, cl.refForm)
	}
	if cl.kind == "oci" {
		in.Statements = a.stmts
	} else {
		in.Statements = a.blobStmts
	}
	sc.activate(cl.world)
	if sc.ms != nil {
		sc.ms.Reset()
	} else {
		sc.ls.calls = nil
	}
	media := common.MediaJWS
	if a.format == "cose" {
		media = common.MediaCOSE
	}
	env := sc.p.env(cl.chain, cl.scheme, a.format, cl.plugin != "none")
	if cl.plugin != "none" {
		caps := []pluginfw.Capability{pluginfw.CapabilitySignatureGenerator}
		if strings.HasPrefix(cl.plugin, "identity") {
			caps = append(caps, pluginfw.CapabilityTrustedIdentityVerifier)
		}
		if strings.Contains(cl.plugin, "revocation") {
			caps = append(caps, pluginfw.CapabilityRevocationCheckVerifier)
		}
		sc.plugin.Metadata = &pluginfw.GetMetadataResponse{Name: pluginName, Description: "d", Version: "1.0.0", URL: "u",
			SupportedContractVersions: []string{"1.0"}, Capabilities: caps}
		idv := &pluginfw.VerificationResult{Success: true}
		if !in.IdentityOk {
			idv = &pluginfw.VerificationResult{Success: false, Reason: "identity not trusted"}
		}
		sc.plugin.VerifyResp = &pluginfw.VerifySignatureResponse{VerificationResults: map[pluginfw.Capability]*pluginfw.VerificationResult{
			pluginfw.CapabilityTrustedIdentityVerifier: idv,
			pluginfw.CapabilityRevocationCheckVerifier: {Success: true},
		}}
	}
	var outcome *notation.VerificationOutcome
	var verr error
	if cl.kind == "oci" {
		outcome, verr = sc.v.Verify(context.Background(), target, env, notation.VerifierVerifyOptions{
			ArtifactReference: artifactRef, SignatureMediaType: media})
	} else {
		outcome, verr = sc.v.VerifyBlob(context.Background(),
			func(digest.Algorithm) (ocispec.Descriptor, error) { return target, nil }, env,
			notation.BlobVerifierVerifyOptions{SignatureMediaType: media, TrustPolicyName: cl.repo})
	}
	sc.history = append(sc.history, cl.String())
	o := Obs{Accepted: verr == nil, Calls: []Call{}}
	if sc.ms != nil {
		for _, c := range sc.ms.Calls {
			o.Calls = append(o.Calls, Call{c.Type, c.Name})
		}
	} else {
		o.Calls = append(o.Calls, sc.ls.calls...)
	}
	var noPolicy notation.ErrorNoApplicableTrustPolicy
	switch {
	case outcome == nil && errors.As(verr, &noPolicy):
		o.Result = "noPolicy"
	case outcome == nil:
		panic(fmt.Sprintf("c03: verification returned no outcome: %v", verr))
	default:
		found := 0
		for _, r := range outcome.VerificationResults {
			switch r.Type {
			case trustpolicy.TypeAuthenticity:
				found++
				if r.Error == nil {
					o.Result = "pass"
				} else {
					o.Result = "fail"
				}
			case trustpolicy.TypeIntegrity:
				if r.Error != nil {
					panic(fmt.Sprintf("c03: integrity failed: %v", r.Error))
				}
			}
		}
		if found != 1 {
			panic(fmt.Sprintf("c03: %d authenticity results (err=%v)", found, verr))
		}
	}
	return in, o
}

// ---- concurrency stage ----------------------------------------------------------------------

const stressGoroutines = 16

type ctxLogKey struct{}

// ctxLogStore records each GetCertificates call in the log carried by the call's context, so
// that concurrent verifications on one store object keep separate call logs.
type ctxLogStore struct{ inner truststore.X509TrustStore }

func (l ctxLogStore) GetCertificates(ctx context.Context, storeType truststore.Type, namedStore string) ([]*x509.Certificate, error) {
	if log, ok := ctx.Value(ctxLogKey{}).(*[]Call); ok {
		*log = append(*log, Call{string(storeType), namedStore})
	}
	return l.inner.GetCertificates(ctx, storeType, namedStore)
}

type stressCall struct {
	load     bool // a direct GetCertificates instead of a verification
	scheme   string
	chain    string
	repo     string
	ty, name string // load: the store
	in       Input
	obs      Obs
}

// runStress: goroutines verify and load against different stores of one directory tree at the
// same time. Nothing here is shared on purpose except what the implementation shares itself
// (package-level state, the store object, the verifier); each call has its own statement or
// store and must see exactly that store.
func runStress(c *common.Ctx, p *pki) {
	storeNames, scopePool = storeNameSets[0], scopePools[0]
	rounds, loadRounds := 250, 2500
	if c.Thorough() {
		rounds, loadRounds = 1200, 6000
	}
	r := c.Rand
	root := filepath.Join(c.WorkDir, "stress")
	// every store holds something else; the same name exists under the three types
	places := []place{
		{ty: "ca", name: "alpha", kind: "certs", certs: []int{rootA}, fault: 1},
		{ty: "ca", name: "beta", kind: "certs", certs: []int{rootU}, fault: 1},
		{ty: "ca", name: "gamma", kind: "certs", certs: []int{rootB, selfV}, fault: 1},
		{ty: "signingAuthority", name: "alpha", kind: "certs", certs: []int{rootU, selfC}, fault: 1},
		{ty: "signingAuthority", name: "beta", kind: "certs", certs: []int{rootA, interA}, fault: 1},
		{ty: "signingAuthority", name: "gamma", kind: "certs", certs: []int{selfV}, fault: 1},
		{ty: "tsa", name: "alpha", kind: "certs", certs: []int{rootA, rootB}, fault: 1},
		{ty: "tsa", name: "beta", kind: "certs", certs: []int{rootB}, fault: 1},
		{ty: "tsa", name: "gamma", kind: "certs", certs: []int{rootU}, fault: 1},
	}
	world := dirWorld(p, places, filepath.Join(root, "truststore"), filepath.Join(root, "truststore"), chainIDs["A"])
	defer os.RemoveAll(root)
	// statements t0..t7, one scope each, one or two stores each
	var stmts []Stmt
	doc := &trustpolicy.OCIDocument{Version: "1.0"}
	for k := 0; k < 8; k++ {
		st := Stmt{Scopes: []string{fmt.Sprintf("reg.example/t%d", k)}, Level: "permissive"}
		n := 1 + r.Intn(2)
		for j := 0; j < n; j++ {
			st.TrustStores = append(st.TrustStores, pick(r, []string{"ca", "signingAuthority", "ca", "signingAuthority", "tsa"})+":"+pick(r, storeNames))
		}
		stmts = append(stmts, st)
		doc.TrustPolicies = append(doc.TrustPolicies, trustpolicy.OCITrustPolicy{
			Name: fmt.Sprintf("t%d", k), RegistryScopes: st.Scopes,
			SignatureVerification: trustpolicy.SignatureVerification{VerificationLevel: st.Level,
				Override: map[trustpolicy.ValidationType]trustpolicy.ValidationAction{trustpolicy.TypeRevocation: trustpolicy.ActionSkip}, VerifyTimestamp: trustpolicy.OptionAfterCertExpiry},
			TrustStores: append([]string{}, st.TrustStores...), TrustedIdentities: []string{"*"},
		})
	}
	newVerifier := func() interface {
		notation.Verifier
	} {
		v, err := verifier.NewVerifierWithOptions(ctxLogStore{truststore.NewX509TrustStore(dir.NewSysFS(root))}, verifier.VerifierOptions{OCITrustPolicy: doc})
		must(err)
		return v
	}
	shared := newVerifier()
	realStore := truststore.NewX509TrustStore(dir.NewSysFS(root))
	for _, ch := range []string{"A", "B", "C"} {
		for _, sc := range []string{"x509", "signingAuthority"} {
			p.env(ch, sc, "jws", false) // the envelope cache is filled before the goroutines start
		}
	}
	note := []string{fmt.Sprintf("concurrent: one of %d goroutines verifying / loading against one directory tree at the same time", stressGoroutines)}
	// the work of every goroutine is drawn beforehand (deterministic inputs)
	work := make([][]stressCall, stressGoroutines)
	for g := range work {
		if g%2 == 1 { // a loader
			for k := 0; k < loadRounds; k++ {
				pl := places[r.Intn(6)] // ca and signingAuthority stores: their load can be phrased as a verification
				scheme := "x509"
				if pl.ty == "signingAuthority" {
					scheme = "signingAuthority"
				}
				st := Stmt{Scopes: []string{"reg.example/load"}, TrustStores: []string{pl.ty + ":" + pl.name}, Level: "permissive"}
				work[g] = append(work[g], stressCall{load: true, ty: pl.ty, name: pl.name, in: Input{Scheme: scheme, Chain: pl.certs,
					Statements: []Stmt{st}, Repo: "reg.example/load", RefOk: true, SameKey: sameKeyGroups, World: world, IdentityOk: true, Plugin: "none", Backend: "dir", Format: "jws",
					Kind: "load", CopyEdits: []CopyEdit{}, History: note}})
			}
			continue
		}
		for k := 0; k < rounds; k++ {
			sc := stressCall{scheme: pick(r, []string{"x509", "signingAuthority"}), chain: pick(r, chainNames), repo: stmts[r.Intn(len(stmts))].Scopes[0]}
			sc.in = Input{Scheme: sc.scheme, Chain: chainIDs[sc.chain], Statements: stmts, Repo: sc.repo, RefOk: true, SameKey: sameKeyGroups, World: world, IdentityOk: true,
				Plugin: "none", Backend: "dir", Format: "jws", Kind: "oci", CopyEdits: []CopyEdit{}, History: note}
			work[g] = append(work[g], sc)
		}
	}
	var wg sync.WaitGroup
	start := make(chan struct{})
	for g := range work {
		wg.Add(1)
		go func(g int) {
			defer wg.Done()
			v := shared
			if g%4 == 2 {
				v = newVerifier() // its own verifier and store object over the same tree
			}
			<-start
			for k := range work[g] {
				w := &work[g][k]
				var log []Call
				ctx := context.WithValue(context.Background(), ctxLogKey{}, &log)
				if w.load {
					// Kind "load": a direct GetCertificates on the real store, recorded as the verification
					// of a chain made of exactly what the store must return: pass = exactly its own certificates
					cs, err := realStore.GetCertificates(ctx, truststore.Type(w.ty), w.name)
					ok := err == nil && len(cs) == len(w.in.Chain)
					for j := 0; ok && j < len(cs); j++ {
						ok = cs[j].Equal(p.certs[w.in.Chain[j]])
					}
					w.obs = Obs{Result: "fail", Calls: []Call{{w.ty, w.name}}, Accepted: ok}
					if ok {
						w.obs.Result = "pass"
					}
					continue
				}
				outcome, verr := v.Verify(ctx, target, p.envs[w.chain+"/"+w.scheme+"/jws/false"], notation.VerifierVerifyOptions{
					ArtifactReference: w.repo + "@" + target.Digest.String(), SignatureMediaType: common.MediaJWS})
				w.obs = Obs{Result: "fail", Calls: append([]Call{}, log...), Accepted: verr == nil}
				if outcome == nil {
					panic(fmt.Sprintf("c03 stress: no outcome: %v", verr))
				}
				for _, res := range outcome.VerificationResults {
					if res.Type == trustpolicy.TypeAuthenticity && res.Error == nil {
						w.obs.Result = "pass"
					}
				}
			}
		}(g)
	}
	close(start)
	wg.Wait()
	for g := range work {
		for _, w := range work[g] {
			c.Emit(w.in, w.obs)
			c.Count("stress: result=" + w.obs.Result)
			if w.load {
				c.Count("stress: direct loads")
			} else {
				c.Count("stress: verifications")
			}
		}
	}
}

// sweepFields: every field of a handed-out statement with every way the harness writes it.
var sweepFields = [][2]string{
	{"trustStores", "element"}, {"trustStores", "reslice"}, {"trustStores", "append"}, {"trustStores", "assign"}, {"trustStores", "sort"},
	{"registryScopes", "element"}, {"registryScopes", "reslice"}, {"registryScopes", "append"}, {"registryScopes", "assign"},
	{"trustedIdentities", "element"}, {"trustedIdentities", "reslice"}, {"trustedIdentities", "append"}, {"trustedIdentities", "assign"},
	{"override", "mapSet"}, {"override", "mapDelete"}, {"level", "assign"}, {"name", "assign"}, {"globalPolicy", "assign"},
}

// runEditSweep: the handed-out-copy dimension, systematically (the random histories above meet
// the rarer combinations - a leaked identity under a passing blob statement - only now and then).
// accessor {OCI exact scope, OCI wildcard, blob by name, blob global} x situation {P: the statement
// lists the store that holds the signer's root (pass), F: it lists a store holding an unrelated
// root while the signer's root sits in an unlisted store of the required type and in the same
// name under the other types (fail), L: as F with authenticity overridden to log} x every
// (field, way of writing) x both schemes: verify, edit the copy, verify again; both are cases.
func runEditSweep(c *common.Ctx, p *pki, seq *int) {
	storeNames, scopePool = storeNameSets[0], scopePools[0]
	r := c.Rand
	targets := []struct{ kind, repo string }{{"oci", "reg.example/a"}, {"oci", "reg.example/b"}, {"blob", "s0"}, {"blob", ""}}
	for _, tg := range targets {
		for _, sit := range []string{"P", "F", "L"} {
			for _, fh := range sweepFields {
				if (fh[0] == "registryScopes" && tg.kind != "oci") || (fh[0] == "globalPolicy" && tg.kind == "oci") {
					continue
				}
				for _, scheme := range []string{"x509", "signingAuthority"} {
					want := wantType(scheme)
					other := wantType(map[string]string{"x509": "signingAuthority", "signingAuthority": "x509"}[scheme])
					list := []string{want + ":alpha", "tsa:beta"}
					if sit != "P" {
						list = []string{other + ":alpha", want + ":gamma", "tsa:alpha", want + ":gamma"}
					}
					tst := Stmt{TrustStores: list, Level: pick(r, []string{"strict", "permissive"}), AuthLog: sit == "L"}
					oth := Stmt{TrustStores: []string{want + ":beta", other + ":beta"}, Level: "strict"}
					a := acase{scheme: scheme, chain: pick(r, []string{"A", "B"}), format: pick(r, []string{"jws", "cose"}), backend: "mem",
						repo: tg.repo, testKind: tg.kind, app: 0, globalAt: 1, names: []string{"s0", "s1", "s2"}, naming: "plain",
						mode: "sweep-" + sit, plugin: "none", verifyTimestamp: []string{string(trustpolicy.OptionAfterCertExpiry), string(trustpolicy.OptionAfterCertExpiry)},
						blobVerifyTimestamp: []string{string(trustpolicy.OptionAfterCertExpiry), string(trustpolicy.OptionAfterCertExpiry)}}
					// the statement under test is s0 (exact scope / named) or s1 (wildcard / global)
					first := tg.repo == "reg.example/a" || tg.repo == "s0"
					mk := func(own, otherSt Stmt, scopes0, scopes1 []string) []Stmt {
						s0, s1 := otherSt, own
						if first {
							s0, s1 = own, otherSt
						}
						s0.Scopes, s1.Scopes = scopes0, scopes1
						return []Stmt{s0, s1}
					}
					if !first {
						a.app = 1
					}
					a.stmts = mk(tst, oth, []string{"reg.example/a"}, []string{"*"})
					a.blobStmts = mk(tst, oth, []string{"s0"}, []string{"s1", ""})
					if tg.kind == "oci" { // the other document lists what would confer trust
						a.blobStmts = mk(oth, oth, []string{"s0"}, []string{"s1", ""})
					} else {
						a.stmts = mk(oth, oth, []string{"reg.example/a"}, []string{"*"})
					}
					root := chainIDs[a.chain][len(chainIDs[a.chain])-1]
					for _, ty := range storeTypes {
						a.places = append(a.places,
							place{ty: ty, name: "alpha", kind: "certs", certs: []int{root}},
							place{ty: ty, name: "beta", kind: "certs", certs: []int{rootU, root}},
							place{ty: ty, name: "gamma", kind: "certs", certs: []int{rootU}})
					}
					test := call{kind: a.testKind, scheme: a.scheme, chain: a.chain, repo: a.repo, world: "base", plugin: "none", phase: "test"}
					rep := test
					rep.phase = "repeat"
					sc := newScenario(c, p, a, *seq, nil)
					*seq++
					c.Count("sweep scenarios")
					for _, cl := range []call{test, {phase: "edit", editField: fh[0], editHow: fh[1]}, rep} {
						if cl.phase == "edit" {
							for _, k := range sc.edit(r, test, cl) {
								c.Count("sweep " + k)
							}
							continue
						}
						in, o := sc.verify(cl)
						c.Emit(in, o)
						c.Count("sweep: situation " + sit + "/" + cl.phase + "/result=" + o.Result)
					}
					sc.close()
				}
			}
		}
	}
}

// Run generates the cases of C03.
func Run(c *common.Ctx) error {
	p := newPKI()
	n := 1400
	if c.Thorough() {
		n = 10000
	}
	for k := 0; k < n; k++ {
		a := genCase(c.Rand)
		calls := history(c.Rand, a)
		extra := map[string][]place{}
		for _, cl := range calls {
			switch cl.world {
			case "poison":
				extra["poison"] = a.poison
			case "broken":
				extra["broken"] = a.broken
			}
		}
		sc := newScenario(c, p, a, k, extra)
		c.Count("scenarios")
		c.Count(fmt.Sprintf("scenario: prelude=%d", len(a.prelude)))
		c.Count("scenario: test=" + a.testKind)
		c.Count("scenario: mode=" + a.mode)
		c.Count(fmt.Sprintf("scenario: statements=%d", len(a.stmts)))
		c.Count("scenario: backend=" + a.backend)
		c.Count("scenario: statement-names=" + a.naming)
		c.Count(fmt.Sprintf("scenario: global blob statement=%v", a.globalAt >= 0))
		c.Count("scenario: scopes=" + scopePool[0] + ",..")
		c.Count("scenario: store-names=" + storeNames[1] + ",..")
		if a.malformed {
			c.Count("scenario: malformed-values")
			if sc.validated {
				c.Count("scenario: malformed-values accepted by Validate as generated")
			} else {
				c.Count("scenario: malformed-values refused by Validate, written after construction")
			}
		}
		for _, pl := range a.places {
			if pl.kind == "symlink" || pl.kind == "linkfile" {
				c.Count("store-kind=" + pl.kind + "/" + pl.link)
			}
		}
		var test call
		for _, cl := range calls {
			if cl.phase == "test" {
				test = cl
			}
		}
		edited := false
		for _, cl := range calls {
			if cl.phase == "edit" {
				for _, k := range sc.edit(c.Rand, test, cl) {
					c.Count(k)
				}
				edited = true
				continue
			}
			in, o := sc.verify(cl)
			c.Emit(in, o)
			if edited {
				c.Count("verifications after an edit of a handed-out statement")
				c.Count("after edit: result=" + o.Result)
			}
			c.Count("phase=" + cl.phase)
			c.Count("result=" + o.Result)
			c.Count("kind=" + cl.kind)
			c.Count("plugin=" + cl.plugin)
			if cl.kind == "blob" {
				c.Count(fmt.Sprintf("blob: policy name %q-like/result=%s", map[bool]string{true: "(empty)", false: "named"}[cl.repo == ""], o.Result))
			}
			if cl.kind == "oci" {
				c.Count("reference=path" + cl.refForm + "@digest/ok=" + fmt.Sprint(in.RefOk))
			}
			c.Count("scheme=" + cl.scheme)
			c.Count("format=" + a.format)
			c.Count("chain=" + cl.chain)
			c.Count(fmt.Sprintf("calls=%d", len(o.Calls)))
			if cl.phase == "test" {
				c.Count("test: mode=" + a.mode + "/result=" + o.Result)
			}
			if o.Accepted {
				c.Count("accepted")
			}
			if o.Result == "fail" && o.Accepted {
				c.Count("fail-but-logged(audit)")
			}
		}
		sc.close()
	}
	seq := n
	runEditSweep(c, p, &seq)
	runStress(c, p)
	c.Note("handed-out copies, systematic sweep: accessor {OCI exact scope, OCI wildcard, blob by name, blob global} x situation {the statement lists the store holding the signer's root / it lists a store with an unrelated root while the signer's root sits in an unlisted store of the required type / the same with authenticity overridden to log} x every (field, way of writing it) x both schemes on the in-memory store: verify, edit the handed-out copy, verify again")
	c.Note("concurrency stage (SAMPLED, not exhaustive): %d goroutines on %d CPUs verify (shared and private verifiers) and load (direct GetCertificates) against DIFFERENT (type, name) stores of ONE directory tree at the same time, fixed number of rounds; every call is a case held to the model's stateless prediction for its own statement and store (call log per call through the context)", stressGoroutines, runtime.NumCPU())
	c.Note("handed-out copies: in about half of the scenarios 1-2 EDIT steps stand between the verifications of the history (mostly right before the test or between test and repeat): a caller asks the verifier's own OCI / blob document for a statement through GetApplicableTrustPolicy / GetGlobalTrustPolicy (documented: deep copy; mostly the statement the test runs under, one time in five the other document or another statement) and writes into its copy - TrustStores / RegistryScopes / TrustedIdentities (every or one element in place, append to [:0], append, re-assignment, reverse sort), Override map entries for authenticity (set log / enforce, delete), level, name, global flag; TrustStores values prefer a store of the required type that loads, holds a chain certificate and is NOT listed. Input.copyEdits tells the model, which ignores it (run_copyEdits_irrelevant, holds_copyEdits_irrelevant): Input.statements stays the document the verifier holds")
	c.Note("scenarios = one verifier instance + one trust store object + an OCI and a blob policy document with statements of the same names; every scenario is a history of 2-4 verifications on that instance: 0-2 prelude verifications (other scheme under the same statement / other chain / other statement / the statement of the same name in the other document kind, optionally with the other scheme / the same verification under a 'poison' world in which every store loads and holds the chain, or under a world in which no store loads, swapped back afterwards: MemStore contents replaced, directory tree renamed), then the verification under test (Verify, or VerifyBlob in one scenario of five), then the same verification again; EVERY call is a case and is held to the model's stateless prediction (result, call log, acceptance). Worlds: 3 store types x names {alpha,beta,gamma} (same name under several types), each store absent / loadable / empty / failing, holding certificates of the signer's chain (root, intermediate, leaf, self-signed leaf) or unrelated ones; 1-3 statements with disjoint scopes and optional wildcard statement, trustStores lists of 1-9 values with duplicates, all three types, never-placed name delta; modes random / adversarial (chain certificates only where they must not count) / good / good with one listed store broken; one scenario in eight writes values a validated policy cannot carry (missing separator, empty name, two separators, unknown type) into the documents after construction; both schemes, JWS and COSE, levels strict/permissive/audit, revocation skipped, trustedIdentities *; back ends: instrumented MemStore and the real x509TrustStore over a directory tree (load result of a directory store computed by the harness from what it wrote)")
	return nil
}

// Package c03 - correspondence harness for C03 (stub: not built yet).
package c03

import (
	"errors"

	"github.com/notaryproject/notation-go/xverif/common"
)

// Run generates the cases of C03.
func Run(c *common.Ctx) error { return errors.New("C03: harness not built yet") }

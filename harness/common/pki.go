package common

import (
	"crypto"
	"crypto/ecdsa"
	"crypto/elliptic"
	"crypto/rand"
	"crypto/rsa"
	"crypto/x509"
	"crypto/x509/pkix"
	"encoding/asn1"
	"encoding/pem"
	"fmt"
	"math/big"
	"os"
	"path/filepath"
	"sync"
	"time"
)

// Cert is a certificate together with its private key.
type Cert struct {
	Cert *x509.Certificate
	Key  crypto.Signer
}

// CertOpts describes a certificate to mint.
type CertOpts struct {
	Subject      pkix.Name // used when RawSubject is nil
	RawSubject   []byte    // DER RDNSequence; overrides Subject (exact attribute order / multi-valued RDNs)
	NotBefore    time.Time // default: now - 1h
	NotAfter     time.Time // default: now + 24h
	CA           bool
	PathLen      int           // -1: no path length constraint
	KeyUsage     x509.KeyUsage // default: CertSign for CA, DigitalSignature for leaf
	EKU          []x509.ExtKeyUsage
	Key          crypto.Signer // default: fresh P-256
	Parent       *Cert         // nil: self-signed
	CRLURLs      []string
	OCSPURLs     []string
	CriticalEKU  bool   // mark the EKU extension critical (timestamping certificates need it)
	SubjectKeyId []byte // explicit subject key identifier (Go sets none on non-CA certificates by itself)
}

var serial int64 = 1000
var serialMu sync.Mutex

func nextSerial() *big.Int {
	serialMu.Lock()
	defer serialMu.Unlock()
	serial++
	return big.NewInt(serial)
}

// NewECKey returns a fresh P-256 key (fast; used wherever the key type does not matter).
func NewECKey() *ecdsa.PrivateKey {
	k, err := ecdsa.GenerateKey(elliptic.P256(), rand.Reader)
	if err != nil {
		panic(err)
	}
	return k
}

var oidExtKeyUsage = asn1.ObjectIdentifier{2, 5, 29, 37}
var oidEKUTimeStamping = asn1.ObjectIdentifier{1, 3, 6, 1, 5, 5, 7, 3, 8}
var oidEKUCodeSigning = asn1.ObjectIdentifier{1, 3, 6, 1, 5, 5, 7, 3, 3}

// MakeCert mints a certificate.
func MakeCert(o CertOpts) *Cert {
	now := time.Now()
	if o.NotBefore.IsZero() {
		o.NotBefore = now.Add(-time.Hour)
	}
	if o.NotAfter.IsZero() {
		o.NotAfter = now.Add(24 * time.Hour)
	}
	if o.Key == nil {
		o.Key = NewECKey()
	}
	if o.KeyUsage == 0 {
		if o.CA {
			o.KeyUsage = x509.KeyUsageCertSign | x509.KeyUsageCRLSign
		} else {
			o.KeyUsage = x509.KeyUsageDigitalSignature
		}
	}
	t := &x509.Certificate{
		SerialNumber:          nextSerial(),
		Subject:               o.Subject,
		RawSubject:            o.RawSubject,
		NotBefore:             o.NotBefore,
		NotAfter:              o.NotAfter,
		KeyUsage:              o.KeyUsage,
		BasicConstraintsValid: true,
		IsCA:                  o.CA,
		CRLDistributionPoints: o.CRLURLs,
		OCSPServer:            o.OCSPURLs,
		SubjectKeyId:          o.SubjectKeyId,
	}
	if o.CriticalEKU && len(o.EKU) > 0 {
		var oids []asn1.ObjectIdentifier
		for _, e := range o.EKU {
			switch e {
			case x509.ExtKeyUsageTimeStamping:
				oids = append(oids, oidEKUTimeStamping)
			case x509.ExtKeyUsageCodeSigning:
				oids = append(oids, oidEKUCodeSigning)
			}
		}
		val, _ := asn1.Marshal(oids)
		t.ExtraExtensions = append(t.ExtraExtensions, pkix.Extension{Id: oidExtKeyUsage, Critical: true, Value: val})
	} else {
		t.ExtKeyUsage = o.EKU
	}
	if o.CA {
		if o.PathLen >= 0 {
			t.MaxPathLen = o.PathLen
			t.MaxPathLenZero = o.PathLen == 0
		} else {
			t.MaxPathLen = -1
		}
	}
	parentT, parentKey := t, o.Key
	if o.Parent != nil {
		parentT, parentKey = o.Parent.Cert, o.Parent.Key
	}
	der, err := x509.CreateCertificate(rand.Reader, t, parentT, o.Key.Public(), parentKey)
	if err != nil {
		panic(fmt.Sprintf("MakeCert: %v", err))
	}
	c, err := x509.ParseCertificate(der)
	if err != nil {
		panic(fmt.Sprintf("MakeCert parse: %v", err))
	}
	return &Cert{Cert: c, Key: o.Key}
}

// Name builds a subject with the mandatory C/ST/O attributes and a common name.
func Name(cn string) pkix.Name {
	return pkix.Name{Country: []string{"US"}, Province: []string{"WA"}, Organization: []string{"Notary"}, CommonName: cn}
}

// ChainOpts describes a code-signing chain root [-> intermediate] -> leaf.
type ChainOpts struct {
	Tag            string // makes subjects unique
	Intermediate   bool
	Intermediates  int  // number of intermediate CAs (overrides Intermediate when > 0)
	SelfSignedLeaf bool // chain of length 1: a self-signed signing certificate
	LeafSubject    *pkix.Name
	LeafRawSubject []byte
	LeafKey        crypto.Signer
	LeafSKI        []byte // explicit subject key identifier of the leaf
	// validity windows; zero values mean "valid now"
	RootNB, RootNA, InterNB, InterNA, LeafNB, LeafNA time.Time
}

// Chain is leaf-first, root-last.
type Chain struct {
	Certs []*Cert
}

func (c *Chain) Leaf() *Cert { return c.Certs[0] }
func (c *Chain) Root() *Cert { return c.Certs[len(c.Certs)-1] }
func (c *Chain) X509() []*x509.Certificate {
	out := make([]*x509.Certificate, len(c.Certs))
	for i, x := range c.Certs {
		out[i] = x.Cert
	}
	return out
}

// MakeChain mints a chain that passes notation-core-go's code-signing chain validation.
func MakeChain(o ChainOpts) *Chain {
	ls := Name("leaf " + o.Tag)
	if o.LeafSubject != nil {
		ls = *o.LeafSubject
	}
	if o.SelfSignedLeaf {
		leaf := MakeCert(CertOpts{Subject: ls, RawSubject: o.LeafRawSubject, Key: o.LeafKey,
			EKU: []x509.ExtKeyUsage{x509.ExtKeyUsageCodeSigning}, NotBefore: o.LeafNB, NotAfter: o.LeafNA})
		return &Chain{Certs: []*Cert{leaf}}
	}
	n := o.Intermediates
	if n == 0 && o.Intermediate {
		n = 1
	}
	root := MakeCert(CertOpts{Subject: Name("root " + o.Tag), CA: true, PathLen: n, NotBefore: o.RootNB, NotAfter: o.RootNA})
	issuer := root
	certs := []*Cert{root}
	for k := 0; k < n; k++ {
		name := "intermediate " + o.Tag
		if n > 1 {
			name = fmt.Sprintf("intermediate%d %s", k+1, o.Tag)
		}
		inter := MakeCert(CertOpts{Subject: Name(name), CA: true, PathLen: n - 1 - k, Parent: issuer, NotBefore: o.InterNB, NotAfter: o.InterNA})
		certs = append([]*Cert{inter}, certs...)
		issuer = inter
	}
	leaf := MakeCert(CertOpts{Subject: ls, RawSubject: o.LeafRawSubject, Parent: issuer, Key: o.LeafKey, SubjectKeyId: o.LeafSKI,
		EKU: []x509.ExtKeyUsage{x509.ExtKeyUsageCodeSigning}, NotBefore: o.LeafNB, NotAfter: o.LeafNA})
	certs = append([]*Cert{leaf}, certs...)
	return &Chain{Certs: certs}
}

// PEM encodes certificates.
func PEM(certs ...*x509.Certificate) []byte {
	var out []byte
	for _, c := range certs {
		out = append(out, pem.EncodeToMemory(&pem.Block{Type: "CERTIFICATE", Bytes: c.Raw})...)
	}
	return out
}

// KeySpecs are the six key specifications notation supports.
var KeySpecs = []string{"RSA-2048", "RSA-3072", "RSA-4096", "EC-256", "EC-384", "EC-521"}

var poolMu sync.Mutex
var pool = map[string]crypto.Signer{}

// PoolKey returns a key of the given spec from the key pool; RSA keys are cached as PKCS#8
// files in cacheDir (generating RSA-4096 takes seconds).
func PoolKey(cacheDir, spec string) crypto.Signer {
	poolMu.Lock()
	defer poolMu.Unlock()
	if k, ok := pool[spec]; ok {
		return k
	}
	var path string
	if cacheDir != "" {
		path = filepath.Join(cacheDir, "key-"+spec+".pk8")
		if b, err := os.ReadFile(path); err == nil {
			if k, err := x509.ParsePKCS8PrivateKey(b); err == nil {
				pool[spec] = k.(crypto.Signer)
				return pool[spec]
			}
		}
	}
	var k crypto.Signer
	var err error
	switch spec {
	case "RSA-2048":
		k, err = rsa.GenerateKey(rand.Reader, 2048)
	case "RSA-3072":
		k, err = rsa.GenerateKey(rand.Reader, 3072)
	case "RSA-4096":
		k, err = rsa.GenerateKey(rand.Reader, 4096)
	case "EC-256":
		k, err = ecdsa.GenerateKey(elliptic.P256(), rand.Reader)
	case "EC-384":
		k, err = ecdsa.GenerateKey(elliptic.P384(), rand.Reader)
	case "EC-521":
		k, err = ecdsa.GenerateKey(elliptic.P521(), rand.Reader)
	default:
		panic("unknown key spec " + spec)
	}
	if err != nil {
		panic(err)
	}
	if path != "" {
		if b, err := x509.MarshalPKCS8PrivateKey(k); err == nil {
			os.MkdirAll(cacheDir, 0o755)
			os.WriteFile(path, b, 0o600)
		}
	}
	pool[spec] = k
	return k
}

// Package common holds what every property harness shares: the case emitter (one JSON
// line per case: abstract input + canonicalised observation of the real code), the
// single PRNG all random choices derive from, and distribution counters for the evidence.
package common

import (
	"bufio"
	"encoding/json"
	"fmt"
	"math/rand"
	"os"
	"sort"
)

// Ctx is handed to every property's Run function.
type Ctx struct {
	Tier     string // "quick" | "thorough"
	Seed     int64
	Rand     *rand.Rand
	WorkDir  string // private scratch directory, removed by the caller
	CacheDir string // /verif/.cache (key pool etc.), may be empty

	out        *bufio.Writer
	outFile    *os.File
	n          int
	hist       map[string]int
	samples    []json.RawMessage
	notes      []string
	exhaustive bool
}

type line struct {
	Input any `json:"input"`
	Obs   any `json:"obs"`
}

// NewCtx opens the case file.
func NewCtx(tier string, seed int64, outPath, workDir, cacheDir string) (*Ctx, error) {
	f, err := os.Create(outPath)
	if err != nil {
		return nil, err
	}
	return &Ctx{Tier: tier, Seed: seed, Rand: rand.New(rand.NewSource(seed)), WorkDir: workDir, CacheDir: cacheDir,
		out: bufio.NewWriterSize(f, 1<<20), outFile: f, hist: map[string]int{}}, nil
}

// Thorough reports whether the thorough tier was requested.
func (c *Ctx) Thorough() bool { return c.Tier == "thorough" }

// Emit writes one case. input and obs must marshal to the JSON shape the Lean
// structures `Input` / `Obs` of the property derive.
func (c *Ctx) Emit(input, obs any) {
	b, err := json.Marshal(line{input, obs})
	if err != nil {
		panic(fmt.Sprintf("emit: %v", err))
	}
	c.out.Write(b)
	c.out.WriteByte('\n')
	// keep a few samples spread over the run: the first 3 and then every power of 4
	if c.n < 3 || (c.n&(c.n-1) == 0 && len(c.samples) < 12) {
		c.samples = append(c.samples, json.RawMessage(append([]byte(nil), b...)))
	}
	c.n++
}

// Count increments a distribution counter reported in the evidence.
func (c *Ctx) Count(key string) { c.hist[key]++ }

// Note records a free-text remark for the evidence.
func (c *Ctx) Note(format string, a ...any) { c.notes = append(c.notes, fmt.Sprintf(format, a...)) }

// SetExhaustive records that the emitted cases enumerate a finite space completely.
func (c *Ctx) SetExhaustive(b bool) { c.exhaustive = b }

// N is the number of cases emitted so far.
func (c *Ctx) N() int { return c.n }

// Stats is what the harness reports next to the case file.
type Stats struct {
	Cases      int               `json:"cases"`
	Hist       map[string]int    `json:"distribution"`
	HistKeys   []string          `json:"-"`
	Samples    []json.RawMessage `json:"samples"`
	Notes      []string          `json:"notes"`
	Exhaustive bool              `json:"exhaustive"`
}

// Close flushes the case file and writes the statistics.
func (c *Ctx) Close(statsPath string) error {
	if err := c.out.Flush(); err != nil {
		return err
	}
	if err := c.outFile.Close(); err != nil {
		return err
	}
	keys := make([]string, 0, len(c.hist))
	for k := range c.hist {
		keys = append(keys, k)
	}
	sort.Strings(keys)
	st := Stats{Cases: c.n, Hist: c.hist, Samples: c.samples, Notes: c.notes, Exhaustive: c.exhaustive}
	b, err := json.MarshalIndent(st, "", " ")
	if err != nil {
		return err
	}
	return os.WriteFile(statsPath, b, 0o644)
}

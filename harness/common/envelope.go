package common

import (
	"crypto/x509"
	"encoding/json"
	"fmt"
	"time"

	"github.com/notaryproject/notation-core-go/signature"
	"github.com/notaryproject/notation-core-go/signature/cose"
	"github.com/notaryproject/notation-core-go/signature/jws"
	ocispec "github.com/opencontainers/image-spec/specs-go/v1"
)

const (
	MediaJWS        = jws.MediaTypeEnvelope
	MediaCOSE       = cose.MediaTypeEnvelope
	PayloadTypeV1   = "application/vnd.cncf.notary.payload.v1+json"
	SchemeX509      = string(signature.SigningSchemeX509)
	SchemeAuthority = string(signature.SigningSchemeX509SigningAuthority)
)

// EnvOpts describes an envelope to sign with notation-core-go.
type EnvOpts struct {
	Format      string // MediaJWS | MediaCOSE
	Chain       *Chain
	Payload     []byte // raw payload bytes; default: {"targetArtifact": Target}
	Target      *ocispec.Descriptor
	ContentType string    // default PayloadTypeV1
	Scheme      string    // default notary.x509
	SigningTime time.Time // default now (truncated to seconds)
	Expiry      time.Time
	ExtAttrs    []signature.Attribute
}

// PayloadFor renders the Notary payload for a descriptor.
func PayloadFor(d ocispec.Descriptor) []byte {
	b, err := json.Marshal(struct {
		TargetArtifact ocispec.Descriptor `json:"targetArtifact"`
	}{d})
	if err != nil {
		panic(err)
	}
	return b
}

// SignEnvelope produces a signature envelope with notation-core-go's signer.
func SignEnvelope(o EnvOpts) ([]byte, error) {
	if o.Format == "" {
		o.Format = MediaJWS
	}
	if o.ContentType == "" {
		o.ContentType = PayloadTypeV1
	}
	if o.Scheme == "" {
		o.Scheme = SchemeX509
	}
	if o.SigningTime.IsZero() {
		o.SigningTime = time.Now().Truncate(time.Second)
	}
	if o.Payload == nil {
		if o.Target == nil {
			return nil, fmt.Errorf("SignEnvelope: neither payload nor target")
		}
		o.Payload = PayloadFor(*o.Target)
	}
	signer, err := signature.NewLocalSigner(o.Chain.X509(), o.Chain.Leaf().Key)
	if err != nil {
		return nil, err
	}
	env, err := signature.NewEnvelope(o.Format)
	if err != nil {
		return nil, err
	}
	return env.Sign(&signature.SignRequest{
		Payload:                  signature.Payload{ContentType: o.ContentType, Content: o.Payload},
		Signer:                   signer,
		SigningTime:              o.SigningTime,
		Expiry:                   o.Expiry,
		ExtendedSignedAttributes: o.ExtAttrs,
		SigningScheme:            signature.SigningScheme(o.Scheme),
	})
}

// MustSign is SignEnvelope that panics on error (generator bugs must be loud).
func MustSign(o EnvOpts) []byte {
	b, err := SignEnvelope(o)
	if err != nil {
		panic(fmt.Sprintf("SignEnvelope: %v", err))
	}
	return b
}

var _ = x509.ParseCertificate

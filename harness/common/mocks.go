package common

import (
	"context"
	"crypto/x509"
	"errors"
	"sync"
	"time"

	"github.com/notaryproject/notation-core-go/revocation"
	revresult "github.com/notaryproject/notation-core-go/revocation/result"
	"github.com/notaryproject/notation-go/verifier/truststore"
	pluginfw "github.com/notaryproject/notation-plugin-framework-go/plugin"
)

// StoreCall is one GetCertificates call seen by MemStore.
type StoreCall struct {
	Type string `json:"type"`
	Name string `json:"name"`
}

// MemStore is an instrumented in-memory truststore.X509TrustStore.
type MemStore struct {
	mu    sync.Mutex
	Certs map[string][]*x509.Certificate // "type:name" -> certificates
	Errs  map[string]error               // "type:name" -> load error
	Empty map[string]bool                // "type:name" -> return (nil, nil)
	Calls []StoreCall
}

func NewMemStore() *MemStore {
	return &MemStore{Certs: map[string][]*x509.Certificate{}, Errs: map[string]error{}, Empty: map[string]bool{}}
}

func (s *MemStore) GetCertificates(ctx context.Context, storeType truststore.Type, namedStore string) ([]*x509.Certificate, error) {
	s.mu.Lock()
	defer s.mu.Unlock()
	s.Calls = append(s.Calls, StoreCall{string(storeType), namedStore})
	k := string(storeType) + ":" + namedStore
	if err, ok := s.Errs[k]; ok {
		return nil, err
	}
	if s.Empty[k] {
		return nil, nil
	}
	cs, ok := s.Certs[k]
	if !ok {
		return nil, truststore.TrustStoreError{Msg: "store " + k + " does not exist"}
	}
	return cs, nil
}

// Reset forgets the call log.
func (s *MemStore) Reset() { s.mu.Lock(); s.Calls = nil; s.mu.Unlock() }

// RevCall is what a scripted revocation validator was asked.
type RevCall struct {
	ChainLen       int
	Chain          []*x509.Certificate
	HasSigningTime bool
	SigningTime    time.Time
	Interface      string // "validator" | "client"
}

// ScriptedRevocation implements both revocation.Validator and the deprecated
// revocation.Revocation; it answers with a fixed result vector or error.
type ScriptedRevocation struct {
	mu      sync.Mutex
	Results func(chain []*x509.Certificate) ([]*revresult.CertRevocationResult, error)
	Calls   []RevCall
}

func (r *ScriptedRevocation) ValidateContext(ctx context.Context, opts revocation.ValidateContextOptions) ([]*revresult.CertRevocationResult, error) {
	r.mu.Lock()
	r.Calls = append(r.Calls, RevCall{len(opts.CertChain), opts.CertChain, !opts.AuthenticSigningTime.IsZero(), opts.AuthenticSigningTime, "validator"})
	r.mu.Unlock()
	return r.Results(opts.CertChain)
}

// ClientView exposes the deprecated interface of the same script.
func (r *ScriptedRevocation) ClientView() revocation.Revocation { return clientView{r} }

type clientView struct{ r *ScriptedRevocation }

func (c clientView) Validate(certChain []*x509.Certificate, signingTime time.Time) ([]*revresult.CertRevocationResult, error) {
	c.r.mu.Lock()
	c.r.Calls = append(c.r.Calls, RevCall{len(certChain), certChain, !signingTime.IsZero(), signingTime, "client"})
	c.r.mu.Unlock()
	return c.r.Results(certChain)
}

// UniformResults answers every certificate with the same result.
func UniformResults(res revresult.Result) func([]*x509.Certificate) ([]*revresult.CertRevocationResult, error) {
	return func(chain []*x509.Certificate) ([]*revresult.CertRevocationResult, error) {
		out := make([]*revresult.CertRevocationResult, len(chain))
		for i := range chain {
			out[i] = &revresult.CertRevocationResult{Result: res, ServerResults: []*revresult.ServerResult{{Result: res}}}
		}
		return out, nil
	}
}

// VectorResults answers with the given per-certificate results (leaf first).
func VectorResults(vec []revresult.Result) func([]*x509.Certificate) ([]*revresult.CertRevocationResult, error) {
	return func(chain []*x509.Certificate) ([]*revresult.CertRevocationResult, error) {
		out := make([]*revresult.CertRevocationResult, len(vec))
		for i, v := range vec {
			out[i] = &revresult.CertRevocationResult{Result: v, ServerResults: []*revresult.ServerResult{{Result: v}}}
		}
		return out, nil
	}
}

// ScriptedPlugin is a pluginfw.Plugin with scripted answers and a call log.
type ScriptedPlugin struct {
	mu             sync.Mutex
	Metadata       *pluginfw.GetMetadataResponse
	MetadataErr    error
	VerifyResp     *pluginfw.VerifySignatureResponse
	VerifyErr      error
	MetadataCalls  int
	VerifyRequests []*pluginfw.VerifySignatureRequest
}

func (p *ScriptedPlugin) GetMetadata(ctx context.Context, req *pluginfw.GetMetadataRequest) (*pluginfw.GetMetadataResponse, error) {
	p.mu.Lock()
	defer p.mu.Unlock()
	p.MetadataCalls++
	return p.Metadata, p.MetadataErr
}
func (p *ScriptedPlugin) DescribeKey(ctx context.Context, req *pluginfw.DescribeKeyRequest) (*pluginfw.DescribeKeyResponse, error) {
	return nil, errors.New("not a signing plugin")
}
func (p *ScriptedPlugin) GenerateSignature(ctx context.Context, req *pluginfw.GenerateSignatureRequest) (*pluginfw.GenerateSignatureResponse, error) {
	return nil, errors.New("not a signing plugin")
}
func (p *ScriptedPlugin) GenerateEnvelope(ctx context.Context, req *pluginfw.GenerateEnvelopeRequest) (*pluginfw.GenerateEnvelopeResponse, error) {
	return nil, errors.New("not a signing plugin")
}
func (p *ScriptedPlugin) VerifySignature(ctx context.Context, req *pluginfw.VerifySignatureRequest) (*pluginfw.VerifySignatureResponse, error) {
	p.mu.Lock()
	defer p.mu.Unlock()
	p.VerifyRequests = append(p.VerifyRequests, req)
	return p.VerifyResp, p.VerifyErr
}

// ScriptedManager is a plugin manager returning scripted plugins.
type ScriptedManager struct {
	mu      sync.Mutex
	Plugins map[string]pluginfw.Plugin
	Gets    []string
}

func (m *ScriptedManager) Get(ctx context.Context, name string) (pluginfw.Plugin, error) {
	m.mu.Lock()
	defer m.mu.Unlock()
	m.Gets = append(m.Gets, name)
	p, ok := m.Plugins[name]
	if !ok {
		return nil, errors.New("plugin not found")
	}
	return p, nil
}

func (m *ScriptedManager) List(ctx context.Context) ([]string, error) {
	var out []string
	for k := range m.Plugins {
		out = append(out, k)
	}
	return out, nil
}

// Package c05 - correspondence harness for C05 (stub: not built yet).
package c05

import (
	"errors"

	"github.com/notaryproject/notation-go/xverif/common"
)

// Run generates the cases of C05.
func Run(c *common.Ctx) error { return errors.New("C05: harness not built yet") }

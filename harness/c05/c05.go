// Package c05 drives the real verifier.Verify with a scripted revocation validator over
// all result vectors in {OK, NonRevokable, Unknown, Revoked}^n for chains of length 1..4,
// both validator interfaces, both signing schemes and every action of the revocation type.
package c05

import (
	"context"
	"crypto/x509"
	"errors"
	"fmt"
	"strings"
	"time"

	revresult "github.com/notaryproject/notation-core-go/revocation/result"
	"github.com/notaryproject/notation-core-go/signature"
	"github.com/notaryproject/notation-go"
	"github.com/notaryproject/notation-go/plugin"
	"github.com/notaryproject/notation-go/verifier"
	"github.com/notaryproject/notation-go/verifier/trustpolicy"
	"github.com/notaryproject/notation-go/xverif/common"
	pluginfw "github.com/notaryproject/notation-plugin-framework-go/plugin"
	"github.com/opencontainers/go-digest"
	ocispec "github.com/opencontainers/image-spec/specs-go/v1"
)

type Input struct {
	Vec              []string `json:"vec"`
	ChainLen         int      `json:"chainLen"`
	Scheme           string   `json:"scheme"`
	Iface            string   `json:"iface"`
	Action           string   `json:"action"`
	ValidatorError   bool     `json:"validatorError"`
	Methods          []string `json:"methods"`
	ServerErrors     []bool   `json:"serverErrors"`
	ErrorWithResults bool     `json:"errorWithResults"`
	DeprecatedCtor   bool     `json:"deprecatedCtor"`
	IdentityPlugin   bool     `json:"identityPlugin"`
}

type Obs struct {
	Outcome     string  `json:"outcome"`
	Named       *int    `json:"named"`
	Accepted    bool    `json:"accepted"`
	Calls       int     `json:"calls"`
	ChainLen    *int    `json:"chainLen"`
	SigningTime *bool   `json:"signingTime"`
	UsedIface   *string `json:"usedIface"`
}

var target = ocispec.Descriptor{MediaType: "application/vnd.oci.image.manifest.v1+json", Digest: digest.FromString("c05 artifact"), Size: 12}

type world struct {
	chains map[int]*common.Chain // by length
	envs   map[string][]byte     // by length/scheme/format
	// verifiers live as long as the run: one per configuration, reused by every case of that
	// configuration (a fresh one for every seventh case as control)
	verifiers map[string]*liveVerifier
	uses      int
}

type liveVerifier struct {
	v     notation.Verifier
	store *common.MemStore
	rev   *common.ScriptedRevocation
}

func newWorld() *world {
	w := &world{chains: map[int]*common.Chain{}, envs: map[string][]byte{}, verifiers: map[string]*liveVerifier{}}
	nb := time.Now().Add(-48 * time.Hour)
	for n := 1; n <= 4; n++ {
		o := common.ChainOpts{Tag: fmt.Sprintf("c05-%d", n), RootNB: nb, InterNB: nb, LeafNB: nb}
		if n == 1 {
			o.SelfSignedLeaf = true
		} else {
			o.Intermediates = n - 2
		}
		w.chains[n] = common.MakeChain(o)
		if len(w.chains[n].Certs) != n {
			panic("c05: chain length")
		}
	}
	return w
}

const identityPluginName = "identity-only-plugin"

func (w *world) env(n int, scheme, format string, plugin bool) []byte {
	k := fmt.Sprint(n, scheme, format, plugin)
	if b, ok := w.envs[k]; ok {
		return b
	}
	var attrs []signature.Attribute
	if plugin {
		attrs = []signature.Attribute{{Key: verifier.HeaderVerificationPlugin, Critical: true, Value: identityPluginName}}
	}
	b := common.MustSign(common.EnvOpts{Format: format, Chain: w.chains[n], Target: &target, Scheme: scheme, ExtAttrs: attrs,
		SigningTime: time.Now().Add(-time.Hour).Truncate(time.Second)})
	w.envs[k] = b
	return b
}

var resMap = map[string]revresult.Result{"ok": revresult.ResultOK, "nonRevokable": revresult.ResultNonRevokable,
	"unknown": revresult.ResultUnknown, "revoked": revresult.ResultRevoked}
var methodMap = map[string]revresult.RevocationMethod{"ocsp": revresult.RevocationMethodOCSP, "crl": revresult.RevocationMethodCRL,
	"fallback": revresult.RevocationMethodOCSPFallbackCRL, "unknown": revresult.RevocationMethodUnknown}

func runCase(w *world, in Input, format string) Obs {
	n := in.ChainLen
	chain := w.chains[n]
	scheme := common.SchemeX509
	storeType := "ca"
	if in.Scheme == "signingAuthority" {
		scheme, storeType = common.SchemeAuthority, "signingAuthority"
	}
	env := w.env(n, scheme, format, in.IdentityPlugin)
	results := func(c []*x509.Certificate) ([]*revresult.CertRevocationResult, error) {
		if in.ValidatorError && !in.ErrorWithResults {
			return nil, errors.New("validator failure")
		}
		out := make([]*revresult.CertRevocationResult, len(in.Vec))
		for k := 0; k < len(in.Vec); k++ {
			m := methodMap[in.Methods[k]]
			cr := &revresult.CertRevocationResult{Result: resMap[in.Vec[k]], RevocationMethod: m}
			sr := &revresult.ServerResult{Result: resMap[in.Vec[k]], Server: "http://example/" + fmt.Sprint(k), RevocationMethod: m}
			if in.ServerErrors[k] {
				sr.Error = errors.New("server error")
				if m == revresult.RevocationMethodOCSPFallbackCRL {
					sr.RevocationMethod = revresult.RevocationMethodOCSP
				}
			}
			cr.ServerResults = []*revresult.ServerResult{sr}
			out[k] = cr
		}
		if in.ValidatorError {
			return out, errors.New("validator interrupted")
		}
		return out, nil
	}
	key := fmt.Sprint(n, in.Scheme, in.Iface, in.Action, in.IdentityPlugin, in.DeprecatedCtor)
	w.uses++
	lv := w.verifiers[key]
	if lv == nil || w.uses%7 == 0 {
		store := common.NewMemStore()
		store.Certs[storeType+":c05"] = []*x509.Certificate{chain.Root().Cert}
		rev := &common.ScriptedRevocation{}
		var ov map[trustpolicy.ValidationType]trustpolicy.ValidationAction
		if in.Action != "enforce" {
			ov = map[trustpolicy.ValidationType]trustpolicy.ValidationAction{trustpolicy.TypeRevocation: trustpolicy.ValidationAction(in.Action)}
		}
		doc := &trustpolicy.OCIDocument{Version: "1.0", TrustPolicies: []trustpolicy.OCITrustPolicy{{
			Name: "c05", RegistryScopes: []string{"*"},
			SignatureVerification: trustpolicy.SignatureVerification{VerificationLevel: "strict", Override: ov},
			TrustStores:           []string{storeType + ":c05"},
			TrustedIdentities:     []string{"*"},
		}}}
		opts := verifier.VerifierOptions{OCITrustPolicy: doc}
		var mgr *common.ScriptedManager
		if in.IdentityPlugin {
			// a plugin that owns the trusted-identity check only and approves the identity
			mgr = &common.ScriptedManager{Plugins: map[string]pluginfw.Plugin{identityPluginName: &common.ScriptedPlugin{
				Metadata: &pluginfw.GetMetadataResponse{Name: identityPluginName, Description: "d", Version: "1.0.0", URL: "u",
					SupportedContractVersions: []string{"1.0"}, Capabilities: []pluginfw.Capability{pluginfw.CapabilityTrustedIdentityVerifier}},
				VerifyResp: &pluginfw.VerifySignatureResponse{VerificationResults: map[pluginfw.Capability]*pluginfw.VerificationResult{
					pluginfw.CapabilityTrustedIdentityVerifier: {Success: true}}},
			}}}
			opts.PluginManager = mgr
		}
		if in.Iface == "validator" {
			opts.RevocationCodeSigningValidator = rev
		} else {
			opts.RevocationClient = rev.ClientView()
		}
		var v notation.Verifier
		var err error
		if in.DeprecatedCtor {
			// the deprecated constructor takes policy and plugin manager as arguments
			var pm plugin.Manager
			if mgr != nil {
				pm = mgr
			}
			o2 := opts
			o2.OCITrustPolicy, o2.PluginManager = nil, nil
			v, err = verifier.NewWithOptions(doc, store, pm, o2)
		} else {
			v, err = verifier.NewVerifierWithOptions(store, opts)
		}
		if err != nil {
			panic(err)
		}
		lv = &liveVerifier{v: v, store: store, rev: rev}
		w.verifiers[key] = lv
	}
	rev := lv.rev
	rev.Results = results
	rev.Calls = nil
	v := lv.v
	outcome, verr := v.Verify(context.Background(), target, env, notation.VerifierVerifyOptions{
		ArtifactReference: "reg.example/c05@" + target.Digest.String(), SignatureMediaType: format})
	o := Obs{Outcome: "notPerformed", Accepted: verr == nil, Calls: len(rev.Calls)}
	if len(rev.Calls) > 0 {
		c := rev.Calls[0]
		// the complete chain, in order
		cl := c.ChainLen
		for k, cert := range c.Chain {
			if k >= n || !cert.Equal(chain.Certs[k].Cert) {
				cl = -1
			}
		}
		o.ChainLen = &cl
		st := c.HasSigningTime
		o.SigningTime = &st
		iface := c.Interface
		o.UsedIface = &iface
	}
	if outcome == nil {
		panic("c05: nil outcome")
	}
	for _, r := range outcome.VerificationResults {
		if r.Type != trustpolicy.TypeRevocation {
			if r.Error != nil {
				panic(fmt.Sprintf("c05: unexpected %s failure: %v", r.Type, r.Error))
			}
			continue
		}
		if r.Error == nil {
			o.Outcome = "pass"
			continue
		}
		msg := r.Error.Error()
		switch {
		case strings.Contains(msg, "is revoked"):
			o.Outcome = "revoked"
		case strings.Contains(msg, "revocation status is unknown"):
			o.Outcome = "unknown"
		default:
			o.Outcome = "inconclusive"
		}
		// which certificate does the error name?
		for k, c := range chain.Certs {
			if strings.Contains(msg, fmt.Sprintf("%q", c.Cert.Subject.String())) {
				kk := k
				o.Named = &kk
			}
		}
	}
	return o
}

func vectors(n int) [][]string {
	if n == 0 {
		return [][]string{{}}
	}
	var out [][]string
	for _, v := range vectors(n - 1) {
		for _, r := range []string{"ok", "nonRevokable", "unknown", "revoked"} {
			out = append(out, append(append([]string{}, v...), r))
		}
	}
	return out
}

// Run enumerates every vector for n = 1..4 x scheme x interface x action (x validator error
// on a sample), with random method annotations and server errors.
func Run(c *common.Ctx) error {
	w := newWorld()
	methods := []string{"ocsp", "crl", "fallback", "unknown"}
	reps := 1
	if c.Thorough() {
		reps = 6
	}
	for rep := 0; rep < reps; rep++ {
		for n := 1; n <= 4; n++ {
			for _, vec := range vectors(n) {
				for _, scheme := range []string{"x509", "signingAuthority"} {
					for _, iface := range []string{"validator", "client"} {
						for _, action := range []string{"enforce", "log", "skip"} {
							for _, verr := range []bool{false, true} {
								if verr && c.Rand.Intn(4) != 0 {
									continue
								}
								in := Input{Vec: vec, ChainLen: n, Scheme: scheme, Iface: iface, Action: action, ValidatorError: verr,
									ErrorWithResults: verr && c.Rand.Intn(2) == 0, DeprecatedCtor: c.Rand.Intn(3) == 0,
									IdentityPlugin: c.Rand.Intn(4) == 0}
								for k := 0; k < n; k++ {
									in.Methods = append(in.Methods, methods[c.Rand.Intn(len(methods))])
									in.ServerErrors = append(in.ServerErrors, c.Rand.Intn(4) == 0)
								}
								format := common.MediaJWS
								if c.Rand.Intn(3) == 0 {
									format = common.MediaCOSE
								}
								o := runCase(w, in, format)
								c.Emit(in, o)
								c.Count("outcome=" + o.Outcome)
								c.Count(fmt.Sprintf("n=%d", n))
								c.Count("action=" + action)
							}
						}
					}
				}
			}
		}
	}
	// a validator that does NOT answer with one result per certificate (fewer, none, more): must fail closed
	for n := 1; n <= 4; n++ {
		for m := 0; m <= 5; m++ {
			if m == n {
				continue
			}
			for _, vec := range vectors(m) {
				if m >= 3 && c.Rand.Intn(8) != 0 {
					continue
				}
				for _, iface := range []string{"validator", "client"} {
					for _, action := range []string{"enforce", "log"} {
						in := Input{Vec: vec, ChainLen: n, Scheme: "x509", Iface: iface, Action: action}
						if in.Vec == nil {
							in.Vec = []string{}
						}
						in.Methods, in.ServerErrors = []string{}, []bool{}
						for k := 0; k < m; k++ {
							in.Methods = append(in.Methods, "ocsp")
							in.ServerErrors = append(in.ServerErrors, false)
						}
						o := runCase(w, in, common.MediaJWS)
						c.Emit(in, o)
						c.Count("result-count-mismatch")
						c.Count("outcome=" + o.Outcome)
					}
				}
			}
		}
	}
	c.SetExhaustive(true)
	c.Note("all 340 result vectors over chains of length 1..4 x {x509, signingAuthority} x {validator, deprecated client} x {enforce, log, skip}; validator-level error on a quarter; random method annotations and per-server errors; real JWS/COSE envelopes through verifier.Verify")
	return nil
}

// Package c05 drives the real verifier.Verify with a scripted revocation validator over
// all result vectors in {OK, NonRevokable, Unknown, Revoked}^n for chains of length 1..4,
// both validator interfaces, both signing schemes and every action of the revocation type.
package c05

import (
	"context"
	"crypto/x509"
	"errors"
	"fmt"
	"strings"
	"time"

	revresult "github.com/notaryproject/notation-core-go/revocation/result"
	"github.com/notaryproject/notation-core-go/signature"
	"github.com/notaryproject/notation-go"
	"github.com/notaryproject/notation-go/plugin"
	"github.com/notaryproject/notation-go/verifier"
	"github.com/notaryproject/notation-go/verifier/trustpolicy"
	"github.com/notaryproject/notation-go/xverif/common"
	pluginfw "github.com/notaryproject/notation-plugin-framework-go/plugin"
	"github.com/opencontainers/go-digest"
	ocispec "github.com/opencontainers/image-spec/specs-go/v1"
)

type Input struct {
	Vec              []string `json:"vec"`
	ChainLen         int      `json:"chainLen"`
	Scheme           string   `json:"scheme"`
	Iface            string   `json:"iface"`
	Action           string   `json:"action"`
	ValidatorError   bool     `json:"validatorError"`
	Methods          []string `json:"methods"`
	ServerErrors     []bool   `json:"serverErrors"`
	ErrorWithResults bool     `json:"errorWithResults"`
	DeprecatedCtor   bool     `json:"deprecatedCtor"`
	IdentityPlugin   bool     `json:"identityPlugin"`
	// what else is true of the signature (ignored by the model, theorem variant_irrelevant): none of it
	// may change how revocation is checked or aggregated
	//   ""                  nothing special
	//   "expiredSigLogged"  the signature's expiry attribute lies in the past, the level logs expiry
	//   "expiredChain"      every certificate of the chain has expired; the signing time lies inside the
	//                       validity (signingAuthority: authentic; x509: the level logs authenticTimestamp)
	//   "emptySubjectLeaf"  the signing certificate has an empty subject DN (SAN-only certificate)
	Variant string `json:"variant"`
	// the caller supplied BOTH the context-aware validator and the deprecated client (iface = validator):
	// the context-aware one decides, the deprecated client is not consulted (ignored by the model)
	BothSupplied bool `json:"bothSupplied"`
}

type Obs struct {
	Outcome     string  `json:"outcome"`
	Named       *int    `json:"named"`
	Accepted    bool    `json:"accepted"`
	Calls       int     `json:"calls"`
	ChainLen    *int    `json:"chainLen"`
	SigningTime *bool   `json:"signingTime"`
	UsedIface   *string `json:"usedIface"`
}

var target = ocispec.Descriptor{MediaType: "application/vnd.oci.image.manifest.v1+json", Digest: digest.FromString("c05 artifact"), Size: 12}

type world struct {
	chains  map[int]*common.Chain    // by length
	vchains map[string]*common.Chain // variant chains by variant/length
	envs    map[string][]byte        // by length/scheme/format
	// verifiers live as long as the run: one per configuration, reused by every case of that
	// configuration (a fresh one for every seventh case as control)
	verifiers map[string]*liveVerifier
	uses      int
}

type liveVerifier struct {
	v     notation.Verifier
	store *common.MemStore
	rev   *common.ScriptedRevocation
}

func newWorld() *world {
	w := &world{chains: map[int]*common.Chain{}, vchains: map[string]*common.Chain{}, envs: map[string][]byte{}, verifiers: map[string]*liveVerifier{}}
	nb := time.Now().Add(-48 * time.Hour)
	for n := 1; n <= 4; n++ {
		o := common.ChainOpts{Tag: fmt.Sprintf("c05-%d", n), RootNB: nb, InterNB: nb, LeafNB: nb}
		if n == 1 {
			o.SelfSignedLeaf = true
		} else {
			o.Intermediates = n - 2
		}
		w.chains[n] = common.MakeChain(o)
		if len(w.chains[n].Certs) != n {
			panic("c05: chain length")
		}
	}
	return w
}

const identityPluginName = "identity-only-plugin"

// chain returns the chain of a case: the standing one, or a variant minted on first use
func (w *world) chain(n int, variant string) *common.Chain {
	switch variant {
	case "expiredChain", "emptySubjectLeaf":
	default:
		return w.chains[n]
	}
	k := fmt.Sprint(variant, n)
	if c, ok := w.vchains[k]; ok {
		return c
	}
	o := common.ChainOpts{Tag: fmt.Sprintf("c05-%s-%d", variant, n)}
	if n == 1 {
		o.SelfSignedLeaf = true
	} else {
		o.Intermediates = n - 2
	}
	switch variant {
	case "expiredChain":
		nb, na := time.Now().Add(-96*time.Hour), time.Now().Add(-24*time.Hour)
		o.RootNB, o.InterNB, o.LeafNB, o.RootNA, o.InterNA, o.LeafNA = nb, nb, nb, na, na, na
	case "emptySubjectLeaf":
		nb := time.Now().Add(-48 * time.Hour)
		o.RootNB, o.InterNB, o.LeafNB = nb, nb, nb
		o.LeafRawSubject = []byte{0x30, 0x00} // an empty RDNSequence
	}
	c := common.MakeChain(o)
	if len(c.Certs) != n {
		panic("c05: variant chain length")
	}
	w.vchains[k] = c
	return c
}

func (w *world) env(n int, scheme, format string, plugin bool, variant string) []byte {
	k := fmt.Sprint(n, scheme, format, plugin, variant)
	if b, ok := w.envs[k]; ok {
		return b
	}
	var attrs []signature.Attribute
	if plugin {
		attrs = []signature.Attribute{{Key: verifier.HeaderVerificationPlugin, Critical: true, Value: identityPluginName}}
	}
	o := common.EnvOpts{Format: format, Chain: w.chain(n, variant), Target: &target, Scheme: scheme, ExtAttrs: attrs,
		SigningTime: time.Now().Add(-time.Hour).Truncate(time.Second)}
	switch variant {
	case "expiredSigLogged":
		o.SigningTime = time.Now().Add(-3 * time.Hour).Truncate(time.Second)
		o.Expiry = time.Now().Add(-2 * time.Hour).Truncate(time.Second)
	case "expiredChain":
		o.SigningTime = time.Now().Add(-48 * time.Hour).Truncate(time.Second)
	}
	b := common.MustSign(o)
	w.envs[k] = b
	return b
}

var resMap = map[string]revresult.Result{"ok": revresult.ResultOK, "nonRevokable": revresult.ResultNonRevokable,
	"unknown": revresult.ResultUnknown, "revoked": revresult.ResultRevoked}
var methodMap = map[string]revresult.RevocationMethod{"ocsp": revresult.RevocationMethodOCSP, "crl": revresult.RevocationMethodCRL,
	"fallback": revresult.RevocationMethodOCSPFallbackCRL, "unknown": revresult.RevocationMethodUnknown}

func runCase(w *world, in Input, format string) Obs {
	n := in.ChainLen
	chain := w.chain(n, in.Variant)
	scheme := common.SchemeX509
	storeType := "ca"
	if in.Scheme == "signingAuthority" {
		scheme, storeType = common.SchemeAuthority, "signingAuthority"
	}
	env := w.env(n, scheme, format, in.IdentityPlugin, in.Variant)
	results := func(c []*x509.Certificate) ([]*revresult.CertRevocationResult, error) {
		if in.ValidatorError && !in.ErrorWithResults {
			return nil, errors.New("validator failure")
		}
		out := make([]*revresult.CertRevocationResult, len(in.Vec))
		for k := 0; k < len(in.Vec); k++ {
			m := methodMap[in.Methods[k]]
			cr := &revresult.CertRevocationResult{Result: resMap[in.Vec[k]], RevocationMethod: m}
			sr := &revresult.ServerResult{Result: resMap[in.Vec[k]], Server: "http://example/" + fmt.Sprint(k), RevocationMethod: m}
			if in.ServerErrors[k] {
				sr.Error = errors.New("server error")
				if m == revresult.RevocationMethodOCSPFallbackCRL {
					sr.RevocationMethod = revresult.RevocationMethodOCSP
				}
			}
			cr.ServerResults = []*revresult.ServerResult{sr}
			out[k] = cr
		}
		if in.ValidatorError {
			return out, errors.New("validator interrupted")
		}
		return out, nil
	}
	key := fmt.Sprint(n, in.Scheme, in.Iface, in.Action, in.IdentityPlugin, in.DeprecatedCtor, in.Variant, in.BothSupplied)
	w.uses++
	lv := w.verifiers[key]
	if lv == nil || w.uses%7 == 0 {
		store := common.NewMemStore()
		store.Certs[storeType+":c05"] = []*x509.Certificate{chain.Root().Cert}
		rev := &common.ScriptedRevocation{}
		var ov map[trustpolicy.ValidationType]trustpolicy.ValidationAction
		if in.Action != "enforce" {
			ov = map[trustpolicy.ValidationType]trustpolicy.ValidationAction{trustpolicy.TypeRevocation: trustpolicy.ValidationAction(in.Action)}
		}
		logOther := func(t trustpolicy.ValidationType) {
			if ov == nil {
				ov = map[trustpolicy.ValidationType]trustpolicy.ValidationAction{}
			}
			ov[t] = trustpolicy.ActionLog
		}
		switch in.Variant {
		case "expiredSigLogged":
			logOther(trustpolicy.TypeExpiry)
		case "expiredChain":
			if in.Scheme != "signingAuthority" {
				logOther(trustpolicy.TypeAuthenticTimestamp)
			}
		}
		doc := &trustpolicy.OCIDocument{Version: "1.0", TrustPolicies: []trustpolicy.OCITrustPolicy{{
			Name: "c05", RegistryScopes: []string{"*"},
			SignatureVerification: trustpolicy.SignatureVerification{VerificationLevel: "strict", Override: ov},
			TrustStores:           []string{storeType + ":c05"},
			TrustedIdentities:     []string{"*"},
		}}}
		opts := verifier.VerifierOptions{OCITrustPolicy: doc}
		var mgr *common.ScriptedManager
		if in.IdentityPlugin {
			// a plugin that owns the trusted-identity check only and approves the identity
			mgr = &common.ScriptedManager{Plugins: map[string]pluginfw.Plugin{identityPluginName: &common.ScriptedPlugin{
				Metadata: &pluginfw.GetMetadataResponse{Name: identityPluginName, Description: "d", Version: "1.0.0", URL: "u",
					SupportedContractVersions: []string{"1.0"}, Capabilities: []pluginfw.Capability{pluginfw.CapabilityTrustedIdentityVerifier}},
				VerifyResp: &pluginfw.VerifySignatureResponse{VerificationResults: map[pluginfw.Capability]*pluginfw.VerificationResult{
					pluginfw.CapabilityTrustedIdentityVerifier: {Success: true}}},
			}}}
			opts.PluginManager = mgr
		}
		if in.Iface == "validator" {
			opts.RevocationCodeSigningValidator = rev
			if in.BothSupplied {
				// a deprecated client that would wave everything through: it must never be the one asked
				decoy := &common.ScriptedRevocation{Results: common.UniformResults(revresult.ResultOK)}
				opts.RevocationClient = decoy.ClientView()
			}
		} else {
			opts.RevocationClient = rev.ClientView()
		}
		var v notation.Verifier
		var err error
		if in.DeprecatedCtor {
			// the deprecated constructor takes policy and plugin manager as arguments
			var pm plugin.Manager
			if mgr != nil {
				pm = mgr
			}
			o2 := opts
			o2.OCITrustPolicy, o2.PluginManager = nil, nil
			v, err = verifier.NewWithOptions(doc, store, pm, o2)
		} else {
			v, err = verifier.NewVerifierWithOptions(store, opts)
		}
		if err != nil {
			panic(err)
		}
		lv = &liveVerifier{v: v, store: store, rev: rev}
		w.verifiers[key] = lv
	}
	rev := lv.rev
	rev.Results = results
	rev.Calls = nil
	v := lv.v
	outcome, verr := v.Verify(context.Background(), target, env, notation.VerifierVerifyOptions{
		ArtifactReference: "reg.example/c05@" + target.Digest.String(), SignatureMediaType: format})
	o := Obs{Outcome: "notPerformed", Accepted: verr == nil, Calls: len(rev.Calls)}
	if len(rev.Calls) > 0 {
		c := rev.Calls[0]
		// the complete chain, in order
		cl := c.ChainLen
		for k, cert := range c.Chain {
			if k >= n || !cert.Equal(chain.Certs[k].Cert) {
				cl = -1
			}
		}
		o.ChainLen = &cl
		st := c.HasSigningTime
		o.SigningTime = &st
		iface := c.Interface
		o.UsedIface = &iface
	}
	if outcome == nil {
		panic("c05: nil outcome")
	}
	for _, r := range outcome.VerificationResults {
		if r.Type != trustpolicy.TypeRevocation {
			expected := (in.Variant == "expiredSigLogged" && r.Type == trustpolicy.TypeExpiry) ||
				(in.Variant == "expiredChain" && in.Scheme != "signingAuthority" && r.Type == trustpolicy.TypeAuthenticTimestamp)
			if r.Error != nil && !expected {
				panic(fmt.Sprintf("c05: unexpected %s failure: %v", r.Type, r.Error))
			}
			if expected && r.Error == nil {
				panic(fmt.Sprintf("c05: the %s failure the variant %s is built for did not happen", r.Type, in.Variant))
			}
			continue
		}
		if r.Error == nil {
			o.Outcome = "pass"
			continue
		}
		msg := r.Error.Error()
		switch {
		case strings.Contains(msg, "is revoked"):
			o.Outcome = "revoked"
		case strings.Contains(msg, "revocation status is unknown"):
			o.Outcome = "unknown"
		default:
			o.Outcome = "inconclusive"
		}
		// which certificate does the error name?
		for k, c := range chain.Certs {
			if strings.Contains(msg, fmt.Sprintf("%q", c.Cert.Subject.String())) {
				kk := k
				o.Named = &kk
			}
		}
	}
	return o
}

func vectors(n int) [][]string {
	if n == 0 {
		return [][]string{{}}
	}
	var out [][]string
	for _, v := range vectors(n - 1) {
		for _, r := range []string{"ok", "nonRevokable", "unknown", "revoked"} {
			out = append(out, append(append([]string{}, v...), r))
		}
	}
	return out
}

// Run enumerates every vector for n = 1..4 x scheme x interface x action (x validator error
// on a sample), with random method annotations and server errors.
func Run(c *common.Ctx) error {
	w := newWorld()
	methods := []string{"ocsp", "crl", "fallback", "unknown"}
	reps := 1
	if c.Thorough() {
		reps = 6
	}
	for rep := 0; rep < reps; rep++ {
		for n := 1; n <= 4; n++ {
			for _, vec := range vectors(n) {
				for _, scheme := range []string{"x509", "signingAuthority"} {
					for _, iface := range []string{"validator", "client"} {
						for _, action := range []string{"enforce", "log", "skip"} {
							for _, verr := range []bool{false, true} {
								if verr && c.Rand.Intn(4) != 0 {
									continue
								}
								in := Input{Vec: vec, ChainLen: n, Scheme: scheme, Iface: iface, Action: action, ValidatorError: verr,
									ErrorWithResults: verr && c.Rand.Intn(2) == 0, DeprecatedCtor: c.Rand.Intn(3) == 0,
									IdentityPlugin: c.Rand.Intn(4) == 0}
								in.BothSupplied = iface == "validator" && c.Rand.Intn(3) == 0
								for k := 0; k < n; k++ {
									in.Methods = append(in.Methods, methods[c.Rand.Intn(len(methods))])
									in.ServerErrors = append(in.ServerErrors, c.Rand.Intn(4) == 0)
								}
								format := common.MediaJWS
								if c.Rand.Intn(3) == 0 {
									format = common.MediaCOSE
								}
								o := runCase(w, in, format)
								c.Emit(in, o)
								c.Count("outcome=" + o.Outcome)
								c.Count(fmt.Sprintf("n=%d", n))
								c.Count("action=" + action)
							}
						}
					}
				}
			}
		}
	}
	// other things true of the signature (expired signature under a logging level, expired chain,
	// empty-subject signing certificate): revocation is checked and aggregated all the same
	for _, variant := range []string{"expiredSigLogged", "expiredChain", "emptySubjectLeaf"} {
		for n := 1; n <= 3; n++ {
			if variant == "emptySubjectLeaf" && n == 1 {
				continue
			}
			for _, vec := range vectors(n) {
				for _, scheme := range []string{"x509", "signingAuthority"} {
					for _, iface := range []string{"validator", "client"} {
						for _, action := range []string{"enforce", "log", "skip"} {
							if n == 3 && c.Rand.Intn(3) != 0 {
								continue
							}
							in := Input{Vec: vec, ChainLen: n, Scheme: scheme, Iface: iface, Action: action, Variant: variant,
								ValidatorError: c.Rand.Intn(8) == 0}
							for k := 0; k < n; k++ {
								in.Methods = append(in.Methods, methods[c.Rand.Intn(len(methods))])
								in.ServerErrors = append(in.ServerErrors, c.Rand.Intn(4) == 0)
							}
							o := runCase(w, in, common.MediaJWS)
							c.Emit(in, o)
							c.Count("variant=" + variant)
							c.Count("outcome=" + o.Outcome)
						}
					}
				}
			}
		}
	}
	// a validator that does NOT answer with one result per certificate (fewer, none, more): must fail closed
	for n := 1; n <= 4; n++ {
		for m := 0; m <= 5; m++ {
			if m == n {
				continue
			}
			for _, vec := range vectors(m) {
				if m >= 3 && c.Rand.Intn(8) != 0 {
					continue
				}
				for _, iface := range []string{"validator", "client"} {
					for _, action := range []string{"enforce", "log"} {
						in := Input{Vec: vec, ChainLen: n, Scheme: "x509", Iface: iface, Action: action}
						if in.Vec == nil {
							in.Vec = []string{}
						}
						in.Methods, in.ServerErrors = []string{}, []bool{}
						for k := 0; k < m; k++ {
							in.Methods = append(in.Methods, "ocsp")
							in.ServerErrors = append(in.ServerErrors, false)
						}
						o := runCase(w, in, common.MediaJWS)
						c.Emit(in, o)
						c.Count("result-count-mismatch")
						c.Count("outcome=" + o.Outcome)
					}
				}
			}
		}
	}
	c.SetExhaustive(true)
	c.Note("all 340 result vectors over chains of length 1..4 x {x509, signingAuthority} x {validator, deprecated client} x {enforce, log, skip}; validator-level error on a quarter; random method annotations and per-server errors; real JWS/COSE envelopes through verifier.Verify")
	return nil
}

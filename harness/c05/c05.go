// Package c05 drives the real verifier.Verify with a scripted revocation validator over
// all result vectors in {OK, NonRevokable, Unknown, Revoked}^n for chains of length 1..4,
// both validator interfaces, both signing schemes and every action of the revocation type -
// the action being written the way a user writes it: a named level (strict, permissive, audit,
// skip) with or without an override for revocation (relaxing or tightening), alone or next to
// overrides of other types; validator-level errors of every kind (plain, wrapping context /
// deadline / timeout errors, typed revocation errors, empty messages, typed nil pointers) under
// live, cancelled and expired caller contexts; supplied objects whose dynamic type offers more than the interface they
// were supplied as; long-lived verifiers holding several statements (OCI and blob documents, namesakes across the
// documents) with a declared history of earlier calls, through Verify and VerifyBlob.
package c05

import (
	"context"
	"crypto"
	"crypto/x509"
	"encoding/json"
	"errors"
	"fmt"
	"io"
	"net"
	"net/http"
	"net/url"
	"os"
	"sort"
	"strings"
	"sync"
	"time"

	"github.com/notaryproject/notation-core-go/revocation"
	revcrl "github.com/notaryproject/notation-core-go/revocation/crl"
	revocsp "github.com/notaryproject/notation-core-go/revocation/ocsp"
	revresult "github.com/notaryproject/notation-core-go/revocation/result"
	"github.com/notaryproject/notation-core-go/signature"
	"github.com/notaryproject/notation-go"
	"github.com/notaryproject/notation-go/plugin"
	"github.com/notaryproject/notation-go/verifier"
	"github.com/notaryproject/notation-go/verifier/trustpolicy"
	"github.com/notaryproject/notation-go/xverif/common"
	pluginfw "github.com/notaryproject/notation-plugin-framework-go/plugin"
	"github.com/opencontainers/go-digest"
	ocispec "github.com/opencontainers/image-spec/specs-go/v1"
	xocsp "golang.org/x/crypto/ocsp"
)

type Input struct {
	Vec      []string `json:"vec"`
	ChainLen int      `json:"chainLen"`
	Scheme   string   `json:"scheme"`
	Iface    string   `json:"iface"`
	// the trust policy statement as a user writes it: a named level, optionally an override for the
	// revocation type (null = none), optionally overrides of other types ("expiry=log", ...; ignored by
	// the model: they must not change what happens to revocation)
	Level          string   `json:"level"`
	RevOverride    *string  `json:"revOverride"`
	OtherOverrides []string `json:"otherOverrides"`
	// "code": the document is built in Go; "json": it is parsed from the JSON text a user writes (ignored by the model)
	PolicyForm     string `json:"policyForm"`
	ValidatorError bool   `json:"validatorError"`
	// what error the validator returns (see validatorErr; ignored by the model: every error fails the validation)
	ErrorKind string `json:"errorKind"`
	// the context handed to Verify: "background", "live" (deadline far away), "cancelled", "expired" (ignored by the model)
	CallerCtx string   `json:"callerCtx"`
	Methods   []string `json:"methods"`
	// per certificate, its per-server results as "<server's result>/<kind of typed error>" (see serverErr; ignored
	// by the model: the aggregation depends on the per-certificate result only)
	// "nil" instead of such a string: the entry of ServerResults is a nil pointer
	Servers [][]string `json:"servers"`
	// positions of the vector whose entry is a NIL pointer (the validator gave no result for that certificate). The
	// model reads Vec there, which says "unknown" (enforced by the generator): a certificate without a result has an
	// unknown status - fail closed, never a nil dereference
	NilEntries []int `json:"nilEntries"`
	// "scripted": the instrumented validator answers Vec; "stock": the notation-core-go validator behind a
	// scripted HTTP transport produced Vec, recorded in passing (needs Variant "ocspChain"; ignored by the model)
	ValidatorImpl    string `json:"validatorImpl"`
	ErrorWithResults bool   `json:"errorWithResults"`
	DeprecatedCtor   bool   `json:"deprecatedCtor"`
	IdentityPlugin   bool   `json:"identityPlugin"`
	// what else is true of the signature (ignored by the model, theorem variant_irrelevant): none of it
	// may change how revocation is checked or aggregated
	//   ""                  nothing special
	//   "expiredSigLogged"  the signature's expiry attribute lies in the past, the level logs expiry
	//   "expiredChain"      every certificate of the chain has expired; the signing time lies inside the
	//                       validity (signingAuthority: authentic; x509: the level logs authenticTimestamp)
	//   "emptySubjectLeaf"  the signing certificate has an empty subject DN (SAN-only certificate)
	Variant string `json:"variant"`
	// the caller supplied BOTH the context-aware validator and the deprecated client (iface = validator):
	// the context-aware one decides, the deprecated client is not consulted (ignored by the model)
	BothSupplied bool `json:"bothSupplied"`
	// the entry point of the observed call: "oci" (verifier.Verify), "blob" (verifier.VerifyBlob under the blob
	// statement picked by name), "blobGlobal" (VerifyBlob under the global blob statement, no name given). Level,
	// RevOverride and OtherOverrides are those of the statement applicable to that call (ignored by the model:
	// both entry points share processSignature)
	Entry string `json:"entry"`
	// the OTHER statements the same verifier holds, "<doc>/<rel>/<level>/<override>": doc = oci | blob; rel = same |
	// other (its name equals / differs from the applicable statement's name - "same" only in the other document:
	// names are unique per document) with the suffix Wild (registry scope "*" / the global blob statement);
	// level and override ("-" = none) say what it does about revocation (ignored by the model)
	Companions []string `json:"companions"`
	// calls made on the same verifier before the observed one: "c<k>" Verify / VerifyBlob under companion k,
	// "self" the observed call's own form (validator answering all OK), "skip:self" / "skip:c<k>" SkipVerify for
	// the artifact the OCI statement applies to (ignored by the model: a verifier keeps no state)
	History []string `json:"history"`
	// what else the dynamic type of the supplied validator / client can do: "" nothing; "allOK" | "allRevoked" |
	// "error": it ALSO has the method of the other interface (a deprecated client embedding a context-aware
	// validator: ValidateContext promoted; a context-aware validator that kept its old Validate), answering so
	// (ignored by the model: the object is consulted through the interface it was supplied as)
	ExtraMethod string `json:"extraMethod"`
	// a timestamping validator (answering all OK) was supplied as well (ignored by the model)
	TimestampingSupplied bool `json:"timestampingSupplied"`
}

// fill puts the defaults of the later dimensions
func (in *Input) fill() {
	if in.Entry == "" {
		in.Entry = "oci"
	}
	if in.Companions == nil {
		in.Companions = []string{}
	}
	if in.History == nil {
		in.History = []string{}
	}
	if in.NilEntries == nil {
		in.NilEntries = []int{}
	}
}

type Obs struct {
	Outcome  string `json:"outcome"`
	Named    *int   `json:"named"`
	Accepted bool   `json:"accepted"`
	// the action the revocation ValidationResult carries
	ResultAction *string `json:"resultAction"`
	Calls        int     `json:"calls"`
	ChainLen     *int    `json:"chainLen"`
	SigningTime  *bool   `json:"signingTime"`
	UsedIface    *string `json:"usedIface"`
}

var target = ocispec.Descriptor{MediaType: "application/vnd.oci.image.manifest.v1+json", Digest: digest.FromString("c05 artifact"), Size: 12}

type world struct {
	chains  map[int]*common.Chain    // by length
	vchains map[string]*common.Chain // variant chains by variant/length
	envs    map[string][]byte        // by length/scheme/format
	// verifiers live as long as the run: one per configuration, reused by every case of that
	// configuration (a fresh one for every seventh case as control)
	verifiers map[string]*liveVerifier
	uses      int
	// failures of OTHER validation types seen after a declared history (none on a verifier that keeps no state)
	strayFailures int
	// history calls that came back without an outcome
	refusedHistory int
	// observed calls that came back without an outcome
	refusedObserved int
	// stock validator mode: how the OCSP responder of certificate k behaves in the current case, and what
	// the stock validator reported
	behave      []string
	lastResults []*revresult.CertRevocationResult
}

type liveVerifier struct {
	v     notation.Verifier
	store *common.MemStore
	rev   *scripted
}

// scripted implements revocation.Validator and (through clientView) the deprecated
// revocation.Revocation; the script sees the context it was handed (nil for the deprecated client,
// which has none)
type scripted struct {
	mu      sync.Mutex
	Results func(ctx context.Context, chain []*x509.Certificate, signingTime time.Time) ([]*revresult.CertRevocationResult, error)
	Calls   []common.RevCall
}

func (r *scripted) ValidateContext(ctx context.Context, opts revocation.ValidateContextOptions) ([]*revresult.CertRevocationResult, error) {
	r.mu.Lock()
	r.Calls = append(r.Calls, common.RevCall{ChainLen: len(opts.CertChain), Chain: opts.CertChain,
		HasSigningTime: !opts.AuthenticSigningTime.IsZero(), SigningTime: opts.AuthenticSigningTime, Interface: "validator"})
	r.mu.Unlock()
	return r.Results(ctx, opts.CertChain, opts.AuthenticSigningTime)
}

type clientView struct{ r *scripted }

func (c clientView) Validate(certChain []*x509.Certificate, signingTime time.Time) ([]*revresult.CertRevocationResult, error) {
	c.r.mu.Lock()
	c.r.Calls = append(c.r.Calls, common.RevCall{ChainLen: len(certChain), Chain: certChain,
		HasSigningTime: !signingTime.IsZero(), SigningTime: signingTime, Interface: "client"})
	c.r.mu.Unlock()
	return c.r.Results(nil, certChain, signingTime)
}

// extraAnswer is what the method the caller did NOT register the object for would answer
func extraAnswer(kind string, chain []*x509.Certificate) ([]*revresult.CertRevocationResult, error) {
	switch kind {
	case "allOK":
		return common.UniformResults(revresult.ResultOK)(chain)
	case "allRevoked":
		return common.UniformResults(revresult.ResultRevoked)(chain)
	case "error":
		return nil, errors.New("the embedded validator failed")
	}
	panic("c05: unknown extra method " + kind)
}

// dualClient is supplied as the deprecated RevocationClient; its dynamic type also has ValidateContext (what a
// struct embedding a stock revocation.Validator and overriding Validate looks like)
type dualClient struct {
	clientView
	extra string
}

func (d dualClient) ValidateContext(_ context.Context, opts revocation.ValidateContextOptions) ([]*revresult.CertRevocationResult, error) {
	d.r.mu.Lock()
	d.r.Calls = append(d.r.Calls, common.RevCall{ChainLen: len(opts.CertChain), Chain: opts.CertChain,
		HasSigningTime: !opts.AuthenticSigningTime.IsZero(), SigningTime: opts.AuthenticSigningTime, Interface: "validator"})
	d.r.mu.Unlock()
	return extraAnswer(d.extra, opts.CertChain)
}

// dualValidator is supplied as the context-aware validator; its dynamic type also has the deprecated Validate
type dualValidator struct {
	*scripted
	extra string
}

func (d dualValidator) Validate(certChain []*x509.Certificate, signingTime time.Time) ([]*revresult.CertRevocationResult, error) {
	d.mu.Lock()
	d.Calls = append(d.Calls, common.RevCall{ChainLen: len(certChain), Chain: certChain,
		HasSigningTime: !signingTime.IsZero(), SigningTime: signingTime, Interface: "client"})
	d.mu.Unlock()
	return extraAnswer(d.extra, certChain)
}

// tsDecoy is a timestamping validator that waves everything through; being asked about the signing chain is logged
// under an interface name of its own
type tsDecoy struct{ r *scripted }

func (d tsDecoy) ValidateContext(_ context.Context, opts revocation.ValidateContextOptions) ([]*revresult.CertRevocationResult, error) {
	d.r.mu.Lock()
	d.r.Calls = append(d.r.Calls, common.RevCall{ChainLen: len(opts.CertChain), Chain: opts.CertChain, Interface: "timestamping"})
	d.r.mu.Unlock()
	return common.UniformResults(revresult.ResultOK)(opts.CertChain)
}

/* ---- the kinds of validator-level errors ---- */

// what net/http reports when Client.Timeout fires: matches context.DeadlineExceeded through an Is
// method (no wrapping), and is a net.Error with Timeout() == true
type clientTimeoutErr struct{}

func (clientTimeoutErr) Error() string   { return "Client.Timeout exceeded while awaiting headers" }
func (clientTimeoutErr) Is(t error) bool { return t == context.DeadlineExceeded }
func (clientTimeoutErr) Timeout() bool   { return true }
func (clientTimeoutErr) Temporary() bool { return true }

type emptyMessageErr struct{}

func (emptyMessageErr) Error() string { return "" }

type pointerErr struct{ msg string }

func (e *pointerErr) Error() string {
	if e == nil {
		return "<nil>"
	}
	return e.msg
}

// ErrorKinds lists every kind validatorErr knows.
var ErrorKinds = []string{"plain", "emptyMessage", "typedNilPointer",
	"ctxCanceled", "ctxDeadline", "wrapCanceled", "wrapDeadline", "joinCanceled", "joinDeadline",
	"ownTimeout", "ownCancel", "ownCancelCause", "handedCtxErr",
	"clientTimeout", "urlErrorDeadline", "osDeadline", "netOpTimeout", "dnsTimeout", "eof",
	"ocspTimeout", "ocspNoServer", "ocspGeneric", "ocspRevoked", "ocspUnknownStatus", "invalidChain"}

// validatorErr builds the (always non-nil) validator-level error of a kind. ctx is the context the
// validator was handed (nil through the deprecated client).
func validatorErr(kind string, ctx context.Context) error {
	parent := ctx
	if parent == nil {
		parent = context.Background()
	}
	switch kind {
	case "", "plain":
		return errors.New("validator failure")
	case "emptyMessage":
		return emptyMessageErr{}
	case "typedNilPointer":
		var e *pointerErr
		return e // a non-nil error value holding a nil pointer
	case "ctxCanceled":
		return context.Canceled
	case "ctxDeadline":
		return context.DeadlineExceeded
	case "wrapCanceled":
		return fmt.Errorf("request to revocation service abandoned: %w", context.Canceled)
	case "wrapDeadline":
		return fmt.Errorf("request to revocation service: %w", context.DeadlineExceeded)
	case "joinCanceled":
		return errors.Join(errors.New("responder 1: 503"), context.Canceled)
	case "joinDeadline":
		return errors.Join(context.DeadlineExceeded, errors.New("responder 2: connection refused"))
	case "ownTimeout":
		// the validator bounds its own work; its deadline fires, not the caller's
		c2, cancel := context.WithTimeout(parent, time.Nanosecond)
		defer cancel()
		<-c2.Done()
		return fmt.Errorf("revocation service did not answer: %w", c2.Err())
	case "ownCancel":
		// the validator cancels its internal fan-out after the first failure
		c2, cancel := context.WithCancel(parent)
		cancel()
		<-c2.Done()
		return fmt.Errorf("fan-out stopped: %w", c2.Err())
	case "ownCancelCause":
		c2, cancel := context.WithCancelCause(parent)
		cancel(errors.New("first responder failed"))
		<-c2.Done()
		return errors.Join(c2.Err(), context.Cause(c2))
	case "handedCtxErr":
		// the error of the context the validator was handed, when that one is done
		if e := parent.Err(); e != nil {
			return e
		}
		return fmt.Errorf("derived context: %w", context.Canceled)
	case "clientTimeout":
		return &url.Error{Op: "Post", URL: "http://ocsp.example/", Err: clientTimeoutErr{}}
	case "urlErrorDeadline":
		return &url.Error{Op: "Get", URL: "http://crl.example/ca.crl", Err: context.DeadlineExceeded}
	case "osDeadline":
		return fmt.Errorf("read tcp: %w", os.ErrDeadlineExceeded)
	case "netOpTimeout":
		return &net.OpError{Op: "dial", Net: "tcp", Err: clientTimeoutErr{}}
	case "dnsTimeout":
		return &net.DNSError{Err: "i/o timeout", Name: "ocsp.example", IsTimeout: true, IsTemporary: true}
	case "eof":
		return fmt.Errorf("reading OCSP response: %w", io.ErrUnexpectedEOF)
	case "ocspTimeout":
		return revocsp.TimeoutError{}
	case "ocspNoServer":
		return revocsp.NoServerError{}
	case "ocspGeneric":
		return revocsp.GenericError{Err: errors.New("malformed OCSP response")}
	case "ocspRevoked":
		return revocsp.RevokedError{}
	case "ocspUnknownStatus":
		return revocsp.UnknownStatusError{}
	case "invalidChain":
		return revresult.InvalidChainError{Err: errors.New("chain out of order")}
	}
	panic("c05: unknown error kind " + kind)
}

/* ---- per-server results ---- */

// ServerErrKinds lists the kinds of typed errors a per-server result may carry.
var ServerErrKinds = []string{"none", "plain", "ocspTimeout", "ocspTimeoutWrapped", "ocspGeneric", "ocspUnknownStatus", "ocspRevoked",
	"ocspNoServer", "invalidChain", "crlCacheMiss", "crlDownloadTimeout", "ctxDeadline"}

func serverErr(kind string) error {
	switch kind {
	case "none":
		return nil
	case "plain":
		return errors.New("server error")
	case "ocspTimeout":
		return revocsp.TimeoutError{}
	case "ocspTimeoutWrapped":
		return fmt.Errorf("responder: %w", revocsp.TimeoutError{})
	case "ocspGeneric":
		return revocsp.GenericError{Err: errors.New("failed to retrieve OCSP: response had status code 503")}
	case "ocspUnknownStatus":
		return revocsp.UnknownStatusError{}
	case "ocspRevoked":
		return revocsp.RevokedError{}
	case "ocspNoServer":
		return revocsp.NoServerError{}
	case "invalidChain":
		return revresult.InvalidChainError{Err: errors.New("chain out of order")}
	case "crlCacheMiss":
		return fmt.Errorf("failed to get CRL: %w", revcrl.ErrCacheMiss)
	case "crlDownloadTimeout":
		return fmt.Errorf("failed to download CRL from %s: %w", "http://crl.example/ca.crl", &url.Error{Op: "Get", URL: "http://crl.example/ca.crl", Err: clientTimeoutErr{}})
	case "ctxDeadline":
		return context.DeadlineExceeded
	}
	panic("c05: unknown server error kind " + kind)
}

// serverErrKindOf names the error of a server result the stock validator produced
func serverErrKindOf(err error) string {
	var to revocsp.TimeoutError
	var ge revocsp.GenericError
	var us revocsp.UnknownStatusError
	var re revocsp.RevokedError
	var ns revocsp.NoServerError
	switch {
	case err == nil:
		return "none"
	case errors.As(err, &to):
		return "ocspTimeout"
	case errors.As(err, &ge):
		return "ocspGeneric"
	case errors.As(err, &us):
		return "ocspUnknownStatus"
	case errors.As(err, &re):
		return "ocspRevoked"
	case errors.As(err, &ns):
		return "ocspNoServer"
	}
	return "plain"
}

// Behaviours lists how the OCSP responder of one certificate can behave behind the stock validator.
var Behaviours = []string{"good", "revoked", "unknown", "timeout", "refused", "http503", "garbage", "tryLater"}

// ocspTransport answers the stock validator's OCSP requests: host ocsp-<k>.c05.example is the responder of certificate k
type ocspTransport struct {
	w     *world
	chain *common.Chain
}

func (t *ocspTransport) RoundTrip(req *http.Request) (*http.Response, error) {
	var k int
	if _, err := fmt.Sscanf(req.URL.Host, "ocsp-%d.c05.example", &k); err != nil || k < 0 || k+1 >= len(t.chain.Certs) || k >= len(t.w.behave) {
		return nil, fmt.Errorf("c05: unexpected request to %s", req.URL)
	}
	if req.Body != nil {
		io.Copy(io.Discard, req.Body)
		req.Body.Close()
	}
	reply := func(code int, body []byte) (*http.Response, error) {
		return &http.Response{StatusCode: code, Status: http.StatusText(code), Proto: "HTTP/1.1", ProtoMajor: 1, ProtoMinor: 1,
			Header: http.Header{"Content-Type": []string{"application/ocsp-response"}}, Body: io.NopCloser(strings.NewReader(string(body))),
			ContentLength: int64(len(body)), Request: req}, nil
	}
	status := xocsp.Good
	switch t.w.behave[k] {
	case "timeout":
		return nil, clientTimeoutErr{} // the responder does not answer within the client's timeout
	case "refused":
		return nil, errors.New("dial tcp: connection refused")
	case "http503":
		return reply(503, nil)
	case "garbage":
		return reply(200, []byte("not an OCSP response"))
	case "tryLater":
		return reply(200, xocsp.TryLaterErrorResponse)
	case "revoked":
		status = xocsp.Revoked
	case "unknown":
		status = xocsp.Unknown
	}
	cert, issuer := t.chain.Certs[k], t.chain.Certs[k+1]
	tmpl := xocsp.Response{Status: status, SerialNumber: cert.Cert.SerialNumber, ThisUpdate: time.Now().Add(-time.Hour), NextUpdate: time.Now().Add(time.Hour)}
	if status == xocsp.Revoked {
		tmpl.RevokedAt, tmpl.RevocationReason = time.Now().Add(-24*time.Hour), xocsp.KeyCompromise
	}
	der, err := xocsp.CreateResponse(issuer.Cert, issuer.Cert, tmpl, issuer.Key)
	if err != nil {
		panic(fmt.Sprintf("c05: OCSP response: %v", err))
	}
	return reply(200, der)
}

var resName = map[revresult.Result]string{revresult.ResultOK: "ok", revresult.ResultNonRevokable: "nonRevokable",
	revresult.ResultUnknown: "unknown", revresult.ResultRevoked: "revoked"}
var methodName = map[revresult.RevocationMethod]string{revresult.RevocationMethodOCSP: "ocsp", revresult.RevocationMethodCRL: "crl",
	revresult.RevocationMethodOCSPFallbackCRL: "fallback", revresult.RevocationMethodUnknown: "unknown"}

/* ---- the trust policy statement ---- */

// EffectiveAction is the generator's own reading of a statement (used to spread the cases, never to judge).
func EffectiveAction(level string, revOverride *string) string {
	if level == "skip" {
		return "skip"
	}
	if revOverride != nil {
		return *revOverride
	}
	if level == "strict" {
		return "enforce"
	}
	return "log"
}

// overridesOf puts the statement's overrides together
func overridesOf(in Input) map[trustpolicy.ValidationType]trustpolicy.ValidationAction {
	ov := map[trustpolicy.ValidationType]trustpolicy.ValidationAction{}
	if in.RevOverride != nil {
		ov[trustpolicy.TypeRevocation] = trustpolicy.ValidationAction(*in.RevOverride)
	}
	for _, o := range in.OtherOverrides {
		t, a, ok := strings.Cut(o, "=")
		if !ok || t == "revocation" {
			panic("c05: bad override " + o)
		}
		ov[trustpolicy.ValidationType(t)] = trustpolicy.ValidationAction(a)
	}
	if len(ov) == 0 {
		return nil
	}
	return ov
}

// statement is one trust policy statement of a verifier's documents
type statement struct {
	doc   string // "oci" | "blob"
	name  string
	wild  bool   // oci: registry scope "*"; blob: the global statement
	scope string // oci, when not wild: the one repository it applies to
	level string
	ov    map[trustpolicy.ValidationType]trustpolicy.ValidationAction
	self  bool
}

const selfName, selfRepo = "c05", "reg.example/c05"

func entryDoc(entry string) string {
	if entry == "blob" || entry == "blobGlobal" {
		return "blob"
	}
	return "oci"
}

// statementsOf lists the applicable statement (first) and the companions of a case
func statementsOf(in Input) []statement {
	self := statement{doc: entryDoc(in.Entry), name: selfName, scope: selfRepo, level: in.Level, ov: overridesOf(in), self: true}
	self.wild = in.Entry == "blobGlobal"
	if self.doc == "oci" {
		// alone in its document the statement has the scope "*" (as in every earlier round); next to others, its own repository
		self.wild = true
		for _, c := range in.Companions {
			if strings.HasPrefix(c, "oci/") {
				self.wild = false
			}
		}
	}
	out := []statement{self}
	for k, c := range in.Companions {
		f := strings.Split(c, "/")
		if len(f) != 4 || (f[0] != "oci" && f[0] != "blob") {
			panic("c05: bad companion " + c)
		}
		st := statement{doc: f[0], name: fmt.Sprintf("%s-k%d", selfName, k), scope: fmt.Sprintf("%s-k%d", selfRepo, k), level: f[2]}
		rel := strings.TrimSuffix(f[1], "Wild")
		st.wild = rel != f[1]
		switch rel {
		case "same":
			if st.doc == self.doc {
				panic("c05: statement names are unique within a document: " + c)
			}
			st.name = selfName
		case "other":
		default:
			panic("c05: bad companion " + c)
		}
		if f[3] != "-" {
			st.ov = map[trustpolicy.ValidationType]trustpolicy.ValidationAction{trustpolicy.TypeRevocation: trustpolicy.ValidationAction(f[3])}
		}
		out = append(out, st)
	}
	return out
}

// signatureVerificationText writes the signatureVerification object the way a user does
func signatureVerificationText(st statement) string {
	sv := fmt.Sprintf(`{"level":%q`, st.level)
	if st.ov != nil {
		var keys []string
		for k := range st.ov {
			keys = append(keys, string(k))
		}
		sort.Strings(keys)
		var parts []string
		for _, k := range keys {
			parts = append(parts, fmt.Sprintf("%q:%q", k, string(st.ov[trustpolicy.ValidationType(k)])))
		}
		sv += `,"override":{` + strings.Join(parts, ",") + `}`
	}
	return sv + "}"
}

// policyDocs builds the trust policy documents of a case (nil when a document has no statement): in code, or
// from the JSON text of the statements
func policyDocs(in Input, storeType string) (*trustpolicy.OCIDocument, *trustpolicy.BlobDocument) {
	var oci *trustpolicy.OCIDocument
	var blob *trustpolicy.BlobDocument
	var ociText, blobText []string
	for _, st := range statementsOf(in) {
		sv := trustpolicy.SignatureVerification{VerificationLevel: st.level, Override: st.ov}
		var stores, ids []string
		trust := ""
		if st.level != "skip" {
			// (a statement that skips verification must not name trust stores or identities)
			stores, ids = []string{storeType + ":c05"}, []string{"*"}
			trust = fmt.Sprintf(`,"trustStores":[%q],"trustedIdentities":["*"]`, storeType+":c05")
		}
		if st.doc == "oci" {
			scope := st.scope
			if st.wild {
				scope = "*"
			}
			if oci == nil {
				oci = &trustpolicy.OCIDocument{Version: "1.0"}
			}
			oci.TrustPolicies = append(oci.TrustPolicies, trustpolicy.OCITrustPolicy{Name: st.name, RegistryScopes: []string{scope},
				SignatureVerification: sv, TrustStores: stores, TrustedIdentities: ids})
			ociText = append(ociText, fmt.Sprintf(`{"name":%q,"registryScopes":[%q],"signatureVerification":%s%s}`, st.name, scope, signatureVerificationText(st), trust))
		} else {
			if blob == nil {
				blob = &trustpolicy.BlobDocument{Version: "1.0"}
			}
			blob.TrustPolicies = append(blob.TrustPolicies, trustpolicy.BlobTrustPolicy{Name: st.name, SignatureVerification: sv,
				TrustStores: stores, TrustedIdentities: ids, GlobalPolicy: st.wild})
			global := ""
			if st.wild {
				global = `,"globalPolicy":true`
			}
			blobText = append(blobText, fmt.Sprintf(`{"name":%q,"signatureVerification":%s%s%s}`, st.name, signatureVerificationText(st), trust, global))
		}
	}
	if in.PolicyForm != "json" {
		return oci, blob
	}
	if oci != nil {
		text := `{"version":"1.0","trustPolicies":[` + strings.Join(ociText, ",") + `]}`
		oci = &trustpolicy.OCIDocument{}
		if err := json.Unmarshal([]byte(text), oci); err != nil {
			panic(fmt.Sprintf("c05: policy text %s: %v", text, err))
		}
	}
	if blob != nil {
		text := `{"version":"1.0","trustPolicies":[` + strings.Join(blobText, ",") + `]}`
		blob = &trustpolicy.BlobDocument{}
		if err := json.Unmarshal([]byte(text), blob); err != nil {
			panic(fmt.Sprintf("c05: policy text %s: %v", text, err))
		}
	}
	return oci, blob
}

// the blob every blob signature of this package signs
var blobContent = []byte("c05 blob content")

var digestOf = map[crypto.Hash]digest.Algorithm{crypto.SHA256: digest.SHA256, crypto.SHA384: digest.SHA384, crypto.SHA512: digest.SHA512}

func blobDescriptor(alg digest.Algorithm) (ocispec.Descriptor, error) {
	return ocispec.Descriptor{MediaType: "application/octet-stream", Digest: alg.FromBytes(blobContent), Size: int64(len(blobContent))}, nil
}

// callUnder makes one call on the verifier under a statement: Verify of an artifact the OCI statement applies to,
// VerifyBlob under the blob statement (by name, or as the global one)
func callUnder(ctx context.Context, v notation.Verifier, st statement, ociEnv, blobEnv func() []byte, format string) (*notation.VerificationOutcome, error) {
	if st.doc == "oci" {
		return v.Verify(ctx, target, ociEnv(), notation.VerifierVerifyOptions{ArtifactReference: artifactOf(st), SignatureMediaType: format})
	}
	name := st.name
	if st.wild {
		name = ""
	}
	return v.(notation.BlobVerifier).VerifyBlob(ctx, blobDescriptor, blobEnv(), notation.BlobVerifierVerifyOptions{SignatureMediaType: format, TrustPolicyName: name})
}

// artifactOf is a reference the OCI statement applies to
func artifactOf(st statement) string {
	repo := st.scope
	if st.wild && !st.self {
		repo = selfRepo + "-any" // no statement names this repository: the wildcard statement applies
	}
	return repo + "@" + target.Digest.String()
}

type verifySkipper interface {
	SkipVerify(ctx context.Context, opts notation.VerifierVerifyOptions) (bool, *trustpolicy.VerificationLevel, error)
}

// callerContext is the context handed to Verify
func callerContext(kind string) (context.Context, context.CancelFunc) {
	switch kind {
	case "", "background":
		return context.Background(), func() {}
	case "live":
		return context.WithTimeout(context.Background(), time.Hour)
	case "cancelled":
		ctx, cancel := context.WithCancel(context.Background())
		cancel()
		return ctx, cancel
	case "expired":
		ctx, cancel := context.WithDeadline(context.Background(), time.Now().Add(-time.Second))
		<-ctx.Done()
		return ctx, cancel
	}
	panic("c05: unknown caller context " + kind)
}

func newWorld() *world {
	w := &world{chains: map[int]*common.Chain{}, vchains: map[string]*common.Chain{}, envs: map[string][]byte{}, verifiers: map[string]*liveVerifier{}}
	nb := time.Now().Add(-48 * time.Hour)
	for n := 1; n <= 4; n++ {
		o := common.ChainOpts{Tag: fmt.Sprintf("c05-%d", n), RootNB: nb, InterNB: nb, LeafNB: nb}
		if n == 1 {
			o.SelfSignedLeaf = true
		} else {
			o.Intermediates = n - 2
		}
		w.chains[n] = common.MakeChain(o)
		if len(w.chains[n].Certs) != n {
			panic("c05: chain length")
		}
	}
	return w
}

const identityPluginName = "identity-only-plugin"

// chain returns the chain of a case: the standing one, or a variant minted on first use
func (w *world) chain(n int, variant string) *common.Chain {
	switch variant {
	case "expiredChain", "emptySubjectLeaf", "ocspChain":
	default:
		return w.chains[n]
	}
	k := fmt.Sprint(variant, n)
	if c, ok := w.vchains[k]; ok {
		return c
	}
	if variant == "ocspChain" {
		// every certificate below the root names an OCSP responder of its own (and no CRL)
		nb := time.Now().Add(-48 * time.Hour)
		tag := fmt.Sprintf("c05-ocsp-%d", n)
		root := common.MakeCert(common.CertOpts{Subject: common.Name("root " + tag), CA: true, PathLen: n - 2, NotBefore: nb})
		certs := []*common.Cert{root}
		issuer := root
		for j := 0; j < n-2; j++ {
			inter := common.MakeCert(common.CertOpts{Subject: common.Name(fmt.Sprintf("intermediate%d %s", j+1, tag)), CA: true, PathLen: n - 3 - j,
				Parent: issuer, NotBefore: nb, OCSPURLs: []string{fmt.Sprintf("http://ocsp-%d.c05.example", n-2-j)}})
			certs = append([]*common.Cert{inter}, certs...)
			issuer = inter
		}
		leaf := common.MakeCert(common.CertOpts{Subject: common.Name("leaf " + tag), Parent: issuer, NotBefore: nb,
			EKU: []x509.ExtKeyUsage{x509.ExtKeyUsageCodeSigning}, OCSPURLs: []string{"http://ocsp-0.c05.example"}})
		c := &common.Chain{Certs: append([]*common.Cert{leaf}, certs...)}
		if len(c.Certs) != n || n < 2 {
			panic("c05: ocsp chain length")
		}
		w.vchains[k] = c
		return c
	}
	o := common.ChainOpts{Tag: fmt.Sprintf("c05-%s-%d", variant, n)}
	if n == 1 {
		o.SelfSignedLeaf = true
	} else {
		o.Intermediates = n - 2
	}
	switch variant {
	case "expiredChain":
		nb, na := time.Now().Add(-96*time.Hour), time.Now().Add(-24*time.Hour)
		o.RootNB, o.InterNB, o.LeafNB, o.RootNA, o.InterNA, o.LeafNA = nb, nb, nb, na, na, na
	case "emptySubjectLeaf":
		nb := time.Now().Add(-48 * time.Hour)
		o.RootNB, o.InterNB, o.LeafNB = nb, nb, nb
		o.LeafRawSubject = []byte{0x30, 0x00} // an empty RDNSequence
	}
	c := common.MakeChain(o)
	if len(c.Certs) != n {
		panic("c05: variant chain length")
	}
	w.vchains[k] = c
	return c
}

func (w *world) env(n int, scheme, format string, plugin bool, variant string, blob bool) []byte {
	k := fmt.Sprint(n, scheme, format, plugin, variant, blob)
	if b, ok := w.envs[k]; ok {
		return b
	}
	var attrs []signature.Attribute
	if plugin {
		attrs = []signature.Attribute{{Key: verifier.HeaderVerificationPlugin, Critical: true, Value: identityPluginName}}
	}
	o := common.EnvOpts{Format: format, Chain: w.chain(n, variant), Target: &target, Scheme: scheme, ExtAttrs: attrs,
		SigningTime: time.Now().Add(-time.Hour).Truncate(time.Second)}
	if blob {
		// a blob signature: the payload names the blob's descriptor under the digest algorithm of the signing key
		ks, err := signature.ExtractKeySpec(o.Chain.Leaf().Cert)
		if err != nil {
			panic(err)
		}
		d, _ := blobDescriptor(digestOf[ks.SignatureAlgorithm().Hash()])
		o.Target = &d
	}
	switch variant {
	case "expiredSigLogged":
		o.SigningTime = time.Now().Add(-3 * time.Hour).Truncate(time.Second)
		o.Expiry = time.Now().Add(-2 * time.Hour).Truncate(time.Second)
	case "expiredChain":
		o.SigningTime = time.Now().Add(-48 * time.Hour).Truncate(time.Second)
	}
	b := common.MustSign(o)
	w.envs[k] = b
	return b
}

var resMap = map[string]revresult.Result{"ok": revresult.ResultOK, "nonRevokable": revresult.ResultNonRevokable,
	"unknown": revresult.ResultUnknown, "revoked": revresult.ResultRevoked}
var methodMap = map[string]revresult.RevocationMethod{"ocsp": revresult.RevocationMethodOCSP, "crl": revresult.RevocationMethodCRL,
	"fallback": revresult.RevocationMethodOCSPFallbackCRL, "unknown": revresult.RevocationMethodUnknown}

func runCase(w *world, in Input, format string) Obs {
	n := in.ChainLen
	chain := w.chain(n, in.Variant)
	scheme := common.SchemeX509
	storeType := "ca"
	if in.Scheme == "signingAuthority" {
		scheme, storeType = common.SchemeAuthority, "signingAuthority"
	}
	ociEnv := func() []byte { return w.env(n, scheme, format, in.IdentityPlugin, in.Variant, false) }
	blobEnv := func() []byte { return w.env(n, scheme, format, in.IdentityPlugin, in.Variant, true) }
	stmts := statementsOf(in)
	results := func(vctx context.Context, c []*x509.Certificate, _ time.Time) ([]*revresult.CertRevocationResult, error) {
		if in.ValidatorError && !in.ErrorWithResults {
			return nil, validatorErr(in.ErrorKind, vctx)
		}
		out := make([]*revresult.CertRevocationResult, len(in.Vec))
		nilAt := map[int]bool{}
		for _, k := range in.NilEntries {
			if k < 0 || k >= len(in.Vec) || in.Vec[k] != "unknown" {
				panic(fmt.Sprintf("c05: nil entry %d of %v: the model must read it as unknown", k, in.Vec))
			}
			nilAt[k] = true
		}
		for k := 0; k < len(in.Vec); k++ {
			if nilAt[k] {
				continue // out[k] stays nil
			}
			m := methodMap[in.Methods[k]]
			cr := &revresult.CertRevocationResult{Result: resMap[in.Vec[k]], RevocationMethod: m}
			cr.ServerResults = []*revresult.ServerResult{}
			for j, d := range in.Servers[k] {
				if d == "nil" {
					cr.ServerResults = append(cr.ServerResults, nil)
					continue
				}
				res, kind, ok := strings.Cut(d, "/")
				if _, known := resMap[res]; !ok || !known {
					panic("c05: bad server result " + d)
				}
				sr := &revresult.ServerResult{Result: resMap[res], Server: fmt.Sprintf("http://example/%d/%d", k, j), RevocationMethod: m,
					Error: serverErr(kind)}
				if m == revresult.RevocationMethodOCSPFallbackCRL {
					sr.RevocationMethod = revresult.RevocationMethodCRL
					if strings.HasPrefix(kind, "ocsp") {
						sr.RevocationMethod = revresult.RevocationMethodOCSP
					}
				}
				cr.ServerResults = append(cr.ServerResults, sr)
			}
			if len(in.Servers[k]) == 0 && w.uses%2 == 0 {
				cr.ServerResults = nil
			}
			out[k] = cr
		}
		if in.ValidatorError {
			return out, validatorErr(in.ErrorKind, vctx)
		}
		return out, nil
	}
	if in.ValidatorImpl == "stock" {
		if in.Variant != "ocspChain" {
			panic("c05: the stock validator needs the chain that names OCSP responders")
		}
		// the notation-core-go validator (context-aware, or the deprecated client) behind the scripted transport
		client := &http.Client{Transport: &ocspTransport{w: w, chain: chain}, Timeout: 5 * time.Second}
		w.lastResults = nil
		results = func(vctx context.Context, c []*x509.Certificate, st time.Time) ([]*revresult.CertRevocationResult, error) {
			var out []*revresult.CertRevocationResult
			var err error
			if vctx != nil {
				var val revocation.Validator
				if val, err = revocation.NewWithOptions(revocation.Options{OCSPHTTPClient: client}); err == nil {
					out, err = val.ValidateContext(vctx, revocation.ValidateContextOptions{CertChain: c, AuthenticSigningTime: st})
				}
			} else {
				var old revocation.Revocation
				if old, err = revocation.New(client); err == nil {
					out, err = old.Validate(c, st)
				}
			}
			if err != nil {
				panic(fmt.Sprintf("c05: stock validator: %v", err))
			}
			w.lastResults = out
			return out, nil
		}
	}
	rovKey := "-"
	if in.RevOverride != nil {
		rovKey = *in.RevOverride
	}
	key := fmt.Sprint(in.ValidatorImpl, n, in.Scheme, in.Iface, in.Level, rovKey, in.OtherOverrides, in.PolicyForm, in.IdentityPlugin, in.DeprecatedCtor, in.Variant, in.BothSupplied,
		in.Entry, in.Companions, in.ExtraMethod, in.TimestampingSupplied)
	w.uses++
	lv := w.verifiers[key]
	// a case that states its history gets a verifier of its own: the history is then exactly what the input says
	if lv == nil || w.uses%7 == 0 || len(in.History) > 0 {
		store := common.NewMemStore()
		store.Certs[storeType+":c05"] = []*x509.Certificate{chain.Root().Cert}
		rev := &scripted{}
		doc, blobDoc := policyDocs(in, storeType)
		opts := verifier.VerifierOptions{OCITrustPolicy: doc, BlobTrustPolicy: blobDoc}
		var mgr *common.ScriptedManager
		if in.IdentityPlugin {
			// a plugin that owns the trusted-identity check only and approves the identity
			mgr = &common.ScriptedManager{Plugins: map[string]pluginfw.Plugin{identityPluginName: &common.ScriptedPlugin{
				Metadata: &pluginfw.GetMetadataResponse{Name: identityPluginName, Description: "d", Version: "1.0.0", URL: "u",
					SupportedContractVersions: []string{"1.0"}, Capabilities: []pluginfw.Capability{pluginfw.CapabilityTrustedIdentityVerifier}},
				VerifyResp: &pluginfw.VerifySignatureResponse{VerificationResults: map[pluginfw.Capability]*pluginfw.VerificationResult{
					pluginfw.CapabilityTrustedIdentityVerifier: {Success: true}}},
			}}}
			opts.PluginManager = mgr
		}
		if in.TimestampingSupplied {
			opts.RevocationTimestampingValidator = tsDecoy{rev}
		}
		if in.Iface == "validator" {
			opts.RevocationCodeSigningValidator = rev
			if in.ExtraMethod != "" {
				opts.RevocationCodeSigningValidator = dualValidator{rev, in.ExtraMethod}
			}
			if in.BothSupplied {
				// a deprecated client that would wave everything through: it must never be the one asked
				decoy := &common.ScriptedRevocation{Results: common.UniformResults(revresult.ResultOK)}
				opts.RevocationClient = decoy.ClientView()
			}
		} else {
			opts.RevocationClient = clientView{rev}
			if in.ExtraMethod != "" {
				opts.RevocationClient = dualClient{clientView{rev}, in.ExtraMethod}
			}
		}
		var v notation.Verifier
		var err error
		if in.DeprecatedCtor {
			// the deprecated constructor takes policy and plugin manager as arguments
			var pm plugin.Manager
			if mgr != nil {
				pm = mgr
			}
			o2 := opts
			o2.OCITrustPolicy, o2.PluginManager = nil, nil
			v, err = verifier.NewWithOptions(doc, store, pm, o2)
		} else {
			v, err = verifier.NewVerifierWithOptions(store, opts)
		}
		if err != nil {
			// a constructor that refuses a configuration the case is entitled to: an observation (the model
			// never predicts it), not the end of the run
			w.refusedObserved++
			return Obs{Outcome: "noVerifier"}
		}
		lv = &liveVerifier{v: v, store: store, rev: rev}
		w.verifiers[key] = lv
		allOK := func(_ context.Context, c []*x509.Certificate, _ time.Time) ([]*revresult.CertRevocationResult, error) {
			return common.UniformResults(revresult.ResultOK)(c)
		}
		if w.uses%2 == 0 && len(in.History) == 0 {
			// undeclared history: the new verifier has already seen this very chain with a clean bill of health
			rev.Results = allOK
			callUnder(context.Background(), v, stmts[0], ociEnv, blobEnv, format)
		}
		// the declared history: calls under the companions / the applicable statement, the validator answering all OK
		for _, h := range in.History {
			rev.Results = allOK
			what, skip := strings.CutPrefix(h, "skip:")
			st := stmts[0]
			if what != "self" {
				var k int
				if _, err := fmt.Sscanf(what, "c%d", &k); err != nil || k < 0 || k+1 >= len(stmts) {
					panic("c05: bad history item " + h)
				}
				st = stmts[k+1]
			}
			if skip {
				if st.doc != "oci" {
					panic("c05: SkipVerify is about OCI statements: " + h)
				}
				v.(verifySkipper).SkipVerify(context.Background(), notation.VerifierVerifyOptions{ArtifactReference: artifactOf(st), SignatureMediaType: format})
				continue
			}
			// whatever the code under test does with a history call - refusing it included - is its
			// business; it is counted, the observed call follows (seeded C05-4 made the harness die here)
			if out, _ := callUnder(context.Background(), v, st, ociEnv, blobEnv, format); out == nil {
				w.refusedHistory++
			}
		}
	}
	rev := lv.rev
	rev.Results = results
	rev.Calls = nil
	v := lv.v
	ctx, cancel := callerContext(in.CallerCtx)
	outcome, verr := callUnder(ctx, v, stmts[0], ociEnv, blobEnv, format)
	cancel()
	o := Obs{Outcome: "notPerformed", Accepted: verr == nil, Calls: len(rev.Calls)}
	if len(rev.Calls) > 0 {
		c := rev.Calls[0]
		// the complete chain, in order
		cl := c.ChainLen
		for k, cert := range c.Chain {
			if k >= n || !cert.Equal(chain.Certs[k].Cert) {
				cl = -1
			}
		}
		o.ChainLen = &cl
		st := c.HasSigningTime
		o.SigningTime = &st
		if iface := c.Interface; iface == "validator" || iface == "client" {
			o.UsedIface = &iface
		}
	}
	if outcome == nil {
		// the verifier refused the call before any outcome existed (no policy document for this entry point, ..):
		// an observation like any other - the model never predicts it, so it shows as a difference
		w.refusedObserved++
		o.Outcome = "noOutcome"
		return o
	}
	for _, r := range outcome.VerificationResults {
		if r.Type != trustpolicy.TypeRevocation {
			expected := (in.Variant == "expiredSigLogged" && r.Type == trustpolicy.TypeExpiry) ||
				(in.Variant == "expiredChain" && in.Scheme != "signingAuthority" && r.Type == trustpolicy.TypeAuthenticTimestamp)
			if r.Error != nil && !expected {
				if len(in.History) > 0 {
					// after a declared history this is the implementation's doing, not the generator's (a statement
					// judged under another statement's level): observed as it is
					w.strayFailures++
					continue
				}
				panic(fmt.Sprintf("c05: unexpected %s failure: %v", r.Type, r.Error))
			}
			if expected && r.Error == nil {
				panic(fmt.Sprintf("c05: the %s failure the variant %s is built for did not happen", r.Type, in.Variant))
			}
			continue
		}
		ra := string(r.Action)
		o.ResultAction = &ra
		if r.Error == nil {
			o.Outcome = "pass"
			continue
		}
		msg := r.Error.Error()
		const about = "signing certificate with subject "
		switch {
		case strings.HasPrefix(msg, about) && strings.HasSuffix(msg, " is revoked"):
			o.Outcome = "revoked"
		case strings.HasPrefix(msg, about) && strings.HasSuffix(msg, " revocation status is unknown"):
			o.Outcome = "unknown"
		default:
			o.Outcome = "inconclusive"
		}
		// which certificate does the error name?
		for k, c := range chain.Certs {
			if strings.Contains(msg, fmt.Sprintf("%q", c.Cert.Subject.String())) {
				kk := k
				o.Named = &kk
			}
		}
	}
	return o
}

func vectors(n int) [][]string {
	if n == 0 {
		return [][]string{{}}
	}
	var out [][]string
	for _, v := range vectors(n - 1) {
		for _, r := range []string{"ok", "nonRevokable", "unknown", "revoked"} {
			out = append(out, append(append([]string{}, v...), r))
		}
	}
	return out
}

func sp(s string) *string { return &s }

type stmt struct {
	level string
	rev   *string
}

// every statement about revocation a user can write: 3 customisable levels x {no override, enforce, log, skip} + the level skip
func statements() []stmt {
	var out []stmt
	for _, l := range []string{"strict", "permissive", "audit"} {
		out = append(out, stmt{l, nil})
		for _, a := range []string{"enforce", "log", "skip"} {
			out = append(out, stmt{l, sp(a)})
		}
	}
	return append(out, stmt{"skip", nil})
}

// overrides of other types that may stand next to the one for revocation (integrity cannot be overridden,
// and only revocation can be skipped); `taken` types are left alone
func otherOverrides(c *common.Ctx, level string, taken map[string]bool) []string {
	out := []string{}
	if level == "skip" || c.Rand.Intn(2) == 0 {
		return out
	}
	for _, t := range []string{"authenticity", "authenticTimestamp", "expiry"} {
		if taken[t] || c.Rand.Intn(2) == 0 {
			continue
		}
		out = append(out, t+"="+[]string{"enforce", "log"}[c.Rand.Intn(2)])
	}
	return out
}

var callerCtxs = []string{"background", "live", "cancelled", "expired"}

func pickCtx(c *common.Ctx) string {
	if c.Rand.Intn(2) == 0 {
		return "background"
	}
	return callerCtxs[c.Rand.Intn(len(callerCtxs))]
}

func pickForm(c *common.Ctx) string {
	if c.Rand.Intn(3) == 0 {
		return "json"
	}
	return "code"
}

// consistent is what a server that worked reports next to the certificate's result
func consistent(res string) string {
	switch res {
	case "revoked":
		return "revoked/ocspRevoked"
	case "unknown":
		return "unknown/ocspUnknownStatus"
	}
	return res + "/none"
}

// genServers draws per-server results for every certificate of a vector: none, one consistent with the
// certificate's result, several carrying the same typed error, or a mix (a server that succeeded among errored ones)
func genServers(c *common.Ctx, vec []string) [][]string {
	out := make([][]string, len(vec))
	results := []string{"ok", "nonRevokable", "unknown", "revoked"}
	for k, res := range vec {
		out[k] = []string{}
		switch c.Rand.Intn(6) {
		case 0: // no server results
		case 1, 2:
			out[k] = append(out[k], consistent(res))
		case 3: // every server fails the same way
			kind := ServerErrKinds[1+c.Rand.Intn(len(ServerErrKinds)-1)]
			for j := 1 + c.Rand.Intn(3); j > 0; j-- {
				out[k] = append(out[k], "unknown/"+kind)
			}
		default: // a mix
			for j := 1 + c.Rand.Intn(3); j > 0; j-- {
				out[k] = append(out[k], results[c.Rand.Intn(4)]+"/"+ServerErrKinds[c.Rand.Intn(len(ServerErrKinds))])
			}
		}
		if c.Rand.Intn(8) == 0 {
			// a nil pointer among the server results (in front, in between or alone)
			at := c.Rand.Intn(len(out[k]) + 1)
			out[k] = append(out[k][:at:at], append([]string{"nil"}, out[k][at:]...)...)
		}
	}
	return out
}

// nilify turns, in one case out of five, the "unknown" entries of a scripted vector into nil pointers (each with
// probability one half, at least one)
func nilify(c *common.Ctx, in *Input) {
	if in.ValidatorImpl != "scripted" || len(in.NilEntries) > 0 || c.Rand.Intn(5) != 0 {
		return
	}
	var unk []int
	for k, r := range in.Vec {
		if r == "unknown" {
			unk = append(unk, k)
		}
	}
	if len(unk) == 0 {
		return
	}
	forced := unk[c.Rand.Intn(len(unk))]
	for _, k := range unk {
		if k == forced || c.Rand.Intn(2) == 0 {
			in.NilEntries = append(in.NilEntries, k)
		}
	}
}

var entries = []string{"oci", "blob", "blobGlobal"}
var extraMethods = []string{"allOK", "allRevoked", "error"}

func ovText(st stmt) string {
	if st.rev == nil {
		return "-"
	}
	return *st.rev
}

func otherDoc(doc string) string {
	if doc == "oci" {
		return "blob"
	}
	return "oci"
}

// companion writes one companion statement; wild is dropped where the documents' rules forbid it (one wildcard scope,
// one global blob statement - which cannot have the level skip)
func companion(in *Input, doc, rel string, wild bool, st stmt) string {
	for _, c := range in.Companions {
		if strings.HasPrefix(c, doc+"/") && strings.HasSuffix(strings.Split(c, "/")[1], "Wild") {
			wild = false
		}
	}
	if doc == "blob" && (in.Entry == "blobGlobal" || st.level == "skip") {
		wild = false
	}
	if wild {
		rel += "Wild"
	}
	return strings.Join([]string{doc, rel, st.level, ovText(st)}, "/")
}

// withHistory gives a case (whose Entry is set) companions and a history at random: one or two other statements in
// either document, a namesake in the other document among them half of the time, and up to three earlier calls
func withHistory(c *common.Ctx, in *Input, all []stmt) {
	in.Companions = []string{}
	same := false
	for k, n := 0, 1+c.Rand.Intn(2); k < n; k++ {
		doc, rel := []string{"oci", "blob"}[c.Rand.Intn(2)], "other"
		if doc != entryDoc(in.Entry) && !same && c.Rand.Intn(2) == 0 {
			rel, same = "same", true
		}
		in.Companions = append(in.Companions, companion(in, doc, rel, c.Rand.Intn(3) == 0, all[c.Rand.Intn(len(all))]))
	}
	in.History = []string{}
	for k, n := 0, c.Rand.Intn(4); k < n; k++ {
		who, isOCI := "self", entryDoc(in.Entry) == "oci"
		if c.Rand.Intn(3) != 0 {
			j := c.Rand.Intn(len(in.Companions))
			who, isOCI = fmt.Sprintf("c%d", j), strings.HasPrefix(in.Companions[j], "oci/")
		}
		if isOCI && c.Rand.Intn(4) == 0 {
			who = "skip:" + who
		}
		in.History = append(in.History, who)
	}
}

// decorate spreads the later dimensions over the main enumeration: the dynamic type of the supplied object, a
// timestamping validator next to it, the blob entry points, companions and histories
func decorate(c *common.Ctx, in *Input, all []stmt) {
	if c.Rand.Intn(4) == 0 {
		in.ExtraMethod = extraMethods[c.Rand.Intn(len(extraMethods))]
	}
	in.TimestampingSupplied = c.Rand.Intn(8) == 0
	if c.Rand.Intn(4) == 0 {
		in.Entry = entries[c.Rand.Intn(len(entries))]
		if in.Entry == "blobGlobal" && in.Level == "skip" {
			in.Entry = "blob" // the global blob statement cannot skip verification
		}
	}
	if c.Rand.Intn(5) == 0 {
		in.fill()
		withHistory(c, in, all)
	}
}

// Run enumerates every vector for n = 1..4 x scheme x interface x statement about revocation (x validator
// error on a sample), with random method annotations, server errors, error kinds, caller contexts and
// overrides of other types.
func Run(c *common.Ctx) error {
	w := newWorld()
	methods := []string{"ocsp", "crl", "fallback", "unknown"}
	all := statements()
	byAction := map[string][]stmt{}
	for _, st := range all {
		a := EffectiveAction(st.level, st.rev)
		byAction[a] = append(byAction[a], st)
	}
	emit := func(in Input, format string) Obs {
		nilify(c, &in)
		in.fill()
		o := runCase(w, in, format)
		c.Emit(in, o)
		c.Count("outcome=" + o.Outcome)
		if len(in.NilEntries) > 0 {
			c.Count(fmt.Sprintf("nil-entries=%d", len(in.NilEntries)))
			c.Count("nil-entries/outcome=" + o.Outcome)
		}
		for _, sv := range in.Servers {
			for _, d := range sv {
				if d == "nil" {
					c.Count("nil-server-result")
				}
			}
		}
		c.Count("entry=" + in.Entry)
		if in.ExtraMethod != "" {
			c.Count("extraMethod=" + in.Iface + "/" + in.ExtraMethod)
		}
		if len(in.Companions) > 0 {
			c.Count(fmt.Sprintf("companions=%d", len(in.Companions)))
		}
		if len(in.History) > 0 {
			c.Count(fmt.Sprintf("history=%d", len(in.History)))
		}
		rov := "-"
		if in.RevOverride != nil {
			rov = *in.RevOverride
		}
		c.Count("statement=" + in.Level + "/" + rov)
		c.Count("action=" + EffectiveAction(in.Level, in.RevOverride))
		if in.ValidatorError && o.Calls > 0 {
			c.Count("errorKind=" + in.ErrorKind)
			c.Count("validatorError/ctx=" + in.CallerCtx)
		}
		if len(in.OtherOverrides) > 0 {
			c.Count("with-other-overrides")
		}
		return o
	}
	reps := 1
	if c.Thorough() {
		reps = 6
	}
	for rep := 0; rep < reps; rep++ {
		for n := 1; n <= 4; n++ {
			for _, vec := range vectors(n) {
				for _, scheme := range []string{"x509", "signingAuthority"} {
					for _, iface := range []string{"validator", "client"} {
						// chains up to three: every statement; chains of four: one statement (at random) per action it denotes
						sts := all
						if n == 4 {
							sts = nil
							for _, a := range []string{"enforce", "log", "skip"} {
								sts = append(sts, byAction[a][c.Rand.Intn(len(byAction[a]))])
							}
						}
						for _, st := range sts {
							for _, verr := range []bool{false, true} {
								if verr && c.Rand.Intn(4) != 0 {
									continue
								}
								in := Input{Vec: vec, ChainLen: n, Scheme: scheme, Iface: iface, Level: st.level, RevOverride: st.rev,
									OtherOverrides: otherOverrides(c, st.level, nil), PolicyForm: pickForm(c), ValidatorError: verr,
									CallerCtx:        pickCtx(c),
									ErrorWithResults: verr && c.Rand.Intn(2) == 0, DeprecatedCtor: c.Rand.Intn(3) == 0,
									IdentityPlugin: c.Rand.Intn(4) == 0}
								if verr {
									in.ErrorKind = ErrorKinds[c.Rand.Intn(len(ErrorKinds))]
								}
								in.BothSupplied = iface == "validator" && c.Rand.Intn(3) == 0
								for k := 0; k < n; k++ {
									in.Methods = append(in.Methods, methods[c.Rand.Intn(len(methods))])
								}
								in.Servers, in.ValidatorImpl = genServers(c, vec), "scripted"
								decorate(c, &in, all)
								format := common.MediaJWS
								if c.Rand.Intn(3) == 0 {
									format = common.MediaCOSE
								}
								emit(in, format)
								c.Count(fmt.Sprintf("n=%d", n))
							}
						}
					}
				}
			}
		}
	}
	// nil entries: every vector over chains up to three with an Unknown certificate x every non-empty set of its Unknown
	// positions answered with a NIL pointer x both interfaces x every action x where a nil server result sits in the
	// other entries (nowhere, alone, among real ones)
	for n := 1; n <= 3; n++ {
		for _, vec := range vectors(n) {
			var unk []int
			for k, r := range vec {
				if r == "unknown" {
					unk = append(unk, k)
				}
			}
			for mask := 1; mask < 1<<len(unk); mask++ {
				for _, iface := range []string{"validator", "client"} {
					for _, action := range []string{"enforce", "log", "skip"} {
						for nilServer := 0; nilServer < 3; nilServer++ {
							st := byAction[action][c.Rand.Intn(len(byAction[action]))]
							in := Input{Vec: vec, ChainLen: n, Scheme: []string{"x509", "signingAuthority"}[c.Rand.Intn(2)], Iface: iface,
								Level: st.level, RevOverride: st.rev, OtherOverrides: []string{}, PolicyForm: pickForm(c), CallerCtx: "background",
								DeprecatedCtor: c.Rand.Intn(3) == 0, Entry: entries[c.Rand.Intn(len(entries))], ValidatorImpl: "scripted"}
							if in.Entry == "blobGlobal" && st.level == "skip" {
								in.Entry = "blob"
							}
							for j, k := range unk {
								if mask&(1<<j) != 0 {
									in.NilEntries = append(in.NilEntries, k)
								}
							}
							for k := 0; k < n; k++ {
								in.Methods = append(in.Methods, methods[c.Rand.Intn(len(methods))])
								sv := []string{}
								switch nilServer {
								case 1:
									sv = []string{"nil"}
								case 2:
									sv = []string{"unknown/" + ServerErrKinds[1+c.Rand.Intn(len(ServerErrKinds)-1)], "nil", consistent(vec[k]), "nil"}
								}
								in.Servers = append(in.Servers, sv)
							}
							emit(in, []string{common.MediaJWS, common.MediaCOSE}[c.Rand.Intn(2)])
							c.Count("nil-entries-block")
						}
					}
				}
			}
		}
	}
	// the dynamic type of the supplied object: every vector over chains up to three x both interfaces x what the method
	// of the OTHER interface (which the caller did not register the object for) would answer x every action
	for n := 1; n <= 3; n++ {
		for _, vec := range vectors(n) {
			for _, iface := range []string{"validator", "client"} {
				for _, extra := range extraMethods {
					for _, action := range []string{"enforce", "log", "skip"} {
						st := byAction[action][c.Rand.Intn(len(byAction[action]))]
						in := Input{Vec: vec, ChainLen: n, Scheme: []string{"x509", "signingAuthority"}[c.Rand.Intn(2)], Iface: iface,
							Level: st.level, RevOverride: st.rev, OtherOverrides: []string{}, PolicyForm: pickForm(c), CallerCtx: pickCtx(c),
							ValidatorError: c.Rand.Intn(6) == 0, ExtraMethod: extra, DeprecatedCtor: c.Rand.Intn(3) == 0,
							TimestampingSupplied: c.Rand.Intn(3) == 0, Entry: entries[c.Rand.Intn(2)]}
						if in.ValidatorError {
							in.ErrorKind = ErrorKinds[c.Rand.Intn(len(ErrorKinds))]
						}
						in.BothSupplied = iface == "validator" && c.Rand.Intn(4) == 0
						for k := 0; k < n; k++ {
							in.Methods = append(in.Methods, methods[c.Rand.Intn(len(methods))])
						}
						in.Servers, in.ValidatorImpl = genServers(c, vec), "scripted"
						emit(in, []string{common.MediaJWS, common.MediaCOSE}[c.Rand.Intn(2)])
						c.Count("dynamic-type-block")
					}
				}
			}
		}
	}
	// one long-lived verifier, several statements, a history: every entry point x every statement about revocation as the
	// applicable one x a companion statement denoting each action x where the companion lives (the other document under
	// the SAME name, the other document, the same document under another scope) x which calls came first
	for rep := 0; rep < 2*reps; rep++ {
		for _, entry := range entries {
			for _, st := range all {
				if entry == "blobGlobal" && st.level == "skip" {
					continue
				}
				for _, compAction := range []string{"enforce", "log", "skip"} {
					for shape := 0; shape < 6; shape++ {
						n := 1 + c.Rand.Intn(3)
						vs := vectors(n)
						vec := vs[c.Rand.Intn(len(vs))]
						if c.Rand.Intn(4) != 0 {
							// mostly chains that must not pass
							vec = append([]string{}, vec...)
							vec[c.Rand.Intn(n)] = []string{"revoked", "unknown"}[c.Rand.Intn(2)]
						}
						in := Input{Vec: vec, ChainLen: n, Scheme: []string{"x509", "signingAuthority"}[c.Rand.Intn(2)],
							Iface: []string{"validator", "client"}[c.Rand.Intn(2)], Level: st.level, RevOverride: st.rev,
							OtherOverrides: otherOverrides(c, st.level, nil), PolicyForm: pickForm(c), CallerCtx: "background",
							DeprecatedCtor: c.Rand.Intn(4) == 0, Entry: entry, Companions: []string{}}
						mine, wild := entryDoc(entry), c.Rand.Intn(2) == 0
						cst := byAction[compAction][c.Rand.Intn(len(byAction[compAction]))]
						first := "c0"
						switch shape {
						case 0, 1, 5:
							in.Companions = append(in.Companions, companion(&in, otherDoc(mine), "same", wild, cst))
						case 2:
							in.Companions = append(in.Companions, companion(&in, otherDoc(mine), "other", wild, cst))
						case 3:
							in.Companions = append(in.Companions, companion(&in, mine, "other", wild, cst))
						case 4:
							in.Companions = append(in.Companions, companion(&in, otherDoc(mine), "same", wild, cst))
							in.Companions = append(in.Companions, companion(&in, mine, "other", c.Rand.Intn(2) == 0, all[c.Rand.Intn(len(all))]))
							// the namesake was only asked whether it skips verification, not used to verify
							if mine == "blob" {
								first = "skip:c0"
							}
						}
						switch shape {
						case 1:
							in.History = []string{first, "self"}
						case 4:
							in.History = []string{first, "c1"}
						case 5:
							in.History = []string{"self", first}
						default:
							in.History = []string{first}
						}
						for k := 0; k < n; k++ {
							in.Methods = append(in.Methods, methods[c.Rand.Intn(len(methods))])
						}
						in.Servers, in.ValidatorImpl = genServers(c, vec), "scripted"
						emit(in, []string{common.MediaJWS, common.MediaCOSE}[c.Rand.Intn(2)])
						c.Count("history-block")
						c.Count(fmt.Sprintf("history-block/shape=%d", shape))
					}
				}
			}
		}
	}
	// validator-level errors: every kind x every caller context x both interfaces x statements that log and
	// enforce (by the level itself, by a relaxing and by a tightening override) x with / without accompanying results
	errStmts := []stmt{{"strict", nil}, {"strict", sp("log")}, {"permissive", nil}, {"permissive", sp("enforce")}, {"audit", sp("enforce")}, {"audit", nil}}
	for _, kind := range ErrorKinds {
		for _, cctx := range callerCtxs {
			for _, iface := range []string{"validator", "client"} {
				for _, st := range errStmts {
					for _, ewr := range []bool{false, true} {
						n := 1 + c.Rand.Intn(3)
						in := Input{ChainLen: n, Scheme: []string{"x509", "signingAuthority"}[c.Rand.Intn(2)], Iface: iface,
							Level: st.level, RevOverride: st.rev, OtherOverrides: otherOverrides(c, st.level, nil), PolicyForm: pickForm(c),
							ValidatorError: true, ErrorKind: kind, CallerCtx: cctx, ErrorWithResults: ewr,
							DeprecatedCtor: c.Rand.Intn(4) == 0, Vec: []string{}}
						for k := 0; k < n; k++ {
							// the accompanying results are mostly good: only the error stands between the chain and a pass
							r := "ok"
							if c.Rand.Intn(4) == 0 {
								r = []string{"nonRevokable", "unknown", "revoked"}[c.Rand.Intn(3)]
							}
							in.Vec = append(in.Vec, r)
							in.Methods = append(in.Methods, methods[c.Rand.Intn(len(methods))])
						}
						in.Servers, in.ValidatorImpl = genServers(c, in.Vec), "scripted"
						emit(in, common.MediaJWS)
						c.Count("error-kind-block")
					}
				}
			}
		}
	}
	// per-server results behind the per-certificate ones: every vector with an Unknown certificate (chains up to
	// three, a sample of four) x every kind of typed server error x {one server, two servers, errored servers plus
	// one that answered OK} on the Unknown certificates (all other certificates annotated consistently)
	for n := 1; n <= 4; n++ {
		for _, vec := range vectors(n) {
			if !strings.Contains(strings.Join(vec, ","), "unknown") || (n == 4 && c.Rand.Intn(4) != 0) {
				continue
			}
			for _, kind := range ServerErrKinds[1:] {
				for shape := 0; shape < 3; shape++ {
					action := []string{"enforce", "enforce", "log"}[c.Rand.Intn(3)]
					st := byAction[action][c.Rand.Intn(len(byAction[action]))]
					in := Input{Vec: vec, ChainLen: n, Scheme: []string{"x509", "signingAuthority"}[c.Rand.Intn(2)],
						Iface: []string{"validator", "client"}[c.Rand.Intn(2)], Level: st.level, RevOverride: st.rev,
						OtherOverrides: []string{}, PolicyForm: "code", CallerCtx: "background", ValidatorImpl: "scripted"}
					for _, res := range vec {
						in.Methods = append(in.Methods, []string{"ocsp", "fallback", "crl"}[c.Rand.Intn(3)])
						sv := []string{consistent(res)}
						if res == "unknown" {
							sv = []string{"unknown/" + kind}
							switch shape {
							case 1:
								sv = append(sv, "unknown/"+kind)
							case 2:
								sv = append(sv, "unknown/"+kind, "ok/none")
							}
						}
						in.Servers = append(in.Servers, sv)
					}
					emit(in, common.MediaJWS)
					c.Count("server-results-block")
				}
			}
		}
	}
	// the stock notation-core-go validator (both interfaces) behind an HTTP transport: the OCSP responder of every
	// certificate below the root answers good / revoked / unknown, garbage, an HTTP error, refuses, or times out;
	// what the validator reports is recorded as the case's vector
	for _, n := range []int{2, 3, 4} {
		var combos [][]string
		var build func(prefix []string)
		build = func(prefix []string) {
			if len(prefix) == n-1 {
				combos = append(combos, append([]string{}, prefix...))
				return
			}
			for _, b := range Behaviours {
				build(append(prefix, b))
			}
		}
		build(nil)
		for _, behave := range combos {
			if n == 4 && c.Rand.Intn(8) != 0 && !c.Thorough() {
				continue
			}
			for _, iface := range []string{"validator", "client"} {
				action := []string{"enforce", "enforce", "log"}[c.Rand.Intn(3)]
				st := byAction[action][c.Rand.Intn(len(byAction[action]))]
				in := Input{ChainLen: n, Scheme: []string{"x509", "signingAuthority"}[c.Rand.Intn(2)], Iface: iface, Level: st.level, RevOverride: st.rev,
					OtherOverrides: []string{}, PolicyForm: "code", CallerCtx: []string{"background", "live"}[c.Rand.Intn(2)],
					Variant: "ocspChain", ValidatorImpl: "stock", Vec: []string{}, Methods: []string{}, Servers: [][]string{}}
				w.behave = behave
				in.fill()
				o := runCase(w, in, common.MediaJWS)
				for _, r := range w.lastResults {
					in.Vec = append(in.Vec, resName[r.Result])
					in.Methods = append(in.Methods, methodName[r.RevocationMethod])
					sv := []string{}
					for _, sr := range r.ServerResults {
						sv = append(sv, resName[sr.Result]+"/"+serverErrKindOf(sr.Error))
					}
					in.Servers = append(in.Servers, sv)
				}
				c.Emit(in, o)
				c.Count("outcome=" + o.Outcome)
				c.Count("stock-validator")
				c.Count("stock-validator/vec=" + strings.Join(in.Vec, ","))
			}
		}
	}
	// other things true of the signature (expired signature under a logging level, expired chain,
	// empty-subject signing certificate): revocation is checked and aggregated all the same
	for _, variant := range []string{"expiredSigLogged", "expiredChain", "emptySubjectLeaf"} {
		for n := 1; n <= 3; n++ {
			if variant == "emptySubjectLeaf" && n == 1 {
				continue
			}
			for _, vec := range vectors(n) {
				for _, scheme := range []string{"x509", "signingAuthority"} {
					for _, iface := range []string{"validator", "client"} {
						for _, action := range []string{"enforce", "log", "skip"} {
							if n == 3 && c.Rand.Intn(3) != 0 {
								continue
							}
							// a statement (not the level skip: that one verifies nothing at all) denoting the action
							var st stmt
							for {
								st = byAction[action][c.Rand.Intn(len(byAction[action]))]
								if st.level != "skip" {
									break
								}
							}
							// the failure the variant is built for must be logged, not enforced
							taken := map[string]bool{}
							forced := []string{}
							switch {
							case variant == "expiredSigLogged":
								taken["expiry"], forced = true, []string{"expiry=log"}
							case variant == "expiredChain" && scheme != "signingAuthority":
								taken["authenticTimestamp"], forced = true, []string{"authenticTimestamp=log"}
							}
							in := Input{Vec: vec, ChainLen: n, Scheme: scheme, Iface: iface, Level: st.level, RevOverride: st.rev, Variant: variant,
								OtherOverrides: append(forced, otherOverrides(c, st.level, taken)...), PolicyForm: pickForm(c),
								CallerCtx: pickCtx(c), ValidatorError: c.Rand.Intn(8) == 0}
							if in.ValidatorError {
								in.ErrorKind = ErrorKinds[c.Rand.Intn(len(ErrorKinds))]
							}
							for k := 0; k < n; k++ {
								in.Methods = append(in.Methods, methods[c.Rand.Intn(len(methods))])
							}
							in.Servers, in.ValidatorImpl = genServers(c, vec), "scripted"
							emit(in, common.MediaJWS)
							c.Count("variant=" + variant)
						}
					}
				}
			}
		}
	}
	// a validator that does NOT answer with one result per certificate (fewer, none, more): must fail closed
	for n := 1; n <= 4; n++ {
		for m := 0; m <= 5; m++ {
			if m == n {
				continue
			}
			for _, vec := range vectors(m) {
				if m >= 3 && c.Rand.Intn(8) != 0 {
					continue
				}
				for _, iface := range []string{"validator", "client"} {
					for _, action := range []string{"enforce", "log"} {
						st := byAction[action][c.Rand.Intn(len(byAction[action]))]
						in := Input{Vec: vec, ChainLen: n, Scheme: "x509", Iface: iface, Level: st.level, RevOverride: st.rev,
							OtherOverrides: []string{}, PolicyForm: "code", CallerCtx: "background"}
						if in.Vec == nil {
							in.Vec = []string{}
						}
						in.Methods = []string{}
						for k := 0; k < m; k++ {
							in.Methods = append(in.Methods, "ocsp")
						}
						in.Servers, in.ValidatorImpl = genServers(c, in.Vec), "scripted"
						emit(in, common.MediaJWS)
						c.Count("result-count-mismatch")
					}
				}
			}
		}
	}
	for k := 0; k < w.strayFailures; k++ {
		c.Count("other-type-failure-after-history")
	}
	for k := 0; k < w.refusedHistory; k++ {
		c.Count("history-call-without-outcome")
	}
	for k := 0; k < w.refusedObserved; k++ {
		c.Count("observed-call-without-outcome")
	}
	c.SetExhaustive(true)
	c.Note("all 340 result vectors over chains of length 1..4 x {x509, signingAuthority} x {validator, deprecated client} x the statements about revocation a user can write (strict / permissive / audit x {no override, enforce, log, skip}, and the level skip: all 13 for chains up to three, one per denoted action for chains of four), next to random overrides of other types, policy built in code or parsed from JSON text; validator-level error on a quarter, and a block of every error kind (%d: plain, empty message, typed nil pointer, context.Canceled / DeadlineExceeded bare, wrapped, joined, from the validator's own timeout / cancellation, url.Error, net timeouts, os.ErrDeadlineExceeded, typed OCSP / chain errors) x caller context {background, live deadline, cancelled, expired} x both interfaces x logging and enforcing statements; random method annotations; per-server results behind every per-certificate result (none, one, several; typed OCSP / CRL / chain errors, all servers timed out, a server that answered among errored ones) at random everywhere and in a block of every vector with an Unknown certificate x every error kind x three shapes; NIL pointers in the answer: a nil ENTRY of the vector (read by the model as unknown: fail closed, never a nil dereference) on a fifth of the scripted vectors that hold an Unknown and in a block of every vector up to three x every non-empty set of its Unknown positions x both interfaces x 3 actions x 3 placements of nil SERVER results, which also occur at random among the server results everywhere; the stock notation-core-go validator (both interfaces) behind an HTTP transport whose per-certificate OCSP responders answer good / revoked / unknown / garbage / 503 / refuse / time out, its report recorded as the vector; half of the fresh verifiers primed with an all-OK answer for the same chain; the dynamic type of the supplied object (a deprecated client that ALSO has ValidateContext, a context-aware validator that ALSO has Validate, that other method answering all OK / all revoked / an error; a timestamping validator supplied next to it): at random on a quarter of the enumeration and a block of every vector up to three x both interfaces x 3 answers x 3 actions; one long-lived verifier holding several statements in one or BOTH documents (OCI + blob; a namesake of the applicable statement in the other document, other scopes, the wildcard / global statement) saying different things about revocation, with a declared history of earlier calls (Verify / VerifyBlob under the companions or the applicable statement, SkipVerify) before the observed call, through all three entry points (Verify, VerifyBlob by name, VerifyBlob global): a block of 3 entry points x 13 statements x 3 companion actions x 6 placements / orders, and at random on the enumeration; real JWS/COSE envelopes through verifier.Verify / VerifyBlob", len(ErrorKinds))
	return nil
}

// Package c08 - correspondence harness for C08 (stub: not built yet).
package c08

import (
	"errors"

	"github.com/notaryproject/notation-go/xverif/common"
)

// Run generates the cases of C08.
func Run(c *common.Ctx) error { return errors.New("C08: harness not built yet") }

// Package c08 drives the real trust policy statement selection - OCIDocument /
// BlobDocument selections directly and end-to-end through verifier.Verify, SkipVerify and
// VerifyBlob - over valid documents (checked with the real Validate), all permutations of
// their statements and a battery of listed / unlisted / near-miss / malformed queries; after
// every selection everything reachable from the handed-out statement is mutated by
// reflection and the selection is repeated.
package c08

import (
	"context"
	"crypto/x509"
	"encoding/json"
	"errors"
	"fmt"
	"reflect"
	"runtime"
	"sort"
	"strings"
	"sync"
	"sync/atomic"

	"github.com/notaryproject/notation-go"
	"github.com/notaryproject/notation-go/verifier"
	"github.com/notaryproject/notation-go/verifier/trustpolicy"
	"github.com/notaryproject/notation-go/verifier/truststore"
	"github.com/notaryproject/notation-go/xverif/common"
	"github.com/opencontainers/go-digest"
	ocispec "github.com/opencontainers/image-spec/specs-go/v1"
	orasRegistry "oras.land/oras-go/v2/registry"
)

// ---- abstract case (JSON shape of Lean's Input / Obs) ---------------------------------

type Stmt struct {
	Name       string       `json:"name"`
	Scopes     []string     `json:"scopes"`
	IsGlobal   bool         `json:"isGlobal"`
	Level      string       `json:"level"`
	Override   *[][2]string `json:"override"`
	Stores     []string     `json:"stores"`
	Identities []string     `json:"identities"`
	// not part of the abstract case, but compared by the harness
	verifyTimestamp string
}

type Input struct {
	Kind    string   `json:"kind"`
	Stmts   []Stmt   `json:"stmts"` // the CURRENT content of the document object
	Queries []string `json:"queries"`
	History string   `json:"history"` // how the object got there, see hist
	Before  *[]Stmt  `json:"before"`  // content it was built (and validated) with, when edited afterwards
	// a document of the OTHER kind the verifier is configured with as well (VerifierOptions with both)
	Companion *[]Stmt `json:"companion"`
	// oci: well-formed digest references sent through the registry entry point notation.Verify
	RegistryQueries []string `json:"registryQueries"`
}

// RObs: one reference through notation.Verify with the real verifier behind a recording wrapper
type RObs struct {
	RegSkip   string `json:"regSkip"`
	RegVerify string `json:"regVerify"`
}

// hist is the history of the document object the selections are made on: built with the
// content Before (or Stmts), optionally validated (directly / by the verifier constructor),
// optionally queried once ("warm"), optionally struct-copied, optionally edited into Stmts in
// place or by assigning the exported slice, optionally validated again.
type hist struct {
	validate, warm, copy, revalidate bool
	inCode                           bool   // the object is built in code (buildDoc) instead of parsed from JSON
	edit                             string // "", "inplace", "assign"
}

func parseHist(h string) hist {
	var out hist
	for _, t := range strings.Split(h, ",") {
		switch t {
		case "validated":
			out.validate = true
		case "unvalidated":
		case "in-code":
			out.inCode = true
		case "warm":
			out.warm = true
		case "copy":
			out.copy = true
		case "edit-inplace":
			out.edit = "inplace"
		case "edit-assign":
			out.edit = "assign"
		case "revalidated":
			out.revalidate = true
		default:
			panic("unknown history token " + t)
		}
	}
	return out
}

// docObj is one document object of either kind.
type docObj struct {
	o *trustpolicy.OCIDocument
	b *trustpolicy.BlobDocument
}

func parseDoc(kind string, raw []byte) *docObj {
	if kind == "oci" {
		return &docObj{o: parseOCI(raw)}
	}
	return &docObj{b: parseBlob(raw)}
}

func (d *docObj) validate() error {
	if d.o != nil {
		return d.o.Validate()
	}
	return d.b.Validate()
}

// structCopy is `c := *doc`: the exported fields share their backing arrays with the original
// and whatever unexported state the document carries comes along.
func (d *docObj) structCopy() *docObj {
	if d.o != nil {
		c := *d.o
		return &docObj{o: &c}
	}
	c := *d.b
	return &docObj{b: &c}
}

func overwriteStrings(dst, src []string) []string {
	if len(dst) == len(src) {
		copy(dst, src) // same backing array
		return dst
	}
	return src
}

// edit turns the object's content into target's: "assign" replaces the exported slice,
// "inplace" overwrites the existing statements field by field (slices element-wise when the
// lengths agree), truncates or appends.
func (d *docObj) edit(target *docObj, style string) {
	if d.o != nil {
		src := target.o.TrustPolicies
		if style == "assign" {
			d.o.TrustPolicies = src
			return
		}
		dst := d.o.TrustPolicies
		n := len(dst)
		if len(src) < n {
			n = len(src)
		}
		for i := 0; i < n; i++ {
			t := &dst[i]
			t.Name = src[i].Name
			t.SignatureVerification = src[i].SignatureVerification
			t.TrustStores = overwriteStrings(t.TrustStores, src[i].TrustStores)
			t.TrustedIdentities = overwriteStrings(t.TrustedIdentities, src[i].TrustedIdentities)
			t.RegistryScopes = overwriteStrings(t.RegistryScopes, src[i].RegistryScopes)
		}
		d.o.TrustPolicies = append(dst[:n], src[n:]...)
		return
	}
	src := target.b.TrustPolicies
	if style == "assign" {
		d.b.TrustPolicies = src
		return
	}
	dst := d.b.TrustPolicies
	n := len(dst)
	if len(src) < n {
		n = len(src)
	}
	for i := 0; i < n; i++ {
		t := &dst[i]
		t.Name = src[i].Name
		t.SignatureVerification = src[i].SignatureVerification
		t.TrustStores = overwriteStrings(t.TrustStores, src[i].TrustStores)
		t.TrustedIdentities = overwriteStrings(t.TrustedIdentities, src[i].TrustedIdentities)
		t.GlobalPolicy = src[i].GlobalPolicy
	}
	d.b.TrustPolicies = append(dst[:n], src[n:]...)
}

// selectName performs one selection and returns the statement's name (nil = refused).
func (d *docObj) selectName(kind, q string) *string {
	var name string
	switch kind {
	case "oci":
		p, err := d.o.GetApplicableTrustPolicy(q)
		if err != nil {
			return nil
		}
		name = p.Name
	case "blob":
		p, err := d.b.GetApplicableTrustPolicy(q)
		if err != nil {
			return nil
		}
		name = p.Name
	default:
		p, err := d.b.GetGlobalTrustPolicy()
		if err != nil {
			return nil
		}
		name = p.Name
	}
	return &name
}

type QObs struct {
	Selected    *string `json:"selected"`
	ReversedSel *string `json:"reversedSelected"`
	RefRejected bool    `json:"refRejected"`
	ViaVerify   string  `json:"viaVerify"`
	ViaSkip     string  `json:"viaSkip"`
	CopyEqual   bool    `json:"copyEqual"`
	Intact      bool    `json:"intact"`
	Independent bool    `json:"independent"`
}

type Obs struct {
	Validated       bool   `json:"validated"`
	VerifierAccepts bool   `json:"verifierAccepts"`
	Queries         []QObs `json:"queries"`
	GlobalSel       *QObs  `json:"globalSel"`
	Registry        []RObs `json:"registry"`
}

const (
	noPolicy = "no-applicable-policy"
	other    = "other"
	mutated  = "x-mutated"
)

// ---- concretisation ---------------------------------------------------------------------

func overrideMap(o *[][2]string) map[trustpolicy.ValidationType]trustpolicy.ValidationAction {
	if o == nil {
		return nil
	}
	m := map[trustpolicy.ValidationType]trustpolicy.ValidationAction{}
	for _, kv := range *o {
		m[trustpolicy.ValidationType(kv[0])] = trustpolicy.ValidationAction(kv[1])
	}
	return m
}

func sigVerification(s Stmt) trustpolicy.SignatureVerification {
	return trustpolicy.SignatureVerification{VerificationLevel: s.Level, Override: overrideMap(s.Override),
		VerifyTimestamp: trustpolicy.TimestampOption(s.verifyTimestamp)}
}

// docJSON renders the abstract document as the JSON text of a trust policy file.
func docJSON(kind string, stmts []Stmt) []byte {
	var doc any
	if kind == "oci" {
		d := trustpolicy.OCIDocument{Version: "1.0"}
		for _, s := range stmts {
			d.TrustPolicies = append(d.TrustPolicies, trustpolicy.OCITrustPolicy{Name: s.Name, SignatureVerification: sigVerification(s),
				TrustStores: s.Stores, TrustedIdentities: s.Identities, RegistryScopes: s.Scopes})
		}
		doc = d
	} else {
		d := trustpolicy.BlobDocument{Version: "1.0"}
		for _, s := range stmts {
			d.TrustPolicies = append(d.TrustPolicies, trustpolicy.BlobTrustPolicy{Name: s.Name, SignatureVerification: sigVerification(s),
				TrustStores: s.Stores, TrustedIdentities: s.Identities, GlobalPolicy: s.IsGlobal})
		}
		doc = d
	}
	b, err := json.Marshal(doc)
	if err != nil {
		panic(err)
	}
	// an EMPTY non-nil override map is dropped by `omitempty`: put `"override": {}` back
	need := false
	for _, st := range stmts {
		if st.Override != nil && len(*st.Override) == 0 {
			need = true
		}
	}
	if !need {
		return b
	}
	var generic map[string]any
	if err := json.Unmarshal(b, &generic); err != nil {
		panic(err)
	}
	tps := generic["trustPolicies"].([]any)
	for i, st := range stmts {
		if st.Override != nil && len(*st.Override) == 0 {
			tps[i].(map[string]any)["signatureVerification"].(map[string]any)["override"] = map[string]any{}
		}
	}
	b, err = json.Marshal(generic)
	if err != nil {
		panic(err)
	}
	return b
}

// buildDoc constructs the document object IN CODE instead of parsing it: slices are non-nil with
// spare capacity (also the empty ones), the override map is non-nil exactly when the abstract
// statement has one (also the empty one).
func buildDoc(kind string, stmts []Stmt) *docObj {
	roomy := func(l []string) []string {
		out := make([]string, len(l), len(l)+4)
		copy(out, l)
		return out
	}
	if kind == "oci" {
		d := &trustpolicy.OCIDocument{Version: "1.0", TrustPolicies: make([]trustpolicy.OCITrustPolicy, 0, len(stmts)+2)}
		for _, s := range stmts {
			d.TrustPolicies = append(d.TrustPolicies, trustpolicy.OCITrustPolicy{Name: s.Name, SignatureVerification: sigVerification(s),
				TrustStores: roomy(s.Stores), TrustedIdentities: roomy(s.Identities), RegistryScopes: roomy(s.Scopes)})
		}
		return &docObj{o: d}
	}
	d := &trustpolicy.BlobDocument{Version: "1.0", TrustPolicies: make([]trustpolicy.BlobTrustPolicy, 0, len(stmts)+2)}
	for _, s := range stmts {
		d.TrustPolicies = append(d.TrustPolicies, trustpolicy.BlobTrustPolicy{Name: s.Name, SignatureVerification: sigVerification(s),
			TrustStores: roomy(s.Stores), TrustedIdentities: roomy(s.Identities), GlobalPolicy: s.IsGlobal})
	}
	return &docObj{b: d}
}

func parseOCI(b []byte) *trustpolicy.OCIDocument {
	var d trustpolicy.OCIDocument
	if err := json.Unmarshal(b, &d); err != nil {
		panic(err)
	}
	return &d
}

func parseBlob(b []byte) *trustpolicy.BlobDocument {
	var d trustpolicy.BlobDocument
	if err := json.Unmarshal(b, &d); err != nil {
		panic(err)
	}
	return &d
}

// ---- canonical view of a statement (whatever its concrete type) ----------------------------

func strs(v []string) []string {
	out := make([]string, len(v))
	copy(out, v)
	return out
}

func canonSV(sv trustpolicy.SignatureVerification) (string, *[][2]string, string) {
	var ov *[][2]string
	if sv.Override != nil {
		l := [][2]string{}
		for k, v := range sv.Override {
			l = append(l, [2]string{string(k), string(v)})
		}
		sort.Slice(l, func(i, j int) bool { return l[i][0] < l[j][0] })
		ov = &l
	}
	return sv.VerificationLevel, ov, string(sv.VerifyTimestamp)
}

func canonOCI(p *trustpolicy.OCITrustPolicy) Stmt {
	lv, ov, ts := canonSV(p.SignatureVerification)
	return Stmt{Name: p.Name, Scopes: strs(p.RegistryScopes), Level: lv, Override: ov, Stores: strs(p.TrustStores),
		Identities: strs(p.TrustedIdentities), verifyTimestamp: ts}
}

func canonBlob(p *trustpolicy.BlobTrustPolicy) Stmt {
	lv, ov, ts := canonSV(p.SignatureVerification)
	return Stmt{Name: p.Name, Scopes: []string{}, IsGlobal: p.GlobalPolicy, Level: lv, Override: ov, Stores: strs(p.TrustStores),
		Identities: strs(p.TrustedIdentities), verifyTimestamp: ts}
}

func sameStmt(a, b Stmt) bool { return reflect.DeepEqual(a, b) }

// ---- mutate everything reachable from a handed-out statement ---------------------------------

func scramble(v reflect.Value) { scrambleWith(v, mutated) }

// scrambleWith writes INTO everything reachable from v: every string becomes mark, every bool is
// flipped, every slice is overwritten element-wise through its backing array and then appended to
// (which writes into spare capacity when there is some), every non-nil map gets its keys changed,
// deleted and a new key inserted (a nil map cannot be written to: the copy gets a map of its own).
func scrambleWith(v reflect.Value, mark string) {
	switch v.Kind() {
	case reflect.Ptr:
		if !v.IsNil() {
			scrambleWith(v.Elem(), mark)
		}
	case reflect.Struct:
		for i := 0; i < v.NumField(); i++ {
			if v.Field(i).CanSet() {
				scrambleWith(v.Field(i), mark)
			}
		}
	case reflect.String:
		v.SetString(mark)
	case reflect.Bool:
		v.SetBool(!v.Bool())
	case reflect.Slice:
		for i := 0; i < v.Len(); i++ {
			scrambleWith(v.Index(i), mark)
		}
		extra := reflect.New(v.Type().Elem()).Elem()
		scrambleWith(extra, mark)
		v.Set(reflect.Append(v, extra))
	case reflect.Map:
		if v.IsNil() {
			v.Set(reflect.MakeMap(v.Type()))
		} else {
			for _, k := range v.MapKeys() {
				nv := reflect.New(v.Type().Elem()).Elem()
				scrambleWith(nv, mark)
				v.SetMapIndex(k, nv)
				v.SetMapIndex(k, reflect.Value{})
			}
		}
		k := reflect.New(v.Type().Key()).Elem()
		scrambleWith(k, mark)
		e := reflect.New(v.Type().Elem()).Elem()
		if e.Kind() == reflect.String {
			e.SetString("x")
		}
		v.SetMapIndex(k, e)
	}
}

// ---- end-to-end: verifier with a recording in-memory trust store ---------------------------

type memStore struct {
	root *x509.Certificate
	log  []string
}

func (m *memStore) GetCertificates(ctx context.Context, storeType truststore.Type, namedStore string) ([]*x509.Certificate, error) {
	m.log = append(m.log, string(storeType)+":"+namedStore)
	return []*x509.Certificate{m.root}, nil
}

type world struct {
	chain   *common.Chain
	target  ocispec.Descriptor
	realSig []byte
}

var theWorld *world

func getWorld() *world {
	if theWorld == nil {
		ch := common.MakeChain(common.ChainOpts{Tag: "c08"})
		t := ocispec.Descriptor{MediaType: ocispec.MediaTypeImageManifest, Digest: digest.FromString("c08 artifact"), Size: 12}
		theWorld = &world{chain: ch, target: t, realSig: common.MustSign(common.EnvOpts{Chain: ch, Target: &t})}
	}
	return theWorld
}

const leafIdentity = "x509.subject: C=US, ST=WA, O=Notary, CN=leaf c08"

// effective level of a statement, as a comparable value
func effLevel(sv trustpolicy.SignatureVerification) (trustpolicy.VerificationLevel, bool) {
	l, err := sv.GetVerificationLevel()
	if err != nil || l == nil {
		return trustpolicy.VerificationLevel{}, false
	}
	return *l, true
}

// whoHasLevel names the unique statement of the pristine document whose effective level is lv.
func whoHasLevel(stmts []Stmt, lv *trustpolicy.VerificationLevel) (Stmt, bool) {
	if lv == nil {
		return Stmt{}, false
	}
	var found []Stmt
	for _, s := range stmts {
		if e, ok := effLevel(sigVerification(s)); ok && reflect.DeepEqual(e, *lv) {
			found = append(found, s)
		}
	}
	if len(found) != 1 {
		return Stmt{}, false
	}
	return found[0], true
}

func caStores(s Stmt) []string {
	out := []string{}
	for _, st := range s.Stores {
		if strings.HasPrefix(st, "ca:") {
			out = append(out, st)
		}
	}
	return out
}

// classify turns what a verifier entry point returned into the observation vocabulary.
// real: a genuine envelope was supplied, so on a non-skip statement the verification must
// succeed against exactly the selected statement's trust stores.
func classify(stmts []Stmt, outcome *notation.VerificationOutcome, err error, ts *memStore, real bool) string {
	var npe notation.ErrorNoApplicableTrustPolicy
	if err != nil && errors.As(err, &npe) {
		if outcome != nil || len(ts.log) != 0 {
			return other + ":no-policy-error-with-outcome-or-store-access"
		}
		return noPolicy
	}
	if outcome == nil {
		return other + ":nil-outcome"
	}
	s, ok := whoHasLevel(stmts, outcome.VerificationLevel)
	if !ok {
		return other + ":unknown-level"
	}
	isSkip := reflect.DeepEqual(outcome.VerificationLevel, trustpolicy.LevelSkip)
	if isSkip {
		if err != nil || len(ts.log) != 0 {
			return other + ":skip-with-error-or-store-access"
		}
		return "stmt:" + s.Name
	}
	if real {
		if err != nil || outcome.Error != nil {
			return other + ":real-signature-refused:" + fmt.Sprint(err)
		}
		if !reflect.DeepEqual(ts.log, caStores(s)) {
			return other + ":stores-consulted=" + strings.Join(ts.log, ",")
		}
	} else if err == nil {
		return other + ":garbage-signature-accepted"
	}
	return "stmt:" + s.Name
}

type e2e struct {
	stmts []Stmt
	v     interface {
		notation.Verifier
		notation.BlobVerifier
	}
	// the optional skip interface of notation.go (unexported there), obtained by a RUNTIME assertion as
	// notation.Verify does: nil when the verifier does not satisfy it (= it never skips)
	skipper skipVerifier
	ts      *memStore
	built   bool
}

type skipVerifier interface {
	SkipVerify(ctx context.Context, opts notation.VerifierVerifyOptions) (bool, *trustpolicy.VerificationLevel, error)
}

const noVerifier = "no-verifier"
const notReached = "not-reached"

// newE2E hands the document object to the verifier constructor (which validates it and keeps
// the pointer). stmts is the content the selections will be judged against.
func newE2E(stmts []Stmt, d *docObj, companion *docObj) *e2e {
	ts := &memStore{root: getWorld().chain.Root().Cert}
	opts := verifier.VerifierOptions{OCITrustPolicy: d.o, BlobTrustPolicy: d.b}
	if companion != nil {
		// the verifier is configured with BOTH documents
		if companion.o != nil {
			opts.OCITrustPolicy = companion.o
		}
		if companion.b != nil {
			opts.BlobTrustPolicy = companion.b
		}
	}
	v, err := verifier.NewVerifierWithOptions(ts, opts)
	if err != nil {
		// observed, not assumed: the constructor refused the document
		return &e2e{stmts: stmts, ts: ts}
	}
	sk, _ := any(v).(skipVerifier)
	return &e2e{stmts: stmts, v: v, skipper: sk, ts: ts, built: true}
}

var garbage = []byte(`{"not":"an envelope"}`)

func (e *e2e) verifyOCI(ref string, real bool) string {
	if !e.built {
		return noVerifier
	}
	w := getWorld()
	sig := garbage
	if real {
		sig = w.realSig
	}
	e.ts.log = nil
	out, err := e.v.Verify(context.Background(), w.target, sig, notation.VerifierVerifyOptions{ArtifactReference: ref, SignatureMediaType: common.MediaJWS})
	return classify(e.stmts, out, err, e.ts, real)
}

func (e *e2e) skipOCI(ref string) string {
	if !e.built {
		return noVerifier
	}
	if e.skipper == nil {
		return other + ":no-skipper"
	}
	e.ts.log = nil
	skip, lv, err := e.skipper.SkipVerify(context.Background(), notation.VerifierVerifyOptions{ArtifactReference: ref, SignatureMediaType: common.MediaJWS})
	var npe notation.ErrorNoApplicableTrustPolicy
	if err != nil {
		if errors.As(err, &npe) && !skip && lv == nil && len(e.ts.log) == 0 {
			return noPolicy
		}
		return other + ":skipverify-error"
	}
	s, ok := whoHasLevel(e.stmts, lv)
	if !ok {
		return other + ":unknown-level"
	}
	if skip != reflect.DeepEqual(lv, trustpolicy.LevelSkip) {
		return other + ":skip-flag"
	}
	return "stmt:" + s.Name
}

func (e *e2e) verifyBlob(name string, real bool) string {
	if !e.built {
		return noVerifier
	}
	w := getWorld()
	sig := garbage
	if real {
		sig = w.realSig
	}
	e.ts.log = nil
	gen := func(digest.Algorithm) (ocispec.Descriptor, error) { return w.target, nil }
	out, err := e.v.VerifyBlob(context.Background(), gen, sig, notation.BlobVerifierVerifyOptions{SignatureMediaType: common.MediaJWS, TrustPolicyName: name})
	return classify(e.stmts, out, err, e.ts, real)
}

// ---- one case ---------------------------------------------------------------------------------

// a document whose only statement carries the wildcard: it refuses a reference only when the
// reference itself is refused. One object per case (workers share nothing).
var wildcardOnlyRaw = docJSON("oci", []Stmt{{Name: "w", Scopes: []string{"*"}, Level: "strict",
	Stores: []string{"ca:w"}, Identities: []string{"*"}}})

func containsStmt(l []Stmt, s Stmt) bool {
	for _, x := range l {
		if sameStmt(x, s) {
			return true
		}
	}
	return false
}

// runCase performs the experiment of Model/C08.lean `runWith`. real selects the queries that
// are additionally run with a genuine signature envelope.
func runCase(in Input, real func(q int) bool) Obs {
	raw := docJSON(in.Kind, in.Stmts)
	// the pristine view: the statements as a freshly parsed copy of the file presents them
	var pristine []Stmt
	if in.Kind == "oci" {
		d := parseOCI(raw)
		for i := range d.TrustPolicies {
			pristine = append(pristine, canonOCI(&d.TrustPolicies[i]))
		}
	} else {
		d := parseBlob(raw)
		for i := range d.TrustPolicies {
			pristine = append(pristine, canonBlob(&d.TrustPolicies[i]))
		}
	}
	// validation is observed, not assumed: Validate() and the verifier's constructor on fresh
	// objects with the current content. Only when both refuse it is there nothing to select from.
	verr := parseDoc(in.Kind, raw).validate()
	otherKind := "blob"
	if in.Kind == "blob" {
		otherKind = "oci"
	}
	// a fresh object of the companion document for every verifier that is constructed
	comp := func() *docObj {
		if in.Companion == nil {
			return nil
		}
		return parseDoc(otherKind, docJSON(otherKind, *in.Companion))
	}
	obs := Obs{Validated: verr == nil, VerifierAccepts: newE2E(in.Stmts, parseDoc(in.Kind, raw), comp()).built, Queries: []QObs{}, Registry: []RObs{}}
	if !obs.Validated && !obs.VerifierAccepts {
		return obs
	}
	h := parseHist(in.History)
	wildcardOnly := parseOCI(wildcardOnlyRaw)
	rawBefore := raw
	beforeStmts := in.Stmts
	if in.Before != nil {
		rawBefore = docJSON(in.Kind, *in.Before)
		beforeStmts = *in.Before
	}
	// the object as first constructed: parsed from the JSON text, or built in code
	base := func() *docObj {
		if h.inCode {
			return buildDoc(in.Kind, beforeStmts)
		}
		return parseDoc(in.Kind, rawBefore)
	}
	selKind := in.Kind
	warmUp := func(sel func(kind, q string)) {
		for _, q := range in.Queries {
			sel(selKind, q)
		}
		if in.Kind == "blob" {
			sel("global", "")
		}
	}
	// the verifier: constructed from an object with the earlier content (the constructor validates
	// it and keeps the pointer), queried, and then the caller edits that very object
	var e *e2e
	{
		vd := base()
		if h.copy {
			vd.validate()
			vd = vd.structCopy()
			if h.edit != "" {
				vd.edit(parseDoc(in.Kind, raw), h.edit)
			}
			e = newE2E(in.Stmts, vd, comp())
		} else {
			e = newE2E(in.Stmts, vd, comp())
			if h.warm {
				warmUp(func(kind, q string) {
					if in.Kind == "oci" {
						e.skipOCI(q)
					} else {
						e.verifyBlob(q, false)
					}
				})
			}
			if h.edit != "" {
				vd.edit(parseDoc(in.Kind, raw), h.edit)
			}
			if h.revalidate {
				vd.validate()
			}
		}
	}
	// the same content with its statements in reverse order (never mutated)
	rev := make([]Stmt, len(in.Stmts))
	for i := range in.Stmts {
		rev[len(in.Stmts)-1-i] = in.Stmts[i]
	}
	revDoc := parseDoc(in.Kind, docJSON(in.Kind, rev))
	if h.validate {
		revDoc.validate()
	}
	reversed := revDoc.selectName

	// the object the direct selections (and the mutations) work on, for the whole case, with its history
	doc := base()
	if h.validate {
		doc.validate()
	}
	if h.warm {
		warmUp(func(kind, q string) { doc.selectName(kind, q) })
	}
	if h.copy {
		doc = doc.structCopy()
	}
	if h.edit != "" {
		doc.edit(parseDoc(in.Kind, raw), h.edit)
	}
	if h.revalidate {
		doc.validate()
	}
	od, bd := doc.o, doc.b
	// sel performs one direct selection and returns (canonical contents, handle to mutate)
	sel := func(kind string, q string) (Stmt, any, error) {
		switch kind {
		case "oci":
			p, err := od.GetApplicableTrustPolicy(q)
			if err != nil {
				if p != nil {
					panic("error with a non-nil statement")
				}
				return Stmt{}, nil, err
			}
			return canonOCI(p), p, nil
		case "blob":
			p, err := bd.GetApplicableTrustPolicy(q)
			if err != nil {
				return Stmt{}, nil, err
			}
			return canonBlob(p), p, nil
		default:
			p, err := bd.GetGlobalTrustPolicy()
			if err != nil {
				return Stmt{}, nil, err
			}
			return canonBlob(p), p, nil
		}
	}
	experiment := func(kind, q string) QObs {
		o := QObs{CopyEqual: true, Intact: true, Independent: true, ReversedSel: reversed(kind, q)}
		got, handle, err := sel(kind, q)
		if err != nil {
			return o
		}
		name := got.Name
		o.Selected = &name
		o.CopyEqual = containsStmt(pristine, got)
		scramble(reflect.ValueOf(handle))
		again, handle2, err := sel(kind, q)
		o.Intact = err == nil && sameStmt(again, got)
		if err == nil {
			// the second copy is written into as well, with other values: what the caller holds
			// through the first copy must not change
			canonOf := func(h any) Stmt {
				if p, ok := h.(*trustpolicy.OCITrustPolicy); ok {
					return canonOCI(p)
				}
				return canonBlob(h.(*trustpolicy.BlobTrustPolicy))
			}
			before := canonOf(handle)
			scrambleWith(reflect.ValueOf(handle2), "y-mutated")
			o.Independent = sameStmt(canonOf(handle), before)
		}
		return o
	}

	for qi, q := range in.Queries {
		var o QObs
		if in.Kind == "oci" {
			o = experiment("oci", q)
			_, err := wildcardOnly.GetApplicableTrustPolicy(q)
			o.RefRejected = err != nil
			o.ViaVerify = e.verifyOCI(q, false)
			o.ViaSkip = e.skipOCI(q)
			if real(qi) {
				if r := e.verifyOCI(q, true); r != o.ViaVerify {
					o.ViaVerify = other + ":garbage=" + o.ViaVerify + ",real=" + r
				}
			}
		} else {
			o = experiment("blob", q)
			o.ViaVerify = e.verifyBlob(q, false)
			if real(qi) {
				if r := e.verifyBlob(q, true); r != o.ViaVerify {
					o.ViaVerify = other + ":garbage=" + o.ViaVerify + ",real=" + r
				}
			}
		}
		obs.Queries = append(obs.Queries, o)
	}
	if in.Kind == "blob" {
		g := experiment("global", "")
		g.ViaVerify = e.verifyBlob("", false)
		if real(len(in.Queries)) {
			if r := e.verifyBlob("", true); r != g.ViaVerify {
				g.ViaVerify = other + ":garbage=" + g.ViaVerify + ",real=" + r
			}
		}
		obs.GlobalSel = &g
	}
	// the registry entry point: notation.Verify with the real verifier behind a recording wrapper
	for _, q := range in.RegistryQueries {
		obs.Registry = append(obs.Registry, e.registry(q))
	}
	return obs
}

// recorder wraps the real verifier: it hands every call on and records what came back
type recorder struct {
	e         *e2e
	skip, ver string
}

func (r *recorder) Verify(ctx context.Context, desc ocispec.Descriptor, sig []byte, opts notation.VerifierVerifyOptions) (*notation.VerificationOutcome, error) {
	r.e.ts.log = nil
	out, err := r.e.v.Verify(ctx, desc, sig, opts)
	r.ver = classify(r.e.stmts, out, err, r.e.ts, true)
	return out, err
}

func (r *recorder) SkipVerify(ctx context.Context, opts notation.VerifierVerifyOptions) (bool, *trustpolicy.VerificationLevel, error) {
	skip, lv, err := r.e.skipper.SkipVerify(ctx, opts)
	var npe notation.ErrorNoApplicableTrustPolicy
	switch {
	case err != nil && errors.As(err, &npe):
		r.skip = noPolicy
	case err != nil:
		r.skip = other + ":skipverify-error"
	default:
		if s, ok := whoHasLevel(r.e.stmts, lv); ok {
			r.skip = "stmt:" + s.Name
		} else {
			r.skip = other + ":unknown-level"
		}
	}
	return skip, lv, err
}

// hubRepo: a repository holding the artifact of the world with one genuine signature
type hubRepo struct{}

func (hubRepo) Resolve(ctx context.Context, reference string) (ocispec.Descriptor, error) {
	return getWorld().target, nil
}
func (hubRepo) ListSignatures(ctx context.Context, desc ocispec.Descriptor, fn func([]ocispec.Descriptor) error) error {
	return fn([]ocispec.Descriptor{{MediaType: ocispec.MediaTypeImageManifest, Digest: digest.FromString("c08 signature"), Size: 13}})
}
func (hubRepo) FetchSignatureBlob(ctx context.Context, desc ocispec.Descriptor) ([]byte, ocispec.Descriptor, error) {
	return getWorld().realSig, ocispec.Descriptor{MediaType: common.MediaJWS}, nil
}
func (hubRepo) PushSignature(ctx context.Context, mediaType string, blob []byte, subject ocispec.Descriptor, annotations map[string]string) (a, b ocispec.Descriptor, err error) {
	return
}

func (e *e2e) registry(ref string) RObs {
	if !e.built || e.skipper == nil {
		return RObs{RegSkip: noVerifier, RegVerify: noVerifier}
	}
	r := &recorder{e: e, skip: notReached, ver: notReached}
	notation.Verify(context.Background(), r, hubRepo{}, notation.VerifyOptions{ArtifactReference: ref, MaxSignatureAttempts: 3})
	return RObs{RegSkip: r.skip, RegVerify: r.ver}
}

// ---- generators -------------------------------------------------------------------------------

// near-miss scope alphabet: nested, sibling, shorter / longer by one character, port-qualified,
// same path under a differently-cased domain, another registry
// docAlphabet is the alphabet genOCIDoc currently draws scopes from (scopeAlphabet or hubAlphabet)
var docAlphabet []string

var scopeAlphabet = []string{
	"registry.example/app",
	"registry.example/app/sub",
	"registry.example/app2",
	"registry.example/ap",
	"registry.example:5000/app",
	"REGISTRY.example/app",
	"localhost:5000/a/b",
}

const hex64 = "0123456789abcdef0123456789abcdef0123456789abcdef0123456789abcdef"
const dg = "@sha256:" + hex64

// level configurations with pairwise different effective levels (the end-to-end observation
// recognises the applied statement by its effective level)
type levelCfg struct {
	level    string
	override *[][2]string
	ts       string
}

func ov(kv ...string) *[][2]string {
	l := [][2]string{}
	for i := 0; i+1 < len(kv); i += 2 {
		l = append(l, [2]string{kv[i], kv[i+1]})
	}
	sort.Slice(l, func(i, j int) bool { return l[i][0] < l[j][0] })
	return &l
}

var levelCfgs = []levelCfg{
	{"strict", nil, ""},
	{"permissive", nil, "always"},
	{"audit", nil, ""},
	{"skip", nil, ""},
	{"strict", ov("revocation", "skip"), "afterCertExpiry"},
	{"strict", ov("expiry", "log", "authenticTimestamp", "log"), ""},
	{"permissive", ov("revocation", "skip", "authenticity", "log"), ""},
	{"audit", ov("revocation", "enforce"), ""},
	// an EMPTY non-nil override map ("override": {} in the file): the effective level is the base level
	{"strict", ov(), ""},
	{"permissive", ov(), ""},
	{"audit", ov(), "always"},
	{"skip", ov(), ""},
}

func perms(n int) [][]int {
	if n == 0 {
		return [][]int{{}}
	}
	var out [][]int
	for _, p := range perms(n - 1) {
		for pos := 0; pos <= len(p); pos++ {
			q := append(append(append([]int{}, p[:pos]...), n-1), p[pos:]...)
			out = append(out, q)
		}
	}
	return out
}

func shuffled(c *common.Ctx, l []string) []string {
	out := append([]string{}, l...)
	c.Rand.Shuffle(len(out), func(i, j int) { out[i], out[j] = out[j], out[i] })
	return out
}

// fill gives a statement its level configuration, trust stores and identities.
func fill(c *common.Ctx, s *Stmt, id int, cfg levelCfg) {
	s.Level, s.Override, s.verifyTimestamp = cfg.level, cfg.override, cfg.ts
	if cfg.level == "skip" {
		s.Stores, s.Identities = []string{}, []string{}
		return
	}
	s.Stores = []string{fmt.Sprintf("ca:store-s%d", id)}
	switch c.Rand.Intn(3) {
	case 1:
		s.Stores = append(s.Stores, fmt.Sprintf("ca:extra-s%d", id))
	case 2:
		s.Stores = append([]string{fmt.Sprintf("signingAuthority:sa-s%d", id)}, s.Stores...)
	}
	if c.Rand.Intn(4) == 0 {
		s.Identities = []string{"*"}
	} else {
		s.Identities = []string{leafIdentity, fmt.Sprintf("x509.subject: C=US, ST=WA, O=Notary, CN=only-s%d", id)}
		if c.Rand.Intn(2) == 0 {
			s.Identities[0], s.Identities[1] = s.Identities[1], s.Identities[0]
		}
	}
}

func pickCfgs(c *common.Ctx, n int, noSkipAt int) []levelCfg {
	for {
		idx := c.Rand.Perm(len(levelCfgs))[:n]
		ok := true
		var seen []trustpolicy.VerificationLevel
		for k, i := range idx {
			if k == noSkipAt && levelCfgs[i].level == "skip" {
				ok = false
			}
			// pairwise different EFFECTIVE levels (a nil and an empty override give the same one)
			e, _ := effLevel(sigVerification(Stmt{Level: levelCfgs[i].level, Override: levelCfgs[i].override}))
			for _, o := range seen {
				if reflect.DeepEqual(o, e) {
					ok = false
				}
			}
			seen = append(seen, e)
		}
		if ok {
			out := make([]levelCfg, n)
			for k, i := range idx {
				out[k] = levelCfgs[i]
			}
			return out
		}
	}
}

// genOCIDoc draws a valid document: k statements, an optional wildcard statement, every scope
// of the alphabet given to at most one statement.
func genOCIDoc(c *common.Ctx, k int, wild bool) []Stmt {
	for {
		stmts := make([]Stmt, k)
		for i := range stmts {
			stmts[i] = Stmt{Name: fmt.Sprintf("p%d", i), Scopes: []string{}}
		}
		w := -1
		if wild {
			w = c.Rand.Intn(k)
			stmts[w].Scopes = []string{"*"}
		}
		if !(wild && k == 1) {
			for _, sc := range shuffled(c, docAlphabet) {
				if c.Rand.Intn(3) == 0 {
					continue // not listed anywhere
				}
				j := c.Rand.Intn(k)
				if j == w {
					continue
				}
				stmts[j].Scopes = append(stmts[j].Scopes, sc)
			}
		}
		ok := true
		for _, s := range stmts {
			if len(s.Scopes) == 0 {
				ok = false
			}
		}
		if !ok {
			continue
		}
		cfgs := pickCfgs(c, k, -1)
		for i := range stmts {
			fill(c, &stmts[i], i, cfgs[i])
		}
		return stmts
	}
}

func mutateText(c *common.Ctx, s string) string {
	if len(s) == 0 {
		return "x"
	}
	i := c.Rand.Intn(len(s))
	switch c.Rand.Intn(5) {
	case 0: // drop a character
		return s[:i] + s[i+1:]
	case 1: // double a character
		return s[:i] + s[i:i+1] + s[i:]
	case 2: // change the case of a character
		ch := s[i : i+1]
		if up := strings.ToUpper(ch); up != ch {
			return s[:i] + up + s[i+1:]
		}
		return s[:i] + strings.ToLower(ch) + s[i+1:]
	case 3: // insert a character
		return s[:i] + string("a/.:-_@*"[c.Rand.Intn(8)]) + s[i:]
	default: // truncate
		return s[:i]
	}
}

func ociQueries(c *common.Ctx, stmts []Stmt) []string {
	var qs []string
	for _, sc := range scopeAlphabet { // listed and unlisted paths, each a near miss of the others
		qs = append(qs, sc+dg)
	}
	qs = append(qs,
		"other.example/app"+dg,               // unlisted registry
		"registry.example/other"+dg,          // unlisted repository
		"registry.example/app/sub/x"+dg,      // extension of a listed path
		"registry.example/a"+dg,              // prefix
		"registry.example"+dg,                // registry only (malformed)
		"registry.example/"+dg,               // empty repository
		"registry.example/app/"+dg,           // trailing slash
		"example/app"+dg,                     // suffix of the path
		"Registry.Example/app"+dg,            // case variant of the domain (a different, valid path)
		"registry.example/APP"+dg,            // case variant of the repository (malformed)
		"registry.example/app:v1",            // tag only
		"registry.example/app:v1"+dg,         // tag and digest
		"registry.example:5000/app:v1"+dg,    // port, tag and digest
		"registry.example/app",               // neither tag nor digest
		"registry.example/app@",              // empty digest
		"registry.example/app@sha256:abc"+dg, // two '@'
		"registry.example/app@"+dg,           // path ends with '@'
		"",                                   // empty
		"@sha256:"+hex64,                     // missing repository
		"*"+dg,                               // the wildcard as a path
		"registry.example/*"+dg,              // a wildcard inside a path
		" registry.example/app"+dg,           // leading blank
		"registry.example/app "+dg,           // trailing blank
		"https://registry.example/app"+dg,    // scheme
	)
	// random one-edit variants of listed scopes and of alphabet scopes
	var listed []string
	for _, s := range stmts {
		for _, sc := range s.Scopes {
			if sc != "*" {
				listed = append(listed, sc)
			}
		}
	}
	for n := 0; n < 3; n++ {
		base := scopeAlphabet[c.Rand.Intn(len(scopeAlphabet))]
		if len(listed) > 0 && c.Rand.Intn(3) != 0 {
			base = listed[c.Rand.Intn(len(listed))]
		}
		qs = append(qs, mutateText(c, base)+dg)
	}
	return qs
}

var blobNames = []string{"blob-policy", "blob-policy2", "Blob-policy", "blob", "blob-policy ", " ", "*"}

func genBlobDoc(c *common.Ctx, k int, global bool) []Stmt {
	names := shuffled(c, blobNames)[:k]
	stmts := make([]Stmt, k)
	g := -1
	if global {
		g = c.Rand.Intn(k)
	}
	cfgs := pickCfgs(c, k, g)
	for i := range stmts {
		stmts[i] = Stmt{Name: names[i], Scopes: []string{}, IsGlobal: i == g}
		fill(c, &stmts[i], i, cfgs[i])
	}
	return stmts
}

func blobQueries(c *common.Ctx, stmts []Stmt) []string {
	qs := append([]string{}, blobNames...)
	qs = append(qs, "", "  ", "\t", "blob-polic", "blob-policy-x", "BLOB-POLICY", "blob-policy\n", "lob-policy")
	for n := 0; n < 2; n++ {
		qs = append(qs, mutateText(c, stmts[c.Rand.Intn(len(stmts))].Name))
	}
	return qs
}

// cases are generated sequentially (all randomness from c.Rand), executed by a pool of
// workers (every case has its own documents, verifier and trust store) and emitted in
// generation order.
type job struct {
	in        Input
	pi        int
	realEvery int
	label     string // what the generator intended: "unique" or the uniqueness rule it broke
}

func (j job) real(q int) bool { return j.pi == 0 || (q+j.pi)%j.realEvery == 0 }

var pending []job

func flush(c *common.Ctx) {
	results := make([]Obs, len(pending))
	var wg sync.WaitGroup
	next := int64(-1)
	for w := 0; w < runtime.GOMAXPROCS(0); w++ {
		wg.Add(1)
		go func() {
			defer wg.Done()
			for {
				k := int(atomic.AddInt64(&next, 1))
				if k >= len(pending) {
					return
				}
				results[k] = runCase(pending[k].in, pending[k].real)
			}
		}()
	}
	wg.Wait()
	for k, j := range pending {
		in, o, kind := j.in, results[k], j.in.Kind
		c.Emit(in, o)
		c.Count("kind=" + kind)
		c.Count(fmt.Sprintf("document=%s validated=%v verifierAccepts=%v", j.label, o.Validated, o.VerifierAccepts))
		c.Count("history=" + in.History)
		for _, st := range in.Stmts {
			switch {
			case st.Override == nil:
				c.Count("statement.override=nil")
			case len(*st.Override) == 0:
				c.Count("statement.override=empty-non-nil")
			default:
				c.Count("statement.override=non-empty")
			}
		}
		c.Count(fmt.Sprintf("%s.statements=%d", kind, len(in.Stmts)))
		if len(o.Queries) > 0 {
			for q := range in.Queries {
				if j.real(q) {
					c.Count("verified-with-genuine-envelope")
				}
			}
		}
		for _, q := range o.Queries {
			c.Count("query")
			switch {
			case q.Selected != nil:
				c.Count(kind + ".outcome=selected")
			case q.RefRejected:
				c.Count(kind + ".outcome=reference-refused")
			default:
				c.Count(kind + ".outcome=no-applicable-statement")
			}
			if strings.HasPrefix(q.ViaVerify, other) {
				c.Count("verify=other")
			}
		}
	}
	pending = pending[:0]
}

// companions draws, for a document of the given kind, a valid and a non-unique document of the OTHER kind
func companions(c *common.Ctx, kind string) (valid, bad []Stmt, badLabel string) {
	if kind == "oci" {
		valid = genBlobDoc(c, 1+c.Rand.Intn(3), c.Rand.Intn(2) == 0)
		badLabel = blobDefects[c.Rand.Intn(len(blobDefects))]
		bad = genBrokenBlobDoc(c, 2+c.Rand.Intn(2), badLabel)
		return
	}
	valid = genOCIDoc(c, 1+c.Rand.Intn(3), c.Rand.Intn(2) == 0)
	badLabel = ociDefects[c.Rand.Intn(len(ociDefects))]
	k := 2 + c.Rand.Intn(2)
	if badLabel == "three-wildcard-statements" {
		k = 3
	}
	bad = genBrokenOCIDoc(c, k, badLabel)
	return
}

// Docker Hub style and other registry hosts for the registry entry point
var hubAlphabet = []string{
	"docker.io/library/app",
	"docker.io/acme/app",
	"index.docker.io/library/app",
	"registry-1.docker.io/library/app",
	"ghcr.io/acme/app",
	"registry.example/app",
	"REGISTRY.example/app",
	"localhost:5000/a/b",
}

// registryRefs: digest references (to the artifact the fake repository holds) for the listed scopes and
// the hub alphabet, restricted to what the registry client's own parser accepts
func registryRefs(stmts []Stmt) []string {
	seen := map[string]bool{}
	out := []string{}
	add := func(sc string) {
		if sc == "*" || seen[sc] {
			return
		}
		seen[sc] = true
		ref := sc + "@" + getWorld().target.Digest.String()
		if _, err := orasRegistry.ParseReference(ref); err == nil {
			out = append(out, ref)
		}
	}
	for _, s := range stmts {
		for _, sc := range s.Scopes {
			add(sc)
		}
	}
	for _, sc := range hubAlphabet {
		add(sc)
	}
	return out
}

func emitAllPerms(c *common.Ctx, kind, label string, stmts []Stmt, queries []string, realEvery int) {
	validComp, badComp, badLabel := companions(c, kind)
	regq := []string{}
	if kind == "oci" {
		regq = registryRefs(stmts)
	}
	for pi, p := range perms(len(stmts)) {
		in := Input{Kind: kind, Stmts: make([]Stmt, len(stmts)), Queries: queries, RegistryQueries: []string{},
			History: []string{"validated", "unvalidated", "validated,in-code", "unvalidated,in-code"}[(pi+len(pending))%4]}
		for i, j := range p {
			in.Stmts[i] = stmts[j]
		}
		lab := label
		// the verifier is configured with this document alone, with a valid document of the other kind as
		// well, or with one that breaks a uniqueness rule (then there must be no verifier)
		switch (pi + len(stmts)) % 3 {
		case 1:
			in.Companion = &validComp
			lab += "+companion"
		case 2:
			if label == "unique" {
				in.Companion = &badComp
				lab += "+companion:" + badLabel
			} else {
				in.Companion = &validComp
				lab += "+companion"
			}
		}
		// the registry entry point on the first two permutations
		if pi < 2 {
			in.RegistryQueries = regq
		}
		// a genuine envelope on the first permutation for every query, otherwise on a rotating sample
		pending = append(pending, job{in: in, pi: pi, realEvery: realEvery, label: lab})
	}
	if len(pending) >= 1024 {
		flush(c)
	}
}

// ---- documents that break one uniqueness rule (everything else stays valid) ---------------------

var ociDefects = []string{"two-wildcard-statements", "three-wildcard-statements", "scope-in-two-statements",
	"scope-twice-in-one-statement", "duplicate-statement-name", "wildcard-next-to-another-scope"}

// breakOCI turns a valid document into one that violates exactly the named rule.
func breakOCI(c *common.Ctx, stmts []Stmt, defect string) ([]Stmt, bool) {
	k := len(stmts)
	var wild, plain []int
	for i, s := range stmts {
		if len(s.Scopes) == 1 && s.Scopes[0] == "*" {
			wild = append(wild, i)
		} else {
			plain = append(plain, i)
		}
	}
	pick := func(l []int) int { return l[c.Rand.Intn(len(l))] }
	switch defect {
	case "two-wildcard-statements", "three-wildcard-statements":
		want := 2
		if defect == "three-wildcard-statements" {
			want = 3
		}
		if k < want {
			return nil, false
		}
		for len(wild) < want && len(plain) > 0 {
			j := c.Rand.Intn(len(plain))
			stmts[plain[j]].Scopes = []string{"*"}
			wild = append(wild, plain[j])
			plain = append(plain[:j], plain[j+1:]...)
		}
		return stmts, len(wild) >= want
	case "scope-in-two-statements":
		if len(plain) < 2 {
			return nil, false
		}
		a := pick(plain)
		b := pick(plain)
		for b == a {
			b = pick(plain)
		}
		sc := stmts[a].Scopes[c.Rand.Intn(len(stmts[a].Scopes))]
		pos := c.Rand.Intn(len(stmts[b].Scopes) + 1)
		stmts[b].Scopes = append(append(append([]string{}, stmts[b].Scopes[:pos]...), sc), stmts[b].Scopes[pos:]...)
		return stmts, true
	case "scope-twice-in-one-statement":
		if len(plain) < 1 {
			return nil, false
		}
		a := pick(plain)
		stmts[a].Scopes = append(stmts[a].Scopes, stmts[a].Scopes[c.Rand.Intn(len(stmts[a].Scopes))])
		return stmts, true
	case "duplicate-statement-name":
		if k < 2 {
			return nil, false
		}
		a := c.Rand.Intn(k)
		b := c.Rand.Intn(k)
		for b == a {
			b = c.Rand.Intn(k)
		}
		stmts[b].Name = stmts[a].Name
		return stmts, true
	default: // wildcard-next-to-another-scope
		if len(plain) < 1 || len(wild) > 0 {
			return nil, false
		}
		a := pick(plain)
		if c.Rand.Intn(2) == 0 {
			stmts[a].Scopes = append([]string{"*"}, stmts[a].Scopes...)
		} else {
			stmts[a].Scopes = append(stmts[a].Scopes, "*")
		}
		return stmts, true
	}
}

func genBrokenOCIDoc(c *common.Ctx, k int, defect string) []Stmt {
	for {
		stmts, ok := breakOCI(c, genOCIDoc(c, k, c.Rand.Intn(2) == 0), defect)
		if ok {
			return stmts
		}
	}
}

var blobDefects = []string{"two-global-statements", "duplicate-statement-name"}

func genBrokenBlobDoc(c *common.Ctx, k int, defect string) []Stmt {
	for {
		stmts := genBlobDoc(c, k, true)
		a := c.Rand.Intn(k)
		b := c.Rand.Intn(k)
		if a == b {
			continue
		}
		if defect == "two-global-statements" {
			g := -1
			for i, s := range stmts {
				if s.IsGlobal {
					g = i
				}
			}
			o := a
			if o == g {
				o = b
			}
			if stmts[o].Level == "skip" {
				continue // a global statement must not be skip: that is another rule (C09)
			}
			stmts[o].IsGlobal = true
		} else {
			stmts[b].Name = stmts[a].Name
		}
		return stmts
	}
}

// ---- histories: validate -> (query) -> edit into another valid document -> select ----------------

func cloneStmts(l []Stmt) []Stmt {
	out := make([]Stmt, len(l))
	for i, s := range l {
		out[i] = s
		out[i].Scopes = strs(s.Scopes)
		out[i].Stores = strs(s.Stores)
		out[i].Identities = strs(s.Identities)
	}
	return out
}

func unusedCfg(c *common.Ctx, stmts []Stmt, allowSkip bool) levelCfg {
	for {
		cfg := levelCfgs[c.Rand.Intn(len(levelCfgs))]
		if cfg.level == "skip" && !allowSkip {
			continue
		}
		probe := Stmt{Level: cfg.level, Override: cfg.override}
		pe, _ := effLevel(sigVerification(probe))
		clash := false
		for _, s := range stmts {
			if e, ok := effLevel(sigVerification(s)); ok && reflect.DeepEqual(e, pe) {
				clash = true
			}
		}
		if !clash {
			return cfg
		}
	}
}

var ociEdits = []string{"reorder", "move-scope", "append-statement", "remove-statement", "swap-scope-sets",
	"add-scope", "drop-scope", "swap-names", "unrelated"}

// editOCI derives another VALID document from a valid one.
func editOCI(c *common.Ctx, before []Stmt, kind string) ([]Stmt, bool) {
	a := cloneStmts(before)
	k := len(a)
	var plain []int
	used := map[string]bool{}
	for i, s := range a {
		if !(len(s.Scopes) == 1 && s.Scopes[0] == "*") {
			plain = append(plain, i)
		}
		for _, sc := range s.Scopes {
			used[sc] = true
		}
	}
	var free []string
	for _, sc := range scopeAlphabet {
		if !used[sc] {
			free = append(free, sc)
		}
	}
	two := func() (int, int) {
		x := c.Rand.Intn(k)
		y := c.Rand.Intn(k - 1)
		if y >= x {
			y++
		}
		return x, y
	}
	switch kind {
	case "reorder":
		if k < 2 {
			return nil, false
		}
		ps := perms(k)
		p := ps[1+c.Rand.Intn(len(ps)-1)]
		identity := true
		out := make([]Stmt, k)
		for i, j := range p {
			out[i] = a[j]
			if i != j {
				identity = false
			}
		}
		return out, !identity
	case "move-scope":
		var rich []int
		for _, i := range plain {
			if len(a[i].Scopes) >= 2 {
				rich = append(rich, i)
			}
		}
		if len(rich) == 0 || len(plain) < 2 {
			return nil, false
		}
		from := rich[c.Rand.Intn(len(rich))]
		to := plain[c.Rand.Intn(len(plain))]
		if to == from {
			return nil, false
		}
		j := c.Rand.Intn(len(a[from].Scopes))
		sc := a[from].Scopes[j]
		a[from].Scopes = append(a[from].Scopes[:j], a[from].Scopes[j+1:]...)
		a[to].Scopes = append(a[to].Scopes, sc)
		return a, true
	case "append-statement":
		if k >= 4 || len(free) == 0 {
			return nil, false
		}
		n := Stmt{Name: fmt.Sprintf("p%d", k+4), Scopes: []string{free[c.Rand.Intn(len(free))]}}
		fill(c, &n, k+4, unusedCfg(c, a, true))
		pos := c.Rand.Intn(k + 1)
		if c.Rand.Intn(2) == 0 {
			pos = k
		}
		return append(append(append([]Stmt{}, a[:pos]...), n), a[pos:]...), true
	case "remove-statement":
		if k < 2 {
			return nil, false
		}
		j := c.Rand.Intn(k)
		return append(a[:j], a[j+1:]...), true
	case "swap-scope-sets":
		if k < 2 {
			return nil, false
		}
		x, y := two()
		a[x].Scopes, a[y].Scopes = a[y].Scopes, a[x].Scopes
		return a, true
	case "add-scope":
		if len(plain) == 0 || len(free) == 0 {
			return nil, false
		}
		i := plain[c.Rand.Intn(len(plain))]
		a[i].Scopes = append(a[i].Scopes, free[c.Rand.Intn(len(free))])
		return a, true
	case "drop-scope":
		var rich []int
		for _, i := range plain {
			if len(a[i].Scopes) >= 2 {
				rich = append(rich, i)
			}
		}
		if len(rich) == 0 {
			return nil, false
		}
		i := rich[c.Rand.Intn(len(rich))]
		j := c.Rand.Intn(len(a[i].Scopes))
		a[i].Scopes = append(a[i].Scopes[:j], a[i].Scopes[j+1:]...)
		return a, true
	case "swap-names":
		if k < 2 {
			return nil, false
		}
		x, y := two()
		a[x].Name, a[y].Name = a[y].Name, a[x].Name
		return a, true
	default: // unrelated
		return genOCIDoc(c, 1+c.Rand.Intn(4), c.Rand.Intn(2) == 0), true
	}
}

var blobEdits = []string{"reorder", "swap-names", "rename", "move-global", "append-statement", "remove-statement", "unrelated"}

func editBlob(c *common.Ctx, before []Stmt, kind string) ([]Stmt, bool) {
	a := cloneStmts(before)
	k := len(a)
	used := map[string]bool{}
	g := -1
	for i, s := range a {
		used[s.Name] = true
		if s.IsGlobal {
			g = i
		}
	}
	var free []string
	for _, n := range blobNames {
		if !used[n] {
			free = append(free, n)
		}
	}
	switch kind {
	case "reorder":
		if k < 2 {
			return nil, false
		}
		ps := perms(k)
		p := ps[1+c.Rand.Intn(len(ps)-1)]
		out := make([]Stmt, k)
		identity := true
		for i, j := range p {
			out[i] = a[j]
			if i != j {
				identity = false
			}
		}
		return out, !identity
	case "swap-names":
		if k < 2 {
			return nil, false
		}
		x := c.Rand.Intn(k)
		y := (x + 1 + c.Rand.Intn(k-1)) % k
		a[x].Name, a[y].Name = a[y].Name, a[x].Name
		return a, true
	case "rename":
		if len(free) == 0 {
			return nil, false
		}
		a[c.Rand.Intn(k)].Name = free[c.Rand.Intn(len(free))]
		return a, true
	case "move-global":
		var cand []int
		for i, s := range a {
			if i != g && s.Level != "skip" {
				cand = append(cand, i)
			}
		}
		if len(cand) == 0 {
			return nil, false
		}
		if g >= 0 {
			a[g].IsGlobal = false
		}
		a[cand[c.Rand.Intn(len(cand))]].IsGlobal = true
		return a, true
	case "append-statement":
		if k >= 4 || len(free) == 0 {
			return nil, false
		}
		n := Stmt{Name: free[c.Rand.Intn(len(free))], Scopes: []string{}}
		fill(c, &n, k+4, unusedCfg(c, a, true))
		pos := c.Rand.Intn(k + 1)
		return append(append(append([]Stmt{}, a[:pos]...), n), a[pos:]...), true
	case "remove-statement":
		if k < 2 {
			return nil, false
		}
		j := c.Rand.Intn(k)
		return append(a[:j], a[j+1:]...), true
	default:
		return genBlobDoc(c, 1+c.Rand.Intn(4), c.Rand.Intn(3) != 0), true
	}
}

// the histories every (before, after) pair goes through
var editHistories = []string{
	"validated,edit-inplace",
	"validated,edit-assign",
	"validated,warm,edit-inplace",
	"validated,warm,edit-assign",
	"validated,edit-inplace,revalidated",
	"validated,copy,edit-assign",
	"validated,warm,copy,edit-inplace",
	"unvalidated,warm,edit-assign",
	"validated,in-code,edit-inplace",
	"validated,in-code,warm,copy,edit-assign",
}

func emitHistories(c *common.Ctx, kind, label string, before, after []Stmt, queries []string, realEvery int) {
	b := cloneStmts(before)
	for hi, h := range editHistories {
		in := Input{Kind: kind, Stmts: after, Queries: queries, History: h, Before: &b, RegistryQueries: []string{}}
		if kind == "oci" && hi%3 == 0 {
			in.RegistryQueries = registryRefs(after)
		}
		pending = append(pending, job{in: in, pi: hi + 1, realEvery: realEvery, label: "edited:" + label})
	}
	// a struct copy of a validated document whose content was not changed
	in := Input{Kind: kind, Stmts: after, Queries: queries, History: "validated,warm,copy", RegistryQueries: []string{}}
	pending = append(pending, job{in: in, pi: 1, realEvery: realEvery, label: "copied"})
	if len(pending) >= 1024 {
		flush(c)
	}
}

// Run: documents x all permutations x query battery.
func Run(c *common.Ctx) error {
	nOCI, nBlob, nBadOCI, nBadBlob, nEditOCI, nEditBlob, realEvery := 400, 80, 120, 30, 180, 56, 7
	nHub := 60
	getWorld() // before the workers start
	docAlphabet = scopeAlphabet
	pending = nil
	if c.Thorough() {
		nHub = 500
		nOCI, nBlob, nBadOCI, nBadBlob, nEditOCI, nEditBlob, realEvery = 3200, 800, 1200, 240, 1350, 350, 5
	}
	// fixed documents that pin the near-miss shapes whatever the seed
	fixed := [][]Stmt{
		{{Name: "p0", Scopes: []string{"registry.example/app"}}, {Name: "p1", Scopes: []string{"registry.example/app/sub"}},
			{Name: "p2", Scopes: []string{"registry.example/app2", "registry.example/ap"}}, {Name: "p3", Scopes: []string{"*"}}},
		{{Name: "p0", Scopes: []string{"registry.example/app", "registry.example:5000/app"}}, {Name: "p1", Scopes: []string{"REGISTRY.example/app"}},
			{Name: "p2", Scopes: []string{"localhost:5000/a/b"}}},
		{{Name: "p0", Scopes: []string{"*"}}},
		{{Name: "p0", Scopes: []string{"registry.example/app/sub"}}},
		{{Name: "p0", Scopes: []string{"*"}}, {Name: "p1", Scopes: []string{"registry.example/app"}}},
	}
	for _, stmts := range fixed {
		cfgs := pickCfgs(c, len(stmts), -1)
		for i := range stmts {
			fill(c, &stmts[i], i, cfgs[i])
		}
		emitAllPerms(c, "oci", "unique", stmts, ociQueries(c, stmts), realEvery)
	}
	// fixed documents that break a uniqueness rule
	fixedBad := []struct {
		label string
		stmts []Stmt
	}{
		{"two-wildcard-statements", []Stmt{{Name: "p0", Scopes: []string{"*"}}, {Name: "p1", Scopes: []string{"*"}}}},
		{"two-wildcard-statements", []Stmt{{Name: "p0", Scopes: []string{"*"}}, {Name: "p1", Scopes: []string{"registry.example/app"}}, {Name: "p2", Scopes: []string{"*"}}}},
		{"scope-in-two-statements", []Stmt{{Name: "p0", Scopes: []string{"registry.example/app"}}, {Name: "p1", Scopes: []string{"registry.example/app2", "registry.example/app"}}}},
		{"scope-twice-in-one-statement", []Stmt{{Name: "p0", Scopes: []string{"registry.example/app", "registry.example/app"}}}},
		{"duplicate-statement-name", []Stmt{{Name: "p0", Scopes: []string{"registry.example/app"}}, {Name: "p0", Scopes: []string{"registry.example/app2"}}}},
		{"wildcard-next-to-another-scope", []Stmt{{Name: "p0", Scopes: []string{"*", "registry.example/app"}}, {Name: "p1", Scopes: []string{"registry.example/app2"}}}},
	}
	for _, fb := range fixedBad {
		cfgs := pickCfgs(c, len(fb.stmts), -1)
		for i := range fb.stmts {
			fill(c, &fb.stmts[i], i, cfgs[i])
		}
		emitAllPerms(c, "oci", fb.label, fb.stmts, ociQueries(c, fb.stmts), realEvery)
	}
	for n := 0; n < nBadOCI; n++ {
		defect := ociDefects[n%len(ociDefects)]
		k := 2 + c.Rand.Intn(3)
		if defect == "three-wildcard-statements" {
			k = 3 + c.Rand.Intn(2)
		}
		stmts := genBrokenOCIDoc(c, k, defect)
		emitAllPerms(c, "oci", defect, stmts, ociQueries(c, stmts), realEvery)
	}
	for n := 0; n < nBadBlob; n++ {
		defect := blobDefects[n%len(blobDefects)]
		stmts := genBrokenBlobDoc(c, 2+c.Rand.Intn(3), defect)
		emitAllPerms(c, "blob", defect, stmts, blobQueries(c, stmts), realEvery)
	}
	// histories on one document object: built and validated with one valid content, edited into
	// another valid content, then queried (queries chosen for the union of both contents)
	for n := 0; n < nEditOCI; n++ {
		kind := ociEdits[n%len(ociEdits)]
		for {
			before := genOCIDoc(c, 1+c.Rand.Intn(4), c.Rand.Intn(2) == 0)
			after, ok := editOCI(c, before, kind)
			if !ok {
				continue
			}
			emitHistories(c, "oci", kind, before, after, ociQueries(c, append(cloneStmts(before), after...)), realEvery)
			break
		}
	}
	for n := 0; n < nEditBlob; n++ {
		kind := blobEdits[n%len(blobEdits)]
		for {
			before := genBlobDoc(c, 1+c.Rand.Intn(4), c.Rand.Intn(3) != 0)
			after, ok := editBlob(c, before, kind)
			if !ok {
				continue
			}
			emitHistories(c, "blob", kind, before, after, blobQueries(c, append(cloneStmts(before), after...)), realEvery)
			break
		}
	}
	// documents over Docker Hub style and other registry hosts: the registry entry point must apply, to the
	// skip check and to every signature, the statement scoped to the repository AS WRITTEN in the reference
	docAlphabet = hubAlphabet
	for n := 0; n < nHub; n++ {
		stmts := genOCIDoc(c, 1+n%4, n%3 != 0)
		emitAllPerms(c, "oci", "unique", stmts, ociQueries(c, stmts), realEvery)
	}
	docAlphabet = scopeAlphabet
	for n := 0; n < nOCI; n++ {
		k := 1 + n%4
		stmts := genOCIDoc(c, k, c.Rand.Intn(2) == 0)
		emitAllPerms(c, "oci", "unique", stmts, ociQueries(c, stmts), realEvery)
	}
	for n := 0; n < nBlob; n++ {
		k := 1 + n%4
		stmts := genBlobDoc(c, k, c.Rand.Intn(3) != 0)
		emitAllPerms(c, "blob", "unique", stmts, blobQueries(c, stmts), realEvery)
	}
	flush(c)
	c.Note("histories on ONE document object: %d OCI + %d blob (before, after) pairs of valid contents (edits: %v / %v), each through %d histories %v plus an unedited struct copy - the object is built with `before`, validated (Validate() for the direct object, NewVerifierWithOptions for the verifier's, which keeps the pointer), optionally queried once, optionally struct-copied, edited in place (field by field, element-wise, truncate/append) or by assigning the exported slice, optionally re-validated, then every query runs against it; the model ignores the history. ", nEditOCI, nEditBlob, ociEdits, blobEdits, len(editHistories), editHistories)
	c.Note("documents breaking exactly one uniqueness rule (two / three wildcard statements, a scope in two statements, a scope twice in one statement, duplicate statement names, wildcard next to another scope; blob: two global statements, duplicate names): %d fixed + %d random OCI, %d random blob, all permutations - Validate() and the verifier constructor are OBSERVED (validated / verifierAccepts), and if either accepts such a document the full selection experiment runs on it; every selection is repeated on the reversed document. ", len(fixedBad), nBadOCI, nBadBlob)
	c.Note("documents satisfying the uniqueness rules (Validate() observed, not assumed): %d fixed + %d random OCI documents of 1..4 statements over a %d-scope near-miss alphabet with/without a wildcard statement, %d random blob documents of 1..4 statements with/without a global one; every document in ALL permutations of its statements; per case %d+ OCI references (listed, unlisted, prefix/extension, case variants, tag, tag+digest, no digest, two '@', wildcard paths, blanks, random one-edit variants) or %d+ blob names; each query through the document selection, verifier.Verify/SkipVerify/VerifyBlob (garbage envelope always, genuine envelope on the first permutation and a rotating sample), then reflection-mutation of the handed-out copy and re-selection",
		len(fixed), nOCI, len(scopeAlphabet), nBlob, 31+3, len(blobNames)+8+2)
	return nil
}

// Package c13 materialises real trust-store directory trees (valid and broken in every way the
// property's quantifier lists), loads them through truststore.NewX509TrustStore(dir.NewSysFS(root))
// .GetCertificates and reports ok / the returned certificates as ids of a minted pool. A second
// stream of cases exercises file.IsValidFileName alone against the Lean recogniser.
package c13

import (
	"bytes"
	"context"
	"crypto"
	"crypto/md5"
	"crypto/rand"
	"crypto/rsa"
	"crypto/x509"
	"crypto/x509/pkix"
	"encoding/asn1"
	"encoding/json"
	"encoding/pem"
	"fmt"
	"math/big"
	"os"
	"path/filepath"
	"strings"
	"sync"
	"sync/atomic"
	"time"

	"github.com/notaryproject/notation-go/dir"
	"github.com/notaryproject/notation-go/internal/file"
	"github.com/notaryproject/notation-go/verifier/truststore"
	"github.com/notaryproject/notation-go/xverif/common"
)

// ---- JSON shapes (Lean: NotationModel.C13.Input / Obs) -------------------------------------

type CertFlags struct {
	ID           int  `json:"id"`
	IsCA         bool `json:"isCA"`
	SelfSig      bool `json:"selfSig"`
	SignOk       bool `json:"signOk"`
	SubjEqIssuer bool `json:"subjEqIssuer"`
	WeakSig      bool `json:"weakSig"`
}

type Entry struct {
	Name    string      `json:"name"`
	Kind    string      `json:"kind"` // file | dir | symlink
	ParseOk bool        `json:"parseOk"`
	Certs   []CertFlags `json:"certs"`
	Enc     string      `json:"enc"`
}

type Input struct {
	Op        string  `json:"op"` // load | nameCheck | storePath
	StoreType string  `json:"storeType"`
	Name      string  `json:"name"`
	DirKind   string  `json:"dirKind"` // missing | dir | symlinkToDir | file
	Entries   []Entry `json:"entries"`
	Decoys    bool    `json:"decoys"`
	Par       ParSpec `json:"par"`
	Ctx       CtxSpec `json:"ctx"`
}

// ParStore is another store under the same root that is loaded at the same time.
type ParStore struct {
	StoreType string  `json:"storeType"`
	Name      string  `json:"name"`
	Entries   []Entry `json:"entries"`
}

// ParSpec: Workers goroutines keep loading the store under test and Stores (storePath: keep
// computing their paths), Rounds times each, while the observation is taken.
type ParSpec struct {
	Stores  []ParStore
	Workers int
	Rounds  int
}

func (s ParSpec) MarshalJSON() ([]byte, error) {
	st := s.Stores
	if st == nil {
		st = []ParStore{}
	}
	for k := range st {
		if st[k].Entries == nil {
			st[k].Entries = []Entry{}
		}
	}
	return json.Marshal(struct {
		Stores  []ParStore `json:"stores"`
		Workers int        `json:"workers"`
		Rounds  int        `json:"rounds"`
	}{st, s.Workers, s.Rounds})
}

// CtxSpec says what the context handed to GetCertificates does during the call.
// Kind: background | endedBefore | endsAtPoll | timeout | cancelledAfter ("" = background).
type CtxSpec struct {
	Kind     string
	N        int  // endsAtPoll: number of polls that still see a live context; timeout / cancelledAfter: microseconds
	Deadline bool // the end is DeadlineExceeded (true) or Canceled (false)
}

func (s CtxSpec) MarshalJSON() ([]byte, error) {
	k := s.Kind
	if k == "" {
		k = "background"
	}
	return json.Marshal(struct {
		Kind     string `json:"kind"`
		N        int    `json:"n"`
		Deadline bool   `json:"deadline"`
	}{k, s.N, s.Deadline})
}

func (s CtxSpec) background() bool { return s.Kind == "" || s.Kind == "background" }

// pollCtx is a context that is live for its first `live` polls (calls of Err, Done or Deadline,
// from any goroutine) and ended from then on - so the end can be placed at every position of a
// load deterministically.
type pollCtx struct {
	mu     sync.Mutex
	live   int
	polls  int
	closed bool
	done   chan struct{}
	err    error
}

func (p *pollCtx) poll() bool {
	p.mu.Lock()
	defer p.mu.Unlock()
	p.polls++
	if p.polls > p.live && !p.closed {
		p.closed = true
		close(p.done)
	}
	return p.closed
}
func (p *pollCtx) Err() error {
	if p.poll() {
		return p.err
	}
	return nil
}
func (p *pollCtx) Done() <-chan struct{} { p.poll(); return p.done }
func (p *pollCtx) Deadline() (time.Time, bool) {
	ended := p.poll()
	if p.err != context.DeadlineExceeded {
		return time.Time{}, false
	}
	if ended {
		return time.Now().Add(-time.Second), true
	}
	return time.Now().Add(time.Hour), true
}
func (p *pollCtx) Value(any) any { return nil }

// makeCtx builds the context of a case; the returned function releases it.
func makeCtx(s CtxSpec) (context.Context, func()) {
	switch s.Kind {
	case "", "background":
		return context.Background(), func() {}
	case "endedBefore":
		if s.Deadline {
			return context.WithDeadline(context.Background(), time.Now().Add(-time.Minute))
		}
		ctx, cancel := context.WithCancel(context.Background())
		cancel()
		return ctx, cancel
	case "endsAtPoll":
		p := &pollCtx{live: s.N, done: make(chan struct{}), err: context.Canceled}
		if s.Deadline {
			p.err = context.DeadlineExceeded
		}
		return p, func() {}
	case "timeout":
		return context.WithTimeout(context.Background(), time.Duration(s.N)*time.Microsecond)
	case "cancelledAfter":
		ctx, cancel := context.WithCancel(context.Background())
		t := time.AfterFunc(time.Duration(s.N)*time.Microsecond, cancel)
		return ctx, func() { t.Stop(); cancel() }
	}
	panic("unknown context kind " + s.Kind)
}

type Obs struct {
	Ok    bool   `json:"ok"`
	Certs []int  `json:"certs"`
	Path  string `json:"path"`
}

const unknownCert = 999999

// ---- the certificate pool --------------------------------------------------------------------

type poolCert struct {
	flags CertFlags
	cert  *x509.Certificate
	class string
}

type world struct {
	fast   string     // scratch directory on tmpfs ("" when unavailable)
	pool   []poolCert // id = index
	decoys []poolCert // ids 900..
	byRaw  map[string]int
	byID   map[int]*x509.Certificate
}

// mint one certificate of the class (ca, certSign, selfKey, sameSubject):
// selfKey: signed with its own key; sameSubject: issuer name = subject name.
func mint(tag string, ca, certSign, selfKey, sameSubject bool) *x509.Certificate {
	subj := common.Name("c13 subject " + tag)
	ku := x509.KeyUsageDigitalSignature
	if ca && certSign {
		ku = x509.KeyUsageCertSign | x509.KeyUsageCRLSign
	}
	key := common.NewECKey()
	if selfKey && sameSubject {
		return common.MakeCert(common.CertOpts{Subject: subj, CA: ca, PathLen: -1, KeyUsage: ku, Key: key}).Cert
	}
	issuer := subj
	if !sameSubject {
		issuer = common.Name("c13 issuer " + tag)
	}
	parentKey := key
	if !selfKey {
		parentKey = common.NewECKey()
	}
	parent := common.MakeCert(common.CertOpts{Subject: issuer, CA: true, PathLen: -1, Key: parentKey})
	return common.MakeCert(common.CertOpts{Subject: subj, CA: ca, PathLen: -1, KeyUsage: ku, Key: key, Parent: parent}).Cert
}

// mintRaw builds a self-signed certificate directly from a template (shapes MakeCert cannot produce).
func mintRaw(t *x509.Certificate) *x509.Certificate {
	key := common.NewECKey()
	t.SerialNumber = big.NewInt(time.Now().UnixNano())
	t.NotBefore = time.Now().Add(-time.Hour)
	t.NotAfter = time.Now().Add(24 * time.Hour)
	der, err := x509.CreateCertificate(rand.Reader, t, t, key.Public(), key)
	if err != nil {
		panic(err)
	}
	c, err := x509.ParseCertificate(der)
	if err != nil {
		panic(err)
	}
	return c
}

// mintLegacy builds a certificate signed with a SHA-1 or MD5 based algorithm.
func mintLegacy(tag string, alg x509.SignatureAlgorithm, ca, selfKey, ownName bool, rsaOwn, rsaOther crypto.Signer) (*x509.Certificate, error) {
	var key, other crypto.Signer
	if alg == x509.ECDSAWithSHA1 {
		key, other = common.NewECKey(), common.NewECKey()
	} else {
		key, other = rsaOwn, rsaOther
	}
	createAlg := alg
	if alg == x509.MD5WithRSA {
		createAlg = x509.SHA256WithRSA // crypto/x509 refuses to sign with MD5: re-signed below
	}
	ku := x509.KeyUsageDigitalSignature
	if ca {
		ku = x509.KeyUsageCertSign | x509.KeyUsageCRLSign
	}
	t := &x509.Certificate{SerialNumber: big.NewInt(time.Now().UnixNano()), Subject: common.Name("c13 legacy " + tag),
		NotBefore: time.Now().Add(-time.Hour), NotAfter: time.Now().Add(24 * time.Hour), KeyUsage: ku,
		BasicConstraintsValid: true, IsCA: ca, MaxPathLen: -1, SignatureAlgorithm: createAlg}
	parent := *t
	if !ownName {
		parent.Subject = common.Name("c13 legacy issuer of " + tag)
	}
	signer := key
	if !selfKey {
		signer = other
	}
	der, err := x509.CreateCertificate(rand.Reader, t, &parent, key.Public(), signer)
	if err != nil {
		return nil, err
	}
	if alg == x509.MD5WithRSA {
		if der, err = resignMD5(der, signer.(*rsa.PrivateKey)); err != nil {
			return nil, err
		}
	}
	return x509.ParseCertificate(der)
}

// the ASN.1 shape of a certificate (as in crypto/x509), to replace the signature by hand
type tbsASN struct {
	Raw                asn1.RawContent
	Version            int `asn1:"optional,explicit,default:0,tag:0"`
	SerialNumber       *big.Int
	SignatureAlgorithm pkix.AlgorithmIdentifier
	Issuer             asn1.RawValue
	Validity           asn1.RawValue
	Subject            asn1.RawValue
	PublicKey          asn1.RawValue
	UniqueId           asn1.BitString   `asn1:"optional,tag:1"`
	SubjectUniqueId    asn1.BitString   `asn1:"optional,tag:2"`
	Extensions         []pkix.Extension `asn1:"omitempty,optional,explicit,tag:3"`
}
type certASN struct {
	TBS                tbsASN
	SignatureAlgorithm pkix.AlgorithmIdentifier
	SignatureValue     asn1.BitString
}

// resignMD5 replaces the signature of a certificate by an md5WithRSAEncryption one.
func resignMD5(der []byte, key *rsa.PrivateKey) ([]byte, error) {
	var c certASN
	if rest, err := asn1.Unmarshal(der, &c); err != nil || len(rest) != 0 {
		return nil, fmt.Errorf("resign: %v", err)
	}
	alg := pkix.AlgorithmIdentifier{Algorithm: asn1.ObjectIdentifier{1, 2, 840, 113549, 1, 1, 4}, Parameters: asn1.NullRawValue}
	c.TBS.Raw = nil
	c.TBS.SignatureAlgorithm = alg
	tbs, err := asn1.Marshal(c.TBS)
	if err != nil {
		return nil, err
	}
	h := md5.Sum(tbs)
	sig, err := rsa.SignPKCS1v15(rand.Reader, key, crypto.MD5, h[:])
	if err != nil {
		return nil, err
	}
	c.TBS.Raw = tbs
	c.SignatureAlgorithm = alg
	c.SignatureValue = asn1.BitString{Bytes: sig, BitLength: len(sig) * 8}
	return asn1.Marshal(c)
}

// measured recomputes the four flags from the minted certificate with the standard library
// only; used to make sure the pool is what it is declared to be.
func weakAlgorithm(a x509.SignatureAlgorithm) bool {
	switch a {
	case x509.MD2WithRSA, x509.MD5WithRSA, x509.SHA1WithRSA, x509.DSAWithSHA1, x509.ECDSAWithSHA1:
		return true
	}
	return false
}

func measured(c *x509.Certificate) (isCA, selfSig, signOk, subjEq, sigFromSelf bool) {
	isCA = c.IsCA
	selfSig = c.CheckSignature(c.SignatureAlgorithm, c.RawTBSCertificate, c.Signature) == nil
	signOk = !(c.Version == 3 && !c.BasicConstraintsValid || c.BasicConstraintsValid && !c.IsCA) &&
		!(c.KeyUsage != 0 && c.KeyUsage&x509.KeyUsageCertSign == 0)
	subjEq = bytes.Equal(c.RawSubject, c.RawIssuer)
	sigFromSelf = c.CheckSignatureFrom(c) == nil
	return
}

func buildWorld(c *common.Ctx) (*world, error) {
	w := &world{byRaw: map[string]int{}, byID: map[int]*x509.Certificate{}}
	add := func(class string, cert *x509.Certificate, isCA, selfSig, signOk, subjEq bool) error {
		weak := weakAlgorithm(cert.SignatureAlgorithm)
		a, b, s, d, from := measured(cert)
		if a != isCA || b != selfSig || s != signOk || d != subjEq || from != (signOk && selfSig && !weak) {
			return fmt.Errorf("pool certificate %s: declared (%v,%v,%v,%v) weak=%v but measured (%v,%v,%v,%v) CheckSignatureFrom(self)=%v",
				class, isCA, selfSig, signOk, subjEq, weak, a, b, s, d, from)
		}
		id := len(w.pool)
		w.pool = append(w.pool, poolCert{CertFlags{id, isCA, selfSig, signOk, subjEq, weak}, cert, class})
		w.byRaw[string(cert.Raw)] = id
		w.byID[id] = cert
		return nil
	}
	bools := []bool{true, false}
	for rep := 0; rep < 2; rep++ {
		for _, ca := range bools {
			for _, certSign := range bools {
				if !ca && certSign {
					continue
				}
				for _, selfKey := range bools {
					for _, same := range bools {
						class := fmt.Sprintf("ca=%v,certSign=%v,selfKey=%v,sameSubject=%v", ca, certSign, selfKey, same)
						cert := mint(fmt.Sprintf("%s #%d", class, rep), ca, certSign, selfKey, same)
						if err := add(class, cert, ca, selfKey, ca && certSign, same); err != nil {
							return nil, err
						}
					}
				}
			}
		}
	}
	// a self-signed CA without any key-usage extension: may sign certificates
	if err := add("root without key usage", mintRaw(&x509.Certificate{Subject: common.Name("c13 root no ku"),
		BasicConstraintsValid: true, IsCA: true, MaxPathLen: -1}), true, true, true, true); err != nil {
		return nil, err
	}
	// a self-signed v3 certificate without basic constraints: not a CA, may not sign certificates
	if err := add("self-signed without basic constraints", mintRaw(&x509.Certificate{Subject: common.Name("c13 no bc"),
		KeyUsage: x509.KeyUsageDigitalSignature}), false, true, false, true); err != nil {
		return nil, err
	}
	// an RSA root
	rsaRoot := common.MakeCert(common.CertOpts{Subject: common.Name("c13 rsa root"), CA: true, PathLen: -1,
		Key: common.PoolKey(c.CacheDir, "RSA-2048")}).Cert
	if err := add("rsa root", rsaRoot, true, true, true, true); err != nil {
		return nil, err
	}
	// a root and its successor after a key roll-over: different certificates, byte-identical subject;
	// and a re-issued intermediate with the subject of the first one
	for _, tag := range []string{"rolled-over root", "rolled-over root"} {
		if err := add(tag, mint(tag, true, true, true, true), true, true, true, true); err != nil {
			return nil, err
		}
	}
	if n := len(w.pool); !bytes.Equal(w.pool[n-1].cert.RawSubject, w.pool[n-2].cert.RawSubject) || bytes.Equal(w.pool[n-1].cert.Raw, w.pool[n-2].cert.Raw) {
		return nil, fmt.Errorf("the rolled-over roots do not share their subject")
	}
	// certificates signed with algorithms crypto/x509 no longer verifies in chains: SHA-1 (created
	// directly) and MD5 (re-signed by hand). selfKey: signed by the own key; all are issued to themselves
	// (issuer = subject) unless `issued`.
	rsaOwn, rsaOther := common.PoolKey(c.CacheDir, "RSA-2048"), common.PoolKey(c.CacheDir, "RSA-3072")
	type legacy struct {
		class            string
		alg              x509.SignatureAlgorithm
		ca, selfKey, own bool // own: issuer name = subject name
	}
	for _, l := range []legacy{
		{"sha1-ecdsa root", x509.ECDSAWithSHA1, true, true, true},
		{"sha1-rsa root", x509.SHA1WithRSA, true, true, true},
		{"sha1-ecdsa self-issued CA signed by another key (roll-over)", x509.ECDSAWithSHA1, true, false, true},
		{"sha1-rsa self-issued CA signed by another key (roll-over)", x509.SHA1WithRSA, true, false, true},
		{"sha1-ecdsa self-signed non-CA", x509.ECDSAWithSHA1, false, true, true},
		{"sha1-ecdsa intermediate CA", x509.ECDSAWithSHA1, true, false, false},
		{"md5-rsa root", x509.MD5WithRSA, true, true, true},
		{"md5-rsa self-issued CA signed by another key", x509.MD5WithRSA, true, false, true},
		{"md5-rsa self-signed non-CA", x509.MD5WithRSA, false, true, true},
	} {
		cert, err := mintLegacy(l.class, l.alg, l.ca, l.selfKey, l.own, rsaOwn, rsaOther)
		if err != nil {
			return nil, fmt.Errorf("legacy certificate %s: %w", l.class, err)
		}
		// CheckSignature still verifies SHA-1 signatures, but refuses MD5 ones
		selfSig := l.selfKey && l.alg != x509.MD5WithRSA
		if err := add(l.class, cert, l.ca, selfSig, l.ca, l.own); err != nil {
			return nil, err
		}
		if !weakAlgorithm(cert.SignatureAlgorithm) {
			return nil, fmt.Errorf("legacy certificate %s came out with algorithm %v", l.class, cert.SignatureAlgorithm)
		}
	}
	for k := 0; k < 3; k++ {
		cert := mint(fmt.Sprintf("decoy %d", k), true, true, true, true)
		id := 900 + k
		w.decoys = append(w.decoys, poolCert{CertFlags{id, true, true, true, true, false}, cert, "decoy"})
		w.byRaw[string(cert.Raw)] = id
		w.byID[id] = cert
	}
	return w, nil
}

// acceptableFor is used ONLY to bias the generator towards loadable stores; the verdict on
// every case comes from the Lean model and clauses.
func acceptableFor(storeType string, f CertFlags) bool {
	if !(f.IsCA || f.SelfSig) {
		return false
	}
	if storeType == "tsa" {
		return f.SelfSig && f.SignOk && f.SubjEqIssuer && !f.WeakSig
	}
	return true
}

func (w *world) split(storeType string) (good, bad []CertFlags) {
	for _, p := range w.pool {
		if acceptableFor(storeType, p.flags) {
			good = append(good, p.flags)
		} else {
			bad = append(bad, p.flags)
		}
	}
	return
}

// ---- concretisation -----------------------------------------------------------------------------

func (w *world) pemOf(cs []CertFlags) []byte {
	var out []byte
	for _, f := range cs {
		out = append(out, pem.EncodeToMemory(&pem.Block{Type: "CERTIFICATE", Bytes: w.byID[f.ID].Raw})...)
	}
	return out
}

func (w *world) derOf(cs []CertFlags) []byte {
	var out []byte
	for _, f := range cs {
		out = append(out, w.byID[f.ID].Raw...)
	}
	return out
}

// content of a regular-file entry
func (w *world) fileContent(e Entry) ([]byte, error) {
	if e.ParseOk {
		if len(e.Certs) == 0 {
			return []byte{}, nil // the only content ReadCertificateFile parses into zero certificates
		}
		switch e.Enc {
		case "pem":
			return w.pemOf(e.Certs), nil
		case "der":
			return w.derOf(e.Certs), nil
		case "pemNoise":
			out := []byte("# trusted roots\nsome leading text\n")
			for _, f := range e.Certs {
				out = append(out, w.pemOf([]CertFlags{f})...)
				out = append(out, []byte("subject: whatever\n\n")...)
			}
			return append(out, []byte("trailing \x01\x02 bytes")...), nil
		case "pemCRLF":
			return bytes.ReplaceAll(w.pemOf(e.Certs), []byte("\n"), []byte("\r\n")), nil
		}
		return nil, fmt.Errorf("unknown encoding %q of a parsable file", e.Enc)
	}
	switch e.Enc {
	case "garbage":
		return []byte("\x00\x01\x02 this is not a certificate \xfe\xff"), nil
	case "text":
		return []byte("hello world\n"), nil
	case "blank":
		return []byte("\n"), nil
	case "pemBadBody":
		return append(w.pemOf(e.Certs), pem.EncodeToMemory(&pem.Block{Type: "CERTIFICATE", Bytes: []byte("not der at all")})...), nil
	case "pemKeyBlock":
		return append(w.pemOf(e.Certs), pem.EncodeToMemory(&pem.Block{Type: "PRIVATE KEY", Bytes: []byte{0x30, 0x03, 0x02, 0x01, 0x00}})...), nil
	case "derTrailing":
		return append(w.derOf(e.Certs), []byte("\x00\x01trailing garbage")...), nil
	case "derTruncated":
		d := w.derOf(e.Certs)
		if len(d) > 20 {
			return d[:len(d)-17], nil
		}
		return []byte{0x30, 0x82, 0x01}, nil
	}
	return nil, fmt.Errorf("unknown encoding %q of an unparsable file", e.Enc)
}

var parsableEncs = []string{"pem", "der", "pemNoise", "pemCRLF"}
var brokenEncs = []string{"garbage", "text", "blank", "pemBadBody", "pemKeyBlock", "derTrailing", "derTruncated"}
var symlinkEncs = []string{"toFile", "toDir", "dangling"}

// populate creates the entries inside dirPath, in list order.
func (w *world) populate(root, dirPath string, entries []Entry) error {
	targets := filepath.Join(root, "link-targets")
	for k, e := range entries {
		p := filepath.Join(dirPath, e.Name)
		switch e.Kind {
		case "file":
			b, err := w.fileContent(e)
			if err != nil {
				return err
			}
			if err := os.WriteFile(p, b, 0o644); err != nil {
				return err
			}
		case "dir":
			if err := os.Mkdir(p, 0o755); err != nil {
				return err
			}
			if len(e.Certs) > 0 {
				if err := os.WriteFile(filepath.Join(p, "inner.pem"), w.pemOf(e.Certs), 0o644); err != nil {
					return err
				}
			}
		case "symlink":
			if err := os.MkdirAll(targets, 0o755); err != nil {
				return err
			}
			t := filepath.Join(targets, fmt.Sprintf("t%d", k))
			switch e.Enc {
			case "toFile":
				if err := os.WriteFile(t, w.pemOf(e.Certs), 0o644); err != nil {
					return err
				}
			case "toDir":
				if err := os.Mkdir(t, 0o755); err != nil {
					return err
				}
				if err := os.WriteFile(filepath.Join(t, "inner.pem"), w.pemOf(e.Certs), 0o644); err != nil {
					return err
				}
			case "dangling":
			default:
				return fmt.Errorf("unknown symlink encoding %q", e.Enc)
			}
			if err := os.Symlink(t, p); err != nil {
				return err
			}
		default:
			return fmt.Errorf("unknown entry kind %q", e.Kind)
		}
	}
	return nil
}

// the harness's own idea of a clean case (known type, plain name): for these the tree must be
// materialised exactly; for all others materialisation is a best-effort temptation.
func cleanType(t string) bool { return t == "ca" || t == "signingAuthority" || t == "tsa" }
func cleanName(n string) bool {
	if n == "" || n == "." || n == ".." {
		return false
	}
	for i := 0; i < len(n); i++ {
		b := n[i]
		if !(b >= 'a' && b <= 'z' || b >= 'A' && b <= 'Z' || b >= '0' && b <= '9' || b == '_' || b == '.' || b == '-') {
			return false
		}
	}
	return true
}

func inside(p, base string) bool {
	return p == base || strings.HasPrefix(p, base+string(filepath.Separator))
}

// materialise builds the world of one case under caseRoot and returns the SysFS root.
func (w *world) materialise(caseRoot string, in Input) (string, error) {
	root := filepath.Join(caseRoot, "r", "r", "cfg")
	if err := os.MkdirAll(root, 0o755); err != nil {
		return "", err
	}
	clean := cleanType(in.StoreType) && cleanName(in.Name)
	var storePath string
	if clean {
		// plain concatenation: independent of path.Join / filepath.Join
		storePath = root + "/truststore/x509/" + in.StoreType + "/" + in.Name
	} else {
		if strings.ContainsRune(in.StoreType, 0) || strings.ContainsRune(in.Name, 0) {
			return root, nil
		}
		storePath = filepath.Join(root, "truststore", "x509", in.StoreType, in.Name)
		if !inside(storePath, caseRoot) || storePath == caseRoot {
			return root, nil
		}
	}
	build := func() error {
		if err := os.MkdirAll(filepath.Dir(storePath), 0o755); err != nil {
			return err
		}
		switch in.DirKind {
		case "missing":
		case "dir":
			if err := os.MkdirAll(storePath, 0o755); err != nil {
				return err
			}
			return w.populate(root, storePath, in.Entries)
		case "symlinkToDir":
			t := filepath.Join(root, "link-targets", "store")
			if err := os.MkdirAll(t, 0o755); err != nil {
				return err
			}
			if err := w.populate(root, t, in.Entries); err != nil {
				return err
			}
			return os.Symlink(t, storePath)
		case "file":
			var all []CertFlags
			for _, e := range in.Entries {
				all = append(all, e.Certs...)
			}
			if len(all) == 0 {
				all = []CertFlags{w.decoys[0].flags}
			}
			return os.WriteFile(storePath, w.pemOf(all), 0o644)
		default:
			return fmt.Errorf("unknown dirKind %q", in.DirKind)
		}
		return nil
	}
	if err := build(); err != nil && clean {
		return "", fmt.Errorf("materialise %+v: %w", in, err)
	}
	if in.Decoys {
		x509dir := filepath.Join(root, "truststore", "x509")
		var ds []string
		ds = append(ds, filepath.Join(root, "decoy-root.pem"), filepath.Join(root, "truststore", "decoy.pem"),
			filepath.Join(x509dir, "decoy-x509.pem"))
		if clean {
			other := map[string]string{"ca": "tsa", "tsa": "signingAuthority", "signingAuthority": "ca"}[in.StoreType]
			ds = append(ds,
				filepath.Join(x509dir, in.StoreType, "decoy-loose-certificate.pem"),
				filepath.Join(x509dir, in.StoreType, "decoy-sibling-store", "d.pem"),
				filepath.Join(x509dir, other, in.Name, "d.pem"),
				filepath.Join(x509dir, in.Name, "d.pem"),
				filepath.Join(root, in.StoreType, in.Name, "d.pem"))
		} else {
			ds = append(ds, filepath.Join(x509dir, "ca", "decoy-loose-certificate.pem"),
				filepath.Join(x509dir, "ca", "decoy-sibling-store", "d.pem"))
		}
		for k, d := range ds {
			if inside(d, storePath) || inside(storePath, d) {
				continue // never inside (or in place of) the store itself
			}
			if os.MkdirAll(filepath.Dir(d), 0o755) != nil {
				continue
			}
			if _, err := os.Lstat(d); err == nil {
				continue
			}
			os.WriteFile(d, w.pemOf([]CertFlags{w.decoys[k%len(w.decoys)].flags}), 0o644)
		}
	}
	return root, nil
}

// runLoad returns the observation of the load under test and, when that load ran under a context
// that can end, the observation of a following load of the same store under context.Background()
// through the same trust store value (an abandoned load must leave nothing behind).
func (w *world) runLoad(c *common.Ctx, n int, in Input) (Obs, *Obs, error) {
	// most trees live on tmpfs (five times faster); every eighth one on the file system of c.WorkDir
	base := c.WorkDir
	if w.fast != "" && n%8 != 0 {
		base = w.fast
	}
	caseRoot := filepath.Join(base, fmt.Sprintf("k%d", n))
	defer os.RemoveAll(caseRoot)
	root, err := w.materialise(caseRoot, in)
	if err != nil {
		return Obs{}, nil, err
	}
	ts := truststore.NewX509TrustStore(dir.NewSysFS(root))
	// One trust store value lives as long as a verifier: loads of OTHER stores through the same
	// value must not influence the load under test. For plain type/name pairs, same-named sibling
	// stores under the other two types (each holding one valid root) are loaded first.
	if cleanType(in.StoreType) && cleanName(in.Name) {
		if good, _ := w.split("tsa"); len(good) > 0 {
			for _, t := range validTypes {
				if t == in.StoreType {
					continue
				}
				sib := root + "/truststore/x509/" + t + "/" + in.Name
				if os.MkdirAll(sib, 0o755) == nil {
					os.WriteFile(sib+"/sibling-root.pem", w.pemOf(good[:1]), 0o644)
					ts.GetCertificates(context.Background(), truststore.Type(t), in.Name)
				}
			}
		}
	}
	ids := func(certs []*x509.Certificate) []int {
		out := []int{}
		for _, cert := range certs {
			id := unknownCert
			if cert != nil {
				if k, ok := w.byRaw[string(cert.Raw)]; ok {
					id = k
				}
			}
			out = append(out, id)
		}
		return out
	}
	ctx, release := makeCtx(in.Ctx)
	certs, err := ts.GetCertificates(ctx, truststore.Type(in.StoreType), in.Name)
	release()
	o := Obs{Ok: err == nil, Certs: ids(certs)}
	// a second load of the same store through the same value must give the same answer
	// (unless the first one failed under a context that could end)
	certs2, err2 := ts.GetCertificates(context.Background(), truststore.Type(in.StoreType), in.Name)
	o2 := Obs{Ok: err2 == nil, Certs: ids(certs2)}
	if (o2.Ok != o.Ok || fmt.Sprint(o2.Certs) != fmt.Sprint(o.Certs)) && (o.Ok || in.Ctx.background()) {
		o.Certs = append(o.Certs, unknownCert) // not repeatable: reported as a foreign certificate
	}
	// the slice handed out by the first load is the caller's: a later load (here: of a sibling store, which
	// exists for plain type / name pairs) must not change it
	if cleanType(in.StoreType) && cleanName(in.Name) {
		for _, t := range validTypes {
			if t != in.StoreType {
				ts.GetCertificates(context.Background(), truststore.Type(t), in.Name)
				break
			}
		}
	}
	if again := ids(certs); len(again) > len(o.Certs) || fmt.Sprint(again) != fmt.Sprint(o.Certs[:len(again)]) {
		o.Certs = append(o.Certs, unknownCert) // the returned slice changed under the caller's feet
	}
	if len(in.Par.Stores) > 0 && in.Par.Workers > 0 {
		// the other stores of the concurrent stage, then the stage itself
		for _, ps := range in.Par.Stores {
			sp := root + "/truststore/x509/" + ps.StoreType + "/" + ps.Name
			if err := os.MkdirAll(sp, 0o755); err != nil {
				return Obs{}, nil, err
			}
			if err := w.populate(root, sp, ps.Entries); err != nil {
				return Obs{}, nil, err
			}
		}
		if dev := w.stressLoads(ts, in, o, ids); dev != nil {
			o = *dev
		}
	}
	if in.Ctx.background() {
		return o, nil, nil
	}
	return o, &o2, nil
}

// stressLoads: in.Par.Workers goroutines load the store under test and the other stores of
// in.Par.Stores concurrently, in.Par.Rounds times each, through the same trust store value. Every
// answer must be the sequential answer of its store. Returns nil when they all were; else the first
// deviating observation of the store under test, or - when only another store deviated (or a worker
// panicked) - the sequential observation with a foreign-certificate marker appended.
func (w *world) stressLoads(ts truststore.X509TrustStore, in Input, ref Obs, ids func([]*x509.Certificate) []int) *Obs {
	type target struct {
		t, n string
		ref  string
	}
	show := func(o Obs) string { return fmt.Sprint(o.Ok, o.Certs) }
	load := func(t, n string) Obs {
		certs, err := ts.GetCertificates(context.Background(), truststore.Type(t), n)
		return Obs{Ok: err == nil, Certs: ids(certs)}
	}
	targets := []target{{in.StoreType, in.Name, show(ref)}}
	for _, ps := range in.Par.Stores {
		targets = append(targets, target{ps.StoreType, ps.Name, show(load(ps.StoreType, ps.Name))})
	}
	var stop atomic.Bool
	var mu sync.Mutex
	var devMain *Obs
	devOther := false
	var wg sync.WaitGroup
	for j := 0; j < in.Par.Workers; j++ {
		wg.Add(1)
		go func(j int) {
			defer wg.Done()
			defer func() {
				if r := recover(); r != nil {
					mu.Lock()
					devOther = true
					mu.Unlock()
					stop.Store(true)
				}
			}()
			k := j % len(targets)
			for r := 0; r < in.Par.Rounds && !stop.Load(); r++ {
				o := load(targets[k].t, targets[k].n)
				if show(o) != targets[k].ref {
					mu.Lock()
					if k == 0 && devMain == nil {
						devMain = &o
					} else if k != 0 {
						devOther = true
					}
					mu.Unlock()
					stop.Store(true)
				}
			}
		}(j)
	}
	wg.Wait()
	switch {
	case devMain != nil:
		return devMain
	case devOther:
		o := Obs{Ok: ref.Ok, Certs: append(append([]int{}, ref.Certs...), unknownCert)}
		return &o
	}
	return nil
}

// stressPaths: the same for dir.X509TrustStoreDir alone. Returns "" when every concurrent answer was
// the sequential one, else a deviating answer (prefixed when it belongs to another store's call).
func stressPaths(in Input, ref string) string {
	type target struct{ t, n, ref string }
	targets := []target{{in.StoreType, in.Name, ref}}
	for _, ps := range in.Par.Stores {
		targets = append(targets, target{ps.StoreType, ps.Name, dir.X509TrustStoreDir(ps.StoreType, ps.Name)})
	}
	var stop atomic.Bool
	var mu sync.Mutex
	dev := ""
	var wg sync.WaitGroup
	for j := 0; j < in.Par.Workers; j++ {
		wg.Add(1)
		go func(j int) {
			defer wg.Done()
			defer func() {
				if r := recover(); r != nil {
					mu.Lock()
					dev = "panic in a concurrent call"
					mu.Unlock()
					stop.Store(true)
				}
			}()
			k := j % len(targets)
			for r := 0; r < in.Par.Rounds && !stop.Load(); r++ {
				if p := dir.X509TrustStoreDir(targets[k].t, targets[k].n); p != targets[k].ref {
					mu.Lock()
					if dev == "" || k == 0 {
						if k == 0 {
							dev = p
						} else {
							dev = "concurrent call for " + targets[k].t + "/" + targets[k].n + " returned " + p
						}
					}
					mu.Unlock()
					stop.Store(true)
				}
			}
		}(j)
	}
	wg.Wait()
	return dev
}

// ---- generators ----------------------------------------------------------------------------

var validTypes = []string{"ca", "signingAuthority", "tsa"}
var invalidTypes = []string{"", "CA", "Tsa", "tsa ", "x", "ca/", "../ca", "ca/../tsa", ".", "..", "signingauthority", "x509", "ca\n"}
var validNames = []string{"store", "a.b", "my-store_1", "A", "0", "...", "..a", "a..", ".hidden", "-", "_", "a.b.c", "x.pem",
	strings.Repeat("n", 200)}
var invalidNames = []string{"", ".", "..", "a/b", "../x", "../../x", "a/../b", "/abs", "a b", " a", "a ", "a\n", "a\\b", "ä", "a*", "a:b",
	"a+b", "a,b", "a@b", "~", "a/", "./a", "a/.", "a/..", "..\\x", "a\x00b", "store\t", "störe", "ａ", "a ",
	// letters that case-fold into ASCII (long s, Kelvin sign, dotless i)
	"tru\u017fted-roots", "\u212a8s-roots", "\u0131nternal"}
var entryNames = []string{"a.pem", "b.crt", "c.cer", "root.pem", "ca.der", "Z.pem", "0.pem", "_x", "-y.pem", ".hidden", "cert", "CERT",
	"a", "b", "aa", "a.pem.bak", "ü.pem", "中.crt", "a b.pem", "a-b", "a_b", "a.b", ".DS_Store", "A.pem", "~tmp", "z"}

func pick[T any](c *common.Ctx, xs []T) T { return xs[c.Rand.Intn(len(xs))] }

func (w *world) emitLoad(c *common.Ctx, n *int, in Input, tag string) error {
	if in.Entries == nil {
		in.Entries = []Entry{}
	}
	for k := range in.Entries {
		if in.Entries[k].Certs == nil {
			in.Entries[k].Certs = []CertFlags{}
		}
	}
	in.Op = "load"
	o, after, err := w.runLoad(c, *n, in)
	*n++
	if err != nil {
		return err
	}
	c.Emit(in, o)
	if after != nil {
		in2 := in
		in2.Ctx = CtxSpec{}
		c.Emit(in2, *after)
		c.Count("stream=load-after-a-load-under-an-ending-context")
		c.Count("context=" + in.Ctx.Kind)
	} else {
		c.Count("context=background")
	}
	c.Count("stream=" + tag)
	if o.Ok {
		c.Count("load=ok")
		c.Count(fmt.Sprintf("ok-certs=%d", min(len(o.Certs), 6)))
	} else {
		c.Count("load=error")
	}
	if cleanType(in.StoreType) {
		c.Count("type=" + in.StoreType)
	} else {
		c.Count("type=invalid")
	}
	if cleanName(in.Name) {
		c.Count("name=plain")
	} else {
		c.Count("name=not-plain")
	}
	c.Count("dir=" + in.DirKind)
	c.Count(fmt.Sprintf("entries=%d", min(len(in.Entries), 6)))
	return nil
}

func file1(name, enc string, certs ...CertFlags) Entry {
	return Entry{Name: name, Kind: "file", ParseOk: true, Certs: certs, Enc: enc}
}

// systematic: types x names x directory kinds x entry templates
func (w *world) systematic(c *common.Ctx, n *int) error {
	types := append(append([]string{}, validTypes...), "", "CA", "../ca", "x")
	names := []string{"store", "a.b", "...", ".hidden", "-", "", ".", "..", "a/b", "../x", "a b", "a\n", "a\\b", "ä"}
	if c.Thorough() {
		types = append(append([]string{}, validTypes...), invalidTypes...)
		names = append(append([]string{}, validNames...), invalidNames...)
	}
	for _, t := range types {
		good, bad := w.split(t)
		if len(good) < 2 || len(bad) < 1 {
			return fmt.Errorf("pool has too few good/bad certificates for type %q", t)
		}
		for ni, name := range names {
			for di, dk := range []string{"dir", "missing", "symlinkToDir", "file"} {
				g, g2, b := good[(ni+di)%len(good)], good[(ni+2*di+1)%len(good)], bad[(ni+di)%len(bad)]
				templates := [][]Entry{
					{},
					{file1("a.pem", "pem", g)},
					{file1("a.der", "der", g, g2)},
					{file1("b.pem", "pem", g), file1("a.pem", "pem", g2), file1("Z.crt", "der", g)},
					{file1("a.pem", "pem", g), {Name: "sub", Kind: "dir", Certs: []CertFlags{g2}, Enc: "dir"}},
					{file1("a.pem", "pem", g), {Name: "link.pem", Kind: "symlink", Certs: []CertFlags{g2}, Enc: "toFile"}},
					{file1("a.pem", "pem", g), {Name: "junk", Kind: "file", ParseOk: false, Enc: "garbage"}},
					{file1("a.pem", "pem", g), {Name: "empty.pem", Kind: "file", ParseOk: true, Enc: "empty"}},
					{file1("a.pem", "pem", g, b)},
					{file1("a.pem", "pem", g), file1("b.pem", "pem", b)},
					{file1("a.pem", "pemNoise", g, g2)},
				}
				for ti, tpl := range templates {
					if err := w.emitLoad(c, n, Input{StoreType: t, Name: name, DirKind: dk, Entries: tpl, Decoys: (ni+di+ti)%2 == 0}, "systematic"); err != nil {
						return err
					}
				}
			}
		}
	}
	return nil
}

// perCert: every pool certificate alone, every ordered pair in one file and in two files, per valid type
func (w *world) perCert(c *common.Ctx, n *int) error {
	for _, t := range validTypes {
		for _, p := range w.pool {
			for _, enc := range []string{"pem", "der"} {
				if err := w.emitLoad(c, n, Input{StoreType: t, Name: "s", DirKind: "dir", Entries: []Entry{file1("c."+enc, enc, p.flags)}}, "single-certificate"); err != nil {
					return err
				}
			}
			for _, q := range w.pool {
				if !c.Thorough() && (p.flags.ID+q.flags.ID)%3 != 0 {
					continue
				}
				enc := parsableEncs[(p.flags.ID+q.flags.ID)%len(parsableEncs)]
				if err := w.emitLoad(c, n, Input{StoreType: t, Name: "s", DirKind: "dir", Entries: []Entry{file1("pair", enc, p.flags, q.flags)}}, "certificate-pair-one-file"); err != nil {
					return err
				}
				// two files created in the order (second-by-name, first-by-name)
				if err := w.emitLoad(c, n, Input{StoreType: t, Name: "s", DirKind: "dir", Entries: []Entry{file1("b.pem", "pem", q.flags), file1("a.pem", enc, p.flags)}}, "certificate-pair-two-files"); err != nil {
					return err
				}
			}
		}
	}
	return nil
}

func (w *world) randomCerts(c *common.Ctx, from []CertFlags, lo, hi int) []CertFlags {
	k := lo + c.Rand.Intn(hi-lo+1)
	out := make([]CertFlags, 0, k)
	for i := 0; i < k; i++ {
		out = append(out, pick(c, from))
	}
	return out
}

func randomName(c *common.Ctx) string {
	const in = "abzAZ09_.-"
	const out = "/\\ :*@+,~\n"
	k := 1 + c.Rand.Intn(6)
	var b strings.Builder
	for i := 0; i < k; i++ {
		if c.Rand.Intn(12) == 0 {
			b.WriteByte(out[c.Rand.Intn(len(out))])
		} else {
			b.WriteByte(in[c.Rand.Intn(len(in))])
		}
	}
	return b.String()
}

// random: a loadable store with 0, 1 or several injected faults
func (w *world) random(c *common.Ctx, n *int, count int) error {
	for it := 0; it < count; it++ {
		t := pick(c, validTypes)
		good, bad := w.split(t)
		in := Input{StoreType: t, Name: pick(c, validNames), DirKind: "dir", Decoys: c.Rand.Intn(2) == 0}
		if c.Rand.Intn(3) == 0 {
			in.Name = randomName(c)
		}
		ne := 1 + c.Rand.Intn(5)
		perm := c.Rand.Perm(len(entryNames))
		for k := 0; k < ne; k++ {
			in.Entries = append(in.Entries, file1(entryNames[perm[k]], pick(c, parsableEncs), w.randomCerts(c, good, 1, 3)...))
		}
		faults := 0
		switch r := c.Rand.Intn(10); {
		case r < 4:
		case r < 8:
			faults = 1
		default:
			faults = 2 + c.Rand.Intn(2)
		}
		for f := 0; f < faults; f++ {
			k := c.Rand.Intn(len(in.Entries))
			switch fault := c.Rand.Intn(12); fault {
			case 0:
				in.StoreType = pick(c, invalidTypes)
				c.Count("fault=type")
			case 1:
				in.Name = pick(c, invalidNames)
				c.Count("fault=name")
			case 2:
				in.DirKind = pick(c, []string{"missing", "symlinkToDir", "file"})
				c.Count("fault=store-dir-kind")
			case 3:
				in.Entries[k].Kind, in.Entries[k].Enc = "dir", "dir"
				c.Count("fault=sub-directory")
			case 4:
				in.Entries[k].Kind, in.Entries[k].Enc = "symlink", pick(c, symlinkEncs)
				c.Count("fault=symlink")
			case 5:
				in.Entries[k].ParseOk, in.Entries[k].Enc = false, pick(c, brokenEncs)
				if c.Rand.Intn(2) == 0 {
					in.Entries[k].Certs = []CertFlags{}
				}
				c.Count("fault=unparsable")
			case 6:
				in.Entries[k].Certs, in.Entries[k].Enc = []CertFlags{}, "empty"
				c.Count("fault=empty-file")
			case 7, 8:
				cs := in.Entries[k].Certs
				pos := c.Rand.Intn(len(cs) + 1)
				cs = append(cs[:pos:pos], append([]CertFlags{pick(c, bad)}, cs[pos:]...)...)
				in.Entries[k].Certs = cs
				c.Count("fault=unacceptable-certificate-added")
			case 9:
				in.Entries[k].Certs = []CertFlags{pick(c, bad)}
				c.Count("fault=only-unacceptable-certificate")
			case 10:
				in.Entries = []Entry{}
				c.Count("fault=empty-store")
			case 11:
				// same tree, another valid type (tsa is stricter than ca / signingAuthority)
				in.StoreType = pick(c, validTypes)
				c.Count("fault=retyped")
			}
			if len(in.Entries) == 0 {
				break
			}
		}
		// after the faults every entry gets an encoding that fits its kind
		for k := range in.Entries {
			e := &in.Entries[k]
			has := func(xs []string) bool {
				for _, x := range xs {
					if x == e.Enc {
						return true
					}
				}
				return false
			}
			switch {
			case e.Kind == "dir":
				e.Enc = "dir"
			case e.Kind == "symlink":
				if !has(symlinkEncs) {
					e.Enc = pick(c, symlinkEncs)
				}
			case e.ParseOk && len(e.Certs) == 0:
				e.Enc = "empty"
			case e.ParseOk:
				if !has(parsableEncs) {
					e.Enc = pick(c, parsableEncs)
				}
			default:
				if !has(brokenEncs) {
					e.Enc = pick(c, brokenEncs)
				}
			}
		}
		c.Count(fmt.Sprintf("faults=%d", faults))
		if c.Rand.Intn(4) == 0 {
			in.Ctx = randomCtx(c, len(in.Entries))
		}
		if err := w.emitLoad(c, n, in, "random"); err != nil {
			return err
		}
	}
	return nil
}

func randomCtx(c *common.Ctx, files int) CtxSpec {
	switch c.Rand.Intn(8) {
	case 0:
		return CtxSpec{Kind: "endedBefore", Deadline: c.Rand.Intn(2) == 0}
	case 1:
		return CtxSpec{Kind: "timeout", N: c.Rand.Intn(400), Deadline: true}
	case 2:
		return CtxSpec{Kind: "cancelledAfter", N: c.Rand.Intn(400)}
	default:
		return CtxSpec{Kind: "endsAtPoll", N: c.Rand.Intn(3*files + 3), Deadline: c.Rand.Intn(2) == 0}
	}
}

// spoil turns entry e into a bad entry of the given kind (bad = a certificate unacceptable for the type)
func spoil(e Entry, kind string, bad CertFlags) Entry {
	switch kind {
	case "garbage":
		e.ParseOk, e.Enc = false, "garbage"
	case "sub-directory":
		e.Kind, e.Enc = "dir", "dir"
	case "symlink":
		e.Kind, e.Enc = "symlink", "toFile"
	case "empty-file":
		e.Certs, e.Enc = []CertFlags{}, "empty"
	case "unacceptable-certificate":
		e.Certs = append(append([]CertFlags{}, e.Certs...), bad)
	}
	return e
}

var spoilKinds = []string{"garbage", "sub-directory", "symlink", "empty-file", "unacceptable-certificate"}

// contexts: multi-file stores - all good, or with one bad entry at every position of the
// directory order - loaded under contexts that have ended before the call or end at every
// possible poll, in both flavours; plus a sample of real timers on a store that takes a while to load.
func (w *world) contexts(c *common.Ctx, n *int) error {
	maxFiles := 5
	if c.Thorough() {
		maxFiles = 7
	}
	for ti, t := range validTypes {
		good, bad := w.split(t)
		for nf := 2; nf <= maxFiles; nf++ {
			// created in reverse order of their names
			var base []Entry
			for k := nf - 1; k >= 0; k-- {
				cs := []CertFlags{good[(k+ti)%len(good)]}
				if k%2 == 1 {
					cs = append(cs, good[(k+ti+3)%len(good)])
				}
				base = append(base, file1(fmt.Sprintf("f%d.pem", k), parsableEncs[k%len(parsableEncs)], cs...))
			}
			variants := [][]Entry{base}
			for pos := 0; pos < nf; pos++ {
				for _, sk := range spoilKinds {
					v := append([]Entry{}, base...)
					v[nf-1-pos] = spoil(v[nf-1-pos], sk, bad[(pos+ti)%len(bad)])
					variants = append(variants, v)
				}
			}
			for vi, v := range variants {
				specs := []CtxSpec{{Kind: "endedBefore"}, {Kind: "endedBefore", Deadline: true}}
				for k := 0; k <= 2*nf+2; k++ {
					if c.Thorough() {
						specs = append(specs, CtxSpec{Kind: "endsAtPoll", N: k}, CtxSpec{Kind: "endsAtPoll", N: k, Deadline: true})
					} else {
						specs = append(specs, CtxSpec{Kind: "endsAtPoll", N: k, Deadline: (k+vi)%2 == 0})
					}
				}
				for _, sp := range specs {
					in := Input{StoreType: t, Name: "ctx-store", DirKind: "dir", Entries: v, Decoys: vi%3 == 0, Ctx: sp}
					if err := w.emitLoad(c, n, in, "context-positions"); err != nil {
						return err
					}
				}
			}
		}
	}
	// real timers: a store of 12 files with three certificates each takes long enough to load
	// for deadlines of some 10..1000 microseconds to fall inside the loop
	good, bad := w.split("ca")
	var big []Entry
	for k := 0; k < 12; k++ {
		big = append(big, file1(fmt.Sprintf("g%02d.pem", k), parsableEncs[k%2], good[k%len(good)], good[(k+5)%len(good)], good[(k+9)%len(good)]))
	}
	lastBad := append([]Entry{}, big...)
	lastBad[11] = spoil(lastBad[11], "garbage", bad[0])
	midBad := append([]Entry{}, big...)
	midBad[6] = spoil(midBad[6], "sub-directory", bad[0])
	reps := 1
	if c.Thorough() {
		reps = 6
	}
	for rep := 0; rep < reps; rep++ {
		for _, us := range []int{0, 1, 2, 5, 10, 20, 30, 40, 50, 60, 80, 100, 120, 150, 200, 250, 300, 400, 500, 700, 1000, 1500, 2000, 3000} {
			for _, kind := range []string{"timeout", "cancelledAfter"} {
				for _, v := range [][]Entry{big, lastBad, midBad} {
					in := Input{StoreType: "ca", Name: "big", DirKind: "dir", Entries: v, Ctx: CtxSpec{Kind: kind, N: us, Deadline: kind == "timeout"}}
					if err := w.emitLoad(c, n, in, "context-real-timers"); err != nil {
						return err
					}
				}
			}
		}
	}
	return nil
}

// concurrent: several stores of one root (same and different types, names of equal and of different
// length) loaded at the same time through one trust store value, and their paths computed at the same
// time. A sampled stress stage: every concurrent answer is compared with the sequential one.
func (w *world) concurrent(c *common.Ctx, n *int) error {
	cases, rounds, pathRounds := 6, 2500, 150000
	if c.Thorough() {
		cases, rounds, pathRounds = 30, 4000, 400000
	}
	nameSets := [][]string{{"alpha", "bravo", "delta"}, {"a", "store-with-a-long-name", "b.c"}, {"s1", "s2", "s3"}}
	for k := 0; k < cases; k++ {
		names := nameSets[k%len(nameSets)]
		// type of the store under test and of the others: all the same, or mixed
		tMain := validTypes[k%3]
		var par ParSpec
		par.Workers, par.Rounds = 8, rounds
		good, _ := w.split("tsa") // roots: acceptable under every type, no signature to verify for ca
		for j, nm := range names[1:] {
			t := tMain
			if k%2 == 1 {
				t = validTypes[(k+j+1)%3]
			}
			par.Stores = append(par.Stores, ParStore{StoreType: t, Name: nm,
				Entries: []Entry{file1("r.pem", "pem", good[(k+j+1)%len(good)])}})
		}
		in := Input{StoreType: tMain, Name: names[0], DirKind: "dir", Par: par,
			Entries: []Entry{file1("r.pem", "pem", good[k%len(good)])}}
		if k%3 == 2 {
			// the store under test is not loadable: no concurrent call may make it load
			in.Entries = append(in.Entries, Entry{Name: "junk", Kind: "file", ParseOk: false, Enc: "garbage", Certs: []CertFlags{}})
		}
		if err := w.emitLoad(c, n, in, "concurrent-loads"); err != nil {
			return err
		}
		pp := par
		pp.Rounds = pathRounds
		for s := range pp.Stores {
			pp.Stores[s].Entries = []Entry{}
		}
		emitPathPar(c, tMain, names[0], pp)
	}
	return nil
}

// ---- the file-name check alone ------------------------------------------------------------

func emitName(c *common.Ctx, s string, tag string) {
	if !validUTF8(s) {
		return
	}
	ok := file.IsValidFileName(s)
	c.Emit(Input{Op: "nameCheck", StoreType: "", Name: s, DirKind: "missing", Entries: []Entry{}}, Obs{Ok: ok, Certs: []int{}})
	c.Count("stream=" + tag)
	if ok {
		c.Count("name-check=accepted")
	} else {
		c.Count("name-check=rejected")
	}
}

func validUTF8(s string) bool {
	for _, r := range s {
		if r == 0xFFFD {
			return false
		}
	}
	return true
}

func names(c *common.Ctx) {
	// boundary characters around every range of the class, separators, controls, non-ASCII
	alpha := []rune{'a', 'z', 'A', 'Z', '0', '9', '_', '.', '-', 'm', '5',
		'/', ':', '@', '[', '`', '{', ',', '+', '\\', ' ', '\n', '\r', '\t', 0, '*', '?', '~', '$', '^', ']', 0x7f, 0xe4, 0xff41, 0x2028, 0x1F600}
	small := []rune{'a', 'Z', '0', '_', '.', '-', '/', '\\', ' ', '\n', 0xe4, ':'}
	emitName(c, "", "names-exhaustive")
	for _, a := range alpha {
		emitName(c, string(a), "names-exhaustive")
		for _, b := range alpha {
			emitName(c, string([]rune{a, b}), "names-exhaustive")
		}
	}
	for _, a := range small {
		for _, b := range small {
			for _, d := range small {
				emitName(c, string([]rune{a, b, d}), "names-exhaustive")
			}
		}
	}
	// dot-only names of every length up to 6, and every listed store name
	for k := 1; k <= 6; k++ {
		emitName(c, strings.Repeat(".", k), "names-listed")
	}
	for _, s := range append(append([]string{}, validNames...), invalidNames...) {
		emitName(c, s, "names-listed")
	}
	// every code point up to U+024F alone, after and before a class character
	for r := rune(0); r <= 0x24F; r++ {
		emitName(c, string(r), "names-code-points")
		emitName(c, "a"+string(r), "names-code-points")
		emitName(c, string(r)+"a", "names-code-points")
	}
	count := 3000
	if c.Thorough() {
		count = 60000
	}
	for it := 0; it < count; it++ {
		k := c.Rand.Intn(13)
		rs := make([]rune, k)
		for i := range rs {
			switch c.Rand.Intn(10) {
			case 0:
				rs[i] = alpha[c.Rand.Intn(len(alpha))]
			case 1:
				rs[i] = rune(c.Rand.Intn(0x80))
			default:
				rs[i] = alpha[c.Rand.Intn(11)]
			}
		}
		emitName(c, string(rs), "names-random")
	}
}

// ---- dir.X509TrustStoreDir alone ------------------------------------------------------------

func emitPath(c *common.Ctx, t, n string) { emitPathPar(c, t, n, ParSpec{}) }

func emitPathPar(c *common.Ctx, t, n string, par ParSpec) {
	if !validUTF8(t) || !validUTF8(n) {
		return
	}
	p := dir.X509TrustStoreDir(t, n)
	if !validUTF8(p) {
		return
	}
	in := Input{Op: "storePath", StoreType: t, Name: n, DirKind: "missing", Entries: []Entry{}, Par: par}
	if len(par.Stores) > 0 && par.Workers > 0 {
		if dev := stressPaths(in, p); dev != "" {
			p = dev
		}
		c.Count("stream=store-path-concurrent")
	}
	c.Emit(in, Obs{Ok: true, Certs: []int{}, Path: p})
	c.Count("stream=store-path")
	if cleanType(t) && cleanName(n) {
		c.Count("store-path=known-type-plain-name")
	} else {
		c.Count("store-path=other")
	}
}

func paths(c *common.Ctx) {
	types := append(append([]string{}, validTypes...), invalidTypes...)
	types = append(types, "../..", "/", "a//b", "./ca", "ca/.", "...")
	allNames := append(append([]string{}, validNames...), invalidNames...)
	allNames = append(allNames, "../..", "../../..", "../../../..", "../../../../x", "/", "//", "a//b", "./.", "a/./b", "a/b/../../..", ".../..", "..a/..", "x/")
	for _, t := range types {
		for _, n := range allNames {
			emitPath(c, t, n)
		}
	}
	count := 3000
	if c.Thorough() {
		count = 40000
	}
	const alpha = "ab..//.-_ "
	word := func() string {
		k := c.Rand.Intn(9)
		b := make([]byte, k)
		for i := range b {
			b[i] = alpha[c.Rand.Intn(len(alpha))]
		}
		return string(b)
	}
	for it := 0; it < count; it++ {
		t := word()
		if c.Rand.Intn(2) == 0 {
			t = pick(c, validTypes)
		}
		n := word()
		if c.Rand.Intn(4) == 0 {
			n = randomName(c)
		}
		emitPath(c, t, n)
	}
}

// Run generates the cases of C13.
func Run(c *common.Ctx) error {
	w, err := buildWorld(c)
	if err != nil {
		return err
	}
	if d, err := os.MkdirTemp("/dev/shm", "xverif-c13-"); err == nil {
		w.fast = d
		defer os.RemoveAll(d)
	}
	n := 0
	if err := w.systematic(c, &n); err != nil {
		return err
	}
	if err := w.perCert(c, &n); err != nil {
		return err
	}
	count := 6000
	if c.Thorough() {
		count = 100000
	}
	if err := w.random(c, &n, count); err != nil {
		return err
	}
	if err := w.contexts(c, &n); err != nil {
		return err
	}
	if err := w.concurrent(c, &n); err != nil {
		return err
	}
	names(c)
	paths(c)
	c.Note("pool of %d certificates covering all 12 realisable combinations of (CA, cert-sign key usage, signed by own key, issuer=subject) twice, "+
		"plus a root without key usage, a self-signed certificate without basic constraints, an RSA root, two different roots with the same subject (key roll-over) and nine certificates signed with SHA-1 (ECDSA, RSA) or MD5 (re-signed by hand): roots, self-issued CAs signed by another key, self-signed non-CAs, an intermediate; every pool certificate's flags are re-measured with crypto/x509 before use. "+
		"%d real directory trees: systematic types x names x store-directory kinds x 11 entry templates; every certificate alone and in pairs per store type; "+
		"random loadable stores with 0-3 injected faults (type, name, directory kind, sub-directory, symlink, unparsable, empty file, unacceptable certificate, empty store, retyped); "+
		"decoy certificates outside the store in half of the trees. "+
		"Context dimension: stores of 2..5 (thorough 7) files, all good or with one bad entry (garbage, sub-directory, symlink, empty file, unacceptable certificate) at every position, each loaded under a context "+
		"that ended before the call and under a polling context that turns cancelled / expired at its k-th Err/Done/Deadline call for every k <= 2*files+2; real WithTimeout / WithCancel timers of 0..3000 us on a 12-file store; "+
		"a quarter of the random stores get a random context; after every load under an ending context the same store is loaded again under Background through the same trust store value and judged as a case of its own. For known type + plain name the store is created at root+\"/truststore/x509/\"+type+\"/\"+name by string concatenation. "+
		"Concurrency (sampled stress): 8 goroutines load the store under test and two other stores of the same root (same / mixed types, names of equal / different length) thousands of times through one trust store value, and compute their paths 100000s of times; every concurrent answer must be the sequential one. "+
		"Store path: dir.X509TrustStoreDir on all listed types x names plus random slash/dot words against the model of path.Join. Name check: all strings of length <=2 over %d boundary characters, length 3 over 12, every code point <= U+024F in three positions, random strings.",
		len(w.pool), n, 36)
	return nil
}

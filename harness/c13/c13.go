// Package c13 - correspondence harness for C13 (stub: not built yet).
package c13

import (
	"errors"

	"github.com/notaryproject/notation-go/xverif/common"
)

// Run generates the cases of C13.
func Run(c *common.Ctx) error { return errors.New("C13: harness not built yet") }

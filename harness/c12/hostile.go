package c12

// sweep 6: a hostile STORE behind oras.GraphTarget (an OCI layout someone else wrote, a registry
// without Referrers API, a registry with one). Descriptors are untrusted input: one descriptor
// (`site`) CLAIMS a size - the referrer manifest announced by the predecessor list, the signature
// manifest handed over by the Referrers API or the caller, the envelope or the config inside an
// honest signature manifest. content.FetchAll allocates the claimed size before reading, so the
// library must refuse a claim above its cap (4 MiB manifests, 32 MiB envelopes) UNREAD.
//
// Modelled (Input.site, Input.claimed, Obs.fetched): is the store asked for that content at all.
// Sampled on top: every call stays within an allocation budget (runtime.MemStats.TotalAlloc around
// the call: a lazily mapped 768 MiB buffer never shows up in the resident set), and returns. The
// cases run in a CHILD process (a claim of 2^40 bytes is a fatal `out of memory`, not a panic);
// the child reports per case, the parent restarts it behind a case that killed it.

import (
	"bufio"
	"bytes"
	"context"
	"errors"
	"fmt"
	"io"
	"math"
	"math/rand"
	"os"
	"os/exec"
	"path/filepath"
	"runtime"
	"strings"
	"sync"
	"sync/atomic"
	"time"

	"github.com/notaryproject/notation-go"
	"github.com/notaryproject/notation-go/registry"
	"github.com/notaryproject/notation-go/xverif/common"
	"github.com/opencontainers/go-digest"
	ocispec "github.com/opencontainers/image-spec/specs-go/v1"
	"oras.land/oras-go/v2/errdef"
)

const (
	hostManifestCap = 4 << 20
	hostBlobCap     = 32 << 20
	// one call may hold two buffers of the largest cap plus decoding overhead - nothing near a hostile claim
	hostAllocBudget = 2*hostBlobCap + 16<<20
	artifactMT      = "application/vnd.oci.artifact.manifest.v1+json"
	notationType    = "application/vnd.cncf.notary.signature"
)

type hostileTarget struct {
	mu       sync.Mutex
	contents map[digest.Digest][]byte
	preds    []ocispec.Descriptor
	under    digest.Digest // the content of the descriptor under test
	deliver  int           // what Fetch answers for it: 0 the honest bytes, 1 "{}", 2 zeros without end
	fetched  int32
}

type zeros struct{}

func (zeros) Read(p []byte) (int, error) {
	for i := range p {
		p[i] = 0
	}
	return len(p), nil
}

func (h *hostileTarget) Fetch(ctx context.Context, d ocispec.Descriptor) (io.ReadCloser, error) {
	h.mu.Lock()
	b, ok := h.contents[d.Digest]
	h.mu.Unlock()
	if d.Digest == h.under {
		atomic.AddInt32(&h.fetched, 1)
		switch h.deliver {
		case 1:
			return io.NopCloser(strings.NewReader("{}")), nil
		case 2:
			return io.NopCloser(zeros{}), nil
		}
	}
	if !ok {
		return nil, fmt.Errorf("%s: %w", d.Digest, errdef.ErrNotFound)
	}
	return io.NopCloser(bytes.NewReader(b)), nil
}
func (h *hostileTarget) Exists(ctx context.Context, d ocispec.Descriptor) (bool, error) {
	h.mu.Lock()
	defer h.mu.Unlock()
	_, ok := h.contents[d.Digest]
	return ok, nil
}
func (h *hostileTarget) Push(ctx context.Context, d ocispec.Descriptor, r io.Reader) error {
	b, err := io.ReadAll(io.LimitReader(r, 64<<20))
	if err != nil {
		return err
	}
	h.mu.Lock()
	h.contents[d.Digest] = b
	h.mu.Unlock()
	return nil
}
func (h *hostileTarget) Predecessors(ctx context.Context, d ocispec.Descriptor) ([]ocispec.Descriptor, error) {
	return append([]ocispec.Descriptor(nil), h.preds...), nil
}
func (h *hostileTarget) Resolve(ctx context.Context, reference string) (ocispec.Descriptor, error) {
	return target, nil
}
func (h *hostileTarget) Tag(ctx context.Context, d ocispec.Descriptor, reference string) error {
	return nil
}

// hostileLister additionally offers the Referrers API (oras registry.ReferrerLister): the listed
// descriptors reach the caller's callback - and FetchSignatureBlob - as announced.
type hostileLister struct{ *hostileTarget }

func (h hostileLister) Referrers(ctx context.Context, d ocispec.Descriptor, artifactType string, fn func([]ocispec.Descriptor) error) error {
	return fn(append([]ocispec.Descriptor(nil), h.preds...))
}

type hostCase struct {
	site    string // referrer | sigManifest | sigBlob | config
	variant string // image | artifact | direct-image | direct-artifact | lister-image
	claimed int64
	deliver int
}

func hostCap(site string) int64 {
	if site == "sigBlob" {
		return hostBlobCap
	}
	return hostManifestCap
}

// hostCases is a pure function of (tier, seed): parent and child enumerate the same list.
func (w *world) hostCases(c *common.Ctx) []hostCase {
	rng := rand.New(rand.NewSource(c.Seed*7919 + 12))
	extra := 4
	if c.Thorough() {
		extra = 40
	}
	type sv struct {
		site     string
		variants []string
		delivers []int
	}
	var out []hostCase
	for _, s := range []sv{
		{"referrer", []string{"image", "artifact"}, []int{0, 1, 2}},
		{"sigManifest", []string{"direct-image", "direct-artifact", "lister-image"}, []int{0, 1, 2}},
		{"sigBlob", []string{"image", "artifact"}, []int{0, 1, 2}},
		{"config", []string{"image"}, []int{0}},
	} {
		lim := hostCap(s.site)
		actual := int64(len(w.hostManifest("image", 0, 0, false)))
		if s.site == "sigBlob" {
			actual = int64(len(w.sigs["valid"]))
		} else if s.site == "config" {
			actual = 2
		}
		sizes := []int64{math.MinInt64, -1, 0, 1, actual - 1, actual, actual + 1, lim - 1, lim, lim + 1, 2 * lim, 64 << 20, 768 << 20, 1 << 40, 1 << 62, math.MaxInt64}
		for k := 0; k < extra; k++ {
			switch k % 4 {
			case 0:
				sizes = append(sizes, lim+1+rng.Int63n(1<<20)) // just above the cap
			case 1:
				sizes = append(sizes, lim+rng.Int63n(1<<30)) // well above, still allocatable
			case 2:
				sizes = append(sizes, rng.Int63n(lim)) // below
			default:
				sizes = append(sizes, rng.Int63()) // anything
			}
		}
		for _, v := range s.variants {
			for _, d := range s.delivers {
				for _, z := range sizes {
					out = append(out, hostCase{s.site, v, z, d})
				}
			}
		}
	}
	return out
}

// hostManifest: a signature manifest over `target` whose envelope / config descriptors claim the
// given sizes (0 = the honest size).
func (w *world) hostManifest(kind string, layerSize, configSize int64, setLayer bool) []byte {
	env := w.sigs["valid"]
	if !setLayer {
		layerSize = int64(len(env))
	}
	if configSize == 0 {
		configSize = 2
	}
	layer := fmt.Sprintf(`{"mediaType":%q,"digest":%q,"size":%d}`, common.MediaJWS, digest.FromBytes(env), layerSize)
	subj := fmt.Sprintf(`{"mediaType":%q,"digest":%q,"size":%d}`, target.MediaType, target.Digest, target.Size)
	if strings.HasSuffix(kind, "artifact") {
		return []byte(fmt.Sprintf(`{"mediaType":%q,"artifactType":%q,"blobs":[%s],"subject":%s,"annotations":{"io.cncf.notary.x509chain.thumbprint#S256":"[]"}}`, artifactMT, notationType, layer, subj))
	}
	cfg := fmt.Sprintf(`{"mediaType":%q,"digest":%q,"size":%d}`, notationType, digest.FromString("{}"), configSize)
	return []byte(fmt.Sprintf(`{"schemaVersion":2,"mediaType":%q,"config":%s,"layers":[%s],"subject":%s,"annotations":{"io.cncf.notary.x509chain.thumbprint#S256":"[]"}}`, ocispec.MediaTypeImageManifest, cfg, layer, subj))
}

type hostResult struct {
	fetched, excess, panicked bool
	allocMiB                  uint64
	diag                      string
}

// runHostCase builds the store of one case and drives every entry point that reaches it.
func (w *world) runHostCase(hc hostCase) (res hostResult) {
	ctx := context.Background()
	env := w.sigs["valid"]
	mt := ocispec.MediaTypeImageManifest
	if strings.HasSuffix(hc.variant, "artifact") {
		mt = artifactMT
	}
	h := &hostileTarget{contents: map[digest.Digest][]byte{digest.FromBytes(env): env, digest.FromString("{}"): []byte("{}")}, deliver: hc.deliver}
	var m []byte
	switch hc.site {
	case "sigBlob":
		m = w.hostManifest(hc.variant, hc.claimed, 0, true)
		h.under = digest.FromBytes(env)
	case "config":
		m = w.hostManifest(hc.variant, 0, hc.claimed, false)
		if hc.claimed == 0 {
			m = bytes.Replace(m, []byte(`"size":2}`), []byte(`"size":0}`), 1)
		}
		h.under = digest.FromString("{}")
	default:
		m = w.hostManifest(hc.variant, 0, 0, false)
		h.under = digest.FromBytes(m)
	}
	h.contents[digest.FromBytes(m)] = m
	md := ocispec.Descriptor{MediaType: mt, Digest: digest.FromBytes(m), Size: int64(len(m)), ArtifactType: notationType}
	if hc.site == "referrer" || hc.site == "sigManifest" {
		md.Size = hc.claimed // the lie
	}
	h.preds = []ocispec.Descriptor{md}
	var repo registry.Repository
	if hc.variant == "lister-image" {
		repo = registry.NewRepository(hostileLister{h})
	} else {
		repo = registry.NewRepository(h)
	}
	v, _, _ := w.verifier(Input{OCI: "enforce", Blob: "enforce", Manager: true, Named: true})
	measure := func(what string, f func()) {
		if os.Getenv("XVERIF_C12_HOSTTIME") != "" {
			t0 := time.Now()
			defer func() { fmt.Fprintf(os.Stderr, "   %s %v\n", what, time.Since(t0)) }()
		}
		var a, b runtime.MemStats
		runtime.ReadMemStats(&a)
		func() {
			defer func() {
				if r := recover(); r != nil {
					res.panicked = true
					res.diag = fmt.Sprintf("%s panicked: %v", what, r)
				}
			}()
			f()
		}()
		runtime.ReadMemStats(&b)
		if d := b.TotalAlloc - a.TotalAlloc; d > hostAllocBudget {
			res.excess = true
			res.diag = fmt.Sprintf("%s allocated %d MiB (budget %d MiB)", what, d>>20, hostAllocBudget>>20)
			if d>>20 > res.allocMiB {
				res.allocMiB = d >> 20
			}
		}
	}
	if !strings.HasPrefix(hc.variant, "direct") {
		measure("ListSignatures + FetchSignatureBlob", func() {
			repo.ListSignatures(ctx, target, func(ds []ocispec.Descriptor) error {
				for _, d := range ds {
					repo.FetchSignatureBlob(ctx, d)
				}
				return nil
			})
		})
		measure("notation.Verify", func() {
			notation.Verify(ctx, v, repo, notation.VerifyOptions{ArtifactReference: ref + "@" + target.Digest.String(), MaxSignatureAttempts: 5})
		})
	}
	measure("FetchSignatureBlob", func() { repo.FetchSignatureBlob(ctx, md) })
	res.fetched = atomic.LoadInt32(&h.fetched) > 0
	return res
}

// hostileChild: XVERIF_C12_CHILD=host:<start>, results appended to $XVERIF_C12_HOSTOUT.
func (w *world) hostileChild(c *common.Ctx, spec string) {
	var start int
	fmt.Sscanf(spec, "host:%d", &start)
	cases := w.hostCases(c)
	outPath := os.Getenv("XVERIF_C12_HOSTOUT")
	for idx := start; idx < len(cases); idx++ {
		t0 := time.Now()
		r := w.runHostCase(cases[idx])
		if os.Getenv("XVERIF_C12_HOSTTIME") != "" {
			fmt.Fprintf(os.Stderr, "%d %v %+v\n", idx, time.Since(t0).Milliseconds(), cases[idx])
		}
		f, err := os.OpenFile(outPath, os.O_APPEND|os.O_CREATE|os.O_WRONLY, 0o644)
		if err != nil {
			os.Exit(4)
		}
		fmt.Fprintf(f, "%d %v %v %v %s\n", idx, r.fetched, r.excess, r.panicked, strings.ReplaceAll(r.diag, "\n", " "))
		f.Close()
	}
	os.Exit(0)
}

func (w *world) sweepHostileStore(c *common.Ctx) {
	cases := w.hostCases(c)
	results := map[int]hostResult{}
	work, err := os.MkdirTemp(c.WorkDir, "host")
	if err != nil {
		panic(err)
	}
	defer os.RemoveAll(work)
	outPath := filepath.Join(work, "results")
	read := func() {
		f, err := os.Open(outPath)
		if err != nil {
			return
		}
		defer f.Close()
		sc := bufio.NewScanner(f)
		for sc.Scan() {
			var idx int
			var r hostResult
			parts := strings.SplitN(sc.Text(), " ", 5)
			if len(parts) < 4 {
				continue
			}
			fmt.Sscanf(parts[0], "%d", &idx)
			r.fetched, r.excess, r.panicked = parts[1] == "true", parts[2] == "true", parts[3] == "true"
			if len(parts) == 5 {
				r.diag = parts[4]
			}
			results[idx] = r
		}
	}
	for start, deaths := 0, 0; start < len(cases); {
		childWork := filepath.Join(work, fmt.Sprintf("w%d", start))
		os.MkdirAll(childWork, 0o755)
		cmd := exec.Command(os.Args[0], "C12", "-tier", c.Tier, "-seed", fmt.Sprint(c.Seed), "-out", filepath.Join(childWork, "cases"), "-stats", filepath.Join(childWork, "stats"), "-work", childWork)
		cmd.Env = append(os.Environ(), fmt.Sprintf("XVERIF_C12_CHILD=host:%d", start), "XVERIF_C12_HOSTOUT="+outPath, "GOMEMLIMIT=2GiB", "GOTRACEBACK=single")
		var stderr bytes.Buffer
		cmd.Stderr = &stderr
		done := make(chan error, 1)
		go func() { done <- cmd.Run() }()
		var runErr error
		select {
		case runErr = <-done:
		case <-time.After(600 * time.Second):
			cmd.Process.Kill()
			runErr = errors.New("no result after 600 s")
		}
		os.RemoveAll(childWork)
		read()
		if runErr == nil {
			break
		}
		// the child died in the first case it did not report
		k := start
		for ; k < len(cases); k++ {
			if _, ok := results[k]; !ok {
				break
			}
		}
		if k >= len(cases) {
			break
		}
		diag := "child process died: " + runErr.Error()
		for _, l := range strings.Split(stderr.String(), "\n") {
			if strings.Contains(l, "fatal error:") || strings.HasPrefix(l, "panic:") || strings.Contains(l, "out of memory") {
				diag += ": " + strings.ToValidUTF8(l, "?")
				break
			}
		}
		results[k] = hostResult{panicked: true, diag: diag}
		start = k + 1
		if deaths++; deaths > 200 {
			break // every remaining case would be reported as not run
		}
	}
	delivers := []string{"the honest bytes", `"{}"`, "zeros without end"}
	for idx, hc := range cases {
		r, ok := results[idx]
		if !ok {
			r = hostResult{panicked: true, diag: "case not run (the child kept dying)"}
		}
		label := fmt.Sprintf("hostile store (child process): %s descriptor claims %d bytes (%s), the store delivers %s", hc.site, hc.claimed, hc.variant, delivers[hc.deliver])
		bad := r.panicked || r.excess
		if bad {
			label += " -- " + r.diag
			w.mu.Lock()
			if len(w.panics) < 8 {
				w.panics = append(w.panics, label)
			}
			w.mu.Unlock()
		}
		in := Input{Entry: "hostileStore", OCI: "enforce", Blob: "enforce", Manager: true, Sig: "valid", Named: true, Workers: 1, Site: hc.site, Claimed: hc.claimed, Label: label}
		emitCase(c, in, Obs{Panicked: bad, Fetched: r.fetched, Consistent: !bad})
		c.Count("sweep=hostile-store")
		c.Count("hostile-site=" + hc.site)
		if hc.claimed > hostCap(hc.site) {
			c.Count("hostile-claim=above-cap")
		} else {
			c.Count("hostile-claim=within-cap")
		}
	}
}

package c12

// The COUNT (and the shape) of what a caller-supplied revocation validator answers.
//
// VerifierOptions.RevocationCodeSigningValidator, the deprecated RevocationClient and
// RevocationTimestampingValidator are configuration: whatever such a validator returns - fewer
// results than the chain has certificates, MORE, none at all, results without server results -
// the verification must end in (outcome, error), never in an index out of range.
//
// Modelled (Input.rev, Input.revSurplus, Input.revClient; in the configuration matrix): chain
// length + surplus OK results fail the verification closed unless surplus = 0.
// Sampled on top (sweepRevocationResults): other result values, server results, both envelope
// formats, the blob entry point, and the timestamping validator on a countersigned signature.

import (
	"context"
	"crypto/ecdsa"
	"crypto/x509"
	"errors"
	"fmt"
	"time"

	revresult "github.com/notaryproject/notation-core-go/revocation/result"
	"github.com/notaryproject/notation-go"
	"github.com/notaryproject/notation-go/verifier"
	"github.com/notaryproject/notation-go/verifier/trustpolicy"
	"github.com/notaryproject/notation-go/xverif/c06"
	"github.com/notaryproject/notation-go/xverif/common"
	"github.com/opencontainers/go-digest"
	ocispec "github.com/opencontainers/image-spec/specs-go/v1"
)

type revVariant struct {
	rev        bool
	surplus    int
	client     bool
	nilEntries bool // the entries of the vector are nil pointers
	nilServer  bool // every (non-nil) result holds a nil server result
}

// the revocation dimension of the configuration matrix: not asked (the statement skips revocation),
// or asked and answered with chain length + surplus results (the matrix chain has 2 certificates:
// -2 is the empty answer), through either interface; the vector of the right (and of another) length whose entries
// are nil pointers, and the one whose results hold a nil server result
var revVariants = []revVariant{
	{rev: false},
	{rev: true, surplus: -2}, {rev: true, surplus: -1}, {rev: true}, {rev: true, surplus: 1}, {rev: true, surplus: 2},
	{rev: true, surplus: -1, client: true}, {rev: true, client: true}, {rev: true, surplus: 1, client: true}, {rev: true, surplus: 3, client: true},
	{rev: true, nilEntries: true}, {rev: true, client: true, nilEntries: true}, {rev: true, surplus: 1, nilEntries: true},
	{rev: true, nilServer: true}, {rev: true, client: true, nilServer: true}, {rev: true, client: true, nilEntries: true, nilServer: true},
}

func okResult(res revresult.Result) *revresult.CertRevocationResult {
	return &revresult.CertRevocationResult{Result: res, ServerResults: []*revresult.ServerResult{{Result: res}}}
}

// countedResults answers a chain of n certificates with max(0, n + surplus) OK results.
func countedResults(surplus int) func([]*x509.Certificate) ([]*revresult.CertRevocationResult, error) {
	return func(chain []*x509.Certificate) ([]*revresult.CertRevocationResult, error) {
		n := len(chain) + surplus
		if n < 0 {
			n = 0
		}
		out := make([]*revresult.CertRevocationResult, n)
		for i := range out {
			out[i] = okResult(revresult.ResultOK)
		}
		return out, nil
	}
}

// shapedResults: countedResults whose entries are nil pointers (nilEntries), or OK results that hold a nil server
// result (nilServer).
func shapedResults(surplus int, nilEntries, nilServer bool) func([]*x509.Certificate) ([]*revresult.CertRevocationResult, error) {
	return func(chain []*x509.Certificate) ([]*revresult.CertRevocationResult, error) {
		out, _ := countedResults(surplus)(chain)
		for i := range out {
			if nilEntries {
				out[i] = nil
			} else if nilServer {
				out[i].ServerResults = []*revresult.ServerResult{nil, {Result: revresult.ResultOK}, nil}
			}
		}
		return out, nil
	}
}

type revShape struct {
	label string
	make  func(chain []*x509.Certificate) ([]*revresult.CertRevocationResult, error)
}

func revShapes() []revShape {
	var out []revShape
	counted := func(label string, n func(chain int) int, entry func(i int) *revresult.CertRevocationResult) {
		out = append(out, revShape{label, func(chain []*x509.Certificate) ([]*revresult.CertRevocationResult, error) {
			k := n(len(chain))
			if k < 0 {
				k = 0
			}
			res := make([]*revresult.CertRevocationResult, k)
			for i := range res {
				res[i] = entry(i)
			}
			return res, nil
		}})
	}
	entries := map[string]func(i int) *revresult.CertRevocationResult{
		"ok":            func(int) *revresult.CertRevocationResult { return okResult(revresult.ResultOK) },
		"unknown":       func(int) *revresult.CertRevocationResult { return okResult(revresult.ResultUnknown) },
		"revoked":       func(int) *revresult.CertRevocationResult { return okResult(revresult.ResultRevoked) },
		"non-revokable": func(int) *revresult.CertRevocationResult { return okResult(revresult.ResultNonRevokable) },
		"no-server-results": func(int) *revresult.CertRevocationResult {
			return &revresult.CertRevocationResult{Result: revresult.ResultOK}
		},
		"server-errors-fallback": func(i int) *revresult.CertRevocationResult {
			return &revresult.CertRevocationResult{Result: revresult.ResultUnknown, RevocationMethod: revresult.RevocationMethodOCSPFallbackCRL,
				ServerResults: []*revresult.ServerResult{
					{Result: revresult.ResultUnknown, Server: "http://ocsp.example", Error: errors.New("boom"), RevocationMethod: revresult.RevocationMethodOCSP},
					{Result: revresult.ResultUnknown, Server: "http://crl.example", Error: errors.New("boom"), RevocationMethod: revresult.RevocationMethodCRL}}}
		},
		"mixed": func(i int) *revresult.CertRevocationResult {
			return okResult([]revresult.Result{revresult.ResultOK, revresult.ResultRevoked, revresult.ResultUnknown, revresult.ResultNonRevokable}[i%4])
		},
		"out-of-range-result": func(i int) *revresult.CertRevocationResult { return okResult(revresult.Result(97 - i)) },
	}
	counts := []struct {
		label string
		n     func(int) int
	}{
		{"none", func(int) int { return 0 }}, {"chain-1", func(c int) int { return c - 1 }}, {"chain", func(c int) int { return c }},
		{"chain+1", func(c int) int { return c + 1 }}, {"chain+2", func(c int) int { return c + 2 }}, {"2*chain", func(c int) int { return 2 * c }},
		{"one", func(int) int { return 1 }}, {"64", func(int) int { return 64 }},
	}
	for _, en := range []string{"ok", "unknown", "revoked", "non-revokable", "no-server-results", "server-errors-fallback", "mixed", "out-of-range-result"} {
		for _, cn := range counts {
			counted(cn.label+" x "+en, cn.n, entries[en])
		}
	}
	// a result vector with NIL entries, or a result whose ServerResults holds a nil entry: revocationFinalResult must
	// read a nil entry as "status unknown" (fail closed) and skip a nil server result - never dereference either
	// (modelled in the matrix: Input.revNil / revNilServer; sampled here in more shapes)
	out = append(out, nilResultShapes()...)
	out = append(out,
		revShape{"nil slice, no error", func([]*x509.Certificate) ([]*revresult.CertRevocationResult, error) { return nil, nil }},
		revShape{"results AND an error", func(c []*x509.Certificate) ([]*revresult.CertRevocationResult, error) {
			r, _ := countedResults(1)(c)
			return r, errors.New("boom")
		}})
	return out
}

func nilResultShapes() []revShape {
	some := func(label string, at func(i, n int) bool) revShape {
		return revShape{label, func(c []*x509.Certificate) ([]*revresult.CertRevocationResult, error) {
			r, _ := countedResults(0)(c)
			for i := range r {
				if at(i, len(r)) {
					r[i] = nil
				}
			}
			return r, nil
		}}
	}
	return []revShape{
		revShape{"chain x nil entries", func(c []*x509.Certificate) ([]*revresult.CertRevocationResult, error) {
			return make([]*revresult.CertRevocationResult, len(c)), nil
		}},
		revShape{"chain+1 x nil entries", func(c []*x509.Certificate) ([]*revresult.CertRevocationResult, error) {
			return make([]*revresult.CertRevocationResult, len(c)+1), nil
		}},
		some("chain x ok, the leaf's entry nil", func(i, n int) bool { return i == 0 }),
		some("chain x ok, the root's entry nil", func(i, n int) bool { return i == n-1 }),
		revShape{"chain x revoked with nil server results, the root's entry nil", func(c []*x509.Certificate) ([]*revresult.CertRevocationResult, error) {
			r := make([]*revresult.CertRevocationResult, len(c))
			for i := 0; i+1 < len(r); i++ {
				r[i] = &revresult.CertRevocationResult{Result: revresult.ResultRevoked, RevocationMethod: revresult.RevocationMethodOCSPFallbackCRL,
					ServerResults: []*revresult.ServerResult{nil, {Result: revresult.ResultRevoked, Error: errors.New("boom"), RevocationMethod: revresult.RevocationMethodOCSP}, nil}}
			}
			return r, nil
		}},
		revShape{"chain x ok with a nil server result", func(c []*x509.Certificate) ([]*revresult.CertRevocationResult, error) {
			r, _ := countedResults(0)(c)
			for _, x := range r {
				x.ServerResults = []*revresult.ServerResult{nil}
			}
			return r, nil
		}},
	}
}

func (w *world) sweepRevocationResults(c *common.Ctx) {
	ctx := context.Background()
	nb := time.Now().Add(-48 * time.Hour)
	tsa := c06.NewTSA(c06.TSAOpts{Tag: "c12rev", NotBefore: nb, NotAfter: time.Now().Add(48 * time.Hour)})
	st := time.Now().Truncate(time.Second).Add(-time.Hour)
	type sg struct {
		label, format string
		bytes         []byte
	}
	sigs := []sg{{"jws", common.MediaJWS, w.sigs["valid"]},
		{"cose", common.MediaCOSE, common.MustSign(common.EnvOpts{Format: common.MediaCOSE, Chain: w.chain, Target: &target})}}
	if key, ok := w.chain.Leaf().Key.(*ecdsa.PrivateKey); ok {
		if raw, err := c06.BuildRawJWS(c06.RawJWSOpts{Certs: w.chain.X509(), LeafKey: key, Payload: common.PayloadFor(target),
			ContentType: common.PayloadTypeV1, Scheme: common.SchemeX509, SigningTime: st}); err == nil {
			tok := tsa.Token(c06.TokenOpts{Message: raw.SignatureValue(), GenTime: st.Add(time.Minute), AccSeconds: 1})
			sigs = append(sigs, sg{"jws-timestamped", common.MediaJWS, raw.WithTimestamp(tok)})
		}
	}
	type pol struct {
		label, level string
		stores       []string
		ts           trustpolicy.TimestampOption
	}
	pols := []pol{{"strict", "strict", []string{"ca:c12"}, ""}, {"audit", "audit", []string{"ca:c12"}, ""},
		{"strict+tsa-always", "strict", []string{"ca:c12", "tsa:c12"}, trustpolicy.OptionAlways},
		{"permissive+tsa-afterCertExpiry", "permissive", []string{"ca:c12", "tsa:c12"}, trustpolicy.OptionAfterCertExpiry}}
	wirings := []string{"codesigning-validator", "deprecated-client", "timestamping-validator", "all-three"}
	pair := func(out *notation.VerificationOutcome, err error) bool {
		if err == nil {
			return out != nil && out.Error == nil
		}
		return out != nil && out.Error != nil
	}
	gen := func(a digest.Algorithm) (ocispec.Descriptor, error) {
		return ocispec.Descriptor{Digest: a.FromBytes(blob), Size: int64(len(blob))}, nil
	}
	k := 0
	for _, sh := range revShapes() {
		for _, wi := range wirings {
			for si, s := range sigs {
				for pi, p := range pols {
					if wi == "timestamping-validator" && (p.ts == "" || s.label != "jws-timestamped") {
						continue // never asked
					}
					k++
					// quick tier: a third of the product by a deterministic stride; the timestamping validator always
					// meets the countersigned signature (the only one that asks it)
					if !c.Thorough() && wi != "timestamping-validator" && (k+si+pi)%3 != 0 {
						continue
					}
					sh, wi, s, p := sh, wi, s, p
					label := fmt.Sprintf("revocation results: validator answers [%s] | wired as %s | %s signature | %s statement", sh.label, wi, s.label, p.label)
					in := Input{Entry: "vVerify", OCI: "enforce", Blob: "enforce", Manager: true, Sig: "valid", Named: true, Fuzz: true, Label: label}
					consistent := true
					pn := w.guard(label, func() {
						store := common.NewMemStore()
						store.Certs["ca:c12"] = []*x509.Certificate{w.chain.Root().Cert}
						store.Certs["tsa:c12"] = []*x509.Certificate{tsa.Root.Cert}
						sverif := trustpolicy.SignatureVerification{VerificationLevel: p.level, VerifyTimestamp: p.ts}
						opts := verifier.VerifierOptions{
							OCITrustPolicy: &trustpolicy.OCIDocument{Version: "1.0", TrustPolicies: []trustpolicy.OCITrustPolicy{{Name: "c12", RegistryScopes: []string{"*"},
								SignatureVerification: sverif, TrustStores: p.stores, TrustedIdentities: []string{"*"}}}},
							BlobTrustPolicy: &trustpolicy.BlobDocument{Version: "1.0", TrustPolicies: []trustpolicy.BlobTrustPolicy{{Name: "c12",
								SignatureVerification: sverif, TrustStores: p.stores, TrustedIdentities: []string{"*"}}}}}
						script := &common.ScriptedRevocation{Results: sh.make}
						honest := &common.ScriptedRevocation{Results: countedResults(0)}
						switch wi {
						case "codesigning-validator":
							opts.RevocationCodeSigningValidator, opts.RevocationTimestampingValidator = script, honest
						case "deprecated-client":
							opts.RevocationClient, opts.RevocationTimestampingValidator = script.ClientView(), honest
						case "timestamping-validator":
							opts.RevocationCodeSigningValidator, opts.RevocationTimestampingValidator = honest, script
						default:
							opts.RevocationCodeSigningValidator, opts.RevocationTimestampingValidator, opts.RevocationClient = script, script, script.ClientView()
						}
						v, err := verifier.NewVerifierWithOptions(store, opts)
						if err != nil {
							return
						}
						consistent = pair(v.Verify(ctx, target, s.bytes, notation.VerifierVerifyOptions{ArtifactReference: ref + "@" + target.Digest.String(), SignatureMediaType: s.format}))
						consistent = pair(v.VerifyBlob(ctx, gen, s.bytes, notation.BlobVerifierVerifyOptions{SignatureMediaType: s.format, TrustPolicyName: "c12"})) && consistent
						notation.Verify(ctx, v, &repo{s.bytes}, notation.VerifyOptions{ArtifactReference: ref + "@" + target.Digest.String(), MaxSignatureAttempts: 2})
					})
					emitCase(c, in, Obs{Panicked: pn, Consistent: consistent && !pn})
					c.Count("sweep=revocation-results")
				}
			}
		}
	}
}

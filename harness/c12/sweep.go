package c12

import (
	"bytes"
	"context"
	"crypto/ecdsa"
	"crypto/x509"
	"encoding/hex"
	"encoding/json"
	"errors"
	"fmt"
	"os"
	"os/exec"
	"path/filepath"
	"strings"
	"time"

	"github.com/notaryproject/notation-core-go/revocation"
	revresult "github.com/notaryproject/notation-core-go/revocation/result"
	"github.com/notaryproject/notation-core-go/signature"
	"github.com/notaryproject/notation-go"
	"github.com/notaryproject/notation-go/registry"
	"github.com/notaryproject/notation-go/verifier"
	"github.com/notaryproject/notation-go/verifier/trustpolicy"
	"github.com/notaryproject/notation-go/xverif/c06"
	"github.com/notaryproject/notation-go/xverif/common"
	pluginfw "github.com/notaryproject/notation-plugin-framework-go/plugin"
	"github.com/opencontainers/go-digest"
	ocispec "github.com/opencontainers/image-spec/specs-go/v1"
	"oras.land/oras-go/v2/content/oci"
)

// ---- sweep 1: every way a verifier can be configured x valid-but-unusual signatures -------------
//
// The verdict of these cases is not modelled (Input.Fuzz = true): the claim checked is only
// "returns normally with a consistent (outcome, error) pair". They exist because nil
// dereferences and failed type assertions hide in combinations the suite never builds
// (caller-supplied revocation validators x tsa policy x countersigned signature; installed
// plugin x COSE attribute with a numeric label; ...).

// what a caller may put into BlobVerifierVerifyOptions.TrustPolicyName
var blobPolicyNames = []string{"c12", "", " ", "absent"}

type sweepSig struct {
	label  string
	format string
	bytes  []byte
}

const sweepPlugin = "sweep-plugin"

func (w *world) sweepSignatures(tsa *c06.TSA) []sweepSig {
	now := time.Now().Truncate(time.Second)
	st := now.Add(-time.Hour)
	var out []sweepSig
	plug := func(extra ...signature.Attribute) []signature.Attribute {
		return append([]signature.Attribute{{Key: verifier.HeaderVerificationPlugin, Critical: true, Value: sweepPlugin}}, extra...)
	}
	minVer := signature.Attribute{Key: verifier.HeaderVerificationPluginMinVersion, Critical: true, Value: "0.9.0"}
	attrSets := map[string][]signature.Attribute{
		"plain":                 nil,
		"plugin":                plug(),
		"plugin+minver":         plug(minVer),
		"plugin+critical-attr":  plug(signature.Attribute{Key: "com.example.crit", Critical: true, Value: "v"}),
		"plugin+noncrit-attr":   plug(signature.Attribute{Key: "com.example.info", Critical: false, Value: "v"}),
		"plugin+number-value":   plug(signature.Attribute{Key: "com.example.num", Critical: true, Value: 7}),
		"plugin+object-value":   plug(signature.Attribute{Key: "com.example.obj", Critical: true, Value: map[string]any{"a": []any{1, "x"}}}),
		"noncrit-attr":          {{Key: "com.example.info", Critical: false, Value: "v"}},
		"critical-attr":         {{Key: "com.example.crit", Critical: true, Value: "v"}},
		"minver-without-plugin": {minVer},
	}
	for name, attrs := range attrSets {
		for _, f := range []string{common.MediaJWS, common.MediaCOSE} {
			if b, err := common.SignEnvelope(common.EnvOpts{Format: f, Chain: w.chain, Target: &target, ExtAttrs: attrs, SigningTime: st}); err == nil {
				out = append(out, sweepSig{name, f, b})
			}
		}
	}
	// COSE only: protected headers with NUMERIC labels (attribute keys that are not strings)
	coseOnly := map[string][]signature.Attribute{
		"int-label":             {{Key: int64(4242), Critical: true, Value: "v"}},
		"int-label-noncrit":     {{Key: int64(4243), Critical: false, Value: "v"}},
		"plugin+int-label":      plug(signature.Attribute{Key: int64(4242), Critical: true, Value: "v"}),
		"plugin+int-label-nonc": plug(signature.Attribute{Key: int64(4243), Critical: false, Value: []byte{1, 2}}),
	}
	for name, attrs := range coseOnly {
		if b, err := common.SignEnvelope(common.EnvOpts{Format: common.MediaCOSE, Chain: w.chain, Target: &target, ExtAttrs: attrs, SigningTime: st}); err == nil {
			out = append(out, sweepSig{name, common.MediaCOSE, b})
		}
	}
	// validly signed payloads whose descriptor is malformed: everything after integrity reads them
	oddPayloads := map[string]string{
		"payload-digest-no-colon":    `{"targetArtifact":{"mediaType":"application/vnd.oci.image.manifest.v1+json","digest":"0123456789abcdef","size":8}}`,
		"payload-digest-empty":       `{"targetArtifact":{"mediaType":"application/vnd.oci.image.manifest.v1+json","digest":"","size":8}}`,
		"payload-digest-missing":     `{"targetArtifact":{"mediaType":"application/vnd.oci.image.manifest.v1+json","size":8}}`,
		"payload-digest-unknown-alg": `{"targetArtifact":{"mediaType":"m","digest":"md5:d41d8cd98f00b204e9800998ecf8427e","size":0}}`,
		"payload-digest-colon-only":  `{"targetArtifact":{"mediaType":"m","digest":":","size":0}}`,
		"payload-digest-short-hex":   `{"targetArtifact":{"mediaType":"m","digest":"sha256:abcd","size":0}}`,
		"payload-size-negative":      `{"targetArtifact":{"mediaType":"m","digest":"` + target.Digest.String() + `","size":-1}}`,
		"payload-target-null":        `{"targetArtifact":null}`,
		"payload-empty-object":       `{}`,
		"payload-annotations-null":   `{"targetArtifact":{"mediaType":"m","digest":"` + target.Digest.String() + `","size":8,"annotations":null}}`,
		"payload-array":              `[]`,
		"payload-not-json":           `not json`,
	}
	for name, pl := range oddPayloads {
		for _, f := range []string{common.MediaJWS, common.MediaCOSE} {
			if b, err := common.SignEnvelope(common.EnvOpts{Format: f, Chain: w.chain, Payload: []byte(pl), SigningTime: st}); err == nil {
				out = append(out, sweepSig{name, f, b})
			}
		}
	}
	// other schemes / times
	if b, err := common.SignEnvelope(common.EnvOpts{Chain: w.chain, Target: &target, Scheme: common.SchemeAuthority, SigningTime: st}); err == nil {
		out = append(out, sweepSig{"signing-authority", common.MediaJWS, b})
	}
	if b, err := common.SignEnvelope(common.EnvOpts{Chain: w.chain, Target: &target, SigningTime: now.Add(-2 * time.Hour), Expiry: now.Add(-time.Hour)}); err == nil {
		out = append(out, sweepSig{"expired", common.MediaJWS, b})
	}
	// countersigned JWS: a valid RFC 3161 token over the signature value, and variants
	if key, ok := w.chain.Leaf().Key.(*ecdsa.PrivateKey); ok {
		raw, err := c06.BuildRawJWS(c06.RawJWSOpts{Certs: w.chain.X509(), LeafKey: key, Payload: common.PayloadFor(target),
			ContentType: common.PayloadTypeV1, Scheme: common.SchemeX509, SigningTime: st})
		if err == nil {
			good := tsa.Token(c06.TokenOpts{Message: raw.SignatureValue(), GenTime: st.Add(time.Minute), AccSeconds: 1})
			other := tsa.Token(c06.TokenOpts{Message: []byte("another message"), GenTime: st.Add(time.Minute), AccSeconds: 1})
			out = append(out, sweepSig{"timestamped", common.MediaJWS, raw.WithTimestamp(good)})
			out = append(out, sweepSig{"timestamped-other-message", common.MediaJWS, raw.WithTimestamp(other)})
			out = append(out, sweepSig{"timestamp-garbage", common.MediaJWS, raw.WithTimestamp([]byte{0x30, 0x03, 0x02, 0x01, 0x01})})
			if len(good) > 40 {
				out = append(out, sweepSig{"timestamp-truncated", common.MediaJWS, raw.WithTimestamp(good[:len(good)/2])})
			}
		}
	}
	return out
}

type sweepPluginCase struct {
	label string
	mgr   func() any // nil, or a *common.ScriptedManager
}

func sweepManagers() []sweepPluginCase {
	meta := func(version string, caps ...pluginfw.Capability) *pluginfw.GetMetadataResponse {
		return &pluginfw.GetMetadataResponse{Name: sweepPlugin, Description: "d", Version: version, URL: "u",
			SupportedContractVersions: []string{"1.0"}, Capabilities: caps}
	}
	resp := func(processed []any, results map[pluginfw.Capability]*pluginfw.VerificationResult) *pluginfw.VerifySignatureResponse {
		return &pluginfw.VerifySignatureResponse{ProcessedAttributes: processed, VerificationResults: results}
	}
	okBoth := map[pluginfw.Capability]*pluginfw.VerificationResult{
		pluginfw.CapabilityTrustedIdentityVerifier: {Success: true}, pluginfw.CapabilityRevocationCheckVerifier: {Success: true}}
	withPlugin := func(p *common.ScriptedPlugin) func() any {
		return func() any {
			cp := &common.ScriptedPlugin{Metadata: p.Metadata, MetadataErr: p.MetadataErr, VerifyResp: p.VerifyResp, VerifyErr: p.VerifyErr}
			return &common.ScriptedManager{Plugins: map[string]pluginfw.Plugin{sweepPlugin: cp}}
		}
	}
	all := []any{"com.example.crit", "com.example.info", "com.example.num", "com.example.obj", int64(4242), 4243, nil, 1.5}
	return []sweepPluginCase{
		{"manager-nil", func() any { return nil }},
		{"manager-empty", func() any { return &common.ScriptedManager{Plugins: map[string]pluginfw.Plugin{}} }},
		{"plugin-both-ok", withPlugin(&common.ScriptedPlugin{Metadata: meta("1.0.0", pluginfw.CapabilityTrustedIdentityVerifier, pluginfw.CapabilityRevocationCheckVerifier), VerifyResp: resp(all, okBoth)})},
		{"plugin-identity-only", withPlugin(&common.ScriptedPlugin{Metadata: meta("1.0.0", pluginfw.CapabilityTrustedIdentityVerifier), VerifyResp: resp(all, okBoth)})},
		{"plugin-revocation-only", withPlugin(&common.ScriptedPlugin{Metadata: meta("1.0.0", pluginfw.CapabilityRevocationCheckVerifier), VerifyResp: resp(all, okBoth)})},
		{"plugin-processed-objects", withPlugin(&common.ScriptedPlugin{Metadata: meta("1.0.0", pluginfw.CapabilityTrustedIdentityVerifier, pluginfw.CapabilityRevocationCheckVerifier),
			VerifyResp: resp([]any{"com.example.crit", map[string]any{"key": "com.example.crit"}, []any{"com.example.info"}, map[string]any{}, []any{}, true, nil, 1.5e300}, okBoth)})},
		{"plugin-processed-nested-only", withPlugin(&common.ScriptedPlugin{Metadata: meta("1.0.0", pluginfw.CapabilityTrustedIdentityVerifier),
			VerifyResp: resp([]any{[]any{[]any{"com.example.crit"}}, map[string]any{"a": map[string]any{"b": []any{1}}}}, okBoth)})},
		{"plugin-nothing-processed", withPlugin(&common.ScriptedPlugin{Metadata: meta("1.0.0", pluginfw.CapabilityTrustedIdentityVerifier, pluginfw.CapabilityRevocationCheckVerifier), VerifyResp: resp(nil, okBoth)})},
		{"plugin-empty-results", withPlugin(&common.ScriptedPlugin{Metadata: meta("1.0.0", pluginfw.CapabilityTrustedIdentityVerifier, pluginfw.CapabilityRevocationCheckVerifier), VerifyResp: resp(all, nil)})},
		{"plugin-nil-result-entry", withPlugin(&common.ScriptedPlugin{Metadata: meta("1.0.0", pluginfw.CapabilityTrustedIdentityVerifier), VerifyResp: resp(all, map[pluginfw.Capability]*pluginfw.VerificationResult{pluginfw.CapabilityTrustedIdentityVerifier: nil})})},
		{"plugin-failing-verdicts", withPlugin(&common.ScriptedPlugin{Metadata: meta("1.0.0", pluginfw.CapabilityTrustedIdentityVerifier, pluginfw.CapabilityRevocationCheckVerifier), VerifyResp: resp(all, map[pluginfw.Capability]*pluginfw.VerificationResult{
			pluginfw.CapabilityTrustedIdentityVerifier: {Success: false, Reason: "r"}, pluginfw.CapabilityRevocationCheckVerifier: {Success: false}})})},
		{"plugin-no-capabilities", withPlugin(&common.ScriptedPlugin{Metadata: meta("1.0.0"), VerifyResp: resp(all, okBoth)})},
		{"plugin-signing-capability", withPlugin(&common.ScriptedPlugin{Metadata: meta("1.0.0", pluginfw.CapabilitySignatureGenerator), VerifyResp: resp(all, okBoth)})},
		{"plugin-bad-version", withPlugin(&common.ScriptedPlugin{Metadata: meta("not-semver", pluginfw.CapabilityTrustedIdentityVerifier), VerifyResp: resp(all, okBoth)})},
		{"plugin-old-version", withPlugin(&common.ScriptedPlugin{Metadata: meta("0.1.0", pluginfw.CapabilityTrustedIdentityVerifier), VerifyResp: resp(all, okBoth)})},
		{"plugin-metadata-error", withPlugin(&common.ScriptedPlugin{MetadataErr: errors.New("boom")})},
		{"plugin-call-error", withPlugin(&common.ScriptedPlugin{Metadata: meta("1.0.0", pluginfw.CapabilityTrustedIdentityVerifier), VerifyErr: errors.New("boom")})},
	}
}

func (w *world) sweepVerifier(c *common.Ctx, n int) {
	ctx := context.Background()
	nb := time.Now().Add(-48 * time.Hour)
	tsa := c06.NewTSA(c06.TSAOpts{Tag: "c12", NotBefore: nb, NotAfter: time.Now().Add(48 * time.Hour)})
	sigs := w.sweepSignatures(tsa)
	mgrs := sweepManagers()
	scripted := func(res revresult.Result) *common.ScriptedRevocation {
		return &common.ScriptedRevocation{Results: common.UniformResults(res)}
	}
	type revCase struct {
		label string
		set   func(o *verifier.VerifierOptions)
	}
	revs := []revCase{
		{"rev-default", func(o *verifier.VerifierOptions) {}},
		{"rev-codesigning-validator", func(o *verifier.VerifierOptions) { o.RevocationCodeSigningValidator = scripted(revresult.ResultOK) }},
		{"rev-deprecated-client", func(o *verifier.VerifierOptions) { o.RevocationClient = scripted(revresult.ResultOK).ClientView() }},
		{"rev-timestamping-validator", func(o *verifier.VerifierOptions) { o.RevocationTimestampingValidator = scripted(revresult.ResultOK) }},
		{"rev-all", func(o *verifier.VerifierOptions) {
			o.RevocationCodeSigningValidator, o.RevocationTimestampingValidator = scripted(revresult.ResultRevoked), scripted(revresult.ResultUnknown)
			o.RevocationClient = scripted(revresult.ResultOK).ClientView()
		}},
		{"rev-validator-error", func(o *verifier.VerifierOptions) {
			o.RevocationCodeSigningValidator = &common.ScriptedRevocation{Results: func([]*x509.Certificate) ([]*revresult.CertRevocationResult, error) {
				return nil, errors.New("boom")
			}}
		}},
	}
	type polCase struct {
		label    string
		level    string
		revSkip  bool
		stores   []string
		tsOption trustpolicy.TimestampOption
		ids      []string
	}
	pols := []polCase{
		{"strict", "strict", false, []string{"ca:c12"}, "", []string{"*"}},
		{"strict-revskip", "strict", true, []string{"ca:c12"}, "", []string{"*"}},
		{"audit", "audit", false, []string{"ca:c12"}, "", []string{"x509.subject: C=US, ST=WA, O=Notary, CN=someone else"}},
		{"permissive-exact-id", "permissive", false, []string{"ca:c12"}, "", []string{"x509.subject: C=US, ST=WA, O=Notary, CN=leaf c12"}},
		{"tsa-always", "strict", false, []string{"ca:c12", "tsa:c12"}, trustpolicy.OptionAlways, []string{"*"}},
		{"tsa-unset", "strict", true, []string{"ca:c12", "tsa:c12"}, "", []string{"*"}},
		{"tsa-afterCertExpiry", "permissive", false, []string{"tsa:c12", "ca:c12"}, trustpolicy.OptionAfterCertExpiry, []string{"*"}},
		{"tsa-missing-store", "audit", false, []string{"ca:c12", "tsa:absent"}, trustpolicy.OptionAlways, []string{"*"}},
		{"signing-authority-store", "strict", true, []string{"signingAuthority:c12"}, "", []string{"*"}},
	}
	emit := func(label string, f func() bool) {
		in := Input{Entry: "vVerify", OCI: "enforce", Blob: "enforce", Manager: true, Sig: "valid", Named: true, Fuzz: true, Label: "verifier sweep: " + label}
		consistent := true
		p := w.guard(label, func() { consistent = f() })
		emitCase(c, in, Obs{Panicked: p, Consistent: consistent && !p})
		c.Count("sweep=verifier")
	}
	pair := func(out *notation.VerificationOutcome, err error) bool {
		if err == nil {
			return out != nil && out.Error == nil
		}
		return out != nil && out.Error != nil
	}
	total := len(sigs) * len(mgrs) * len(revs) * len(pols)
	step := 1
	if n > 0 && total > n {
		step = total / n
	}
	k := 0
	for si, s := range sigs {
		for mi, m := range mgrs {
			for ri, r := range revs {
				for pi, p := range pols {
					k++
					// a deterministic stride through the full product (all of it on the thorough tier)
					if step > 1 && (k+si+mi+ri+pi)%step != 0 {
						continue
					}
					s, m, r, p := s, m, r, p
					label := fmt.Sprintf("%s/%s | %s | %s | %s", s.label, s.format, m.label, r.label, p.label)
					emit(label, func() bool {
						store := common.NewMemStore()
						store.Certs["ca:c12"] = []*x509.Certificate{w.chain.Root().Cert}
						store.Certs["signingAuthority:c12"] = []*x509.Certificate{w.chain.Root().Cert}
						store.Certs["tsa:c12"] = []*x509.Certificate{tsa.Root.Cert}
						sverif := trustpolicy.SignatureVerification{VerificationLevel: p.level, VerifyTimestamp: p.tsOption}
						if p.revSkip {
							sverif.Override = map[trustpolicy.ValidationType]trustpolicy.ValidationAction{trustpolicy.TypeRevocation: trustpolicy.ActionSkip}
						}
						doc := &trustpolicy.OCIDocument{Version: "1.0", TrustPolicies: []trustpolicy.OCITrustPolicy{{Name: "c12", RegistryScopes: []string{"*"},
							SignatureVerification: sverif, TrustStores: p.stores, TrustedIdentities: p.ids}}}
						bdoc := &trustpolicy.BlobDocument{Version: "1.0", TrustPolicies: []trustpolicy.BlobTrustPolicy{{Name: "c12",
							SignatureVerification: sverif, TrustStores: p.stores, TrustedIdentities: p.ids}}}
						opts := verifier.VerifierOptions{OCITrustPolicy: doc, BlobTrustPolicy: bdoc}
						r.set(&opts)
						if mm := m.mgr(); mm != nil {
							opts.PluginManager = mm.(*common.ScriptedManager)
						}
						v, err := verifier.NewVerifierWithOptions(store, opts)
						if err != nil {
							return true
						}
						ok := pair(v.Verify(ctx, target, s.bytes, notation.VerifierVerifyOptions{ArtifactReference: ref + "@" + target.Digest.String(),
							SignatureMediaType: s.format, PluginConfig: map[string]string{"k": "v"}, UserMetadata: map[string]string{"a": "b"}}))
						// the same signature through the blob entry point (descriptor mismatch is fine, a panic is not)
						gen := func(a digest.Algorithm) (ocispec.Descriptor, error) {
							return ocispec.Descriptor{Digest: a.FromBytes(blob), Size: int64(len(blob))}, nil
						}
						ok = pair(v.VerifyBlob(ctx, gen, s.bytes, notation.BlobVerifierVerifyOptions{SignatureMediaType: s.format, TrustPolicyName: "c12"})) && ok
						// ... and asked for the global statement, which this document does not have (no outcome then: only no panic)
						v.VerifyBlob(ctx, gen, s.bytes, notation.BlobVerifierVerifyOptions{SignatureMediaType: s.format})
						return ok
					})
				}
			}
		}
	}
	var _ revocation.Validator = scripted(revresult.ResultOK)
}

// ---- sweep 1b: constructors offered INVALID documents -------------------------------------------
//
// A constructor must either refuse an invalid document or hand out a verifier that still never
// panics: whatever it returns is exercised through every entry point.
func (w *world) sweepConstructors(c *common.Ctx) {
	ctx := context.Background()
	good := trustpolicy.SignatureVerification{VerificationLevel: "strict"}
	bads := map[string]trustpolicy.SignatureVerification{
		"level-unknown-case":  {VerificationLevel: "Strict"},
		"level-empty":         {},
		"level-bogus":         {VerificationLevel: "bogus"},
		"override-integrity":  {VerificationLevel: "strict", Override: map[trustpolicy.ValidationType]trustpolicy.ValidationAction{trustpolicy.TypeIntegrity: trustpolicy.ActionLog}},
		"override-bad-action": {VerificationLevel: "audit", Override: map[trustpolicy.ValidationType]trustpolicy.ValidationAction{trustpolicy.TypeExpiry: "ignore"}},
		"override-bad-type":   {VerificationLevel: "permissive", Override: map[trustpolicy.ValidationType]trustpolicy.ValidationAction{"everything": trustpolicy.ActionLog}},
		"override-on-skip":    {VerificationLevel: "skip", Override: map[trustpolicy.ValidationType]trustpolicy.ValidationAction{trustpolicy.TypeRevocation: trustpolicy.ActionSkip}},
		"timestamp-option":    {VerificationLevel: "strict", VerifyTimestamp: "sometimes"},
	}
	ociDoc := func(sv trustpolicy.SignatureVerification, stores, ids []string) *trustpolicy.OCIDocument {
		return &trustpolicy.OCIDocument{Version: "1.0", TrustPolicies: []trustpolicy.OCITrustPolicy{{Name: "c12", RegistryScopes: []string{"*"},
			SignatureVerification: sv, TrustStores: stores, TrustedIdentities: ids}}}
	}
	blobDoc := func(sv trustpolicy.SignatureVerification, stores, ids []string) *trustpolicy.BlobDocument {
		return &trustpolicy.BlobDocument{Version: "1.0", TrustPolicies: []trustpolicy.BlobTrustPolicy{{Name: "c12",
			SignatureVerification: sv, TrustStores: stores, TrustedIdentities: ids}}}
	}
	sig, err := common.SignEnvelope(common.EnvOpts{Chain: w.chain, Target: &target})
	if err != nil {
		panic(err)
	}
	type docs struct {
		label string
		oci   *trustpolicy.OCIDocument
		blob  *trustpolicy.BlobDocument
	}
	stores, ids := []string{"ca:c12"}, []string{"*"}
	var cases []docs
	for name, bad := range bads {
		cases = append(cases,
			docs{"oci-valid+blob-" + name, ociDoc(good, stores, ids), blobDoc(bad, stores, ids)},
			docs{"oci-" + name + "+blob-valid", ociDoc(bad, stores, ids), blobDoc(good, stores, ids)},
			docs{"oci-" + name + "-only", ociDoc(bad, stores, ids), nil},
			docs{"blob-" + name + "-only", nil, blobDoc(bad, stores, ids)},
			docs{"both-" + name, ociDoc(bad, stores, ids), blobDoc(bad, stores, ids)})
	}
	// structurally broken documents
	cases = append(cases,
		docs{"oci-valid+blob-no-statements", ociDoc(good, stores, ids), &trustpolicy.BlobDocument{Version: "1.0"}},
		docs{"oci-no-statements+blob-valid", &trustpolicy.OCIDocument{Version: "1.0"}, blobDoc(good, stores, ids)},
		docs{"oci-valid+blob-no-stores", ociDoc(good, stores, ids), blobDoc(good, nil, ids)},
		docs{"oci-no-identities+blob-valid", ociDoc(good, stores, nil), blobDoc(good, stores, ids)},
		docs{"oci-valid+blob-bad-version", ociDoc(good, stores, ids), &trustpolicy.BlobDocument{Version: "9", TrustPolicies: blobDoc(good, stores, ids).TrustPolicies}})
	type ctor struct {
		label string
		make  func(d docs, store *common.MemStore) (any, error)
	}
	ctors := []ctor{
		{"NewVerifierWithOptions", func(d docs, st *common.MemStore) (any, error) {
			return verifier.NewVerifierWithOptions(st, verifier.VerifierOptions{OCITrustPolicy: d.oci, BlobTrustPolicy: d.blob})
		}},
		{"New(deprecated)", func(d docs, st *common.MemStore) (any, error) {
			if d.oci == nil {
				return nil, errors.New("not applicable")
			}
			return verifier.New(d.oci, st, nil)
		}},
		{"NewWithOptions(deprecated)", func(d docs, st *common.MemStore) (any, error) {
			if d.oci == nil {
				return nil, errors.New("not applicable")
			}
			return verifier.NewWithOptions(d.oci, st, nil, verifier.VerifierOptions{BlobTrustPolicy: d.blob})
		}},
	}
	for _, d := range cases {
		for _, ct := range ctors {
			d, ct := d, ct
			label := "constructor sweep: " + ct.label + " | " + d.label
			in := Input{Entry: "vVerify", OCI: "enforce", Blob: "enforce", Manager: false, Sig: "valid", Named: true, Fuzz: true, Label: label}
			p := w.guard(label, func() {
				store := common.NewMemStore()
				store.Certs["ca:c12"] = []*x509.Certificate{w.chain.Root().Cert}
				v, err := ct.make(d, store)
				if err != nil || v == nil {
					return // refused: fine
				}
				if ov, ok := v.(notation.Verifier); ok {
					ov.Verify(ctx, target, sig, notation.VerifierVerifyOptions{ArtifactReference: ref + "@" + target.Digest.String(), SignatureMediaType: common.MediaJWS})
				}
				if bv, ok := v.(notation.BlobVerifier); ok {
					gen := func(a digest.Algorithm) (ocispec.Descriptor, error) {
						return ocispec.Descriptor{Digest: a.FromBytes(blob), Size: int64(len(blob))}, nil
					}
					// the statement asked for by name, as the global one (empty name), by a blank and an unknown name
					for _, name := range blobPolicyNames {
						bo := notation.BlobVerifierVerifyOptions{SignatureMediaType: common.MediaJWS, TrustPolicyName: name}
						bv.VerifyBlob(ctx, gen, sig, bo)
						notation.VerifyBlob(ctx, bv, bytes.NewReader(blob), sig, notation.VerifyBlobOptions{BlobVerifierVerifyOptions: bo})
					}
				}
				if sk, ok := v.(interface {
					SkipVerify(context.Context, notation.VerifierVerifyOptions) (bool, *trustpolicy.VerificationLevel, error)
				}); ok {
					sk.SkipVerify(ctx, notation.VerifierVerifyOptions{ArtifactReference: ref + "@" + target.Digest.String()})
				}
			})
			emitCase(c, in, Obs{Panicked: p, Consistent: !p})
			c.Count("sweep=constructors")
		}
	}
}

// ---- sweep 2: hostile registry content ----------------------------------------------------------

func (w *world) sweepRegistry(c *common.Ctx) {
	ctx := context.Background()
	dir := filepath.Join(c.WorkDir, "layout")
	store, err := oci.New(dir)
	if err != nil {
		panic(err)
	}
	push := func(mediaType string, content []byte) ocispec.Descriptor {
		d := ocispec.Descriptor{MediaType: mediaType, Digest: digest.FromBytes(content), Size: int64(len(content))}
		if err := store.Push(ctx, d, bytesReader(content)); err != nil && !errors.Is(err, errAlreadyExists) {
			if !isAlreadyExists(err) {
				panic(err)
			}
		}
		return d
	}
	// the subject artifact and a small real blob
	subjectManifest := []byte(`{"schemaVersion":2,"mediaType":"application/vnd.oci.image.manifest.v1+json","config":{"mediaType":"application/vnd.oci.empty.v1+json","digest":"sha256:44136fa355b3678a1146ad16f7e8649e94fb4fc21fe77e8310c060f61caaff8a","size":2},"layers":[]}`)
	push("application/vnd.oci.empty.v1+json", []byte("{}"))
	subject := push(ocispec.MediaTypeImageManifest, subjectManifest)
	small := []byte("a small signature envelope")
	smallDesc := push(common.MediaJWS, small)
	repo := registry.NewRepository(store)
	sizes := []int64{-1, 0, 1, int64(len(small)), 1 << 31, 1<<31 + 1, 1 << 40, 1 << 62, 1<<63 - 1}
	type variant struct {
		label string
		json  func(layerSize int64) string
	}
	layer := func(size int64) string {
		return fmt.Sprintf(`{"mediaType":%q,"digest":%q,"size":%d}`, common.MediaJWS, smallDesc.Digest, size)
	}
	subj := fmt.Sprintf(`{"mediaType":%q,"digest":%q,"size":%d}`, subject.MediaType, subject.Digest, subject.Size)
	cfg := `{"mediaType":"application/vnd.cncf.notary.signature","digest":"sha256:44136fa355b3678a1146ad16f7e8649e94fb4fc21fe77e8310c060f61caaff8a","size":2}`
	variants := []variant{
		{"image-manifest", func(s int64) string {
			return fmt.Sprintf(`{"schemaVersion":2,"mediaType":%q,"config":%s,"layers":[%s],"subject":%s,"annotations":{"n":"%d"}}`, ocispec.MediaTypeImageManifest, cfg, layer(s), subj, s)
		}},
		{"image-manifest-artifactType", func(s int64) string {
			return fmt.Sprintf(`{"schemaVersion":2,"mediaType":%q,"artifactType":"application/vnd.cncf.notary.signature","config":%s,"layers":[%s],"subject":%s,"annotations":{"m":"%d"}}`, ocispec.MediaTypeImageManifest, cfg, layer(s), subj, s)
		}},
		{"artifact-manifest", func(s int64) string {
			return fmt.Sprintf(`{"mediaType":"application/vnd.oci.artifact.manifest.v1+json","artifactType":"application/vnd.cncf.notary.signature","blobs":[%s],"subject":%s,"annotations":{"k":"%d"}}`, layer(s), subj, s)
		}},
		{"no-layers", func(s int64) string {
			return fmt.Sprintf(`{"schemaVersion":2,"mediaType":%q,"config":%s,"layers":[],"subject":%s,"annotations":{"z":"%d"}}`, ocispec.MediaTypeImageManifest, cfg, subj, s)
		}},
		// no subject at all: the layout's predecessor index still lists the node for the subject artifact, which
		// it reaches through its blobs / layers
		{"artifact-manifest-no-subject", func(s int64) string {
			return fmt.Sprintf(`{"mediaType":"application/vnd.oci.artifact.manifest.v1+json","artifactType":"application/vnd.cncf.notary.signature","blobs":[%s,%s],"annotations":{"q":"%d"}}`, layer(s), subj, s)
		}},
		{"image-manifest-no-subject", func(s int64) string {
			return fmt.Sprintf(`{"schemaVersion":2,"mediaType":%q,"config":%s,"layers":[%s,%s],"annotations":{"r":"%d"}}`, ocispec.MediaTypeImageManifest, cfg, layer(s), subj, s)
		}},
		{"null-fields", func(s int64) string {
			return fmt.Sprintf(`{"schemaVersion":2,"mediaType":%q,"config":%s,"layers":null,"subject":%s,"annotations":null,"x":%d}`, ocispec.MediaTypeImageManifest, cfg, subj, s)
		}},
	}
	emit := func(label string, f func()) {
		in := Input{Entry: "parser", OCI: "enforce", Blob: "enforce", Manager: true, Sig: "garbage", Named: true, Fuzz: true}
		p := w.guard(label, f)
		if w.heapCheck() {
			p = true
		}
		emitCase(c, in, Obs{Panicked: p, Consistent: !p})
		c.Count("sweep=registry")
	}
	// Each hostile manifest is exercised in a CHILD process: a runaway allocation is a fatal
	// runtime error that recover() cannot catch, and it must convict one case, not kill the run.
	if child := os.Getenv("XVERIF_C12_CHILD"); child != "" {
		var vi, si int
		fmt.Sscanf(child, "%d,%d", &vi, &si)
		v, s := variants[vi], sizes[si]
		mt := ocispec.MediaTypeImageManifest
		if strings.HasPrefix(v.label, "artifact-manifest") {
			mt = "application/vnd.oci.artifact.manifest.v1+json"
		}
		md := push(mt, []byte(v.json(s)))
		repo.FetchSignatureBlob(ctx, md)
		repo.ListSignatures(ctx, subject, func(ds []ocispec.Descriptor) error {
			for _, d := range ds {
				repo.FetchSignatureBlob(ctx, d)
			}
			return nil
		})
		// hand-made descriptors of the stored manifest with lying sizes / media types
		for _, ds := range sizes {
			repo.FetchSignatureBlob(ctx, ocispec.Descriptor{MediaType: md.MediaType, Digest: md.Digest, Size: ds})
		}
		repo.FetchSignatureBlob(ctx, ocispec.Descriptor{MediaType: "text/plain", Digest: md.Digest, Size: md.Size})
		repo.FetchSignatureBlob(ctx, ocispec.Descriptor{})
		// end to end over the hostile layout
		vv, _, _ := w.verifier(Input{OCI: "enforce", Blob: "enforce", Manager: true})
		notation.Verify(ctx, vv, repo, notation.VerifyOptions{ArtifactReference: ref + "@" + subject.Digest.String(), MaxSignatureAttempts: 50})
		os.Exit(0)
	}
	for vi, v := range variants {
		for si, s := range sizes {
			childWork, err := os.MkdirTemp(c.WorkDir, "child")
			if err != nil {
				panic(err)
			}
			cmd := exec.Command(os.Args[0], "C12", "-out", filepath.Join(childWork, "cases"), "-stats", filepath.Join(childWork, "stats"), "-work", childWork)
			cmd.Env = append(os.Environ(), fmt.Sprintf("XVERIF_C12_CHILD=%d,%d", vi, si), "GOMEMLIMIT=3GiB")
			done := make(chan error, 1)
			go func() { done <- cmd.Run() }()
			var runErr error
			select {
			case runErr = <-done:
			case <-time.After(60 * time.Second):
				cmd.Process.Kill()
				runErr = errors.New("timeout")
			}
			os.RemoveAll(childWork)
			crashed := runErr != nil
			if crashed && len(w.panics) < 5 {
				w.panics = append(w.panics, fmt.Sprintf("registry %s layer-size=%d: child process died: %v", v.label, s, runErr))
			}
			in := Input{Entry: "parser", OCI: "enforce", Blob: "enforce", Manager: true, Sig: "garbage", Named: true, Fuzz: true,
				Label: fmt.Sprintf("hostile registry (child process): %s manifest, layer size declared as %d", v.label, s), Data: hex.EncodeToString([]byte(v.json(s)))}
			emitCase(c, in, Obs{Panicked: crashed, Consistent: !crashed})
			c.Count("sweep=registry")
		}
	}
	_ = emit
	var _ = json.Marshal
}
